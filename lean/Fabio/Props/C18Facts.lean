import Fabio.Generated.C18
import Fabio.Props.C18
import Fabio.Props.C18Exit
import Fabio.Props.C18System
/-!
Obligations over the facts regenerated from `/repo` on every run: the shapes of the code from which the
per-type contracts of `Fabio.Model.C18` were read. `…Events` lists are the calls / channel receives / go
statements of a function in source order with unexported same-package helpers inlined, named by MEANING (see the
header of tools/factgen/c18.go): `pkg.Func`, `.Method` (whatever the receiver is called), builtins, `local()`,
`handler`, `close-listener` / `close-conn` (a `Close` on the loop variable of a range over a field whose declared type
mentions net.Listener / net.Conn), `<-p0.Done` (receive from a method of parameter 0), `<-notified`, `<-pkgvar`,
`<-local`, `store-registry`. Renaming locals, parameters, receivers, unexported functions, fields and types,
extracting or inlining helpers, switch ↔ if and named constants do not change them.
-/
namespace Fabio.Props.C18Facts
open Fabio Fabio.Model.C18 Fabio.Generated.C18

def idx (a : String) : List String → Option Nat
  | [] => none
  | x :: xs => if x == a then some 0 else (idx a xs).map (· + 1)

/-- both occur, and the first occurrence of `a` precedes the first occurrence of `b` -/
def before (a b : String) (l : List String) : Bool :=
  match idx a l, idx b l with
  | some i, some j => decide (i < j)
  | _, _ => false

/-- `proxy.Shutdown` installs a fresh empty registry (under the lock, before it starts any goroutine). -/
theorem shutdown_installs_empty_registry :
    shutdownInstallsEmptyRegistry = true ∧ before ".Lock" ".Unlock" shutdownEvents = true ∧
    before ".Unlock" "go" shutdownEvents = true := by decide

/-- One `context.WithTimeout(…, timeout)` per server — `timeout` being the function's parameter — and that
context is what the server's `Shutdown` receives. -/
theorem shutdown_deadline_per_server :
    shutdownOneTimeoutCtxPerServer = true ∧ shutdownTimeoutIsParam = true ∧
    shutdownPassesCtxToServer = true ∧ before "context.WithTimeout" ".Shutdown" shutdownEvents = true := by decide

/-- The fan-out is joined by a WaitGroup: Add before go, Done inside, Wait after. -/
theorem shutdown_waits_for_all :
    before ".Add" "go" shutdownEvents = true ∧ shutdownEvents.contains ".Done" = true ∧
    before ".Shutdown" ".Wait" shutdownEvents = true ∧ shutdownEvents.getLast? = some ".Wait" := by decide

/-- Every `ListenAndServe*` registers its server through `serve()` before serving. -/
theorem every_listener_registers :
    listenAndServeNotRegistering = [] ∧ before ".Lock" "store-registry" serveEvents = true ∧
    before "store-registry" ".Unlock" serveEvents = true ∧ before ".Unlock" ".Serve" serveEvents = true := by decide

/-- one control-flow path of `tcp.Server.Shutdown` (both branches of every `if` walked, a `return` ends its path,
unexported helpers inlined): the listeners are closed, the connections are closed, in that order; and when the path
waits for the context, it does so after the listeners were closed and before the connections are -/
def tcpPathOrdered (p : List String) : Bool :=
  before "close-listener" "close-conn" p &&
  (!p.contains "<-p0.Done" || (before "close-listener" "<-p0.Done" p && before "<-p0.Done" "close-conn" p))

/-- what may still happen once the deadline has passed: the context's own `Done()`, locking, closing — no further
call, channel receive or `Wait` (a handler may be stuck in `net.DialTimeout` for 30 s) -/
def afterDeadlineOk (p : List String) : Bool :=
  (p.dropWhile (· != "<-p0.Done")).drop 1 |>.all
    (fun e => [".Done", ".Lock", ".Unlock", "close-conn", "close-listener"].contains e)

/-- `tcp.Server.Shutdown`: close the listeners, wait for the context, close the connections — on **every** path
through the body (the nil-context path skips the wait, in whichever way the guard is written), and some path does
wait for the context. -/
theorem tcp_shutdown_order :
    tcpShutdownPaths ≠ [] ∧ tcpShutdownPaths.all tcpPathOrdered = true ∧
    tcpShutdownPaths.any (·.contains "<-p0.Done") = true := by decide

/-- … and nothing that could block follows the deadline on any path (the model's tcp contract returns *at* the
deadline whatever the handlers are doing). -/
theorem tcp_shutdown_nothing_blocks_after_deadline :
    tcpShutdownPaths.all afterDeadlineOk = true := by decide

-- the walker: closing the connections before the wait, not closing the listeners, waiting for the handlers afterwards
example : tcpPathOrdered [".Lock", "close-listener", ".Unlock", ".Lock", "close-conn", ".Unlock", "<-p0.Done", ".Done"] = false := by decide
example : tcpPathOrdered ["<-p0.Done", ".Done", ".Lock", "close-conn", ".Unlock"] = false := by decide
example : afterDeadlineOk [".Lock", "close-listener", ".Unlock", "<-p0.Done", ".Done", ".Lock", "close-conn", ".Unlock", ".Wait"] = false := by decide
example : tcpPathOrdered [".Lock", "close-listener", ".Unlock", ".Lock", "close-conn", ".Unlock"] = true := by decide

/-- `gRPCServer.Shutdown` looks at its context (as shipped it did not: D22) and still stops gracefully first,
with a hard `Stop` for the deadline. -/
theorem grpc_shutdown_uses_ctx :
    grpcShutdownUsesCtx = true ∧ grpcShutdownEvents.contains ".GracefulStop" = true ∧
    grpcShutdownEvents.contains ".Stop" = true ∧ grpcShutdownEvents.contains "<-p0.Done" = true := by decide

/-- `InetAfTCPProxyServer.Shutdown`: outer listener first, children get the caller's context. -/
theorem inetaf_shutdown_order :
    before ".Close" ".Shutdown" inetafShutdownEvents = true ∧ inetafChildrenGetCtx = true := by decide

/-- main.go's exit handler: mark shutting down → deregister → grace sleep → `proxy.Shutdown(ShutdownWait)`. -/
theorem exit_handler_order :
    before "atomic.StoreInt32" ".DeregisterAll" exitHandlerEvents = true ∧
    before ".DeregisterAll" "time.Sleep" exitHandlerEvents = true ∧
    before "time.Sleep" "proxy.Shutdown" exitHandlerEvents = true ∧
    exitHandlerSleepArg = ".Proxy.DeregisterGracePeriod" ∧ exitHandlerShutdownArg = ".Proxy.ShutdownWait" := by decide

/-- Walks the flattened body of the refresh loop: every "listen" must be preceded by a "test" of `shuttingDown`
with no "sleep" in between (a sleep forgets the test: the flag may have been set meanwhile). -/
def guardedAux : Bool → List String → Bool
  | _, [] => true
  | tested, e :: es =>
    if e == "sleep" then guardedAux false es
    else if e == "test" then guardedAux true es
    else if e == "listen" then tested && guardedAux tested es
    else guardedAux tested es

/-- the loop body twice: the second copy is the next iteration (back edge) -/
def guarded (l : List String) : Bool := guardedAux false (l ++ l)

/-- The tcp-dynamic refresher, which starts listeners, stops doing so once shutdown has begun (D30): it looks at
`shuttingDown`, and it does so after it wakes up — on every path through the loop body there is no sleep
between the test and a listen. -/
theorem refresher_stops_on_shutdown :
    refresherLoopEvents.contains "test" = true ∧
    refresherLoopEvents.contains "sleep" = true ∧ refresherLoopEvents.contains "listen" = true ∧
    guarded refresherLoopEvents = true := by decide

-- the walker rejects the two orders that lose the flag, and accepts a test right before each listen
example : guarded ["test", "sleep", "listen"] = false := by decide
example : guarded ["sleep", "listen", "test"] = false := by decide
example : guarded ["sleep", "test", "listen", "listen"] = true := by decide
example : guarded ["sleep", "test", "listen", "test", "listen"] = true := by decide

/-- What may be called while the registry lock `mu` is held: the non-blocking `srv.Close()`, map bookkeeping
(`make`, `len`, `delete`), the listener's address, a log line. Anything else — a `Shutdown(ctx)`, a `Wait`, a
channel receive (`<-…`), a `go`, `time.Sleep` — is not in the list and breaks the obligation. -/
def bookkeeping : List String :=
  [".Close", "log.Printf", "delete", "make", "len", ".Addr", ".String", "store-registry"]

def onlyBookkeeping (l : List String) : Bool := l.all (fun e => bookkeeping.contains e)

/-- **Tie of the lock assumption** (`Model.C18.lockAcquired`, hypothesis `hlock` of
`shutdown_bounded_from_call`): in every function of proxy/serve.go that takes `mu` — `CloseProxy`, `Close`,
`Shutdown`, `serve`, or any helper they are split into — only bookkeeping happens between the registry lock's
`Lock()` and `Unlock()` (helpers called under the lock inlined), and the registration and the removal are among it. -/
theorem registry_lock_only_bookkeeping :
    onlyBookkeeping underRegistryLock = true ∧ underRegistryLock.contains "store-registry" = true ∧
    underRegistryLock.contains "delete" = true := by decide

example : onlyBookkeeping ["context.WithTimeout", "context.Background", ".Shutdown", "local()", "log.Printf", "delete"] = false := by decide
example : onlyBookkeeping [".Close", "<-local"] = false := by decide

/-- `exit.Listen`: the signal registration is made before the handler runs and stays in force while it runs —
nothing of os/signal is called besides `Notify` (no `signal.Stop`/`Reset`/`Ignore`), so a second SIGTERM/SIGINT
during the drain is swallowed instead of killing the process with the default action. -/
theorem exit_listen_keeps_signals_caught :
    exitListenEvents = ["signal.Notify", "<-notified", "<-pkgvar", "handler"] := by decide

/-- **Tie of `Model.C18Exit.ListenContract.reselects`**: every receive in `exit.Listen` is a case of a `select` that
also has a case on a package-level channel (`quit`, which `exit.Exit` closes) — there is no wait for a signal that
`Exit`/`Fatal`/`Fatalf` cannot end, however many SIGHUPs came before. (A plain `sig = <-sigchan` after a SIGHUP
counts as one receive without `quit`.) -/
theorem exit_listen_always_watches_quit :
    exitListenReceivesWithoutQuit = 0 ∧ 1 ≤ exitListenSelectsWithQuit := by decide

/-- **Tie of the delivery-level model after the repair of D32**: the channel handed to `signal.Notify` is made once,
outside every loop, with room for at least one of each subscribed signal (capacity ≥ 3; it is 16) — so a SIGTERM right
after a SIGHUP is received (`signal_right_after_sighup_is_received`, `bursts_within_capacity_lose_nothing`). False
before 5d789c0 (capacity 1, `Notify` inside the loop). -/
theorem exit_listen_channel_has_room :
    3 ≤ exitListenChanCap ∧ exitListenNotifyInLoop = false := by decide

theorem sigterm_right_after_sighup_received_on_this_tree (last : Fabio.Model.C18Exit.Ev) (h : last ≠ .hup) :
    Fabio.Model.C18Exit.runActs .reselects exitListenChanCap (Props.C18Exit.bursts [[.hup, last]]) =
      (.ran (Fabio.Model.C18Exit.sigOf last), []) :=
  Props.C18Exit.signal_right_after_sighup_is_received exitListenChanCap (by decide) last h

/-- the contract the current tree's `exit.Listen` follows, as far as the AST tells -/
def codeListenContract : Fabio.Model.C18Exit.ListenContract :=
  if exitListenReceivesWithoutQuit = 0 then .reselects else .signalsOnly

/-- `exit_completes` at the contract read from the current tree: `exit.Exit`/`Fatal` after any number of SIGHUPs
starts every handler and gets past its `wg.Wait()`. -/
theorem exit_completes_on_this_tree (k n : Nat) :
    Fabio.Model.C18Exit.exitCompletes (Fabio.Model.C18Exit.run codeListenContract (Fabio.Model.C18Exit.initial k)
      (Fabio.Model.C18Exit.history n .exitCall)) = true := by
  have h : codeListenContract = .reselects := by decide
  rw [h]
  exact Props.C18Exit.exit_completes k n

/-- **Tie of `WsContract.waitedFor`** (D31): `proxy.Shutdown` starts one more goroutine of its WaitGroup (`.Done`) that
hands a `context.WithTimeout(_, timeout)` to a method of the package-level variable which the hijacking handler
(the function that calls `.Hijack()`) updates — it waits for the open websocket sessions, with the servers' timeout.
False before cf1f970. -/
theorem ws_sessions_waited_for :
    shutdownWaitsForHijacked = true ∧ shutdownHijackedTimeoutIsParam = true := by decide

/-- the websocket contract the current tree follows, as far as the AST tells -/
def codeWsContract : WsContract := if shutdownWaitsForHijacked && shutdownHijackedTimeoutIsParam then .waitedFor else .notWaitedFor

/-- The property's second sentence at the level of the process, at the contracts read from this tree: every piece of
in-flight work, websocket sessions included, that ends within the wait completes before the process ends — and the
process ends no later than grace + wait after the signal. -/
theorem process_completes_inflight_work_on_this_tree (s grace wait : Nat) (srvs : List Server)
    (sv : Server) (l : Leaf) (e : Time) (hs : sv ∈ srvs) (hl : l ∈ sv.leaves) (he : e ∈ l.allWork)
    (h : tle e (some (s + grace + wait)) = true) :
    processFate (processExit codeWsContract (if grpcShutdownUsesCtx then .stopsAtDeadline else .ignoresDeadline) s grace wait srvs) e = .completed ∧
    tle (processExit codeWsContract (if grpcShutdownUsesCtx then .stopsAtDeadline else .ignoresDeadline) s grace wait srvs)
      (some (s + grace + wait)) = true := by
  have h1 : codeWsContract = .waitedFor := by decide
  have h2 : grpcShutdownUsesCtx = true := by decide
  simp only [h1, h2, if_true]
  exact ⟨Props.C18.process_completes_inflight_work _ s grace wait srvs sv l e hs hl he h,
         Props.C18.process_exit_bounded _ Props.C18.repaired_contract_bounded s grace wait srvs⟩

/-- **C18 end to end, at the three contracts read from this tree** (`exit.Listen`'s select, the websocket wait,
`gRPCServer.Shutdown`'s use of its context): whatever SIGHUPs came before, whichever way the process is told to stop,
from `s + grace` on no listener that was up accepts, every piece of in-flight work that ends within the wait
completes before the process ends, and the process ends no later than `s + grace + wait`. -/
theorem c18_end_to_end_on_this_tree (n : Nat) (last : Fabio.Model.C18Exit.Ev) (h : last ≠ .hup)
    (s grace wait : Nat) (srvs : List Server) :
    (∀ t, s + grace ≤ t → Fabio.Model.C18System.listenerAccepts codeListenContract n last s grace t = false) ∧
    (∀ sv ∈ srvs, ∀ l ∈ sv.leaves, ∀ e ∈ l.allWork, tle e (some (s + grace + wait)) = true →
        processFate (Fabio.Model.C18System.processEnd codeListenContract codeWsContract
          (if grpcShutdownUsesCtx then .stopsAtDeadline else .ignoresDeadline) n last s grace wait srvs) e = .completed) ∧
    tle (Fabio.Model.C18System.processEnd codeListenContract codeWsContract
          (if grpcShutdownUsesCtx then .stopsAtDeadline else .ignoresDeadline) n last s grace wait srvs)
        (some (s + grace + wait)) = true := by
  have h1 : codeListenContract = .reselects := by decide
  have h2 : codeWsContract = .waitedFor := by decide
  have h3 : grpcShutdownUsesCtx = true := by decide
  simp only [h1, h2, h3, if_true]
  exact Props.C18System.c18_end_to_end Props.C18.repaired_contract_bounded n last h s grace wait srvs

/-- **Tie of `Model.C18.listenAndServe` / `Start`** (one bind, then the registration, nothing in between): on the way
from a `ListenAndServe*` call to the registry insert — `ListenTCP` included — nothing sleeps, waits on a timer, a
channel or a WaitGroup, and the bind is not inside a loop or select. A start that could still be waiting when
`proxy.Shutdown` takes its snapshot would register afterwards, in the fresh registry, which nothing shuts down
(`Props.C18.late_registration_keeps_accepting`). The stream class `listener-start-pending` watches the address for
1.2 s after it became free; a retry with a longer back-off is only visible here. -/
theorem listen_path_does_not_wait :
    listenPathWaits = [] ∧ listenBindRetried = false := by decide

/-- The bounded-from-the-call theorem at the contract and the lock discipline read from this tree. -/
theorem shutdown_bounded_from_call_on_this_tree (called wait : Nat) (srvs : List Server) :
    tle (shutdownCalled (if grpcShutdownUsesCtx then .stopsAtDeadline else .ignoresDeadline) called
          (if onlyBookkeeping underRegistryLock then called else called + 1)
          wait srvs) (some (called + wait)) = true := by
  have h1 : grpcShutdownUsesCtx = true := by decide
  have h2 : onlyBookkeeping underRegistryLock = true := by decide
  simp only [h1, h2, if_true]
  exact (Props.C18.shutdown_bounded_from_call Props.C18.repaired_contract_bounded called called wait (Nat.le_refl _) srvs).1

/-- The contract the current tree's `gRPCServer.Shutdown` follows, as far as the AST tells. -/
def codeContract : GrpcContract := if grpcShutdownUsesCtx then .stopsAtDeadline else .ignoresDeadline

/-- The bounded-shutdown theorem instantiated at the contract read from the current tree. -/
theorem shutdown_bounded_on_this_tree (t0 wait : Nat) (srvs : List Server) :
    tle (shutdownReturn codeContract t0 wait srvs) (some (t0 + wait)) = true := by
  have h : codeContract = .stopsAtDeadline := by decide
  rw [h]
  exact Props.C18.shutdown_bounded Props.C18.repaired_contract_bounded t0 wait srvs

end Fabio.Props.C18Facts
