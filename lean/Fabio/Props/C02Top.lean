import Fabio.Props.C02Buf
import Fabio.Props.C02Loop
import Fabio.Props.C02Compose
import Fabio.Props.C02Custom
/-!
C02, round 4 — the property's sentences on the MOST DETAILED model of the update loop, all stages composed.

The stages proved separately so far:

```
stepOB / runOB   one iteration with glue calls that can panic AND the long-lived buffer     (Model/C02Buf.lean)
   │  stepOB_refines_stepO, runOB_refines_runO         — for every unread tail, every junk in the buffer
stepO / runO     the iteration with its glue calls                                         (Model/C02Loop.lean)
   │  runO_refines_run, installs_are_effects, runO_never_panics                            (Props/C02Loop.lean)
WB.step / WB.run the step machine, WB.installs                                             (Model/C02.lean)
   │  keeps_last_good, next_valid_applied                                                  (Props/C02.lean)
cell + readers + ONE writer programmed with the installs, every schedule                   (Props/C02Compose.lean)
   │  serving_table_is_last_good_config  (loadTable, C03.Lookup, C04 pickers)
```

`text_sources_end_to_end` chains them: take the effects of the detailed loop (`runOB` with `ParseAliases` and `NewTable`
modelled, `Register`/`logRoutes`/the scanner's left-over as arbitrary parameters that return), hand its `SetTable` effects
to the writer thread of the cell machine, and the two sentences of the property hold for every history, every set of
request goroutines and every schedule; `update_loop_never_dies` is the third sentence for the loop. The custom source
is `Props/C02Custom.lean`; `any_source` puts the two side by side.
-/
namespace Fabio.Props.C02Top
open Fabio Fabio.Model.Route Fabio.Model.Parse Fabio.Model.C02 Fabio.Model.C02Loop Fabio.Model.C02Buf
open Fabio.Model.C02Compose Fabio.Props.C02Compose Fabio.Lemmas.C02

section refine
variable {T : Type}

/-- **One iteration with glue and buffer = the iteration with glue**, effects and outcome, whatever `NewTable` leaves in
the buffer and whatever the buffer held. -/
theorem stepOB_refines_stepO (g : GlueB T) (st : WBB T) (e : Ev) :
    (stepOB g st e).1 = (stepO g.toGlue st.wb e).1 ∧
    (stepOB g st e).2.map (·.wb) = (stepO g.toGlue st.wb e).2 := by
  unfold stepOB stepO GlueB.toGlue
  simp only [Buf.reset, Buf.writeString, Buf.string, WB.nextText, List.nil_append]
  by_cases hs : (st.wb.recv e).svccfg ++ ['\n'] ++ (st.wb.recv e).mancfg = (st.wb.recv e).lastTable
  · simp [hs, Outcome.map]
  · simp only [hs, if_false]
    generalize (st.wb.recv e).svccfg ++ ['\n'] ++ (st.wb.recv e).mancfg = next
    cases ha : g.aliases next with
    | panic w => simp [Outcome.map]
    | ok al =>
      cases hr : g.register al with
      | panic w => simp [hr, Outcome.map]
      | ok u =>
        cases hn : g.newTable next with
        | panic w => simp [hr, Outcome.map]
        | ok o =>
          cases o with
          | none => simp [hr, Outcome.map]
          | some t =>
            cases hl : g.log t (st.wb.recv e).lastTable next with
            | panic w => simp [hr, hl, Outcome.map]
            | ok u' => simp [hr, hl, Outcome.map]

theorem runOB_refines_runO (g : GlueB T) (es : List Ev) : ∀ st : WBB T,
    (runOB g st es).1 = (runO g.toGlue st.wb es).1 ∧
    (runOB g st es).2.map (·.wb) = (runO g.toGlue st.wb es).2 := by
  induction es with
  | nil => intro st; simp [runOB, runO, Outcome.map]
  | cons e es ih =>
    intro st
    obtain ⟨h1, h2⟩ := stepOB_refines_stepO g st e
    unfold runOB runO
    cases hb : stepOB g st e with
    | mk effs o =>
      cases ho : stepO g.toGlue st.wb e with
      | mk effs' o' =>
        rw [hb, ho] at h1 h2
        simp only at h1 h2
        subst h1
        cases o with
        | panic w =>
          cases o' with
          | panic w' => simp [Outcome.map] at h2 ⊢; exact h2
          | ok s' => simp [Outcome.map] at h2
        | ok s =>
          cases o' with
          | panic w' => simp [Outcome.map] at h2
          | ok s' =>
            simp only [Outcome.map, Outcome.ok.injEq] at h2
            subst h2
            obtain ⟨i1, i2⟩ := ih s
            simp only
            exact ⟨by rw [i1], i2⟩

end refine

/-! ## the text sources, end to end -/

/-- the detailed loop of the text backends: `ParseAliases` and `NewTable` are the Lean models, `Register`, `logRoutes`
and the scanner's left-over are parameters -/
abbrev loopGlue (env : Env) (pf : ParseFloat) (rest : Text → Text) (register : List Str → Outcome Unit)
    (log : Table → Text → Text → Outcome Unit) : GlueB Table :=
  realGlueB pf (build env pf) rest register log

/-- **Third sentence, for the loop.** If `Register` and `logRoutes` return, the detailed loop survives EVERY history of
configuration texts — whatever the texts are, whatever rejected texts left in the buffer — and ends in the state of the
plain step machine. -/
theorem update_loop_never_dies (env : Env) (pf : ParseFloat) (rest : Text → Text) (register : List Str → Outcome Unit)
    (log : Table → Text → Text → Outcome Unit)
    (hreg : ∀ a, (register a).isPanic = false) (hlog : ∀ t a b, (log t a b).isPanic = false)
    (junk : Buf) (es : List Ev) :
    ∃ st', (runOB (loopGlue env pf rest register log) (WBB.init [] junk) es).2 = .ok st' ∧
      st'.wb = WB.run (build env pf) (WB.init []) es := by
  have htot : (loopGlue env pf rest register log).toGlue.Total :=
    ⟨fun _ => rfl, hreg, fun _ => rfl, hlog⟩
  have h2 := (runOB_refines_runO (loopGlue env pf rest register log) es (WBB.init [] junk)).2
  have hn := Fabio.Props.C02Loop.runO_never_panics _ htot es (WBB.init ([] : Table) junk).wb
  rw [hn] at h2
  cases hr : (runOB (loopGlue env pf rest register log) (WBB.init [] junk) es).2 with
  | panic w => rw [hr] at h2; simp [Outcome.map] at h2
  | ok st' =>
    rw [hr] at h2
    simp only [Outcome.map, Outcome.ok.injEq] at h2
    exact ⟨st', rfl, h2⟩

/-- the `SetTable` calls of the detailed loop are the installs of the step machine -/
theorem detailed_installs (env : Env) (pf : ParseFloat) (rest : Text → Text) (register : List Str → Outcome Unit)
    (log : Table → Text → Text → Outcome Unit)
    (hreg : ∀ a, (register a).isPanic = false) (hlog : ∀ t a b, (log t a b).isPanic = false)
    (junk : Buf) (es : List Ev) :
    installsOf (runOB (loopGlue env pf rest register log) (WBB.init [] junk) es).1 =
      WB.installs (build env pf) (WB.init []) es := by
  have htot : (loopGlue env pf rest register log).toGlue.Total :=
    ⟨fun _ => rfl, hreg, fun _ => rfl, hlog⟩
  rw [(runOB_refines_runO (loopGlue env pf rest register log) es (WBB.init [] junk)).1]
  have hn := Fabio.Props.C02Loop.runO_never_panics _ htot es (WBB.init ([] : Table) junk).wb
  exact Fabio.Props.C02Loop.installs_are_effects _ es _ _ hn

/-- the system: request goroutines and the detailed update loop as the one writer, programmed with the `SetTable`
effects of its run over the history -/
def detailedSystem (env : Env) (pf : ParseFloat) (rest : Text → Text) (register : List Str → Outcome Unit)
    (log : Table → Text → Text → Outcome Unit) (junk : Buf) (es : List Ev)
    (rs : List (Thread Table Model.C03.Req (Option (Str × Route × Target)))) :
    Sys Table Model.C03.Req (Option (Str × Route × Target)) :=
  Sys.start [] (rs ++ [.writer ((installsOf (runOB (loopGlue env pf rest register log) (WBB.init [] junk) es).1).map some)])

/-- **Sentences one and two, text sources, all stages composed.** The update loop as written — buffer reset and filled,
`ParseAliases`, `Register`, `NewTable` on the buffer, `SetTable`, `logRoutes`, whatever the scanner leaves unread,
whatever junk the buffer starts with, `Register` and `logRoutes` any functions that return — runs over any history of
service/manual updates while any number of request goroutines look requests up under any schedule. Then
(a) every lookup is answered as `C03.Lookup` (C04 pickers) on ONE table of the cell's history, which is the initial
empty table or `loadTable` of the concatenated text after one of the events: the complete previous or the complete new
configuration, never a mixture, never a text that failed to load;
(b) once the loop has made its `SetTable` calls the cell holds `loadTable` of the LAST text that loads: an invalid text
keeps the previous table serving and the next valid one is applied. -/
theorem text_sources_end_to_end (env : Env) (pf : ParseFloat) (le : LookupEnv) (k : Model.C03.Req → Nat)
    (rest : Text → Text) (register : List Str → Outcome Unit) (log : Table → Text → Text → Outcome Unit)
    (hreg : ∀ a, (register a).isPanic = false) (hlog : ∀ t a b, (log t a b).isPanic = false)
    (junk : Buf) (es : List Ev)
    (rs : List (Thread Table Model.C03.Req (Option (Str × Route × Target)))) (hr : Readers rs) (sch : List Nat) :
    (∀ th ∈ (Sys.run (lk le k) sch (detailedSystem env pf rest register log junk es rs)).threads, ∀ r ∈ th.results,
      ∃ T, (Sys.run (lk le k) sch (detailedSystem env pf rest register log junk es rs)).cell.hist[r.idx]? = some T ∧
        Installed env pf es T ∧ r.ans = Model.C03.Lookup (le.cfg r.req) T r.req) ∧
    ((∃ th, (Sys.run (lk le k) sch (detailedSystem env pf rest register log junk es rs)).threads[rs.length]? = some th ∧
        th.finished = true) →
      (Sys.run (lk le k) sch (detailedSystem env pf rest register log junk es rs)).cell.val =
        lastGood (build env pf) [] (texts es)) := by
  have hsys : detailedSystem env pf rest register log junk es rs = system env pf es rs := by
    unfold detailedSystem system
    rw [detailed_installs env pf rest register log hreg hlog junk es]
  rw [hsys]
  exact serving_table_is_last_good_config env pf le k es rs hr sch

/-- **From any source.** The same two sentences hold for the custom backend's poll loop
(`Props/C02Custom.lean`): both kinds of source, one statement each, same conclusion. -/
theorem any_source (env : Env) (pf : ParseFloat) (le : LookupEnv) (k : Model.C03.Req → Nat)
    (rest : Text → Text) (register : List Str → Outcome Unit) (log : Table → Text → Text → Outcome Unit)
    (hreg : ∀ a, (register a).isPanic = false) (hlog : ∀ t a b, (log t a b).isPanic = false)
    (junk : Buf) (es : List Ev) (ps : List (Poll (List RouteDef)))
    (rs : List (Thread Table Model.C03.Req (Option (Str × Route × Target)))) (hr : Readers rs) (sch : List Nat) :
    ((Sys.run (lk le k) sch (detailedSystem env pf rest register log junk es rs)).threads[rs.length]?.map Thread.finished
        = some true →
      (Sys.run (lk le k) sch (detailedSystem env pf rest register log junk es rs)).cell.val =
        lastGood (build env pf) [] (texts es)) ∧
    ((Sys.run (lk le k) sch (Fabio.Props.C02Custom.system env ps rs)).threads[rs.length]?.map Thread.finished
        = some true →
      (Sys.run (lk le k) sch (Fabio.Props.C02Custom.system env ps rs)).cell.val = lastGoodDoc env [] ps) := by
  constructor
  · intro h
    apply (text_sources_end_to_end env pf le k rest register log hreg hlog junk es rs hr sch).2
    cases hth : (Sys.run (lk le k) sch (detailedSystem env pf rest register log junk es rs)).threads[rs.length]? with
    | none => simp [hth] at h
    | some th => exact ⟨th, rfl, by simpa [hth] using h⟩
  · intro h
    apply (Fabio.Props.C02Custom.custom_serving_table_under_concurrency env le k ps rs hr sch).2
    cases hth : (Sys.run (lk le k) sch (Fabio.Props.C02Custom.system env ps rs)).threads[rs.length]? with
    | none => simp [hth] at h
    | some th => exact ⟨th, rfl, by simpa [hth] using h⟩

/-! ## non-vacuity -/
section examples
open Fabio.Props.C02Compose.Ex

set_option maxRecDepth 100000

/-- a scanner that leaves everything but the first character of a rejected text, a `Register`/`logRoutes` that return:
hypotheses satisfiable; over the three-event history of `C02Compose.Ex` (good, broken, repaired) started with junk in
the buffer the detailed loop performs two `SetTable`s and three `Register`s and survives -/
def restEx : Text → Text := fun s => s.drop 1
def regEx : List Str → Outcome Unit := fun _ => .ok ()
def logEx : Table → Text → Text → Outcome Unit := fun _ _ _ => .ok ()

example : (∀ a, (regEx a).isPanic = false) ∧ (∀ t a b, (logEx t a b).isPanic = false) := ⟨fun _ => rfl, fun _ _ _ => rfl⟩

example :
    ((installsOf (runOB (loopGlue env pf restEx regEx logEx) (WBB.init [] "junk".toList) events).1).length,
     (registeredOf (runOB (loopGlue env pf restEx regEx logEx) (WBB.init [] "junk".toList) events).1).length,
     (runOB (loopGlue env pf restEx regEx logEx) (WBB.init [] "junk".toList) events).2.isPanic) = (2, 3, false) := by
  decide +kernel

/-- a `logRoutes` that panics kills the loop AFTER the swap: the effects end with the `SetTable` -/
example :
    ((runOB (loopGlue env pf restEx regEx (fun _ _ _ => .panic "boom")) (WBB.init [] []) events).2.isPanic,
     (installsOf (runOB (loopGlue env pf restEx regEx (fun _ _ _ => .panic "boom")) (WBB.init [] []) events).1).length)
      = (true, 1) := by decide +kernel

end examples

end Fabio.Props.C02Top
