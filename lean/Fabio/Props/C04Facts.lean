import Fabio.Generated.C04
import Fabio.Model.C04
/-!
OBLIGATIONS over the facts regenerated from `/repo` on every run: statements the proof chain needs and that no
stream can establish by running the code. (The statements that pin the shape of sequential code whose behaviour
the streams compare are change detectors: `Props/C04Pins.lean`.)
-/
namespace Fabio.Props.C04Facts
open Fabio Fabio.Generated.C04

/-- Wiring that no stream drives (`main()` is not run): every lookup the proxies perform — `Table.Lookup` for
HTTP and gRPC, `Table.LookupHost` for TCP and TCP+SNI — is handed `route.Picker[<cfg>.Proxy.Strategy]`, the
map has exactly the keys `rnd` and `rr` (bound to the functions `C04Pins.picker_rules` is about and the streams drive), and the configuration
refuses every other strategy: `proxy.strategy=rr` is the round-robin picker the theorems describe, on every
entry point. -/
theorem picker_wiring :
    lookupPickerArgs.length ≥ 4 ∧
    lookupPickerArgs.all (fun a => (a.startsWith "Lookup <- route.Picker[" || a.startsWith "LookupHost <- route.Picker[") &&
      a.endsWith ".Proxy.Strategy]") = true ∧
    lookupPickerArgs.any (·.startsWith "LookupHost") = true ∧
    pickerKeys = ["rnd", "rr"] ∧
    strategyChecks = ["cfg.Proxy.Strategy != \"rr\" && cfg.Proxy.Strategy != \"rnd\""] := by decide +kernel

end Fabio.Props.C04Facts
