import Fabio.Generated.C04
import Fabio.Model.C04
/-!
Obligations over the facts regenerated from `/repo` on every run: the constants and rules the C04 model is
built on are still the ones in the source.
-/
namespace Fabio.Props.C04Facts
open Fabio Fabio.Generated.C04

/-- `const maxSlots = 1e4` is the model's `maxSlots`. -/
theorem maxSlots_pinned : Generated.C04.maxSlots = Model.C04.maxSlots := by decide +kernel

/-- Every test on a requested weight in `weighTargets` is `t.FixedWeight > 0` (a weight ≤ 0 is "dynamic"). -/
theorem fixed_tests_are_gt_zero :
    fixedWeightTests ≠ [] ∧ fixedWeightTests.all (· == "t.FixedWeight > 0") = true := by decide +kernel

/-- the slot rule: truncated product, at least one slot for a positive weight, entries without slots skipped -/
theorem slot_rule :
    weighAssigns.contains "n := int(float64(maxSlots) * t.Weight)" = true ∧
    weighIfs.contains "n == 0 && t.Weight > 0 => { n = 1 }" = true ∧
    weighAssigns.contains "usedSlots += n" = true ∧
    weighAssigns.contains "targets := make([]*Target, usedSlots)" = true ∧
    weighIfs.contains "s.n <= 0 => { continue }" = true := by decide +kernel

/-- the fill: start at 0 with stride usedSlots/n, scan to the next nil slot, store, advance by the stride -/
theorem fill_rule :
    weighAssigns.contains "next, step := 0, usedSlots/s.n" = true ∧
    weighWhileLoops = ["targets[next] != nil => { next = (next + 1) % usedSlots }"] ∧
    weighAssigns.contains "targets[next] = r.Targets[s.i]" = true ∧
    weighAssigns.contains "next = (next + step) % usedSlots" = true ∧
    weighAssigns.contains "r.wTargets = targets" = true ∧
    sortCalls = 1 ∧ byNLess = "{ return r[i].n < r[j].n }" := by decide +kernel

/-- without a fixed weight: equal weights and the ring is the target list itself -/
theorem bypass_rule :
    weighIfs.contains "nFixed == 0 => { w := 1.0 / float64(len(r.Targets)) for _, t := range r.Targets { t.Weight = w } r.wTargets = r.Targets return }" = true := by decide +kernel

/-- the normalisation: when to scale, the dynamic share and its clamp (as repaired for D02: division by the
sum, an overflowing sum is taken relative to the largest weight) -/
theorem normalisation_rule :
    weighIfs.contains "sumFixed > 1 || (nFixed == len(r.Targets) && sumFixed < 1) => { norm = sumFixed }" = true ∧
    weighAssigns.contains "dynamic := (1 - sumFixed) / float64(len(r.Targets)-nFixed)" = true ∧
    weighIfs.contains "dynamic < 0 => { dynamic = 0 }" = true ∧
    weighAssigns.contains "t.Weight = t.FixedWeight / unit / norm" = true ∧
    weighAssigns.contains "t.Weight = dynamic" = true ∧
    weighAssigns.contains "norm := 1.0" = true ∧ weighAssigns.contains "unit := 1.0" = true := by decide +kernel

/-- `addTarget` clamps a negative weight; `setWeight` spreads the share over the matching targets -/
theorem entry_rules :
    addTargetFirst = "if fixedWeight < 0 { fixedWeight = 0 }" ∧
    setWeightAssigns.contains "w := weight / float64(n)" = true ∧
    setWeightAssigns.contains "t.FixedWeight = w" = true := by decide +kernel

/-- `rrPicker` indexes `r.wTargets` modulo its length and advances the cursor by one; `rndPicker` indexes it
with `randIntn(len)` -/
theorem picker_rules :
    rrModulus = ["uint64(len(r.wTargets))"] ∧ rrIndexed = ["r.wTargets"] ∧ rrAdds = ["&r.total, 1"] ∧
    rndBody = "{ return r.wTargets[randIntn(len(r.wTargets))] }" := by decide +kernel

/-- `Table.lookup`: no target → nil, one target → that target, else the picker -/
theorem lookup_rules :
    lookupN = "n := len(r.Targets)" ∧
    lookupShortcuts = ["n == 0 => { return nil }", "n == 1 => { target = r.Targets[0] } else { target = pick(r) }"] := by decide +kernel

/-- D02 repaired: both entrances refuse a weight that is not finite, right after the empty-prefix/target
checks (the order the model `applyDefW` reproduces) -/
theorem nonfinite_checks :
    addRouteChecks.take 3 = ["d.Src == \"\" => { return errInvalidPrefix }", "d.Dst == \"\" => { return errInvalidTarget }",
      "!validWeight(d.Weight) => { return errInvalidWeight }"] ∧
    weighRouteChecks.take 2 = ["d.Src == \"\" => { return errInvalidPrefix }", "!validWeight(d.Weight) => { return errInvalidWeight }"] ∧
    validWeightBody = "{ return !math.IsNaN(w) && !math.IsInf(w, 0) }" := by decide +kernel

end Fabio.Props.C04Facts
