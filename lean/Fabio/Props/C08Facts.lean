import Fabio.Generated.C08
import Fabio.Model.C08
/-!
OBLIGATIONS over the facts regenerated from `/repo` on every run (`tools/factgen/c08.go`): statements the proof
chain needs and that no correspondence stream can establish by running the code. Each names the breaking
change it is there to exclude. Everything that merely pins the shape of the sequential header code — whose
input/output behaviour `c08.unit`, `c08.serve`, `c08.proxy` and `c08.hopbyhop` compare with the model on every
run — lives in `C08Pins.lean` (change detectors). Core only, `decide`.
-/
namespace Fabio.Props.C08Facts
open Fabio Fabio.Model.C08

/-- The configuration fields of `Model.C08.Cfg`, by the name of the `config.Proxy` field each stands for. -/
def modelCfgFields : List String :=
  ["ClientIPHeader", "LocalIP", "RequestID", "STSHeader.MaxAge", "STSHeader.Preload", "STSHeader.Subdomains",
   "TLSHeader", "TLSHeaderValue"]

/-- **The model's configuration space is complete**: `addHeaders`, `addResponseHeaders` (helpers followed) and
the request-id statement of `ServeHTTP` read exactly the `config.Proxy` fields that `Model.C08.Cfg` has.
"For every header-related configuration" is quantified over `Cfg`; the generators vary these fields only.
Excludes: a new switch read by the header code (say `cfg.TrustForwardedHeaders`) that changes what the upstream
is told — every stream would keep running with the new field at its zero value and stay green. -/
theorem model_cfg_fields_complete : Generated.C08.headerConfigFields = modelCfgFields := by decide

/-- **Every one of those fields is bound to one documented option, of the right kind, defaulting to the
default configuration** (`config/load.go`), and the default configuration sets none of them except `LocalIP`
(so without configuration: no client-IP header, no TLS header, no request id, no HSTS).
Excludes: `proxy.header.tls` bound to `TLSHeaderValue` and vice versa, an option dropped, a default that switches
a header on. No C08 stream runs `config.Load` (the C08 harness hands `config.Proxy` values to the proxy). -/
theorem header_options_bound :
    Generated.C08.headerOptionBindings =
      ["proxy.header.clientip -> ClientIPHeader : String : default",
       "proxy.header.requestid -> RequestID : String : default",
       "proxy.header.sts.maxage -> STSHeader.MaxAge : Int : default",
       "proxy.header.sts.preload -> STSHeader.Preload : Bool : default",
       "proxy.header.sts.subdomains -> STSHeader.Subdomains : Bool : default",
       "proxy.header.tls -> TLSHeader : String : default",
       "proxy.header.tls.value -> TLSHeaderValue : String : default",
       "proxy.localip -> LocalIP : String : default"] ∧
    Generated.C08.headerOptionBindings.length = modelCfgFields.length ∧
    Generated.C08.headerDefaultsSet = ["LocalIP"] := by decide

/-- **The HTTP(S) listeners serve a proxy that was built with the loaded configuration** (`main.go`): the one
`proxy.HTTPProxy{…}` literal takes `Config` from the `Proxy` part of its configuration parameter, every handler
given to `proxy.ListenAndServeHTTP*` comes from that constructor applied to the enclosing function's parameter,
and that function is started with what `config.Load` returned.
Excludes: a listener wired to a proxy with a partial or zero `config.Proxy` (all forwarding headers silently
off in production while every test and stream, which build their own `HTTPProxy`, pass). No harness runs `main`. -/
theorem listeners_serve_configured_proxy :
    Generated.C08.httpProxyLiteralConfig = ["param0.Proxy"] ∧
    Generated.C08.httpListenerHandlers.all (· == "built(param)") = true ∧
    Generated.C08.httpListenerHandlers ≠ [] ∧
    Generated.C08.httpListenersStartedWith = ["config.Load"] := by decide

/-- **Nothing in package `proxy` forwards an HTTP request except behind `addHeaders`**: the constructors of
forwarding handlers (unexported functions returning `http.Handler`: the `httputil.ReverseProxy` wrapper and the
websocket tunnel) are used by `HTTPProxy.ServeHTTP` only; there, every construction and the one forwarding
call come after the `addHeaders` call, whose error branch ends in `return` (the exits of `Model.C08.serveHTTP`).
Excludes: a second entry point (a health or debug handler, a retry path) that proxies with the client's
headers untouched — the streams only drive `ServeHTTP`. -/
theorem forwarders_only_behind_addHeaders :
    Generated.C08.forwarderConstructorUsers = ["HTTPProxy.ServeHTTP"] ∧
    Generated.C08.forwarderConstructors.length = 2 ∧
    Generated.C08.forwardingStepsBeforeAddHeaders = 0 ∧
    1 ≤ Generated.C08.forwarderConstructionsInServeHTTP ∧
    Generated.C08.forwardCallsInServeHTTP = 1 ∧
    Generated.C08.addHeadersCalls = 1 ∧
    Generated.C08.addHeadersErrorBranchReturns = true := by decide

/-- **Requests do not influence each other through the header code**: the only package-level state
`addHeaders` / `addResponseHeaders` touch are tables they read (`sharedTablesRead`), nothing in the package
assigns to, deletes from, copies into or takes the address of one of them, and the header code starts no
goroutine and defers nothing — it works on the request's own header map, sequentially, as the model does.
Excludes: a cache or a table patched at run time (a data race between concurrent requests; the streams call
the code from one goroutine at a time). -/
theorem header_code_shares_only_constant_tables :
    Generated.C08.sharedTableWrites = [] ∧
    Generated.C08.headerCodeGoStmts = 0 ∧ Generated.C08.headerCodeDeferStmts = 0 := by decide

end Fabio.Props.C08Facts
