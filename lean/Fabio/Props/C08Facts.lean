import Fabio.Generated.C08
import Fabio.Model.C08
/-!
OBLIGATIONS over the facts regenerated from `/repo` on every run (`tools/factgen/c08.go`): statements the proof
chain needs and that no correspondence stream can establish by running the code. Each names the breaking
change it is there to exclude. Everything that merely pins the shape of the sequential header code — whose
input/output behaviour `c08.unit`, `c08.serve`, `c08.proxy`, `c08.hopbyhop` and `c08.main` compare with the model on
every run — lives in `C08Pins.lean` (change detectors; since round 4 also the option bindings of `config/load.go`,
which `c08.main` exercises through the real executable). Core only, `decide`.
-/
namespace Fabio.Props.C08Facts
open Fabio Fabio.Model.C08

/-- The configuration fields of `Model.C08.Cfg`, by the name of the `config.Proxy` field each stands for. -/
def modelCfgFields : List String :=
  ["ClientIPHeader", "LocalIP", "RequestID", "STSHeader.MaxAge", "STSHeader.Preload", "STSHeader.Subdomains",
   "TLSHeader", "TLSHeaderValue"]

/-- **The model's configuration space is complete**: `addHeaders`, `addResponseHeaders` (helpers followed) and
the request-id statement of `ServeHTTP` read exactly the `config.Proxy` fields that `Model.C08.Cfg` has.
"For every header-related configuration" is quantified over `Cfg` (and, in `Props/C08Main.lean`, over the
options that fill it); the generators vary these fields only.
Excludes: a new switch read by the header code (say `cfg.TrustForwardedHeaders`) that changes what the upstream
is told — every stream would keep running with the new field at its zero value and stay green. -/
theorem model_cfg_fields_complete : Generated.C08.headerConfigFields = modelCfgFields := by decide

/-- **Every HTTP listener serves a proxy that was built with the loaded configuration, unadjusted** (`main.go`):
the one `proxy.HTTPProxy{…}` literal takes `Config` from the `Proxy` part of its configuration parameter, every
handler given to `proxy.ListenAndServeHTTP*` comes from that constructor applied to the enclosing function's
parameter, that function is started with what `config.Load` returned, and nothing in package `main` assigns to a
built proxy's `Config` or to a header field of the loaded `Proxy` configuration.
The stream `c08.main` runs the real executable with one listener of each of the three kinds that serve HTTP
(`http`, `https`, `https+tcp+sni`) and would expose a kind wired differently (seeded change m12: the TLS header
cleared on listeners without certificates — caught by inputs). What it cannot expose, and this excludes: an
adjustment that depends on something the stream does not vary (a listener option such as `pxyproto`, a fourth
listener kind, the registry backend), or a listener wired to a proxy with a partial `config.Proxy` under such a
condition. -/
theorem listeners_serve_configured_proxy :
    Generated.C08.httpProxyLiteralConfig = ["param0.Proxy"] ∧
    Generated.C08.httpListenerHandlers.all (· == "built(param)") = true ∧
    Generated.C08.httpListenerHandlers ≠ [] ∧
    Generated.C08.httpListenersStartedWith = ["config.Load"] ∧
    Generated.C08.headerConfigWritesInMain = [] := by decide

/-- **Nothing in package `proxy` forwards an HTTP request except behind `addHeaders`**: the constructors of
forwarding handlers (unexported functions returning `http.Handler`: the `httputil.ReverseProxy` wrapper and the
websocket tunnel) are used by `HTTPProxy.ServeHTTP` only; there, every construction and the one forwarding
call come after the `addHeaders` call, whose error branch ends in `return` (the exits of `Model.C08.serveHTTP`).
Excludes: a second entry point (a health or debug handler, a retry path) that proxies with the client's
headers untouched — the streams only drive `ServeHTTP`. -/
theorem forwarders_only_behind_addHeaders :
    Generated.C08.forwarderConstructorUsers = ["HTTPProxy.ServeHTTP"] ∧
    Generated.C08.forwarderConstructors.length = 2 ∧
    Generated.C08.forwardingStepsBeforeAddHeaders = 0 ∧
    1 ≤ Generated.C08.forwarderConstructionsInServeHTTP ∧
    Generated.C08.forwardCallsInServeHTTP = 1 ∧
    Generated.C08.addHeadersCalls = 1 ∧
    Generated.C08.addHeadersErrorBranchReturns = true := by decide

/-- **Requests do not influence each other through the header code**: the only package-level state
`addHeaders` / `addResponseHeaders` touch are tables they read (`sharedTablesRead`), nothing in the package
assigns to, deletes from, copies into or takes the address of one of them, and the header code starts no
goroutine and defers nothing — it works on the request's own header map, sequentially, as the model does.
Excludes: a cache or a table patched at run time (a data race between concurrent requests; the streams call
the code from one goroutine at a time). -/
theorem header_code_shares_only_constant_tables :
    Generated.C08.sharedTableWrites = [] ∧
    Generated.C08.headerCodeGoStmts = 0 ∧ Generated.C08.headerCodeDeferStmts = 0 := by decide

end Fabio.Props.C08Facts
