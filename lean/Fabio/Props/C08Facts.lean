import Fabio.Generated.C08
import Fabio.Model.C08
/-! Obligations over the facts regenerated from `/repo` on every run (C08). -/
namespace Fabio.Props.C08Facts
open Fabio Fabio.Model.C08

def names (l : List Str) : List String := l.map String.ofList

/-- `addHeaders` (with the unexported helpers it calls inlined: `scheme`, `localPort`, the Connection
protection, …) reads and writes exactly the header names the model uses. -/
theorem addHeaders_names_pinned :
    Generated.C08.addHeadersNames =
      names [connection, forwarded, upgrade, xForwardedFor, xForwardedHost, xForwardedPort, xForwardedPrefix,
             xForwardedProto, xRealIp] := by
  decide

/-- The order in which `addHeaders` mutates the header map (consecutive writes to one name collapsed) is the
order of the model's steps: `stepClientIP`, `stepRealIp`, `stepWS`, `stepForward` (Proto, Port, Host, Prefix,
Forwarded), `stepTLS` (set / delete), `stepConnection` (delete / assign) — in particular the Connection
protection comes after every header it protects has been written (D12d). `scheme` writes nothing and
`addResponseHeaders` only sets Strict-Transport-Security. -/
theorem addHeaders_write_order :
    Generated.C08.addHeadersWrites =
      ["set:field:ClientIPHeader", "set:X-Real-Ip", "set:X-Forwarded-For", "set:X-Forwarded-Proto",
       "set:X-Forwarded-Port", "set:X-Forwarded-Host", "set:X-Forwarded-Prefix", "set:Forwarded",
       "set:field:TLSHeader", "del:field:TLSHeader", "del:Connection", "assign:Connection"] ∧
    Generated.C08.schemeWrites = [] ∧
    Generated.C08.responseWrites = ["set:Strict-Transport-Security"] := by decide

theorem scheme_names_pinned : Generated.C08.schemeNames = names [forwarded, upgrade, xForwardedProto] := by decide

theorem response_names_pinned : Generated.C08.responseNames = names [stsName] := by decide

/-- Every literal header name in the code is already canonical, so direct map indexing
(`r.Header["X-Forwarded-For"]`) and `Get/Set` address the same entry, as the model assumes (`get1`/`put`
on the literal). -/
theorem header_literals_canonical :
    (Generated.C08.addHeadersNames ++ Generated.C08.schemeNames ++ Generated.C08.responseNames ++
      Generated.C08.managedHeaders).all
      (fun n => canonicalKey n.toList == n.toList) = true := by decide

/-- The configured client-IP header is exempted exactly for the two names with dedicated rules. -/
theorem clientip_excluded_pinned : Generated.C08.clientIPExcluded = names [xForwardedFor, xRealIp] := by decide

theorem forwarded_pieces_pinned :
    Generated.C08.forwardedPieces = ["for=", "; proto=", "; by=", "; httpproto=", "; tlsver=", "; tlscipher="] := by decide

theorem sts_pieces_pinned : Generated.C08.stsPieces = ["max-age=", "; includeSubdomains", "; preload"] := by decide

theorem scheme_literals_pinned :
    Generated.C08.schemeLiterals = ["proto=", "websocket", "wss", "ws", "https", "http"] := by decide

theorem tlsver_pinned :
    Generated.C08.tlsverKeys = ["tls.VersionSSL30", "tls.VersionTLS10", "tls.VersionTLS11", "tls.VersionTLS12"] ∧
    Generated.C08.tlsverValues = names [tlsverName 0x0300, tlsverName 0x0301, tlsverName 0x0302, tlsverName 0x0303] := by
  decide

/-- D12b: the three places that decide "this is a websocket upgrade" (`ServeHTTP` choosing the tunnel,
`addHeaders` adding X-Forwarded-For, `scheme` reporting ws/wss) use the same case-insensitive comparison —
the model's `isWebsocket`. -/
theorem websocket_compare_addHeaders : Generated.C08.wsCompareAddHeaders = ["fold:websocket"] := by decide
theorem websocket_compare_scheme : Generated.C08.wsCompareScheme = ["fold:websocket"] := by decide
theorem websocket_compare_serveHTTP : Generated.C08.wsCompareServeHTTP = ["fold:websocket"] := by decide

/-- D12d: the Connection protection covers the fixed list and the three configured names of
`Model.C08.managedKeys`, and reads a token the way `httputil.ReverseProxy` does (`tokenKey`); that it runs
last is part of `addHeaders_write_order`. -/
theorem protect_managed_headers_pinned :
    Generated.C08.managedHeaders = names (managedKeys {}) ∧
    Generated.C08.protectConfigFields = ["ClientIPHeader", "TLSHeader", "RequestID"] ∧
    Generated.C08.protectTokenKey = ["http.CanonicalHeaderKey(textproto.TrimString(_))"] := by decide

/-- D12: `ServeHTTP` (helpers inlined) calls `addHeaders(<request parameter>, <receiver>.Config,
<target>.StripPath)` once, and no assignment to the request's `Host` (the route's `host=` option) precedes it, so the forwarding headers are derived from the Host the client sent —
the order of `Model.C08.serve`. -/
theorem addHeaders_before_host_override :
    Generated.C08.addHeadersCalls = 1 ∧ Generated.C08.hostAssignmentsBeforeAddHeaders = 0 ∧
    Generated.C08.addHeadersArgs = ["param1", "recv.Config", "local.StripPath"] := by decide

/-- The request-id header is set before `addHeaders` runs (order of `Model.C08.serve`). -/
theorem requestid_before_addHeaders :
    Generated.C08.requestIDSets = 1 ∧ Generated.C08.requestIDSetsBeforeAddHeaders = 1 := by decide

end Fabio.Props.C08Facts
