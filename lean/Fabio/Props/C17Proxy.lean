import Fabio.Lemmas.C17Proxy
import Fabio.Props.C17
/-!
C17 — the glue around the writer machine (`Fabio.Model.C17Proxy`): one handler value serving many responses over
the recycled writers, the option `proxy.gzip.contenttype`, and `HTTPProxy.ServeHTTP` handing the response of
`httputil.ReverseProxy` through `NewGzipHandler`. Every theorem is for every compressor satisfying the round-trip
law (where decoding is mentioned), every regexp and sniffer, every pool content, every upstream response (any
header lines, any number of relayed 1xx responses, any chunking of the copy loop, flushing or not).
-/
namespace Fabio.Props.C17Proxy
open Fabio.Model.C17 Fabio.Lemmas.C17 Fabio.Props.C17

variable {Z : Type}

/-- **history_independent.** One handler value (one configured expression, the shared writer pool) serves a
sequence of exchanges: every response looks to its client — compressed or not, status, header map, content —
exactly as if it were the only response ever served, whatever the earlier responses were and whatever state
the recycled writers were left in. (The package keeps no state but the pool: obligation `package_state_is_the_pool`.) -/
theorem history_independent (C : Cfg Z) (hrt : C.comp.RoundTrip) (pool : List Z) (es : List Exch) :
    (serveSeq C pool es).map (Served.view C) =
      es.map (fun e => (serve C e.head e.dfl e.req e.h0 [] e.ops).view C) := by
  induction es generalizing pool with
  | nil => rfl
  | cons e r ih =>
    simp only [serveSeq, List.map_cons]
    rw [ih, serve_view_pool C hrt e.head e.dfl e.req e.h0 pool []]

/-- the pool a response starts from cannot be told from the response. -/
theorem pool_invisible (C : Cfg Z) (hrt : C.comp.RoundTrip) (head dfl : Bool) (req h0 : Hdr) (p q : List Z)
    (ops : List Op) :
    (serve C head dfl req h0 p ops).view C = (serve C head dfl req h0 q ops).view C :=
  serve_view_pool C hrt head dfl req h0 p q ops

/-- **configured_iff.** Compression is off exactly for the empty option value; a value that does not compile
is refused at start-up, never silently turned into "compress nothing/everything". -/
theorem configured_iff (value : String) (compiles : Bool) :
    (configure value compiles = .off ↔ value = "") ∧
    (configure value compiles = .on ↔ value ≠ "" ∧ compiles = true) ∧
    (configure value compiles = .invalid ↔ value ≠ "" ∧ compiles = false) := by
  unfold configure
  by_cases hv : value = ""
  · simp [hv]
  · have : (value == "") = false := by simp [beq_eq_false_iff_ne, hv]
    cases compiles <;> simp [this, hv]

/-- **unconfigured_untouched.** Without a configured expression the gzip package is not in the path at all:
the response is the reverse proxy's on the bare writer (no `Vary` line either), and the request is handed on
as it came. -/
theorem unconfigured_untouched (C : Cfg Z) (head dfl : Bool) (req h0 : Hdr) (pool : List Z) (u : UpResp) :
    (proxyServe C false head dfl req h0 pool u).compressed = false ∧
    (proxyServe C false head dfl req h0 pool u).obs = proxyBare C dfl h0 (relay (h0.map (·.1)) u) ∧
    (proxyServe C false head dfl req h0 pool u).fwd = req ∧
    (proxyServe C false head dfl req h0 pool u).pool = pool := ⟨rfl, rfl, rfl, rfl⟩

/-- **request_forwarded_unchanged.** Configured or not, compressing or not: the reverse proxy — hence the
transport and the upstream — is handed the client's request header as it came (in particular its
`Accept-Encoding`, so the transport never adds its own and never decodes an encoded upstream response behind
the writer's back). Tied to the code by obligation `request_read_only` and by stream `c17.proxy`. -/
theorem request_forwarded_unchanged (C : Cfg Z) (gz head dfl : Bool) (req h0 : Hdr) (pool : List Z) (u : UpResp) :
    (proxyServe C gz head dfl req h0 pool u).fwd = req := by
  cases gz <;> rfl

/-- **proxy_compress_iff.** Through the reverse proxy, with an expression configured: the response is compressed
exactly when the request passes `acceptsGzip`, is not HEAD, the upstream's final status allows a body, and the
header map at the reverse proxy's `WriteHeader` — the upstream's lines added to whatever survived the relayed
1xx responses — has no Content-Encoding and a Content-Type the expression matches. Chunking and flushing of the
copy loop play no role. -/
theorem proxy_compress_iff (C : Cfg Z) (head dfl : Bool) (req h0 : Hdr) (pool : List Z) (u : UpResp)
    (hinfo : ∀ i ∈ u.info, informational i.1 = true) (hfin : informational u.code = false) :
    (proxyServe C true head dfl req h0 pool u).compressed = true ↔
      acceptsGzip req = true ∧ head = false ∧ bodyAllowedForStatus u.code = true ∧
      hget (liveAtStatus ((hadd h0 hVary hAcceptEncoding).map (·.1)) u (hadd h0 hVary hAcceptEncoding)) hContentEncoding = "" ∧
      C.typeOk (hget (liveAtStatus ((hadd h0 hVary hAcceptEncoding).map (·.1)) u (hadd h0 hVary hAcceptEncoding)) hContentType) = true := by
  simp only [proxyServe, if_true]
  rw [compress_iff, relay_decision C false _ u _ hinfo hfin]
  constructor
  · rintro ⟨h1, h2, h, c, heq, hb, he, ht⟩
    simp only [Option.some.injEq, Prod.mk.injEq] at heq
    obtain ⟨rfl, rfl⟩ := heq
    exact ⟨h1, h2, hb, he, ht⟩
  · rintro ⟨h1, h2, hb, he, ht⟩
    exact ⟨h1, h2, _, _, rfl, hb, he, ht⟩

/-- **proxy_when_compressed.** … and then the client gets the upstream's status, `Content-Encoding: gzip`, no
Content-Length, every other line as it stood at the reverse proxy's `WriteHeader`, and a body that decodes to
exactly the upstream's bytes — for every chunking of the copy loop, flushing or not. -/
theorem proxy_when_compressed (C : Cfg Z) (hrt : C.comp.RoundTrip) (head dfl : Bool) (req h0 : Hdr) (pool : List Z)
    (u : UpResp) (hinfo : ∀ i ∈ u.info, informational i.1 = true) (hfin : informational u.code = false)
    (hc : (proxyServe C true head dfl req h0 pool u).compressed = true) :
    (proxyServe C true head dfl req h0 pool u).obs.status = u.code ∧
    hget (proxyServe C true head dfl req h0 pool u).obs.hdr hContentEncoding = encGzip ∧
    hhasRaw (proxyServe C true head dfl req h0 pool u).obs.hdr hContentLength = false ∧
    (∀ k, k ≠ hContentLength → k ≠ hContentEncoding →
      hraw (proxyServe C true head dfl req h0 pool u).obs.hdr k =
        hraw (liveAtStatus ((hadd h0 hVary hAcceptEncoding).map (·.1)) u (hadd h0 hVary hAcceptEncoding)) k) ∧
    C.comp.decode (proxyServe C true head dfl req h0 pool u).obs.body = some u.chunks.flatten := by
  simp only [proxyServe, if_true] at hc ⊢
  obtain ⟨h, c, hd, hs, hce, hcl, hk, hdec⟩ := when_compressed C hrt head dfl req h0 pool _ hc
  rw [relay_decision C false _ u _ hinfo hfin] at hd
  simp only [Option.some.injEq, Prod.mk.injEq] at hd
  obtain ⟨rfl, rfl⟩ := hd
  rw [relay_writes _ u hinfo] at hdec
  exact ⟨hs, hce, hcl, hk, hdec⟩

/-- **encoded_upstream_untouched.** An upstream response that arrives with a non-empty first Content-Encoding
line (no relayed 1xx left one in the map before) is never compressed again: the client gets what the reverse
proxy would have written to the bare writer carrying the `Vary` line. -/
theorem encoded_upstream_untouched (C : Cfg Z) (head dfl : Bool) (req h0 : Hdr) (pool : List Z) (u : UpResp)
    (hinfo : ∀ i ∈ u.info, informational i.1 = true) (hfin : informational u.code = false)
    (v : String) (rest : List String) (hv : v ≠ "")
    (hl : lineVals u.hdr hContentEncoding = v :: rest)
    (hnone : hraw (hops ((u.info.map (relayInfo ((hadd h0 hVary hAcceptEncoding).map (·.1)))).flatten)
        (hadd h0 hVary hAcceptEncoding)) hContentEncoding = none) :
    (proxyServe C true head dfl req h0 pool u).compressed = false ∧
    (proxyServe C true head dfl req h0 pool u).obs =
      serveBare C (flusherOffered head dfl req) h0 (relay ((hadd h0 hVary hAcceptEncoding).map (·.1)) u) := by
  have hnc : (proxyServe C true head dfl req h0 pool u).compressed = false := by
    cases hc : (proxyServe C true head dfl req h0 pool u).compressed with
    | false => rfl
    | true =>
      exfalso
      have h := (proxy_compress_iff C head dfl req h0 pool u hinfo hfin).mp hc
      have he := h.2.2.2.1
      unfold liveAtStatus at he
      rw [encoded_line_seen u.hdr _ v rest hnone hl] at he
      exact hv he
  refine ⟨hnc, ?_⟩
  simp only [proxyServe, if_true] at hnc ⊢
  exact otherwise_identical C head dfl req h0 pool _ hnc

/-! ### non-vacuity -/

def exchHtml : Exch := { head := false, dfl := true, req := reqGzip, h0 := [], ops := script1 }
def scriptPng : List Op := [.set "Content-Type" "image/png", .w [9, 9]]
def exchPng : Exch := { head := false, dfl := true, req := reqGzip, h0 := [], ops := scriptPng }

-- three exchanges over one handler; the third reuses the writer the first one put back (pool [1] → state 3)
example : ((serveSeq toyCfg [] [exchHtml, exchPng, exchHtml]).map (·.pool)) = [[3], [3], [3]] := by decide
example : (serveSeq toyCfg [5] [exchHtml, exchPng, exchHtml]).map (Served.view toyCfg) =
    [exchHtml, exchPng, exchHtml].map (fun e => (serve toyCfg e.head e.dfl e.req e.h0 [] e.ops).view toyCfg) :=
  history_independent toyCfg toy_roundtrip [5] _

example : configure "" true = .off ∧ configure "^text/" true = .on ∧ configure "(" false = .invalid := by decide

def upHtml : UpResp :=
  { info := [(103, [("Link", "</a.css>; rel=preload")])], code := 200,
    hdr := [("content-type", "text/html"), ("Content-Length", "3"), ("X-Up", "1")],
    chunks := [[1], [2, 3]], flushEach := true }
def upEncoded : UpResp := { upHtml with hdr := ("Content-Encoding", "br") :: upHtml.hdr }

-- compressed through the proxy: the relayed 103 took the Vary line with it (`clear(h)`), Content-Length is gone
example : (proxyServe toyCfg true false true reqGzip [] [] upHtml).compressed = true ∧
    (proxyServe toyCfg true false true reqGzip [] [] upHtml).obs =
      { status := 200, body := [1, 2, 3],
        hdr := [("Content-Type", ["text/html"]), ("X-Up", ["1"]), ("Content-Encoding", ["gzip"])] } := by decide
example : (proxyServe toyCfg true false true reqGzip [] [] upHtml).obs.status = 200 ∧
    toyCfg.comp.decode (proxyServe toyCfg true false true reqGzip [] [] upHtml).obs.body = some [1, 2, 3] :=
  let h := proxy_when_compressed toyCfg toy_roundtrip false true reqGzip [] [] upHtml (by decide) (by decide) (by decide)
  ⟨h.1, h.2.2.2.2⟩
-- an encoded upstream response passes untouched; hypotheses of encoded_upstream_untouched are satisfiable
example : (proxyServe toyCfg true false true reqGzip [] [] upEncoded).compressed = false :=
  (encoded_upstream_untouched toyCfg false true reqGzip [] [] upEncoded (by decide) (by decide) "br" [] (by decide)
    (by decide) (by decide)).1
-- not configured: nothing of the gzip package, not even Vary
example : (proxyServe toyCfg false false true reqGzip [] [] { upHtml with info := [] }).obs.hdr =
    [("Content-Type", ["text/html"]), ("Content-Length", ["3"]), ("X-Up", ["1"])] := by decide
example : lineVals upEncoded.hdr hContentEncoding = ["br"] := by decide

end Fabio.Props.C17Proxy
