import Fabio.Model.C11
import Fabio.Props.C11
/-!
C11, third part — `loadCertificates` as a function of the *set* of file names: which certificates it returns and
when it fails, independent of the order in which Go iterates the map (as a list equality, completing
`loadCertificates_sorted`). "Otherwise the first certificate of the set" is therefore a function of the material.
-/
namespace Fabio.Props.C11Order
open Fabio Fabio.Model.C11 Fabio.Props.C11

/-- the key file that belongs to a certificate file name -/
def keyOfCert (cf : Name) : Name := if hasSuffix cf sCert then replaceSuffix cf sCert sKey else cf

/-- the certificate a certificate file name yields in a material: both files present and a usable pair -/
def certOf (blocks : Blocks) (cf : Name) : Option Nat :=
  match blocks.lookup cf, blocks.lookup (keyOfCert cf) with
  | some c, some k => pairCert c k
  | _, _ => none

theorem hasSuffix_append (a suf : Name) : hasSuffix (a ++ suf) suf = true := by
  simp [hasSuffix]

theorem eq_append_of_hasSuffix (s suf : Name) (h : hasSuffix s suf = true) :
    s = s.take (s.length - suf.length) ++ suf := by
  simp only [hasSuffix, Bool.and_eq_true, decide_eq_true_eq, beq_iff_eq] at h
  conv => lhs; rw [← List.take_append_drop (s.length - suf.length) s]
  rw [h.2]

theorem replaceSuffix_append (a old new : Name) : replaceSuffix (a ++ old) old new = a ++ new := by
  simp [replaceSuffix]

/-- Both names of a pair lead to the same (certificate file, key file). -/
theorem classify_key (name cf kf : Name) (h : classify name = some (cf, kf)) : kf = keyOfCert cf := by
  unfold classify at h
  by_cases h1 : hasSuffix name sCert = true
  · simp only [h1, if_true, Option.some.injEq, Prod.mk.injEq] at h
    obtain ⟨rfl, rfl⟩ := h
    simp [keyOfCert, h1]
  · simp only [h1, Bool.false_eq_true, if_false] at h
    by_cases h2 : hasSuffix name sKey = true
    · simp only [h2, if_true, Option.some.injEq, Prod.mk.injEq] at h
      obtain ⟨rfl, rfl⟩ := h
      have e := eq_append_of_hasSuffix name sKey h2
      have hc : replaceSuffix name sKey sCert = name.take (name.length - sKey.length) ++ sCert := rfl
      rw [keyOfCert, hc, hasSuffix_append, if_pos rfl, replaceSuffix_append]
      exact e
    · simp only [h2, Bool.false_eq_true, if_false] at h
      by_cases h3 : hasSuffix name sPem = true
      · simp only [h3, if_true, Option.some.injEq, Prod.mk.injEq] at h
        obtain ⟨rfl, rfl⟩ := h
        simp [keyOfCert, h1]
      · simp [h3] at h

/-- What `loadOne` does with a name that is examined. -/
theorem loadOne_classified (blocks : Blocks) (acc : LoadAcc) (name cf kf : Name)
    (h : classify name = some (cf, kf)) :
    loadOne blocks acc name =
      if (acc.done.lookup cf).isSome then acc else
      match certOf blocks cf with
      | some id => { acc with done := (cf, id) :: acc.done }
      | none => { acc with failed := true } := by
  have hk := classify_key name cf kf h
  unfold loadOne certOf
  simp only [h, ← hk]
  split
  · rfl
  · cases blocks.lookup cf <;> cases blocks.lookup kf <;> first | rfl | simp

def cfOf (name : Name) : Option Name := (classify name).map Prod.fst

/-- a name whose pair cannot be used -/
def badName (blocks : Blocks) (name : Name) : Bool :=
  match cfOf name with
  | some cf => (certOf blocks cf).isNone
  | none => false

structure Inv (blocks : Blocks) (seen : List Name) (acc : LoadAcc) : Prop where
  failed : acc.failed = true ↔ ∃ n ∈ seen, badName blocks n = true
  done : ∀ cf id, (cf, id) ∈ acc.done ↔ (∃ n ∈ seen, cfOf n = some cf) ∧ certOf blocks cf = some id
  nodup : (acc.done.map Prod.fst).Nodup

theorem lookup_isSome_iff {β : Type} (l : List (Name × β)) (k : Name) :
    (l.lookup k).isSome = true ↔ ∃ v, (k, v) ∈ l := by
  induction l with
  | nil => simp
  | cons a l ih =>
    obtain ⟨a1, a2⟩ := a
    rw [List.lookup_cons]
    by_cases hk : (k == a1) = true
    · have : k = a1 := by simpa using hk
      subst this; simp
    · have hne : k ≠ a1 := by simpa using hk
      simp only [hk]
      rw [ih]
      constructor
      · rintro ⟨v, hv⟩; exact ⟨v, List.mem_cons_of_mem _ hv⟩
      · rintro ⟨v, hv⟩
        rcases List.mem_cons.mp hv with h | h
        · simp only [Prod.mk.injEq] at h; exact absurd h.1 hne
        · exact ⟨v, h⟩

theorem inv_step (blocks : Blocks) (seen : List Name) (acc : LoadAcc) (n : Name) (h : Inv blocks seen acc) :
    Inv blocks (n :: seen) (loadOne blocks acc n) := by
  cases hc : classify n with
  | none =>
    have e : loadOne blocks acc n = acc := by simp [loadOne, hc]
    have hcf : cfOf n = none := by simp [cfOf, hc]
    rw [e]
    refine ⟨?_, ?_, h.nodup⟩
    · rw [h.failed]; simp [badName, hcf]
    · intro cf id; rw [h.done]; simp [hcf]
  | some p =>
    obtain ⟨cf, kf⟩ := p
    have hcf : cfOf n = some cf := by simp [cfOf, hc]
    rw [loadOne_classified blocks acc n cf kf hc]
    by_cases hd : (acc.done.lookup cf).isSome = true
    · simp only [hd, if_true]
      obtain ⟨id0, hid0⟩ := (lookup_isSome_iff _ _).mp hd
      obtain ⟨⟨n0, hn0, hcf0⟩, hcert⟩ := (h.done cf id0).mp hid0
      refine ⟨?_, ?_, h.nodup⟩
      · rw [h.failed]
        constructor
        · rintro ⟨m, hm, hb⟩; exact ⟨m, List.mem_cons_of_mem _ hm, hb⟩
        · rintro ⟨m, hm, hb⟩
          rcases List.mem_cons.mp hm with rfl | hm
          · simp [badName, hcf, hcert] at hb
          · exact ⟨m, hm, hb⟩
      · intro cf' id; rw [h.done]
        constructor
        · rintro ⟨⟨m, hm, hmc⟩, hx⟩; exact ⟨⟨m, List.mem_cons_of_mem _ hm, hmc⟩, hx⟩
        · rintro ⟨⟨m, hm, hmc⟩, hx⟩
          rcases List.mem_cons.mp hm with rfl | hm
          · rw [hcf] at hmc; simp only [Option.some.injEq] at hmc; subst hmc
            exact ⟨⟨n0, hn0, hcf0⟩, hx⟩
          · exact ⟨⟨m, hm, hmc⟩, hx⟩
    · simp only [hd, Bool.false_eq_true, if_false]
      have hnot : ∀ v, (cf, v) ∉ acc.done := fun v hv => hd ((lookup_isSome_iff _ _).mpr ⟨v, hv⟩)
      cases hcert : certOf blocks cf with
      | none =>
        refine ⟨?_, ?_, h.nodup⟩
        · simp only [true_iff]
          exact ⟨n, by simp, by simp [badName, hcf, hcert]⟩
        · intro cf' id
          show (cf', id) ∈ acc.done ↔ _
          rw [h.done]
          constructor
          · rintro ⟨⟨m, hm, hmc⟩, hx⟩; exact ⟨⟨m, List.mem_cons_of_mem _ hm, hmc⟩, hx⟩
          · rintro ⟨⟨m, hm, hmc⟩, hx⟩
            rcases List.mem_cons.mp hm with rfl | hm
            · rw [hcf] at hmc; simp only [Option.some.injEq] at hmc; subst hmc
              rw [hcert] at hx; cases hx
            · exact ⟨⟨m, hm, hmc⟩, hx⟩
      | some id0 =>
        refine ⟨?_, ?_, ?_⟩
        · show acc.failed = true ↔ _
          rw [h.failed]
          constructor
          · rintro ⟨m, hm, hb⟩; exact ⟨m, List.mem_cons_of_mem _ hm, hb⟩
          · rintro ⟨m, hm, hb⟩
            rcases List.mem_cons.mp hm with rfl | hm
            · simp [badName, hcf, hcert] at hb
            · exact ⟨m, hm, hb⟩
        · intro cf' id
          show (cf', id) ∈ (cf, id0) :: acc.done ↔ _
          rw [List.mem_cons, h.done]
          constructor
          · rintro (he | ⟨⟨m, hm, hmc⟩, hx⟩)
            · simp only [Prod.mk.injEq] at he; obtain ⟨rfl, rfl⟩ := he
              exact ⟨⟨n, by simp, hcf⟩, hcert⟩
            · exact ⟨⟨m, List.mem_cons_of_mem _ hm, hmc⟩, hx⟩
          · rintro ⟨⟨m, hm, hmc⟩, hx⟩
            rcases List.mem_cons.mp hm with rfl | hm
            · rw [hcf] at hmc; simp only [Option.some.injEq] at hmc; subst hmc
              rw [hcert] at hx; simp only [Option.some.injEq] at hx; subst hx
              exact Or.inl rfl
            · exact Or.inr ⟨⟨m, hm, hmc⟩, hx⟩
        · show (((cf, id0) :: acc.done).map Prod.fst).Nodup
          simp only [List.map_cons, List.nodup_cons]
          refine ⟨?_, h.nodup⟩
          intro hmem
          obtain ⟨⟨k, v⟩, hv, rfl⟩ := List.mem_map.mp hmem
          exact hnot v hv

theorem inv_fold (blocks : Blocks) (l seen : List Name) (acc : LoadAcc) (h : Inv blocks seen acc) :
    Inv blocks (l.reverse ++ seen) (l.foldl (loadOne blocks) acc) := by
  induction l generalizing seen acc with
  | nil => simpa using h
  | cons n l ih =>
    have := ih (n :: seen) (loadOne blocks acc n) (inv_step blocks seen acc n h)
    simpa [List.reverse_cons, List.append_assoc] using this

theorem inv_order (blocks : Blocks) (order : List Name) :
    Inv blocks order.reverse (order.foldl (loadOne blocks) ⟨[], false⟩) := by
  have := inv_fold blocks order [] ⟨[], false⟩ ⟨by simp, by simp, by simp⟩
  simpa using this

theorem insertSorted_perm {α : Type} (le : α → α → Bool) (x : α) (l : List α) : (insertSorted le x l).Perm (x :: l) := by
  induction l with
  | nil => simp [insertSorted]
  | cons y ys ih =>
    simp only [insertSorted]; split
    · exact List.Perm.refl _
    · exact (List.Perm.cons y ih).trans (List.Perm.swap x y ys)

theorem isort_perm {α : Type} (le : α → α → Bool) (l : List α) : (isort le l).Perm l := by
  induction l with
  | nil => simp [isort]
  | cons x xs ih => exact (insertSorted_perm le x _).trans (List.Perm.cons x ih)

/-- `loadCertificates` says exactly this: it fails iff the material holds a name whose pair cannot be used;
otherwise the certificates are those of the certificate files some name of the material leads to — each once. -/
theorem loadCertificates_characterised (blocks : Blocks) (order : List Name) :
    (loadCertificates blocks order = none ↔ ∃ n ∈ order, badName blocks n = true) ∧
    ∀ l, loadCertificates blocks order = some l →
      (∀ cf id, (cf, id) ∈ l ↔ (∃ n ∈ order, cfOf n = some cf) ∧ certOf blocks cf = some id) ∧
      (l.map Prod.fst).Nodup := by
  have inv := inv_order blocks order
  unfold loadCertificates
  simp only
  by_cases hf : (order.foldl (loadOne blocks) ⟨[], false⟩).failed = true
  · simp only [hf, if_true, true_iff, reduceCtorEq, false_implies, implies_true, and_true]
    obtain ⟨n, hn, hb⟩ := inv.failed.mp hf
    exact ⟨n, by simpa using hn, hb⟩
  · simp only [hf, Bool.false_eq_true, if_false, reduceCtorEq, false_iff, Option.some.injEq]
    refine ⟨?_, ?_⟩
    · rintro ⟨n, hn, hb⟩
      exact hf (inv.failed.mpr ⟨n, by simpa using hn, hb⟩)
    · rintro l rfl
      refine ⟨?_, ?_⟩
      · intro cf id
        rw [(isort_perm _ _).mem_iff, inv.done]
        simp
      · exact ((isort_perm _ _).map Prod.fst).nodup_iff.mpr inv.nodup

/-- **The published list does not depend on the iteration order of the Go map** — as a list, not only in its
order: two iteration orders over the same names give the same failure or the very same list of certificates. -/
theorem loadCertificates_order_irrelevant (blocks : Blocks) (o1 o2 : List Name) (h : ∀ n, n ∈ o1 ↔ n ∈ o2) :
    loadCertificates blocks o1 = loadCertificates blocks o2 := by
  obtain ⟨f1, c1⟩ := loadCertificates_characterised blocks o1
  obtain ⟨f2, c2⟩ := loadCertificates_characterised blocks o2
  cases h1 : loadCertificates blocks o1 with
  | none =>
    obtain ⟨n, hn, hb⟩ := f1.mp h1
    exact (f2.mpr ⟨n, (h n).mp hn, hb⟩).symm
  | some l1 =>
    cases h2 : loadCertificates blocks o2 with
    | none =>
      obtain ⟨n, hn, hb⟩ := f2.mp h2
      rw [f1.mpr ⟨n, (h n).mpr hn, hb⟩] at h1; cases h1
    | some l2 =>
      obtain ⟨m1, n1⟩ := c1 l1 h1
      obtain ⟨m2, n2⟩ := c2 l2 h2
      have hmem : ∀ a, a ∈ l1 ↔ a ∈ l2 := by
        rintro ⟨cf, id⟩
        rw [m1, m2]
        constructor
        · rintro ⟨⟨n, hn, hc⟩, hx⟩; exact ⟨⟨n, (h n).mp hn, hc⟩, hx⟩
        · rintro ⟨⟨n, hn, hc⟩, hx⟩; exact ⟨⟨n, (h n).mpr hn, hc⟩, hx⟩
      have nd1 : l1.Nodup := List.Pairwise.of_map Prod.fst (fun a b hne e => hne (congrArg Prod.fst e)) n1
      have nd2 : l2.Nodup := List.Pairwise.of_map Prod.fst (fun a b hne e => hne (congrArg Prod.fst e)) n2
      have hperm : l1.Perm l2 := (List.perm_ext_iff_of_nodup nd1 nd2).mpr hmem
      have s1 := loadCertificates_sorted blocks o1 l1 h1
      have s2 := loadCertificates_sorted blocks o2 l2 h2
      congr 1
      refine List.Perm.eq_of_pairwise (le := fun a b => lexLe a.1 b.1 = true) ?_ s1 s2 hperm
      rintro ⟨ca, ia⟩ ⟨cb, ib⟩ ha hb hab hba
      have e : ca = cb := lexLe_antisymm ca cb hab hba
      subst e
      have ha' := (m1 ca ia).mp ha
      have hb' := (m2 ca ib).mp hb
      rw [ha'.2] at hb'
      simp only [Option.some.injEq] at hb'
      rw [hb'.2]

-- non-vacuity: a material with a pair, two single files, a stray text file; three iteration orders, one list
example :
    let blocks : Blocks := [("z.pem".toList, ⟨some 1, some 1, 0⟩), ("a-key.pem".toList, ⟨none, some 0, 0⟩),
      ("B.pem".toList, ⟨some 2, some 2, 0⟩), ("a-cert.pem".toList, ⟨some 0, none, 0⟩), ("notes.txt".toList, ⟨none, none, 0⟩)]
    let o := blocks.map (·.1)
    loadCertificates blocks o = some [("B.pem".toList, 2), ("a-cert.pem".toList, 0), ("z.pem".toList, 1)] ∧
    loadCertificates blocks o.reverse = loadCertificates blocks o ∧
    loadCertificates blocks (o ++ o) = loadCertificates blocks o ∧
    cfOf "a-key.pem".toList = some "a-cert.pem".toList ∧ keyOfCert "a-cert.pem".toList = "a-key.pem".toList ∧
    certOf blocks "a-cert.pem".toList = some 0 ∧ badName blocks "a-key.pem".toList = false := by
  intro blocks o
  refine ⟨by decide, ?_, ?_, by decide, by decide, by decide, by decide⟩
  · exact loadCertificates_order_irrelevant blocks _ _ (by simp)
  · exact loadCertificates_order_irrelevant blocks _ _ (by simp)

-- a key that belongs to another certificate spoils the material whichever of the two names comes first
example :
    let blocks : Blocks := [("a-cert.pem".toList, ⟨some 0, none, 0⟩), ("a-key.pem".toList, ⟨none, some 1, 0⟩), ("z.pem".toList, ⟨some 1, some 1, 0⟩)]
    badName blocks "a-key.pem".toList = true ∧ badName blocks "a-cert.pem".toList = true ∧
    loadCertificates blocks ["z.pem".toList, "a-key.pem".toList, "a-cert.pem".toList] = none ∧
    loadCertificates blocks ["a-cert.pem".toList, "z.pem".toList, "a-key.pem".toList] = none := by decide

end Fabio.Props.C11Order
