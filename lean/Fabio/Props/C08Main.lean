import Fabio.Model.C08Main
import Fabio.Props.C08Serve
/-!
C08 — the sentences of the property **from the operator's options to what the upstream receives**: `config.Load`
for the header options (command line / environment / properties file, with their precedence and the handling of
values that do not parse), `main.startServers` (every HTTP listener, plain or TLS, serves a proxy with the loaded
configuration; `r.TLS` is set on the TLS listener only) and `HTTPProxy.ServeHTTP` composed.

"For every header-related configuration" now quantifies over what an operator can write (`Opts`), not over
`config.Proxy` values, and "exactly when the client connection used TLS" over the listener the client connected
to. The model is tied to the code by the stream `c08.main`, which runs the real executable.
-/
namespace Fabio.Props.C08Main
open Fabio Fabio.Model.C08 Fabio.Props.C08 Fabio.Props.C08Serve

/-! ### `loadCfg`: every option is bound to its field -/

/-- What `config.Load` makes of the options, field by field. -/
theorem loadCfg_fields {d : Str} {o : Opts} {cfg : Cfg} (h : loadCfg d o = some cfg) :
    cfg.clientIPHeader = optStr optClientIP o ∧ cfg.tlsHeader = optStr optTLS o ∧
    cfg.tlsHeaderValue = optStr optTLSValue o ∧ cfg.requestID = optStr optRequestID o ∧
    cfg.localIP = (optGet optLocalIP o).getD d ∧
    optInt optSTSMaxAge o = some cfg.stsMaxAge ∧ optBool optSTSSubdomains o = some cfg.stsSubdomains ∧
    optBool optSTSPreload o = some cfg.stsPreload := by
  unfold loadCfg at h
  split at h
  · rename_i age sub pre ha hs hp
    cases h
    exact ⟨rfl, rfl, rfl, rfl, rfl, ha, hs, hp⟩
  · cases h

/-- **Without configuration fabio adds none of the optional headers**: no client-IP header, no TLS header, no
request id, no Strict-Transport-Security; `Forwarded` carries `by=<this machine>`. -/
theorem loadCfg_defaults (d : Str) : loadCfg d [] = some { localIP := d } := rfl

/-- fabio starts unless a header option *on the command line* has a value that does not parse. -/
theorem loadCfg_none_iff (d : Str) (o : Opts) :
    loadCfg d o = none ↔
      optInt optSTSMaxAge o = none ∨ optBool optSTSSubdomains o = none ∨ optBool optSTSPreload o = none := by
  unfold loadCfg
  cases optInt optSTSMaxAge o <;> cases optBool optSTSSubdomains o <;> cases optBool optSTSPreload o <;> simp

/-- A typed option is refused only when its value came from the command line. -/
theorem optInt_none_only_from_cmdline (name : Str) (o : Opts) (h : optInt name o = none) :
    ∃ s, optFind name o = some (.arg, s) ∧ (∀ v, parseInt64 s ≠ .ok v) := by
  unfold optInt at h
  split at h
  · cases h
  · rename_i src s hf
    split at h
    · cases h
    · exact ⟨s, by rw [hf], fun v hv => by simp_all⟩
    · cases h
    · cases h

/-- The command line wins over the environment and the file. -/
theorem optFind_cmdline_wins (name v : Str) (o : Opts) (h : lastOf .arg name o = some v) :
    optFind name o = some (.arg, v) := by
  simp [optFind, h]

/-- `FABIO_<NAME>` wins over the bare `<NAME>` and over the file when the command line is silent. -/
theorem optFind_env_over_file (name v : Str) (o : Opts) (ha : lastOf .arg name o = none)
    (he : lastOf .envFabio name o = some v) : optFind name o = some (.envFabio, v) := by
  simp [optFind, ha, he]

/-- An option nobody wrote has no value (the field keeps its default). -/
theorem optFind_absent (name : Str) (o : Opts) (h : ∀ e ∈ o, e.name ≠ name) : optFind name o = none := by
  have hl : ∀ src, lastOf src name o = none := by
    intro src
    induction o with
    | nil => rfl
    | cons e t ih =>
      have ht := ih (fun e' he' => h e' (List.mem_cons_of_mem _ he'))
      have hne : (e.name == name) = false := by
        have := h e List.mem_cons_self
        simpa using this
      simp [lastOf, ht, hne]
  simp [optFind, hl]

/-! ### the listener decides `r.TLS` -/

theorem onListener_tls (l : Listener) (st : TLS) (r : Req) : (onListener l st r).tls.isSome = l.tls := by
  cases l <;> rfl

theorem onListener_headers (l : Listener) (st : TLS) (r : Req) : (onListener l st r).headers = r.headers := rfl
theorem onListener_remote (l : Listener) (st : TLS) (r : Req) : (onListener l st r).remoteAddr = r.remoteAddr := rfl
theorem onListener_host (l : Listener) (st : TLS) (r : Req) : (onListener l st r).host = r.host := rfl

theorem mainServe_loaded {d : Str} {o : Opts} {cfg : Cfg} (h : loadCfg d o = some cfg) (l : Listener) (st : TLS)
    (uuid : Str) (route : Option Route) (r : Req) :
    mainServe d o l st uuid route r = some (serveHTTP cfg uuid route (onListener l st r)) := by
  simp [mainServe, h]

/-- A refused configuration serves nothing. -/
theorem main_refused_serves_nothing {d : Str} {o : Opts} (h : loadCfg d o = none) (l : Listener) (st : TLS)
    (uuid : Str) (route : Option Route) (r : Req) : mainServe d o l st uuid route r = none := by
  simp [mainServe, h]

/-! ### the sentences, from options to upstream -/

/-- **Sentence 2 end to end.** The operator wrote `proxy.header.tls = name` (in whatever source wins) and
`proxy.header.tls.value = value`; then, for every client request on every HTTP listener, the upstream finds
`name` with `value`, once, when the client connected to the TLS listener, and not at all when it connected to the plain listener — whatever copies of the header (any casing, repeated) and whatever `Connection` header the
client sent. In particular the plain listener's proxy *has* the TLS header configured (seeded change m12 removed
it there "because such a listener never sees TLS": the forged copies then pass). -/
theorem main_tls_header_iff_tls_listener (d : Str) (o : Opts) (cfg : Cfg) (l : Listener) (st : TLS) (uuid : Str)
    (t : Route) (r : Req) (ip port name : Str)
    (hload : loadCfg d o = some cfg)
    (hname : optGet optTLS o = some name) (hne : name ≠ [])
    (hred : (t.redirectCode != 0 && t.hasRedirectURL) = false)
    (hsplit : splitHostPort r.remoteAddr = some (ip, port))
    (hcn : canonicalKey name ≠ connection) (hx : canonicalKey name ≠ xForwardedFor)
    (hf : canonicalKey name ∉ fixedHopByHop) :
    ∃ k host sent resp, mainServe d o l st uuid (some t) r = some (.forward k host sent resp) ∧
      (l.tls = true → entries (canonicalKey name) sent = [(canonicalKey name, [optStr optTLSValue o])]) ∧
      (l.tls = false → entries (canonicalKey name) sent = []) := by
  obtain ⟨_, htl, htv, _⟩ := loadCfg_fields hload
  have hn : cfg.tlsHeader = name := by rw [htl, optStr, hname]; rfl
  rw [mainServe_loaded hload]
  obtain ⟨k, host, sent, resp, hs, h1, h2⟩ := upstream_tls_header_iff_tls cfg uuid t (onListener l st r) ip port hred
    (by rw [onListener_remote]; exact hsplit) (by rw [hn]; exact hne) (by rw [hn]; exact hcn) (by rw [hn]; exact hx)
    (by rw [hn]; exact hf)
  refine ⟨k, host, sent, resp, by rw [hs], ?_, ?_⟩
  · intro hl
    have := h1 (by rw [onListener_tls, hl])
    rw [hn, htv] at this
    exact this
  · intro hl
    have := h2 (by rw [onListener_tls, hl])
    rw [hn] at this
    exact this

/-- **Sentence 1 end to end, client-IP header.** `proxy.header.clientip = name` ⇒ on every listener the upstream
finds the peer address under `name`, once, whatever the client sent. -/
theorem main_clientip_is_peer (d : Str) (o : Opts) (cfg : Cfg) (l : Listener) (st : TLS) (uuid : Str)
    (t : Route) (r : Req) (ip port name : Str)
    (hload : loadCfg d o = some cfg)
    (hname : optGet optClientIP o = some name) (hne : name ≠ [])
    (hxf : name ≠ xForwardedFor) (hxr : name ≠ xRealIp)
    (hred : (t.redirectCode != 0 && t.hasRedirectURL) = false)
    (hsplit : splitHostPort r.remoteAddr = some (ip, port))
    (hk : canonicalKey name ∉
      [xRealIp, xForwardedFor, xForwardedProto, xForwardedPort, xForwardedHost, xForwardedPrefix, forwarded, connection])
    (ht : optStr optTLS o = [] ∨ canonicalKey (optStr optTLS o) ≠ canonicalKey name)
    (hf : canonicalKey name ∉ fixedHopByHop) :
    ∃ k host sent resp, mainServe d o l st uuid (some t) r = some (.forward k host sent resp) ∧
      entries (canonicalKey name) sent = [(canonicalKey name, [ip])] := by
  obtain ⟨hci, htl, _⟩ := loadCfg_fields hload
  have hn : cfg.clientIPHeader = name := by rw [hci, optStr, hname]; rfl
  rw [mainServe_loaded hload]
  obtain ⟨k, host, sent, resp, hs, he⟩ := upstream_clientip_is_peer cfg uuid t (onListener l st r) ip port hred
    (by rw [onListener_remote]; exact hsplit) (by rw [hn]; exact hne) (by rw [hn]; exact hxf) (by rw [hn]; exact hxr)
    (by rw [hn]; exact hk) (by unfold TLSKeyFree; rw [hn, htl]; exact ht) (by rw [hn]; exact hf)
  exact ⟨k, host, sent, resp, by rw [hs], by rw [hn] at he; exact he⟩

/-- **Sentence 1 end to end, X-Forwarded-For.** Whatever the operator configured (as long as no configured
header is itself called `Upgrade` or `X-Forwarded-For`), on every listener, for every routed request, websocket
or not: the upstream's X-Forwarded-For is one line ending in the peer address. -/
theorem main_xff_last_is_peer (d : Str) (o : Opts) (cfg : Cfg) (l : Listener) (st : TLS) (uuid : Str)
    (t : Route) (r : Req) (ip port : Str)
    (hload : loadCfg d o = some cfg)
    (hred : (t.redirectCode != 0 && t.hasRedirectURL) = false)
    (hsplit : splitHostPort r.remoteAddr = some (ip, port))
    (hcu : ClientIPKeyFree cfg upgrade) (htu : TLSKeyFree cfg upgrade)
    (hcx : ClientIPKeyFree cfg xForwardedFor) (htx : TLSKeyFree cfg xForwardedFor) (hqx : RequestIDKeyFree cfg xForwardedFor)
    (hnil : vals xForwardedFor r.headers ≠ some [])
    (hc : ',' ∉ ip) (hs : ip.head? ≠ some ' ') :
    ∃ k host sent resp v, mainServe d o l st uuid (some t) r = some (.forward k host sent resp) ∧
      entries xForwardedFor sent = [(xForwardedFor, [v])] ∧ lastElem v = ip := by
  rw [mainServe_loaded hload]
  obtain ⟨k, host, sent, resp, v, h1, h2, h3⟩ := upstream_xff_last_is_peer cfg uuid t (onListener l st r) ip port hred
    (by rw [onListener_remote]; exact hsplit) hcu htu hcx htx hqx (by rw [onListener_headers]; exact hnil) hc hs
  exact ⟨k, host, sent, resp, v, by rw [h1], h2, h3⟩

/-- **Sentence 5 end to end.** A client of the plain listener never reads Strict-Transport-Security, whatever the
operator configured and whatever route or exit handles the request. -/
theorem main_sts_never_on_plain_listener (d : Str) (o : Opts) (st : TLS) (uuid : Str) (route : Option Route) (r : Req)
    (s : Served) (h : mainServe d o .http st uuid route r = some s) : clientSTS s = [] := by
  unfold mainServe at h
  cases hl : loadCfg d o with
  | none => simp [hl] at h
  | some cfg =>
    simp [hl] at h
    rw [← h]
    exact client_sts_only_on_tls cfg uuid route _ rfl

/-- … and on the TLS listener, with `proxy.header.sts.maxage` a positive number, every response fabio writes
itself carries the header once, with that number (capped at MaxInt32) and the configured directives. -/
theorem main_sts_on_tls_listener (d : Str) (o : Opts) (cfg : Cfg) (l : Listener) (st : TLS) (uuid : Str) (t : Route) (r : Req)
    (ip port : Str) (age : Int) (hl : l.tls = true)
    (hload : loadCfg d o = some cfg)
    (hage : optInt optSTSMaxAge o = some age) (hpos : age > 0)
    (hred : (t.redirectCode != 0 && t.hasRedirectURL) = false)
    (hsplit : splitHostPort r.remoteAddr = some (ip, port))
    (hws : isWebsocket (withRequestID cfg uuid r).headers = false)
    (hcu : ClientIPKeyFree cfg upgrade) (htu : TLSKeyFree cfg upgrade) :
    ∃ s, mainServe d o l st uuid (some t) r = some s ∧ clientSTS s = [stsValue cfg] ∧ cfg.stsMaxAge = age := by
  obtain ⟨_, _, _, _, _, ha, _⟩ := loadCfg_fields hload
  have hae : cfg.stsMaxAge = age := by rw [hage] at ha; exact (Option.some.inj ha).symm
  refine ⟨_, mainServe_loaded hload _ _ _ _ _, ?_, hae⟩
  exact client_sts_on_tls cfg uuid t (onListener l st r) ip port hred hsplit (by rw [onListener_tls, hl])
    (by rw [hae]; exact hpos) hws hcu htu

/-- **X-Forwarded-Host / -Port end to end**: the host the client asked for and its port (else 443 on the TLS
listener, 80 on the plain one), for every `host=` option of the route. -/
theorem main_xfhost_xfport (d : Str) (o : Opts) (cfg : Cfg) (l : Listener) (st : TLS) (uuid : Str)
    (t : Route) (r : Req) (ip port : Str)
    (hload : loadCfg d o = some cfg)
    (hred : (t.redirectCode != 0 && t.hasRedirectURL) = false)
    (hsplit : splitHostPort r.remoteAddr = some (ip, port))
    (hxh : get1 xForwardedHost r.headers = []) (hxp : get1 xForwardedPort r.headers = []) (hh : r.host ≠ [])
    (hqh : RequestIDKeyFree cfg xForwardedHost) (hch : ClientIPKeyFree cfg xForwardedHost) (hth : TLSKeyFree cfg xForwardedHost)
    (hqp : RequestIDKeyFree cfg xForwardedPort) (hcp : ClientIPKeyFree cfg xForwardedPort) (htp : TLSKeyFree cfg xForwardedPort) :
    ∃ kind sent resp, mainServe d o l st uuid (some t) r =
        some (.forward kind (overrideHost t.hostOpt t.targetHost r.host) sent resp) ∧
      entries xForwardedHost sent = [(xForwardedHost, [r.host])] ∧
      entries xForwardedPort sent = [(xForwardedPort, [localPort r.host l.tls])] := by
  rw [mainServe_loaded hload]
  obtain ⟨kind, sent, resp, h1, h2, h3⟩ := upstream_xfhost_xfport cfg uuid t (onListener l st r) ip port hred hsplit
    hxh hxp hh hqh hch hth hqp hcp htp
  refine ⟨kind, sent, resp, by rw [h1]; rfl, h2, ?_⟩
  rw [onListener_tls] at h3
  exact h3

/-! ### `parseInt64` on what operators write -/

/-- digits of a number, most significant first -/
def digitsOf (ds : List Nat) : Str := ds.map fun d => Char.ofNat (48 + d)

/-- value of a decimal digit list -/
def decValue (ds : List Nat) : Nat := ds.foldl (fun a d => a * 10 + d) 0

theorem parseNatBase_digits_aux (ds : List Nat) (hd : ∀ x ∈ ds, x < 10) (a : Nat) :
    (digitsOf ds).foldl (fun acc c =>
      match acc, digitVal c with
      | some a, some d => if d < 10 then some (a * 10 + d) else none
      | _, _ => none) (some a) = some (ds.foldl (fun a d => a * 10 + d) a) := by
  induction ds generalizing a with
  | nil => rfl
  | cons x xs ih =>
    have hx : x < 10 := hd x List.mem_cons_self
    have hdv : digitVal (Char.ofNat (48 + x)) = some x := by
      have : x = 0 ∨ x = 1 ∨ x = 2 ∨ x = 3 ∨ x = 4 ∨ x = 5 ∨ x = 6 ∨ x = 7 ∨ x = 8 ∨ x = 9 := by omega
      rcases this with h | h | h | h | h | h | h | h | h | h <;> subst h <;> decide
    simp only [digitsOf, List.map_cons, List.foldl_cons]
    rw [hdv]
    simp only [hx, if_true]
    exact ih (fun y hy => hd y (List.mem_cons_of_mem _ hy)) _

/-- **Decimal numbers parse to their value**: a non-empty digit string without a leading zero, below 2⁶³. -/
theorem parseInt64_decimal (x : Nat) (xs : List Nat) (hx : 0 < x ∧ x < 10) (hd : ∀ y ∈ xs, y < 10)
    (hr : decValue (x :: xs) ≤ 9223372036854775807) :
    parseInt64 (digitsOf (x :: xs)) = .ok (decValue (x :: xs)) := by
  have hall : ∀ y ∈ x :: xs, y < 10 := by
    intro y hy
    rcases List.mem_cons.mp hy with h | h
    · rw [h]; exact hx.2
    · exact hd y h
  have hpn : parseNatBase 10 (digitsOf (x :: xs)) = some (decValue (x :: xs)) := by
    unfold parseNatBase
    have : (digitsOf (x :: xs)).isEmpty = false := rfl
    rw [this]
    exact parseNatBase_digits_aux (x :: xs) hall 0
  have hc : ∃ c, Char.ofNat (48 + x) = c ∧ c ≠ '0' ∧ c ≠ '-' ∧ c ≠ '+' := by
    refine ⟨_, rfl, ?_⟩
    have : x = 1 ∨ x = 2 ∨ x = 3 ∨ x = 4 ∨ x = 5 ∨ x = 6 ∨ x = 7 ∨ x = 8 ∨ x = 9 := by omega
    rcases this with h | h | h | h | h | h | h | h | h <;> subst h <;> decide
  obtain ⟨c, hce, h0, hm, hp⟩ := hc
  have hshape : digitsOf (x :: xs) = c :: digitsOf xs := by simp [digitsOf, hce]
  have hu : parseUnsigned0 (digitsOf (x :: xs)) = some (decValue (x :: xs)) := by
    rw [← hpn, hshape]
    unfold parseUnsigned0
    split <;> simp_all
  have hss : signSplit (digitsOf (x :: xs)) = (false, digitsOf (x :: xs)) := by
    rw [hshape]
    unfold signSplit
    split <;> simp_all
  unfold parseInt64
  rw [hss]
  simp only [hu]
  have h1 : ¬ ((decValue (x :: xs) : Int) < -9223372036854775808) := by omega
  have h2 : ¬ ((decValue (x :: xs) : Int) > 9223372036854775807) := by omega
  simp [h1, h2]

/-! ### non-vacuity -/

def exOpts : Opts :=
  [⟨.file, optTLS, "X-File".toList⟩, ⟨.envFabio, optTLS, "X-Env".toList⟩, ⟨.arg, optTLS, "x-tls".toList⟩,
   ⟨.envBare, optTLSValue, "on".toList⟩, ⟨.arg, optClientIP, "X-Client-Ip".toList⟩,
   ⟨.file, optSTSMaxAge, "31536000".toList⟩, ⟨.envFabio, optSTSSubdomains, "T".toList⟩,
   ⟨.file, optRequestID, "X-Request-Id".toList⟩, ⟨.arg, optLocalIP, "5.6.7.8".toList⟩]

example : (loadCfg "192.0.2.2".toList exOpts).map (fun c => (c.clientIPHeader, c.tlsHeader, c.tlsHeaderValue, c.localIP,
      c.stsMaxAge, c.stsSubdomains, c.stsPreload, c.requestID)) =
    some (exCfg.clientIPHeader, exCfg.tlsHeader, exCfg.tlsHeaderValue, exCfg.localIP, exCfg.stsMaxAge, exCfg.stsSubdomains,
      exCfg.stsPreload, exCfg.requestID) := by rfl
example : optFind optTLS exOpts = some (.arg, "x-tls".toList) := by decide
-- the plain listener removes the forged copies, the TLS listener overwrites them
example : (match mainServe [] exOpts .http ⟨0x0303, 0xc02f⟩ "id".toList (some exRoute) (exReq none) with
    | some (.forward _ _ sent _) => entries "X-Tls".toList sent | _ => [("?".toList, [])]) = [] := by decide
example : (match mainServe [] exOpts .https ⟨0x0303, 0xc02f⟩ "id".toList (some exRoute) (exReq none) with
    | some (.forward _ _ sent _) => entries "X-Tls".toList sent | _ => []) = [("X-Tls".toList, ["on".toList])] := by decide
example : (match mainServe [] exOpts .https ⟨0x0303, 0xc02f⟩ "id".toList (some exRoute) exListReq with
    | some s => clientSTS s | none => []) = ["max-age=31536000; includeSubdomains".toList] := by decide
example : (match mainServe [] exOpts .http ⟨0x0303, 0xc02f⟩ "id".toList (some exRoute) exListReq with
    | some s => clientSTS s | none => ["?".toList]) = [] := by decide
-- values that do not parse: refused on the command line, zero / saturated from the other sources
example : loadCfg [] [⟨.arg, optSTSMaxAge, "abc".toList⟩] = none := by decide
example : (loadCfg [] [⟨.envFabio, optSTSMaxAge, "abc".toList⟩]).map (·.stsMaxAge) = some 0 := by decide
example : (loadCfg [] [⟨.file, optSTSMaxAge, "99999999999999999999".toList⟩]).map (·.stsMaxAge) = some 9223372036854775807 := by decide
example : (loadCfg [] [⟨.file, optSTSMaxAge, "0x10".toList⟩]).map (·.stsMaxAge) = some 16 := by decide
example : (loadCfg [] [⟨.file, optSTSMaxAge, "010".toList⟩]).map (·.stsMaxAge) = some 8 := by decide
example : loadCfg [] [⟨.arg, optSTSPreload, "yes".toList⟩] = none := by decide
example : parseInt64 (digitsOf [3, 1, 5, 3, 6, 0, 0, 0]) = .ok 31536000 := by decide
example : optFind optTLS [⟨.file, optClientIP, "X".toList⟩] = none := by decide

end Fabio.Props.C08Main
