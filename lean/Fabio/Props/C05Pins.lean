import Fabio.Generated.C05
import Fabio.Model.Parse
/-!
CHANGE DETECTORS for C05 (`"pins_module"` in checks/C05.json): the shape of sequential, deterministic code whose
input/output behaviour a correspondence stream compares with the model on every run. When one of these stops
building nothing is claimed broken — the streams run at the widened budget with a second seed and decide. Each
statement names the stream that carries the tie. (Shapes: `_` = any local/parameter/receiver, `ƒ` = an unexported
same-package callee, `g` = a package-level variable; see the header of `tools/factgen/c05.go`.)
-/
namespace Fabio.Props.C05Pins
open Fabio Fabio.Generated.C05 Fabio.Model.Parse

/-- closes conjunctions of closed equalities between literals -/
syntax "pin" : tactic
macro_rules | `(tactic| pin) => `(tactic| first | rfl | (apply And.intro <;> pin))

/-- extraction problems in the pinned code (a handler or format the extractor no longer recognises) -/
theorem no_extraction_notes : pinNotes = [] := by pin

/-! ### the command language — `c05.line` (10⁴–10⁶ single lines through the real regexes), `c05.text` -/

/-- the order in which `Parse` and the three command parsers try the regular expressions (`parseLine`,
`parseRouteDel`, `parseRouteWeight` try them in this order; `reDelSvcTags`/`reDelTags` are mutually exclusive, so
their order is behaviour-preserving either way) -/
theorem regex_try_order : regexEvents =
    ["match:^(#|//)", "match:^\\s*$",
     "match:^route\\s+add",
     "find:^route\\s+add\\s+(\\S+)\\s+(\\S+)\\s+(\\S+)(\\s+weight\\s+(\\S+))?(\\s+tags\\s+\"([^\"]*)\")?(\\s+opts\\s+\"([^\"]*)\")?$",
     "match:^route\\s+del",
     "find:^route\\s+del\\s+(\\S+)\\s+tags\\s+\"([^\"]*)\"$",
     "find:^route\\s+del\\s+tags\\s+\"([^\"]*)\"$",
     "find:^route\\s+del\\s+(\\S+)(\\s+(\\S+)(\\s+(\\S+))?)?$",
     "match:^route\\s+weight",
     "find:^route\\s+weight\\s+(\\S+)\\s+(\\S+)\\s+weight\\s+(\\S+)(\\s+tags\\s+\"([^\"]*)\")?$",
     "find:^route\\s+weight\\s+(\\S+)\\s+weight\\s+(\\S+)\\s+tags\\s+\"([^\"]*)\"$"] := by pin

/-- the string functions reached from `Parse`: `TrimSpace` for the line and the tags, `Split` on `,`, `Fields` and
`SplitN(·, "=", 2)` for the options, `ParseFloat(·, 64)` for the weight — `c05.line` (tags and options with
Unicode white space, repeated keys, keys without value, the weight vocabulary) -/
theorem parse_lib_calls : parseLibCalls =
    ["strconv.ParseFloat(_, 64)", "strings.Fields(_)", "strings.Split(_, \",\")", "strings.SplitN(_, \"=\", 2)",
     "strings.TrimSpace(_)"] := by pin

/-- `Parse` trims each line once, reads with a default `bufio.Scanner` (64 KiB tokens = `maxToken`) and reports
the scanner's error (D29) — `c05.text` (corpus: lines of 65535/65536 bytes; generator: 1 case in 150) -/
theorem scanner_facts :
    parseUsesNewScanner = true ∧ parseTrimsSpace = true ∧ parseSetsScannerBuffer = false ∧
    parseChecksScannerErr = true ∧ maxScanTokenSize = maxToken := by pin

/-! ### table commands — `c05.script` (NewTableCustom), `c05.text` (NewTable) -/

/-- all three commands lower-case the host somewhere on their path (D04); `NewTable` sorts at the end —
`c05.script` re-cases every host (also bare hosts without path) and checks the descending order -/
theorem hosts_lowered : addLowersHost = true ∧ delLowersHost = true ∧ weightLowersHost = true ∧ newTableSorts = true := by pin

theorem hostpath_shape :
    hostpathCalls = ["strings.HasPrefix(_, \":\")", "strings.SplitN(_, \"/\", 2)"] := by pin

/-- the four forms of `route del`, what each removes, and that hosts are deleted from the table -/
theorem del_shape :
    delCases = ["len(_.Tags) > 0", "_.Src == \"\" && _.Dst == \"\"", "_.Dst == \"\""] ∧
    delPredicates = ["(_.Service == \"\" || _.Service == _.Service) && ƒ(_.Tags, _.Tags)",
      "_.Service == _.Service", "_.Service == _.Service",
      "_.Service == _.Service && _.URL.String() == _.String()"] ∧
    delDeletesHosts = true := by pin

/-- `route add`: negative weights are clamped, then the de-duplication on service, URL string, fixed weight, tags -/
theorem add_shape :
    addClampAndDedup = ["_ < 0",
      "_.Service == _ && _.URL.String() == _.String() && _.FixedWeight == _ && reflect.DeepEqual(_.Tags, _)"] := by pin

/-- `route weight`: which targets match, and the share is divided by their number -/
theorem weight_shape :
    weightMatchConds = ["_ != \"\" && _.Service != _", "len(_) > 0 && !ƒ(_.Tags, _)"] ∧
    weightDividesByMatches = true := by pin

/-- `validWeight` is consulted after the prefix (and target) checks — `c05.script` / `c05.text` draw NaN/±Inf
weights on commands with and without an earlier failure (`applyW`) -/
theorem weight_guard_order :
    addFieldGuards = ["_.Src == \"\"", "_.Dst == \"\"", "!ƒ(_.Weight)"] ∧
    weightFieldGuards = ["_.Src == \"\"", "!ƒ(_.Weight)"] := by pin

/-- the option keys `addTarget` reads and the 3xx range of `redirect` — `c05.script` / `c05.text` compare every
derived field of every target with `derive` -/
theorem option_keys :
    addOptionKeys = ["auth", "host", "prepend", "proto", "pxyproto", "redirect", "strip", "tlsskipverify"] ∧
    redirectRangeConds = ["_.RedirectCode < 300 || _.RedirectCode > 399"] := by pin

/-- `Routes.Less(i, j)`: lower-cased paths descending, ties by the raw path descending (`pathLt`) — `c05.script`,
`c05.text` check strict descending order of every host's routes -/
theorem less_shape : lessEvents =
    ["v0, v1 := strings.ToLower(recv[p0].Path), strings.ToLower(recv[p1].Path)", "if v0 != v1",
     "return v1 < v0", "return recv[p1].Path < recv[p0].Path"] := by pin

/-! ### rendering — `c05.roundtrip`, `c05.api` -/

/-- `TargetConfig`: `%.4f` for the fixed weight when it is > 0, plain quotes for tags (D07) and options, keys sorted -/
theorem targetConfig_shape :
    targetConfigFormats = ["route add %s %s %s", " weight %2.4f", " weight %.4f", " tags \"%s\"", " opts \"%s\""] ∧
    targetConfigGuards = ["_", "_.FixedWeight > 0", "len(_.Tags) > 0", "len(_.Opts) > 0"] ∧
    targetConfigSortsKeys = true := by pin

/-- `Table.String()`: hosts in reverse order, lines joined by `\n`, rendered without effective weights, targets
without traffic share left out only in the weighted display -/
theorem string_shape :
    tableStringJoins = ["strings.Join(_.ƒ(false), \"\\n\")"] ∧
    tableStringSorts = ["sort.Sort(sort.Reverse(sort.StringSlice(_)))"] ∧
    tableStringSkips = ["_ && _.Weight <= 0"] := by pin

/-- `/api/routes`: the active table, `?raw` prints `String()` with `Fprintln`, hosts sorted — `c05.api` -/
theorem api_shape :
    apiRoutesCalls = ["route.GetTable()", "fmt.Fprintln(_, _.String())", "sort.Strings(_)"] := by pin

/-! ### `ParseAliases` — `c05.aliases` -/

/-- the same dispatch and command parsers as `Parse`, lines from `strings.Split(·, "\n")`, each trimmed, the
`register` option looked up -/
theorem aliases_shape :
    aliasRegexEvents = regexEvents ∧
    aliasLineCalls = ["strings.Split(_, \",\")", "strings.Split(_, \"\\n\")", "strings.TrimSpace(_)"] ∧
    aliasOptionKeys = ["register"] := by pin

end Fabio.Props.C05Pins
