import Fabio.Generated.C13
import Fabio.Model.C13
/-!
OBLIGATIONS over the facts regenerated from `/repo` on every run (C13): what the proof chain needs and no stream
can establish by running the code — the write set on the request path (the schedule theorem
`redirect_depends_only_on_request` is about per-request copies; a store through the shared `*Target` or its shared
`*url.URL` is a data race that shows only under some interleavings) and the order "redirect branch before anything
that dials or runs an upstream handler" (`no upstream is contacted`: the instrumented upstream of `c13.http`
counts the hits on *itself*; a dial elsewhere that is followed by the redirect anyway is invisible to a client).

The shape of the sequential, deterministic code (literals, bounds, comparison operands, argument lists) is pinned
in `Props/C13Pins.lean` as change detectors: its input/output behaviour is compared with the model on every run.

The extractor (`tools/factgen/c13.go`) works on the normalised AST (package constants inlined, literal
concatenations folded, `switch` rewritten to if-chains), names variables by role (`recv`, `p0`, `p1`, …,
`copy` for `v := *x`, `call:<callee>` for a variable assigned from a call) and follows calls into functions of
the same package with the callee's parameters bound to the roles of the arguments, and treats a local pointer
assigned from a fresh `&T{…}` and then stored into a field as an alias of that field (a name that aliased the field's
previous value goes stale) — so the facts below do not change under renamed locals or parameters, extracted/inlined
helpers, named constants, if ↔ switch, or filling in the new URL through a local pointer.
-/
namespace Fabio.Props.C13Facts
open Fabio Fabio.Model.C13 Fabio.Generated.C13

/-- `BuildRedirectURL` first assigns a freshly allocated `url.URL` to the receiver's `RedirectURL` and every
other store of the function (helpers included) goes through that field: the per-request copy of the target shares
`URL`, `Opts`, … with the table's target, so a store anywhere else would be a write to shared routing state.
Breaking change no stream exposes reliably: re-using the URL allocated for an earlier request (seeded m1). -/
theorem build_stores_only_the_fresh_url :
    buildAllocatesFreshURLFirst = true ∧ buildStoresOutsideFreshURL = [] := by decide

/-- No store through the shared `*Target` on the request path (D08 repaired): `BuildRedirectURL` is invoked on
a per-request copy and on nothing else, every field store of `Lookup` (and of what it calls on the target) goes to
that copy or to the request, `ServeHTTP` stores nothing through the target. -/
theorem no_shared_target_store_on_request_path :
    lookupBuildReceivers.all (· == "copy") = true ∧ lookupBuildReceivers ≠ [] ∧
    lookupStoresNotPerRequest = [] ∧ serveStoresThroughTarget = [] := by decide

/-- `ServeHTTP`: the lookup comes before the redirect branch, the branch ends in `return`, and nothing that runs
an upstream handler or dials (`ServeHTTP`, `RoundTrip`, `Dial*`, `Do`; helpers inlined) is called up to and
including it; the upstream handler is run after it (`no upstream is contacted`). -/
theorem serve_redirect_precedes_upstream :
    serveLookupBeforeRedirect = true ∧ serveRedirectReturns = true ∧ serveHandlerCalledAfterRedirect = true ∧
    serveUpstreamCallsUpToRedirect = [] := by decide

end Fabio.Props.C13Facts
