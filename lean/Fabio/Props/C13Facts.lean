import Fabio.Generated.C13
import Fabio.Model.C13
/-!
Obligations over the facts regenerated from `/repo` on every run (C13).

The extractor (`tools/factgen/c13.go`) works on the normalised AST (package constants inlined, literal
concatenations folded, `switch` rewritten to if-chains), names variables by role (`recv`, `p0`, `p1`, …,
`copy` for `v := *x`, `call:<callee>` for a variable assigned from a call) and follows calls into functions of
the same package with the callee's parameters bound to the roles of the arguments — so the facts below do not
change under renamed locals, extracted/inlined helpers, named constants or if ↔ switch.
-/
namespace Fabio.Props.C13Facts
open Fabio Fabio.Model.C13 Fabio.Generated.C13

/-- The pseudo-variables of `BuildRedirectURL` — the string literals that hold a `$` — are the model's. -/
theorem build_literals_pinned : buildVarLits = ["$host", "$path", "/$path"] := by decide

theorem model_literals_are_the_codes :
    lit "$path" = vPath ∧ lit "/$path" = vSlashPath ∧ lit "$host" = vHost ∧ lit "/" = slash := by decide

/-- `BuildRedirectURL` first assigns a freshly allocated `url.URL` to the receiver's `RedirectURL` and every
other store of the function (helpers included) goes through that field. -/
theorem build_stores_only_the_fresh_url :
    buildAllocatesFreshURLFirst = true ∧ buildStoresOutsideFreshURL = [] := by decide

/-- The redirect option: `strconv.Atoi` of the `"redirect"` option, bounds 300 and 399, and the code is reset
to 0 when `Atoi` fails (D27 repaired) and when it is outside the bounds — what `Model.C13.redirectCode` says. -/
theorem redirect_code_bounds_pinned :
    codeLo = 300 ∧ codeHi = 399 ∧ codeAtoiOfRedirectOption = true ∧ codeResetOnAtoiError = true ∧
    codeResetWhenOutOfRange = true := by decide

/-- `ServeHTTP`: the lookup, then the redirect branch — taken when the target has a code and a URL,
`http.Redirect(w, r, target.RedirectURL.String(), target.RedirectCode)`, then `return` — nothing that runs an
upstream handler or dials is called up to it, and the handler call comes after it (`no_upstream`). -/
theorem serve_redirect_precedes_upstream :
    serveLookupBeforeRedirect = true ∧ serveRedirectReturns = true ∧ serveHandlerCalledAfterRedirect = true ∧
    serveUpstreamCallsUpToRedirect = [] ∧
    serveRedirectCond = ["call:Lookup.RedirectCode != 0", "call:Lookup.RedirectURL != nil"] ∧
    serveRedirectArgs = ["p0", "p1", "call:Lookup.RedirectURL.String()", "call:Lookup.RedirectCode"] := by decide

/-- No store through the shared `*Target` on the request path (D08 repaired): `BuildRedirectURL` is invoked on
a per-request copy, every field store of `Lookup` (and of what it calls on the target) goes to that copy or to
the request, `ServeHTTP` stores nothing through the target. -/
theorem no_shared_target_store_on_request_path :
    lookupBuildReceivers = ["copy"] ∧ lookupStoresNotPerRequest = [] ∧ serveStoresThroughTarget = [] := by decide

/-- The self-redirect skip compares scheme, host and path of the copy's redirect URL with the request; the
request's scheme comes from a helper of the request: the `X-Forwarded-Proto` header, else the connection
(D18 repaired); a skipped target is dropped before the loop continues (D18c repaired). -/
theorem self_redirect_comparison_pinned :
    lookupSelfRedirectContinues = true ∧ lookupSkipClearsTarget = true ∧
    lookupSelfRedirectComparisons = ["copy.RedirectURL.Host == p0.Host", "copy.RedirectURL.Path == p0.URL.Path",
      "copy.RedirectURL.Scheme == helper(p0)"] ∧
    requestSchemeLits = ["", "X-Forwarded-Proto", "http", "https"] ∧ requestSchemeReadsTLS = true := by decide

end Fabio.Props.C13Facts
