import Fabio.Generated.C13
import Fabio.Model.C13
/-! Obligations over the facts regenerated from `/repo` on every run (C13). -/
namespace Fabio.Props.C13Facts
open Fabio Fabio.Model.C13 Fabio.Generated.C13

/-- The pseudo-variables of `BuildRedirectURL` are the model's: `$path`, `/$path`, `$host` (and `/`, `""`). -/
theorem build_literals_pinned : buildLits = ["", "$host", "$path", "/", "/$path"] := by decide

theorem model_literals_are_the_codes :
    lit "$path" = vPath ∧ lit "/$path" = vSlashPath ∧ lit "$host" = vHost ∧ lit "/" = slash := by decide

/-- `BuildRedirectURL` first allocates a fresh `url.URL` and every store of the function goes through it. -/
theorem build_stores_only_the_fresh_url :
    buildFirstStmt = "t.RedirectURL = &url.URL{…}" ∧ buildStoresOutsideRedirectURL = [] := by decide

/-- The redirect option: `strconv.Atoi(opts["redirect"])`, bounds 300 and 399, and a value `Atoi` rejects
leaves the code 0 (D27 repaired) — what `Model.C13.redirectCode` says. -/
theorem redirect_code_bounds_pinned :
    codeLo = 300 ∧ codeHi = 399 ∧ codeAtoiArg = "opts[\"redirect\"]" ∧ codeResetOnAtoiError = true := by decide

/-- `ServeHTTP`: lookup, then the redirect branch — `http.Redirect` with the target's URL and code, then
`return` — and only after it the upstream URL / handlers (`no_upstream`). -/
theorem serve_redirect_precedes_upstream :
    serveLookupIdx < serveRedirectIdx ∧ serveRedirectIdx < serveFirstUpstreamIdx ∧
    serveRedirectReturns = true ∧ serveUpstreamCallsUpToRedirect = [] ∧
    serveRedirectCond = "t.RedirectCode != 0 && t.RedirectURL != nil" ∧
    serveRedirectCall = "http.Redirect(w, r, t.RedirectURL.String(), t.RedirectCode)" := by decide

/-- No store through the shared `*Target` on the request path (D08 repaired): `Lookup` stores only into the
request, builds the redirect URL on a per-request copy of the target, `ServeHTTP` stores nothing through
the target. -/
theorem no_shared_target_store_on_request_path :
    lookupFieldStores = ["req.URL.Host"] ∧ lookupBuildReceivers = ["per-request copy"] ∧
    serveStoresThroughTarget = [] := by decide

/-- The self-redirect skip compares scheme, host and path; the request's scheme comes from
`requestScheme`: the `X-Forwarded-Proto` header, else the connection (D18 repaired); a skipped target is
dropped (`target = nil`) before the loop continues (D18c repaired). -/
theorem self_redirect_comparison_pinned :
    lookupSelfRedirectContinues = true ∧ lookupSkipClearsTarget = true ∧
    lookupSelfRedirectComparisons = ["target.RedirectURL.Host == req.Host", "target.RedirectURL.Path == req.URL.Path",
      "target.RedirectURL.Scheme == requestScheme(req)"] ∧
    requestSchemeLits = ["X-Forwarded-Proto", "", "https", "http"] ∧ requestSchemeReadsTLS = true := by decide

end Fabio.Props.C13Facts
