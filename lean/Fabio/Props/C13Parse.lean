import Fabio.Model.C13Parse
import Fabio.Props.C13
/-!
C13 — what `url.Parse` (model: `Model/C13Parse.lean`, compared with `net/url` on every case of `c13.build`) makes
of a redirect template *text*, so that the statements about the `Location` start from the text an operator
writes in `route add … <template> opts "redirect=…"` and not from an already parsed record.
-/
namespace Fabio.Props.C13Parse
open Fabio Fabio.Model.C13

/-! ### list helpers -/

theorem cut_none (sep : UInt8) (s : Str) (h : ∀ c ∈ s, c ≠ sep) : cut sep s = (s, [], false) := by
  induction s with
  | nil => rfl
  | cons c cs ih =>
    have hc : (c == sep) = false := by simpa using h c (by simp)
    have := ih (fun x hx => h x (by simp [hx]))
    simp [cut, hc, this]

theorem cut_append (sep : UInt8) (a b : Str) (h : ∀ c ∈ a, c ≠ sep) : cut sep (a ++ sep :: b) = (a, b, true) := by
  induction a with
  | nil => simp [cut]
  | cons c cs ih =>
    have hc : (c == sep) = false := by simpa using h c (by simp)
    have := ih (fun x hx => h x (by simp [hx]))
    simp [cut, hc, this]

theorem takeWhile_stop {p : UInt8 → Bool} (a : Str) (c : UInt8) (b : Str) (ha : ∀ x ∈ a, p x = true) (hc : p c = false) :
    (a ++ c :: b).takeWhile p = a := by
  induction a with
  | nil => simp [hc]
  | cons x xs ih =>
    have hx := ha x (by simp)
    simp [hx, ih (fun y hy => ha y (by simp [hy]))]

theorem takeWhile_all {p : UInt8 → Bool} (a : Str) (ha : ∀ x ∈ a, p x = true) : a.takeWhile p = a := by
  induction a with
  | nil => rfl
  | cons x xs ih =>
    have hx := ha x (by simp)
    simp [hx, ih (fun y hy => ha y (by simp [hy]))]

/-! ### the scheme -/

theorem schemeByte_ne {x : UInt8} (h : schemeByte x = true) : x ≠ 58 ∧ x ≠ 35 ∧ x ≠ 63 ∧ ¬ (x < 32 ∨ x = 127) := by
  refine ⟨?_, ?_, ?_, ?_⟩
  · rintro rfl; exact absurd h (by decide)
  · rintro rfl; exact absurd h (by decide)
  · rintro rfl; exact absurd h (by decide)
  · intro hx
    simp only [schemeByte, isLetter, isDigit, Bool.or_eq_true, Bool.and_eq_true, decide_eq_true_eq, beq_iff_eq] at h
    rcases hx with hx | rfl
    · have : x.toNat < 32 := hx
      rcases h with ((((⟨h1, _⟩ | ⟨h1, _⟩) | ⟨h1, _⟩) | rfl) | rfl) | rfl
      all_goals first | (have : (_ : UInt8).toNat ≤ x.toNat := h1; simp at this; omega) | (simp at this)
    · revert h; decide

/-- `getScheme` on `scheme ":" rest` for a scheme that starts with a letter and goes on with letters, digits,
`+`, `-`, `.` -/
theorem getScheme_ok (c : UInt8) (r rest : Str) (hl : isLetter c = true) (hs : ∀ x ∈ c :: r, schemeByte x = true) :
    getScheme ((c :: r) ++ 58 :: rest) = some (c :: r, rest) := by
  have ht : ((c :: r) ++ 58 :: rest).takeWhile schemeByte = c :: r := takeWhile_stop _ _ _ hs (by decide)
  unfold getScheme
  simp only [ht]
  have hd : ((c :: r) ++ 58 :: rest).drop (c :: r).length = 58 :: rest := by simp
  rw [hd]
  simp [hl]

/-! ### the template text -/

/-- no control byte, and none of the given separators -/
def clean (seps : List UInt8) (s : Str) : Prop := ∀ c ∈ s, ¬ (c < 32 ∨ c = 127) ∧ c ∉ seps

/-- **`url.Parse` of an absolute template** `scheme "://" authority path [ "?" query ]`: scheme lower-cased, the
authority through `parseHost`, the path through `setPath`, the query verbatim — for every scheme that starts with
a letter, every authority without `/ ? # @` that is no bracketed IP literal, every path that is empty or starts
with `/` (no `? #`), every query (no `#`). The route command is rejected exactly when the host or the path's
escaping is malformed. -/
theorem parse_absolute (c : UInt8) (r auth p q : Str) (hasQ : Bool)
    (hl : isLetter c = true) (hs : ∀ x ∈ c :: r, schemeByte x = true)
    (ha : clean [47, 63, 35, 64] auth) (hb : auth.head? ≠ some 91)
    (hp : clean [63, 35] p) (hp0 : p = [] ∨ p.head? = some 47)
    (hq : clean [35] q) :
    parseTemplate ((c :: r) ++ 58 :: 47 :: 47 :: (auth ++ (p ++ (if hasQ then 63 :: q else [])))) =
      match parseHost auth, setPath p with
      | some h, some (path, raw) =>
          .ok { scheme := (c :: r).map lowerByte, host := h, path := path, rawPath := raw, rawQuery := if hasQ then q else [] }
      | _, _ => .error := by
  let qpart : Str := if hasQ then 63 :: q else []
  let text : Str := (c :: r) ++ 58 :: 47 :: 47 :: (auth ++ (p ++ qpart))
  have hqp : ∀ x ∈ qpart, x ≠ 35 ∧ ¬ (x < 32 ∨ x = 127) := by
    intro x hx
    cases hasQ with
    | false => simp [qpart] at hx
    | true =>
      simp only [qpart, if_true, List.mem_cons] at hx
      rcases hx with rfl | hx
      · exact ⟨by decide, by decide⟩
      · have := hq x hx; exact ⟨by simpa using this.2, this.1⟩
  -- every byte of the text: no `#`, no control byte
  have hall : ∀ x ∈ text, x ≠ 35 ∧ ¬ (x < 32 ∨ x = 127) := by
    intro x hx
    simp only [text, List.mem_append, List.mem_cons] at hx
    rcases hx with hx | rfl | rfl | rfl | hx | hx | hx
    · have := schemeByte_ne (hs x (by simpa using hx)); exact ⟨this.2.1, this.2.2.2⟩
    · exact ⟨by decide, by decide⟩
    · exact ⟨by decide, by decide⟩
    · exact ⟨by decide, by decide⟩
    · have := ha x hx; exact ⟨by have := this.2; simp at this; exact this.2.2.1, this.1⟩
    · have := hp x hx; exact ⟨by have := this.2; simp at this; exact this.2, this.1⟩
    · exact hqp x hx
  have h1 : cut 35 text = (text, [], false) := cut_none 35 text (fun x hx => (hall x hx).1)
  have h2 : hasCTL text = false := by
    simp only [hasCTL, List.any_eq_false]
    intro x hx
    have := (hall x hx).2
    simpa [not_or] using this
  have h3 : (text == [42]) = false := by
    simp [text]
  have h4 : getScheme text = some (c :: r, 47 :: 47 :: (auth ++ (p ++ qpart))) := getScheme_ok c r _ hl hs
  have hnoq : ∀ x ∈ (47 :: 47 :: (auth ++ p) : Str), x ≠ 63 := by
    intro x hx
    simp only [List.mem_cons, List.mem_append] at hx
    rcases hx with rfl | rfl | hx | hx
    · decide
    · decide
    · have := (ha x hx).2; simp at this; exact this.2.1
    · have := (hp x hx).2; simp at this; exact this.1
  have h5 : cut 63 (47 :: 47 :: (auth ++ (p ++ qpart))) = (47 :: 47 :: (auth ++ p), if hasQ then q else [], hasQ) := by
    cases hasQ with
    | false =>
      have : (47 :: 47 :: (auth ++ (p ++ qpart)) : Str) = 47 :: 47 :: (auth ++ p) := by simp [qpart]
      rw [this]; simpa using cut_none 63 _ hnoq
    | true =>
      have : (47 :: 47 :: (auth ++ (p ++ qpart)) : Str) = (47 :: 47 :: (auth ++ p)) ++ 63 :: q := by simp [qpart]
      rw [this]; simpa using cut_append 63 _ q hnoq
  have hauth47 : ∀ x ∈ auth, (x != 47) = true := by
    intro x hx; have := (ha x hx).2; simp at this; simpa using this.1
  have h6 : (auth ++ p).takeWhile (· != 47) = auth := by
    rcases hp0 with rfl | hp0
    · simpa using takeWhile_all auth hauth47
    · cases p with
      | nil => simp at hp0
      | cons y ys =>
        simp only [List.head?_cons, Option.some.injEq] at hp0
        subst hp0
        exact takeWhile_stop auth 47 ys hauth47 (by decide)
  have h7 : auth.contains 64 = false := by
    simp only [List.contains_eq_any_beq, List.any_eq_false]
    intro x hx; have := (ha x hx).2; simp at this; intro h; have h' : 64 = x := by simpa using h
    exact this.2.2.2 h'.symm
  have h8 : (auth.head? == some 91) = false := by simpa using hb
  have h9 : (unescape ([] : Str)).isSome = true := rfl
  show parseTemplate text = _
  unfold parseTemplate
  simp only [h1, h2, h3, h4, h5, h6, h7, h8, h9, Bool.false_eq_true, if_false, List.isEmpty_cons, Bool.false_and,
    List.drop_left', if_true]
  cases parseHost auth with
  | none => rfl
  | some h =>
    cases setPath p with
    | none => rfl
    | some pr => rfl

/-! ### hosts and paths that need no escaping -/

/-- a host text without `%`, `:` and `[`, of ASCII bytes host mode lets through (letters, digits, `- . _ ~`,
`$` and the other sub-delimiters): `parseHost` returns it unchanged -/
def hostPlain (h : Str) : Bool := h.all (fun c => c != 37 && c != 58 && c != 91 && c < 128 && !shouldEscape c .host)

theorem unescape_no_percent (h : Str) (hp : ∀ c ∈ h, c ≠ 37) : unescape h = some h := by
  induction h with
  | nil => rfl
  | cons c cs ih =>
    rw [Lemmas.C13.unescape_cons_ne c cs (hp c (by simp)), ih (fun x hx => hp x (by simp [hx]))]; rfl

theorem hostBytesOK_plain (h : Str) (hh : hostPlain h = true) : hostBytesOK h = true := by
  induction h with
  | nil => rfl
  | cons c cs ih =>
    simp only [hostPlain, List.all_cons, Bool.and_eq_true, bne_iff_ne, ne_eq, decide_eq_true_eq, Bool.not_eq_true'] at hh
    obtain ⟨⟨⟨⟨⟨h37, _⟩, _⟩, _⟩, hesc⟩, hrest⟩ := hh
    have := ih (by simpa [hostPlain] using hrest)
    rw [hostBytesOK.eq_def]
    split
    · rfl
    · rename_i heq; cases heq; exact absurd rfl h37
    · rename_i heq; cases heq; exact absurd rfl h37
    · rename_i heq; cases heq; exact absurd rfl h37
    · rename_i c' rest _ _ _ heq
      cases heq
      simp [hesc, this]

theorem parseHost_plain (h : Str) (hh : hostPlain h = true) : parseHost h = some h := by
  have hmem : ∀ c ∈ h, c ≠ 37 ∧ c ≠ 58 ∧ c ≠ 91 := by
    intro c hc
    have := List.all_eq_true.1 hh c hc
    simp only [Bool.and_eq_true, bne_iff_ne, ne_eq] at this
    exact ⟨this.1.1.1.1, this.1.1.1.2, this.1.1.2⟩
  have h91 : (h.head? == some 91) = false := by
    cases h with
    | nil => rfl
    | cons c cs => have := (hmem c (by simp)).2.2; simpa using this
  have h58 : lastIndexOfB 58 h = none := by
    unfold lastIndexOfB
    have : h.reverse.contains 58 = false := by
      simp only [List.contains_eq_any_beq, List.any_eq_false, List.mem_reverse]
      intro c hc; have := (hmem c hc).2.1; intro h; have h' : 58 = c := by simpa using h
      exact this h'.symm
    dsimp only; rw [this]; rfl
  unfold parseHost
  simp only [h91, Bool.false_eq_true, if_false, h58, unescapeHost, hostBytesOK_plain h hh, if_true]
  exact unescape_no_percent h (fun c hc => (hmem c hc).1)

theorem setPath_plain (p : Str) (hp : Lemmas.C13.plain p = true) : setPath p = some (p, []) := by
  have hu : unescape p = some p := by
    have := Lemmas.C13.unescape_plain_append p [] hp
    simpa [unescape] using this
  unfold setPath
  simp [hu, Lemmas.C13.escape_plain p hp]

set_option maxRecDepth 100000 in
/-- control bytes and the separators are bytes both modes escape (256 cases by kernel evaluation) -/
theorem sep_cases : ∀ c : Fin 256, (let b := UInt8.ofNat c.val;
    ((b < 32 ∨ b = 127 ∨ b = 63 ∨ b = 35) → shouldEscape b .path = true) ∧
    ((b < 32 ∨ b = 127 ∨ b = 47 ∨ b = 63 ∨ b = 35 ∨ b = 64) → shouldEscape b .host = true)) := by decide

theorem sep_escaped (b : UInt8) :
    ((b < 32 ∨ b = 127 ∨ b = 63 ∨ b = 35) → shouldEscape b .path = true) ∧
    ((b < 32 ∨ b = 127 ∨ b = 47 ∨ b = 63 ∨ b = 35 ∨ b = 64) → shouldEscape b .host = true) := by
  have := sep_cases ⟨b.toNat, b.toNat_lt⟩
  simpa only [UInt8.ofNat_toNat] using this

theorem plain_clean (p : Str) (hp : Lemmas.C13.plain p = true) : clean [63, 35] p := by
  intro c hc
  have := List.all_eq_true.1 hp c hc
  simp only [Bool.and_eq_true, bne_iff_ne, ne_eq, Bool.not_eq_true'] at this
  have hne := this.2
  have hE := (sep_escaped c).1
  refine ⟨?_, ?_⟩
  · intro h
    have : shouldEscape c .path = true := hE (by rcases h with h | h; exact Or.inl h; exact Or.inr (Or.inl h))
    rw [hne] at this; cases this
  · intro hm
    simp only [List.mem_cons, List.mem_nil_iff, or_false] at hm
    have : shouldEscape c .path = true := hE (by rcases hm with h | h; exact Or.inr (Or.inr (Or.inl h)); exact Or.inr (Or.inr (Or.inr h)))
    rw [hne] at this; cases this

theorem hostPlain_clean (h : Str) (hh : hostPlain h = true) : clean [47, 63, 35, 64] h ∧ h.head? ≠ some 91 := by
  constructor
  · intro c hc
    have := List.all_eq_true.1 hh c hc
    simp only [Bool.and_eq_true, bne_iff_ne, ne_eq, decide_eq_true_eq, Bool.not_eq_true'] at this
    have hne := this.2
    have hE := (sep_escaped c).2
    refine ⟨?_, ?_⟩
    · intro h
      have : shouldEscape c .host = true := hE (by rcases h with h | h; exact Or.inl h; exact Or.inr (Or.inl h))
      rw [hne] at this; cases this
    · intro hm
      simp only [List.mem_cons, List.mem_nil_iff, or_false] at hm
      have : shouldEscape c .host = true := hE (by
        rcases hm with h | h | h | h
        · exact Or.inr (Or.inr (Or.inl h))
        · exact Or.inr (Or.inr (Or.inr (Or.inl h)))
        · exact Or.inr (Or.inr (Or.inr (Or.inr (Or.inl h))))
        · exact Or.inr (Or.inr (Or.inr (Or.inr (Or.inr h)))))
      rw [hne] at this; cases this
  · cases h with
    | nil => simp
    | cons c cs =>
      have := List.all_eq_true.1 hh c (by simp)
      simp only [Bool.and_eq_true, bne_iff_ne, ne_eq] at this
      simpa using this.1.1.2

/-! ### the documented template texts -/

/-- `scheme://host$path` (host may hold `$host`): the variable stays in the *host* of the record — the form
`BuildRedirectURL` takes apart first (`stage2`). -/
theorem parse_hostPath_text (c : UInt8) (r h : Str) (hl : isLetter c = true) (hs : ∀ x ∈ c :: r, schemeByte x = true)
    (hh : hostPlain h = true) :
    parseTemplate ((c :: r) ++ 58 :: 47 :: 47 :: (h ++ vPath)) =
      .ok { scheme := (c :: r).map lowerByte, host := h ++ vPath } := by
  have hv : hostPlain (h ++ vPath) = true := by
    simp only [hostPlain, List.all_append, Bool.and_eq_true]
    exact ⟨hh, by decide⟩
  have hc := hostPlain_clean _ hv
  have := parse_absolute c r (h ++ vPath) [] [] false hl hs hc.1 hc.2 (by intro x hx; simp at hx) (Or.inl rfl) (by intro x hx; simp at hx)
  simp only [List.append_nil, Bool.false_eq_true, if_false, parseHost_plain _ hv] at this
  rw [this]; rfl

/-- `scheme://host/prefix/$path` and `scheme://host/prefix$path` with a prefix that needs no escaping, with or
without a query of the template's own -/
theorem parse_pathTemplate_text (c : UInt8) (r h p q : Str) (hasQ : Bool) (hl : isLetter c = true)
    (hs : ∀ x ∈ c :: r, schemeByte x = true) (hh : hostPlain h = true)
    (hp : Lemmas.C13.plain p = true) (hp0 : p.head? = some 47) (hq : clean [35] q) :
    parseTemplate ((c :: r) ++ 58 :: 47 :: 47 :: (h ++ (p ++ (if hasQ then 63 :: q else [])))) =
      .ok { scheme := (c :: r).map lowerByte, host := h, path := p, rawQuery := if hasQ then q else [] } := by
  have hc := hostPlain_clean _ hh
  have := parse_absolute c r h p q hasQ hl hs hc.1 hc.2 (plain_clean p hp) (Or.inr hp0) hq
  rw [this, parseHost_plain _ hh, setPath_plain _ hp]

/-- non-vacuity: the documentation's templates, and what is rejected -/
example : parseTemplate (lit "https://$host$path") = .ok { scheme := lit "https", host := lit "$host$path" } := by decide
example : parseTemplate (lit "HTTPS://www.Example.com:8443/a/b/$path?x=1#top") =
    .ok { scheme := lit "https", host := lit "www.Example.com:8443", path := lit "/a/b/$path", rawQuery := lit "x=1" } := by decide
example : parseTemplate (lit "https://bar.com/a%2Fb/$path") =
    .ok { scheme := lit "https", host := lit "bar.com", path := lit "/a/b/$path", rawPath := lit "/a%2Fb/$path" } := by decide
example : parseTemplate (lit "https://bar.com:80a/") = .error := by decide
example : parseTemplate (lit "https://b%41r.com/") = .error := by decide
example : parseTemplate (lit "https://user@bar.com/") = .outside := by decide

/-! ### from the route's text to the `Location` -/

/-- **The documented `https://$host$path` family, from the text of the route to the bytes of the `Location`.**
A route whose target is written `scheme://host$path` (any host text that needs no escaping, `$host` allowed), with
any `strip` (no `%`: D17d) and `prepend`, answers a request whose escaped path is `strip ++ r'` with

`Location = lower(scheme) "://" host' [ "/" ] escaped(prepend) r' [ "?" request query ]`. -/
theorem location_from_hostPath_text (c : UInt8) (r h strip prepend : Str) (code : Int) (u : URL) (req : URL) (r' p' : Str)
    (hl : isLetter c = true) (hsb : ∀ x ∈ c :: r, schemeByte x = true) (hh : hostPlain h = true)
    (hparse : parseTemplate ((c :: r) ++ 58 :: 47 :: 47 :: (h ++ vPath)) = .ok u)
    (hs : ∀ x ∈ strip, x ≠ 37)
    (hraw : escapedPath req = strip ++ r') (hpath : req.path = strip ++ p')
    (habs : hasPrefix (prepend ++ p') slash = true)
    (hhost : (buildRedirectURL { url := u, strip := strip, prepend := prepend, code := code } req).host ≠ []) :
    let t : RTarget := { url := u, strip := strip, prepend := prepend, code := code }
    let host' := if contains vHost h then replace1 vHost req.host h else h
    let P := Props.C13.escPrepend t ++ r'
    location t req = hexEscapeNonASCII ((c :: r).map lowerByte ++ [58] ++ ([47, 47] ++ escape .host host') ++
      (if P ≠ [] && P.head? != some 47 then [47] else []) ++ P ++ (if req.rawQuery ≠ [] then 63 :: req.rawQuery else [])) := by
  intro t host' P
  have hu : u = { scheme := (c :: r).map lowerByte, host := h ++ vPath } := by
    have := parse_hostPath_text c r h hl hsb hh
    rw [this] at hparse
    exact (Parsed.ok.inj hparse).symm
  have ht : t.url.host = h ++ vPath := by simp [t, hu]
  have hD := Props.C13.documented_redirect_location t req [] r' p' (Or.inl ⟨h, ht, rfl⟩) (by intro x hx; simp at hx) hs hraw hpath
    (by simpa using habs) (by simp [t, hu]) hhost
  have hst : (stage2 (stage1 t)).host = h := by
    have hsuf : hasSuffix (stage1 t).host vPath = true := by simp [stage1, ht, hasSuffix]
    unfold stage2; rw [if_pos hsuf]
    simp [stage1, ht, vPath]
  simp only [hst] at hD
  have hq : t.url.rawQuery = [] := by simp [t, hu]
  have hsc : t.url.scheme = (c :: r).map lowerByte := by simp [t, hu]
  simp only [hq, hsc, if_true] at hD
  simpa [host', P, escape] using hD

/-- non-vacuity: `route add svc / https://$host$path opts "strip=/s prepend=/p redirect=301"`, `GET /s/a%2Fb?q=1`,
`Host: foo.com` — the hypotheses hold and the `Location` is `https://foo.com/p/a%2Fb?q=1` -/
example :
    let req : URL := { host := lit "foo.com", path := lit "/s/a/b", rawPath := lit "/s/a%2Fb", rawQuery := lit "q=1" }
    ∃ u, parseTemplate (lit "https://$host$path") = .ok u ∧
      escapedPath req = lit "/s" ++ lit "/a%2Fb" ∧ req.path = lit "/s" ++ lit "/a/b" ∧
      (buildRedirectURL { url := u, strip := lit "/s", prepend := lit "/p", code := 301 } req).host ≠ [] ∧
      location { url := u, strip := lit "/s", prepend := lit "/p", code := 301 } req = lit "https://foo.com/p/a%2Fb?q=1" := by
  refine ⟨{ scheme := lit "https", host := lit "$host$path" }, by decide, by decide, by decide, by decide, by decide⟩

end Fabio.Props.C13Parse
