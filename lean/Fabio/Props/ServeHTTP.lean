import Fabio.Model.ServeHTTP
import Fabio.Props.C03
import Fabio.Props.C07
import Fabio.Props.C08
import Fabio.Props.C12
import Fabio.Props.C13Compose
import Fabio.Model.C12Parse
/-!
Theorems over the unified model of `HTTPProxy.ServeHTTP` (`Fabio.Model.ServeHTTP.serveHTTP`): the per-property
results of C03 (lookup), C12 (gates), C13 (redirect), C07 (target URL) and C08 (headers, Host) restated as
statements about ONE function, so that e.g. C12's `gate_before_upstream` and C13's "a redirect contacts no
upstream" are corollaries of the outcome analysis of `serveHTTP` instead of facts about separate fragments.
-/
namespace Fabio.Props.ServeHTTP
open Fabio Fabio.Model Fabio.Model.ServeHTTP

/-! ### the lookup stage is C03's `Lookup` with C13's skip (the composition proved in `C13Compose`) -/

/-- one request as `C13Compose` sees it -/
def creq (cfg : Cfg) (r : Request) : Props.C13Compose.CReq :=
  { r03 := req03 r, url := url13 r, xfp := utf8 (C08.get1 C08.xForwardedProto (withRequestID cfg r)) }

theorem select_eq_compose (cfg : Cfg) (t : Route.Table) (r : Request) :
    select cfg t r = Props.C13Compose.Lookup cfg.lookup (redirectView cfg) t (creq cfg r) := rfl

/-! ### outcome analysis -/

/-- **serve_outcome_cases.** Exactly one of the six outcomes, decided in this priority: no target ⇒ no-route
status and page; else access denied ⇒ 403; else not authorized ⇒ 401; else redirect route ⇒ its code and
`Location`; else `addHeaders` fails ⇒ 500; else forward. -/
theorem serve_outcome_cases (cfg : Cfg) (t : Route.Table) (r : Request) :
    (select cfg t r = none ∧
      serveHTTP cfg t r = .noRoute (C07.noRouteStatus cfg.noRouteStatus) cfg.noRouteHTML) ∨
    (∃ h ro tg, select cfg t r = some (h, ro, tg) ∧
      ((denied cfg r tg = true ∧ serveHTTP cfg t r = .forbidden) ∨
       (denied cfg r tg = false ∧ authorized cfg r tg = false ∧ serveHTTP cfg t r = .unauthorized) ∨
       (denied cfg r tg = false ∧ authorized cfg r tg = true ∧ isRedirect cfg tg = true ∧
          serveHTTP cfg t r = .redirect (redirectView cfg tg).code (C13.location (redirectView cfg tg) (url13 r))) ∨
       (denied cfg r tg = false ∧ authorized cfg r tg = true ∧ isRedirect cfg tg = false ∧
          headerStage cfg r tg = none ∧ serveHTTP cfg t r = .serverError) ∨
       (denied cfg r tg = false ∧ authorized cfg r tg = true ∧ isRedirect cfg tg = false ∧
          ∃ up, headerStage cfg r tg = some up ∧ serveHTTP cfg t r = .forward (forwardOf cfg r tg up)))) := by
  unfold serveHTTP
  cases hsel : select cfg t r with
  | none => exact Or.inl ⟨rfl, rfl⟩
  | some x =>
    obtain ⟨h, ro, tg⟩ := x
    refine Or.inr ⟨h, ro, tg, rfl, ?_⟩
    simp only [serveTarget]
    cases hd : denied cfg r tg
    · cases ha : authorized cfg r tg
      · simp
      · cases hr : isRedirect cfg tg
        · cases hh : headerStage cfg r tg with
          | none => simp
          | some up => simp
        · simp
    · simp

/-- the six classes are pairwise different values, so "exactly one" is literal -/
theorem outcome_classes_distinct (cfg : Cfg) (t : Route.Table) (r : Request) :
    (serveHTTP cfg t r).cls ∈ ["noroute", "403", "401", "redirect", "500", "forward"] := by
  cases serveHTTP cfg t r <;> simp [Outcome.cls]

/-- what a forward outcome implies about the stages before it -/
theorem forward_inv {cfg : Cfg} {t : Route.Table} {r : Request} {f : Forward}
    (hf : serveHTTP cfg t r = .forward f) :
    ∃ h ro tg up, select cfg t r = some (h, ro, tg) ∧ denied cfg r tg = false ∧ authorized cfg r tg = true ∧
      isRedirect cfg tg = false ∧ headerStage cfg r tg = some up ∧ f = forwardOf cfg r tg up := by
  rcases serve_outcome_cases cfg t r with ⟨_, h0⟩ | ⟨h, ro, tg, hsel, hc⟩
  · rw [h0] at hf; cases hf
  · rcases hc with ⟨_, h1⟩ | ⟨_, _, h1⟩ | ⟨_, _, _, h1⟩ | ⟨_, _, _, _, h1⟩ | ⟨hd, ha, hr, up, hu, h1⟩
    · rw [h1] at hf; cases hf
    · rw [h1] at hf; cases hf
    · rw [h1] at hf; cases hf
    · rw [h1] at hf; cases hf
    · rw [h1] at hf; cases hf
      exact ⟨h, ro, tg, up, hsel, hd, ha, hr, hu, rfl⟩

/-! ### the gates (C12 and C13 as corollaries) -/

/-- **upstream_contacted_only_if.** A request is forwarded only if
 * a route matched it in C03's sense (host key empty or matching the request host, route of that key, path
   matching under the configured matcher, target one of the route's targets) — and the target was not skipped;
 * the access rules of that target admitted it: with rules present the peer address could be split, parsed and
   passed `denyByIP`, and so did every `X-Forwarded-For` element that is an address other than the peer;
 * it is authorized under the target's scheme (no scheme, or a registered one that accepted the credentials);
 * the target is not a redirect route.
(C12 `gate_before_upstream`, `http_admitted_peer_checked`, `xff_every_element_checked`; C13 `no_upstream`; C03
`lookup_sound`, on the unified model.) -/
theorem upstream_contacted_only_if (cfg : Cfg) (t : Route.Table) (r : Request) (hpick : Props.C03.PickOK cfg.lookup.pick)
    {f : Forward} (hf : serveHTTP cfg t r = .forward f) :
    ∃ h ro tg, select cfg t r = some (h, ro, tg) ∧
      -- a route matched
      ((h = [] ∨ Props.C03.HostMatches { cfg.lookup with skip := skipFor cfg r } t (req03 r) h) ∧
        ro ∈ t.get (lowerL h) ∧ cfg.lookup.pathMatch (req03 r).path ro.path = true ∧ tg ∈ ro.targets ∧
        skipFor cfg r tg = false) ∧
      -- access admitted the peer and every XFF element
      (denied cfg r tg = false ∧
        ((rulesOf cfg tg).isEmpty = false →
          ∃ host ip, cfg.parsers.splitHostPort r.remoteAddr = some host ∧
            cfg.parsers.parseIP (C12.stripZone host) = some ip ∧ C12.denyByIP (rulesOf cfg tg) (some ip) = false ∧
            ∀ line ∈ xffLines cfg r, ∀ x ∈ C12.splitOn ',' line, C12.trimSpace x ≠ host →
              ∀ ip', cfg.parsers.parseIP (C12.stripZone (C12.trimSpace x)) = some ip' →
                C12.denyByIP (rulesOf cfg tg) (some ip') = false)) ∧
      -- authorized
      (authorized cfg r tg = true ∧
        (authOf tg = [] ∨ ∃ secrets, cfg.authSchemes.lookup (authOf tg) = some secrets ∧
          C12.basicVerdict secrets r.basicAuth = true)) ∧
      -- not a redirect route
      (redirectView cfg tg).code = 0 := by
  obtain ⟨h, ro, tg, up, hsel, hd, ha, hr, _, _⟩ := forward_inv hf
  refine ⟨h, ro, tg, hsel, ?_, ⟨hd, ?_⟩, ⟨ha, ?_⟩, ?_⟩
  · have hs := Props.C03.lookup_sound { cfg.lookup with skip := skipFor cfg r } t (req03 r) hpick hsel
    have hk := Props.C03.skipped_redirect_never_returned { cfg.lookup with skip := skipFor cfg r } t (req03 r) hsel
    exact ⟨hs.1, hs.2.1, hs.2.2.1, hs.2.2.2, hk⟩
  · intro hne
    obtain ⟨host, ip, h1, h2, h3⟩ := Props.C12.http_admitted_peer_checked cfg.parsers (rulesOf cfg tg) r.remoteAddr
      (xffLines cfg r) hne hd
    exact ⟨host, ip, h1, h2, h3,
      Props.C12.xff_every_element_checked cfg.parsers (rulesOf cfg tg) r.remoteAddr host (xffLines cfg r) hne h1 hd⟩
  · unfold authorized C12.authorized at ha
    by_cases he : (authOf tg).isEmpty = true
    · left; simpa using he
    · right
      have he' : (authOf tg).isEmpty = false := by simpa using he
      rw [he'] at ha
      simp only [Bool.false_eq_true, if_false] at ha
      split at ha
      · cases ha
      · rename_i s hl; exact ⟨s, hl, ha⟩
  · simpa [isRedirect] using hr

/-- the unified model refines C12's sequential gate model: with the statement order of `ServeHTTP`
(`lookup, access, auth, upstream`) C12's `runGate` gives the same reply class, and it reports an upstream
contact (C12 counts the redirect and the 500 as "past the gates") exactly when the outcome is past the gates -/
theorem gate_refines (cfg : Cfg) (t : Route.Table) (r : Request) :
    let env : C12.Env :=
      { found := (select cfg t r).isSome,
        denied := match select cfg t r with | some (_, _, tg) => denied cfg r tg | none => false,
        authorized := match select cfg t r with | some (_, _, tg) => authorized cfg r tg | none => true }
    let reply := (C12.runGate env [.lookup, .access, .auth, .upstream] false).1
    (reply = .noRoute ↔ (serveHTTP cfg t r).cls = "noroute") ∧
    (reply = .forbidden ↔ (serveHTTP cfg t r).cls = "403") ∧
    (reply = .unauthorized ↔ (serveHTTP cfg t r).cls = "401") ∧
    (reply = .served ↔ (serveHTTP cfg t r).cls ∈ ["redirect", "500", "forward"]) := by
  intro env reply
  rcases serve_outcome_cases cfg t r with ⟨hs, h0⟩ | ⟨h, ro, tg, hsel, hc⟩
  · simp [reply, env, hs, h0, C12.runGate, Outcome.cls]
  · rcases hc with ⟨hd, h1⟩ | ⟨hd, ha, h1⟩ | ⟨hd, ha, _, h1⟩ | ⟨hd, ha, _, _, h1⟩ | ⟨hd, ha, _, up, _, h1⟩
    · simp [reply, env, hsel, hd, h1, C12.runGate, Outcome.cls]
    all_goals simp [reply, env, hsel, hd, ha, h1, C12.runGate, Outcome.cls]

/-- a redirect route never reaches the upstream stage (C13 `no_upstream` on the unified model): the answer is
the target's code and the `Location` C13 computes, whatever `addHeaders` or the URL construction would do -/
theorem redirect_contacts_no_upstream (cfg : Cfg) (t : Route.Table) (r : Request) {h : Str} {ro : Route.Route}
    {tg : Route.Target} (hsel : select cfg t r = some (h, ro, tg)) (hr : isRedirect cfg tg = true) :
    ∀ f, serveHTTP cfg t r ≠ .forward f := by
  intro f hf
  obtain ⟨h', ro', tg', _, hsel', _, _, hr', _, _⟩ := forward_inv hf
  rw [hsel] at hsel'; cases hsel'
  rw [hr] at hr'; cases hr'

/-- and the redirect answer is C13Compose's `answer` for the same table, whenever the gates let it through -/
theorem redirect_is_compose_answer (cfg : Cfg) (t : Route.Table) (r : Request) {code : Int} {loc : Bytes}
    (h : serveHTTP cfg t r = .redirect code loc) :
    Props.C13Compose.answer cfg.lookup (redirectView cfg) t (creq cfg r) = some (code, loc) := by
  rcases serve_outcome_cases cfg t r with ⟨_, h0⟩ | ⟨hh, ro, tg, hsel, hc⟩
  · rw [h0] at h; cases h
  · rcases hc with ⟨_, h1⟩ | ⟨_, _, h1⟩ | ⟨_, _, hr, h1⟩ | ⟨_, _, _, _, h1⟩ | ⟨_, _, _, up, _, h1⟩
    · rw [h1] at h; cases h
    · rw [h1] at h; cases h
    · rw [h1] at h; cases h
      have hne : (redirectView cfg tg).code ≠ 0 := by simpa [isRedirect] using hr
      unfold Props.C13Compose.answer
      rw [← select_eq_compose, hsel]
      simp [hne, creq]
    · rw [h1] at h; cases h
    · rw [h1] at h; cases h

/-! ### the forwarded request (C07 and C08 as projections of `serveHTTP`) -/

/-- what a successful header stage produced (C08.serve unfolded once) -/
theorem headerStage_some {cfg : Cfg} {r : Request} {tg : Route.Target} {up : C08.Upstream}
    (hu : headerStage cfg r tg = some up) :
    up.host = C08.overrideHost (opt tg "host") (targetHost cfg tg) r.host ∧
    up.resp = C08.addResponseHeaders cfg.headers r.tls.isSome [] ∧
    ∃ ip port, C08.splitHostPort r.remoteAddr = some (ip, port) ∧
      up.headers = C08.addHeadersIP cfg.headers (opt tg "strip") { req08 r with headers := withRequestID cfg r } ip := by
  have e : headerStage cfg r tg =
      (match C08.addHeaders cfg.headers (opt tg "strip") { req08 r with headers := withRequestID cfg r } with
       | none => none
       | some h => some { host := C08.overrideHost (opt tg "host") (targetHost cfg tg) r.host, headers := h,
                          resp := C08.addResponseHeaders cfg.headers r.tls.isSome [] }) := rfl
  rw [e] at hu
  unfold C08.addHeaders at hu
  simp only [req08] at hu
  cases hsp : C08.splitHostPort r.remoteAddr with
  | none => simp [hsp] at hu
  | some p =>
    obtain ⟨ip, port⟩ := p
    simp only [hsp] at hu
    cases hu
    exact ⟨rfl, rfl, ip, port, rfl, rfl⟩

/-- **forward_fields.** For a forwarded request, with `tg` the selected target:
 * the upstream is the target's host, and the handler is the websocket one exactly when the headers — as
   `addHeaders` left them — carry `Upgrade: websocket`;
 * path: C07 `path_rewrite` — prepend ++ (path − strip), `/` in front after each step when missing;
 * query: C07 `query_merge` — route query, `&` iff both non-empty, client query;
 * Host: C07 `host_only_when_asked` / C08 `overrideHost` — the client's unless `host=`; `dst` ↦ target host;
 * headers: exactly `C08.addHeadersIP` (so every header theorem of C08 applies) on the client's request after the
   request-id step, for the peer address split off `RemoteAddr`; the response headers are C08's. -/
theorem forward_fields (cfg : Cfg) (t : Route.Table) (r : Request) {f : Forward}
    (hf : serveHTTP cfg t r = .forward f) :
    ∃ h ro tg, select cfg t r = some (h, ro, tg) ∧
      f.upstream = targetHost cfg tg ∧ f.method = r.method ∧
      (f.via = .ws ↔ C08.isWebsocket f.headers = true) ∧
      -- path
      (let ft := fwdTarget cfg tg
       let applies := ft.strip ≠ [] ∧ ft.strip <+: r.url.path
       let rem := if applies then C07Spec.ensureAbs (r.url.path.drop ft.strip.length) else r.url.path
       f.url.path = (if ft.prepend ≠ [] then C07Spec.ensureAbs (ft.prepend ++ rem) else rem)) ∧
      -- query
      (let ft := fwdTarget cfg tg
       f.url.rawQuery = ft.rawQuery ++ (if ft.rawQuery ≠ [] ∧ r.url.rawQuery ≠ [] then [C07.AMP] else []) ++ r.url.rawQuery) ∧
      -- Host
      (f.host = C08.overrideHost (opt tg "host") (targetHost cfg tg) r.host ∧
       (opt tg "host" = [] → f.host = r.host) ∧ (opt tg "host" = "dst".toList → f.host = targetHost cfg tg) ∧
       (opt tg "host" ≠ [] → opt tg "host" ≠ "dst".toList → f.host = opt tg "host")) ∧
      -- headers
      (∃ ip port, C08.splitHostPort r.remoteAddr = some (ip, port) ∧
        f.headers = C08.addHeadersIP cfg.headers (opt tg "strip") { req08 r with headers := withRequestID cfg r } ip ∧
        f.respHeaders = C08.addResponseHeaders cfg.headers r.tls.isSome []) := by
  obtain ⟨h, ro, tg, up, hsel, _, _, _, hu, rfl⟩ := forward_inv hf
  refine ⟨h, ro, tg, hsel, rfl, rfl, ?_, ?_, ?_, ?_, ?_⟩
  · simp only [forwardOf]
    cases C08.isWebsocket up.headers <;> simp
  · simp only [forwardOf]
    have := Props.C07.targetURL_path (fwdTarget cfg tg) r.url
    cases C08.isWebsocket up.headers
    · simpa [C07.director] using this
    · simpa using this
  · simp only [forwardOf]
    have := Props.C07.targetURL_query (fwdTarget cfg tg) r.url
    cases C08.isWebsocket up.headers
    · simpa [C07.director] using this
    · simpa using this
  · -- Host
    obtain ⟨hh, _, _⟩ := headerStage_some hu
    simp only [forwardOf]
    rw [hh]
    refine ⟨rfl, ?_, ?_, ?_⟩
    · intro h0; simp [C08.overrideHost, h0]
    · intro h0; simp [C08.overrideHost, h0]
    · intro h0 h1
      have h1' : opt tg "host" ≠ ['d', 's', 't'] := by simpa using h1
      simp [C08.overrideHost, h0, h1']
  · -- headers
    obtain ⟨_, hr', ip, port, hsp, hh⟩ := headerStage_some hu
    exact ⟨ip, port, hsp, by simp only [forwardOf]; exact hh, by simp only [forwardOf]; exact hr'⟩

/-- the bytes of the request-target path the upstream receives (C07 `percent_encoding_preserved_partial` on the
unified model): when the request URL is what the server parsed from validly encoded client bytes, the outgoing
`EscapedPath()` is the specification's expected wire form whenever that is absolute -/
theorem forward_wire_path (cfg : Cfg) (t : Route.Table) (r : Request) {f : Forward}
    (hf : serveHTTP cfg t r = .forward f)
    (client p rp : Bytes) (hparse : C07.setPath client = some (p, rp)) (hurl : r.url.path = p ∧ r.url.rawPath = rp)
    (hslash : C07.startsWithSlash client = true) (hvalid : C07.validEncoded client = true) :
    ∃ h ro tg d w, select cfg t r = some (h, ro, tg) ∧
      C07Spec.expectedPath (fwdTarget cfg tg).strip (fwdTarget cfg tg).prepend client = some (d, w) ∧
      f.url.path = d ∧ (C07.startsWithSlash w = true → f.url.escapedPath = w) := by
  obtain ⟨h, ro, tg, up, hsel, _, _, _, _, rfl⟩ := forward_inv hf
  obtain ⟨hesc, hdec⟩ := Lemmas.C07.escapedPath_parsed client p rp hparse hslash hvalid r.url hurl
  have hinv : Lemmas.C07.Inv (r.url.path, r.url.escapedPath) := by
    refine ⟨?_, ?_⟩
    · simp only []; rw [hesc]; exact hvalid
    · simp only []; rw [hesc, hurl.1]; exact hdec
  have hexp := Lemmas.C07.expectedPath_eq (fwdTarget cfg tg) r.url client hesc (by rw [hurl.1]; exact hdec)
  refine ⟨h, ro, tg, (C07.rewritePath (fwdTarget cfg tg) r.url).1, (C07.rewritePath (fwdTarget cfg tg) r.url).2, hsel, hexp, ?_, ?_⟩
  · simp only [forwardOf]
    cases C08.isWebsocket up.headers <;> rfl
  · intro habs
    have ht := Lemmas.C07.escapedPath_target (fwdTarget cfg tg) r.url hinv
    rw [if_pos habs] at ht
    simp only [forwardOf]
    cases C08.isWebsocket up.headers
    · have : (C07.director (C07.targetURL (fwdTarget cfg tg) r.url) r.url).escapedPath =
          (C07.targetURL (fwdTarget cfg tg) r.url).escapedPath := rfl
      simpa [this] using ht
    · simpa using ht

/-! ### no-route -/

/-- **noroute_iff_no_candidate.** For a request on which the self-redirect skip does not fire (e.g. a table
without redirect routes), on a table whose routes all have targets and with a picker that picks from the route:
the answer is the no-route status and page **iff** no route is a candidate — no route under the empty key or
under a key matching the request host has a path that matches (C03 `lookup_complete` / `lookup_sound`). -/
theorem noroute_iff_no_candidate (cfg : Cfg) (t : Route.Table) (r : Request)
    (hskip : skipFor cfg r = fun _ => false) (hne : Props.C03.NoEmptyRoutes t) (hpick : Props.C03.PickOK cfg.lookup.pick) :
    serveHTTP cfg t r = .noRoute (C07.noRouteStatus cfg.noRouteStatus) cfg.noRouteHTML ↔
      ¬ ∃ k ro, (k = [] ∨ Props.C03.HostMatches { cfg.lookup with skip := skipFor cfg r } t (req03 r) k) ∧
          ro ∈ t.get (lowerL k) ∧ cfg.lookup.pathMatch (req03 r).path ro.path = true := by
  constructor
  · intro hn ⟨k, ro, hk, hro, hm⟩
    have hc := Props.C03.lookup_complete { cfg.lookup with skip := skipFor cfg r } t (req03 r) hskip hne hk hro hm
    rcases serve_outcome_cases cfg t r with ⟨hs, _⟩ | ⟨h, ro', tg, hsel, hcases⟩
    · unfold select at hs; rw [hs] at hc; cases hc
    · rcases hcases with ⟨_, h1⟩ | ⟨_, _, h1⟩ | ⟨_, _, _, h1⟩ | ⟨_, _, _, _, h1⟩ | ⟨_, _, _, up, _, h1⟩ <;>
        (rw [h1] at hn; cases hn)
  · intro hno
    rcases serve_outcome_cases cfg t r with ⟨_, h0⟩ | ⟨h, ro, tg, hsel, _⟩
    · exact h0
    · exfalso
      have hs := Props.C03.lookup_sound { cfg.lookup with skip := skipFor cfg r } t (req03 r) hpick hsel
      exact hno ⟨h, ro, hs.1, hs.2.1, hs.2.2.1⟩

/-- without a target nothing but the status and the page is produced; the status is the configured one inside
100..999 and 404 outside (C07 `noroute_status_page_no_upstream` on the unified model) -/
theorem noroute_status (cfg : Cfg) (t : Route.Table) (r : Request) (hs : select cfg t r = none) :
    ∃ s, serveHTTP cfg t r = .noRoute s cfg.noRouteHTML ∧
      (100 ≤ cfg.noRouteStatus ∧ cfg.noRouteStatus ≤ 999 → s = cfg.noRouteStatus) ∧
      (¬(100 ≤ cfg.noRouteStatus ∧ cfg.noRouteStatus ≤ 999) → s = 404) := by
  refine ⟨C07.noRouteStatus cfg.noRouteStatus, by simp [serveHTTP, hs], ?_, ?_⟩
  · intro ⟨h1, h2⟩
    simp [C07.noRouteStatus, C07.noRouteLo, C07.noRouteHi]; omega
  · intro hn
    have : cfg.noRouteStatus < 100 ∨ cfg.noRouteStatus > 999 := by omega
    simp [C07.noRouteStatus, C07.noRouteLo, C07.noRouteHi, C07.statusNotFound, this]

/-! ### every outcome occurs: a small table -/

/-! ### "the upstream receives the client's … end-to-end headers unchanged", on the unified model -/

open C08 in
/-- the tokens `protectManagedHeaders` keeps of one `Connection` value are tokens of that value -/
theorem keepTokens_sub {cfg : C08.Cfg} {v v' : C08.Str} (h : keepTokens cfg v = some v') :
    ∀ t ∈ splitComma v', t ∈ splitComma v := by
  unfold keepTokens at h
  simp only at h
  split at h
  · cases h
  · rename_i hne
    cases h
    have hne' : (splitComma v).filter (fun t => !(managedKeys cfg).contains (tokenKey t)) ≠ [] := by
      intro e; apply hne; rw [e]; rfl
    have hcf : ∀ t ∈ (splitComma v).filter (fun t => !(managedKeys cfg).contains (tokenKey t)), ',' ∉ t :=
      fun t ht => Props.C08.splitComma_comma_free _ _ (List.mem_filter.mp ht).1
    rw [Props.C08.splitComma_joinComma _ hne' hcf]
    intro t ht
    exact (List.mem_filter.mp ht).1

open C08 Props.C08 in
/-- `protectManagedHeaders` only removes tokens: what the `Connection` header names afterwards it named before -/
theorem hopByHopNames_stepConnection (cfg : C08.Cfg) (h : C08.Headers) (k : C08.Str)
    (hk : k ∈ hopByHopNames (stepConnection cfg h)) : k ∈ hopByHopNames h := by
  unfold hopByHopNames at hk ⊢
  cases hc : vals connection h with
  | none =>
    have : stepConnection cfg h = h := by simp [stepConnection, hc]
    rw [this, hc] at hk
    simp at hk
  | some conn =>
    by_cases hke : (conn.filterMap (keepTokens cfg)).isEmpty = true
    · have : stepConnection cfg h = del connection h := by simp [stepConnection, hc, hke]
      rw [this, vals_of_entries_nil (entries_del_self connection h)] at hk
      simp at hk
    · have : stepConnection cfg h = put connection (conn.filterMap (keepTokens cfg)) h := by
        simp [stepConnection, hc, hke]
      rw [this, vals_of_entries_single (entries_put_self connection _ h)] at hk
      simp only [Option.getD_some, List.mem_flatMap, List.mem_filterMap] at hk ⊢
      obtain ⟨v, ⟨v0, hv0m, hv0⟩, t, ht, hkt⟩ := hk
      exact ⟨v0, hv0m, t, keepTokens_sub hv0 t ht, hkt⟩

open C08 Props.C08 in
theorem keyfree_of_unmanaged {cfg : C08.Cfg} {k : C08.Str} (hk : k ∉ managedKeys cfg) :
    (k ≠ forwarded ∧ k ≠ xForwardedFor ∧ k ≠ xForwardedHost ∧ k ≠ xForwardedPort ∧ k ≠ xForwardedPrefix ∧
     k ≠ xForwardedProto ∧ k ≠ xRealIp) ∧ ClientIPKeyFree cfg k ∧ TLSKeyFree cfg k ∧ RequestIDKeyFree cfg k := by
  unfold managedKeys at hk
  simp only [List.mem_append, List.mem_cons, List.mem_map, List.mem_filter, not_or] at hk
  obtain ⟨⟨h1, h2, h3, h4, h5, h6, h7, _⟩, hcfg⟩ := hk
  refine ⟨⟨h1, h2, h3, h4, h5, h6, h7⟩, ?_, ?_, ?_⟩
  · by_cases he : cfg.clientIPHeader.isEmpty = true
    · left; simp [clientIPApplies, he]
    · right; intro e; exact hcfg ⟨cfg.clientIPHeader, ⟨by simp, by simpa using he⟩, e⟩
  · by_cases he : cfg.tlsHeader = []
    · left; exact he
    · right; intro e; exact hcfg ⟨cfg.tlsHeader, ⟨by simp, by simpa using he⟩, e⟩
  · by_cases he : cfg.requestID = []
    · left; exact he
    · right; intro e; exact hcfg ⟨cfg.requestID, ⟨by simp, by simpa using he⟩, e⟩

open C08 Props.C08 in
/-- under a name `addHeaders` does not maintain it changes nothing (the `Connection` step set aside) -/
theorem addHeadersCore_unmanaged (cfg : C08.Cfg) (strip : C08.Str) (r : C08.Req) (ip : C08.Str) {k : C08.Str}
    (hk : k ∉ managedKeys cfg) : entries k (addHeadersCore cfg strip r ip) = entries k r.headers := by
  obtain ⟨⟨h1, h2, h3, h4, h5, h6, h7⟩, hc, ht, _⟩ := keyfree_of_unmanaged hk
  unfold addHeadersCore
  rw [stepTLS_other ht, stepForward_other h6 h4 h3 h5 h1, stepWS_other h2, stepRealIp_other h7, stepClientIP_other hc]

open C08 Props.C08 in
theorem hopByHopNames_congr {h h' : C08.Headers} (e : entries connection h = entries connection h') :
    hopByHopNames h = hopByHopNames h' := by
  unfold hopByHopNames; rw [vals_congr e]

open C08 Props.C08 in
/-- **end_to_end_headers_reach_upstream.** "The upstream chosen for a request receives the client's … end-to-end
headers unchanged", on the unified model, for every table, configuration and request: when `serveHTTP` forwards, then
under every header name `k` that
 * fabio does not maintain (`managedKeys`: Forwarded, X-Forwarded-For, -Host, -Port, -Prefix, -Proto, X-Real-Ip and the
   configured client-IP, TLS and request-id names — C08's headers),
 * is not one of `net/http/httputil`'s fixed hop-by-hop names, and
 * the client's own `Connection` header does not name,
the header map handed to the handler (`f.headers`: what the websocket path writes to the upstream as it is) and what
`httputil.ReverseProxy` makes of it on the http path (`C08.reverseProxy`: hop-by-hop removal, then the peer appended to
X-Forwarded-For) hold exactly the client's lines — the gates (access, authorization: they only judge, obligation
`gates_only_judge_the_request`), the request-id step, `addHeaders` with its `Connection` repair and the Host override
change nothing there. `Authorization` and `Cookie` are such names. (`hcm`: the operator did not configure `Connection`
itself as client-IP / TLS / request-id header.) -/
theorem end_to_end_headers_reach_upstream (cfg : ServeHTTP.Cfg) (t : Route.Table) (r : Request) {f : Forward}
    (hf : serveHTTP cfg t r = .forward f) (k : C08.Str)
    (hk : k ∉ managedKeys cfg.headers) (hfix : k ∉ fixedHopByHop) (hn : k ∉ hopByHopNames r.headers)
    (hcm : connection ∉ managedKeys cfg.headers) :
    entries k f.headers = entries k r.headers ∧
    ∃ ip port, splitHostPort r.remoteAddr = some (ip, port) ∧
      entries k (reverseProxy ip f.headers) = entries k r.headers := by
  obtain ⟨_, _, tg, _, _, _, _, _, _, _, ip, port, hsp, hh, _⟩ := forward_fields cfg t r hf
  have hkc : k ≠ connection := (not_fixed_ne hfix).2
  -- the request-id step
  have h0 : ∀ {k' : C08.Str}, k' ∉ managedKeys cfg.headers → entries k' (withRequestID cfg r) = entries k' r.headers := by
    intro k' hk'
    obtain ⟨_, _, _, hq⟩ := keyfree_of_unmanaged hk'
    unfold withRequestID
    split
    · rfl
    · rename_i hne
      rcases hq with hq | hq
      · simp [hq] at hne
      · exact entries_put_ne (fun e => hq e.symm) _ _
  have hcore : ∀ {k' : C08.Str}, k' ∉ managedKeys cfg.headers →
      entries k' (addHeadersCore cfg.headers (opt tg "strip") { req08 r with headers := withRequestID cfg r } ip) =
        entries k' r.headers := fun hk' => (addHeadersCore_unmanaged _ _ _ _ hk').trans (h0 hk')
  have hmain : entries k f.headers = entries k r.headers := by
    rw [hh, addHeadersIP_entries hkc]; exact hcore hk
  refine ⟨hmain, ip, port, hsp, ?_⟩
  have hx : k ≠ xForwardedFor := (keyfree_of_unmanaged hk).1.2.1
  rw [reverseProxy_keeps_unnamed ip _ k hx ?_ hfix, hmain]
  intro hmem
  apply hn
  rw [hh] at hmem
  have := hopByHopNames_stepConnection _ _ _ hmem
  rwa [hopByHopNames_congr (hcore hcm)] at this


namespace Demo

/-- `url.Parse` of the three target URLs of the demo table -/
def parseURL (s : Str) : C13.URL :=
  if s = "http://up:80/?t=1".toList then { scheme := C13.lit "http", host := C13.lit "up:80", path := C13.lit "/", rawQuery := C13.lit "t=1" }
  else if s = "https://other.example/$path".toList then { scheme := C13.lit "https", host := C13.lit "other.example", path := C13.lit "/$path" }
  else { scheme := C13.lit "http", host := C13.lit "up:80", path := C13.lit "/" }

def cfg : Cfg :=
  { lookup := { globMatch := C03.globLib, pathMatch := fun uri p => p.isPrefixOf uri,
                pick := fun r => match r.targets with
                  | x :: _ => x
                  | [] => { service := [], tags := [], opts := [], url := [], fixedWeight := 0 } },
    parsers := C12.Parse.goParsers, parseURL := parseURL,
    noRouteStatus := 1000, noRouteHTML := "<html>no route</html>",
    authSchemes := [("basic".toList, [("u".toList, "p".toList)])] }

def tg (url : String) (opts : List (String × String)) : Route.Target :=
  { service := "svc".toList, tags := [], opts := opts.map (fun kv => (kv.1.toList, kv.2.toList)), url := url.toList, fixedWeight := 0 }

def rt (host path : String) (t : Route.Target) : Route.Route := { host := host.toList, path := path.toList, targets := [t] }

/-- routes of host `a.example`, longest path first as `newTable` sorts them -/
def table : Route.Table :=
  [("a.example".toList,
    [rt "a.example" "/strip" (tg "http://up:80/?t=1" [("strip", "/strip"), ("prepend", "/p"), ("host", "dst")]),
     rt "a.example" "/deny" (tg "http://up:80/" [("allow", "ip:10.0.0.0/8")]),
     rt "a.example" "/auth" (tg "http://up:80/" [("auth", "basic")]),
     rt "a.example" "/go" (tg "https://other.example/$path" [("redirect", "301")]),
     rt "a.example" "/" (tg "http://up:80/" [])])]

def req (host path : String) (remote : String := "127.0.0.1:5555") (headers : C08.Headers := [])
    (auth : Option (Str × Str) := none) : Request :=
  { url := { path := C13.lit path, rawQuery := C13.lit "x=1" }, host := host.toList, remoteAddr := remote.toList,
    headers := headers, basicAuth := auth }

example : (serveHTTP cfg table (req "b.example" "/x")).cls = "noroute" := by decide +kernel
example : (match serveHTTP cfg table (req "b.example" "/x") with | .noRoute s p => decide (s = 404 ∧ p = "<html>no route</html>") | _ => false) = true := by
  decide +kernel
example : (serveHTTP cfg table (req "a.example" "/deny/x")).cls = "403" := by decide +kernel
example : (serveHTTP cfg table (req "a.example" "/deny/x" "10.1.2.3:9")).cls = "forward" := by decide +kernel
/-- an X-Forwarded-For element outside the allow block is enough for a 403 -/
example : (serveHTTP cfg table (req "a.example" "/deny/x" "10.1.2.3:9"
            [(C08.xForwardedFor, ["10.0.0.1, 192.168.0.1".toList])])).cls = "403" := by decide +kernel
example : (serveHTTP cfg table (req "a.example" "/auth")).cls = "401" := by decide +kernel
example : (serveHTTP cfg table (req "a.example" "/auth" (auth := some ("u".toList, "p".toList)))).cls = "forward" := by
  decide +kernel
example : (match serveHTTP cfg table (req "A.example:80" "/go/there") with
    | .redirect c l => decide (c = 301 ∧ l = C13.lit "https://other.example/go/there?x=1") | _ => false) = true := by decide +kernel
example : (serveHTTP cfg table (req "a.example" "/x" "nonsense")).cls = "500" := by decide +kernel
/-- strip, prepend, target query, `host=dst`, forwarding headers: all in the one forwarded request -/
example : (match serveHTTP cfg table (req "a.example" "/strip/a") with
    | .forward f => decide (f.via = .http ∧ f.upstream = "up:80".toList ∧ f.host = "up:80".toList ∧
        f.url.requestURI = C13.lit "/p/a?t=1&x=1" ∧
        C08.get1 C08.xForwardedHost f.headers = "a.example".toList ∧
        C08.get1 C08.xForwardedPrefix f.headers = "/strip".toList)
    | _ => false) = true := by decide +kernel
example : (match serveHTTP cfg table (req "a.example" "/ws" (headers := [(C08.upgrade, ["WebSocket".toList])])) with
    | .forward f => decide (f.via = .ws ∧ f.host = "a.example".toList) | _ => false) = true := by decide +kernel

/-- `end_to_end_headers_reach_upstream` on a request through the auth gate: the credentials the gate judged, a cookie
and a header the client's `Connection` line does NOT name arrive as sent (on both paths); the one it names (`X-Hop`) is
gone behind the reverse proxy; the hypotheses of the theorem hold for `Authorization` and fail for `X-Hop` -/
example : (match serveHTTP cfg table (req "a.example" "/auth" (auth := some ("u".toList, "p".toList))
      (headers := [("Authorization".toList, ["Basic dTpw".toList]), ("Cookie".toList, ["a=b".toList, "c=d".toList]),
                   ("X-Hop".toList, ["1".toList]), (C08.connection, ["close, x-hop".toList])])) with
    | .forward f => decide (
        C08.entries "Authorization".toList (C08.reverseProxy "127.0.0.1".toList f.headers) = [("Authorization".toList, ["Basic dTpw".toList])] ∧
        C08.entries "Cookie".toList (C08.reverseProxy "127.0.0.1".toList f.headers) = [("Cookie".toList, ["a=b".toList, "c=d".toList])] ∧
        C08.entries "Authorization".toList f.headers = [("Authorization".toList, ["Basic dTpw".toList])] ∧
        C08.entries "X-Hop".toList (C08.reverseProxy "127.0.0.1".toList f.headers) = [] ∧
        "Authorization".toList ∉ C08.managedKeys cfg.headers ∧ "Authorization".toList ∉ C08.fixedHopByHop ∧
        "Authorization".toList ∉ C08.hopByHopNames [(C08.connection, ["close, x-hop".toList])] ∧
        "X-Hop".toList ∈ C08.hopByHopNames [(C08.connection, ["close, x-hop".toList])] ∧
        C08.connection ∉ C08.managedKeys cfg.headers)
    | _ => false) = true := by decide +kernel

end Demo

end Fabio.Props.ServeHTTP
