import Fabio.Generated.C06
import Fabio.Model.C06
/-!
C06 — change detectors (not obligations): the SHAPE of sequential code whose behaviour a stream compares with the
model on every run.  When one of them stops building the check claims nothing broken; it runs every stream at the
widened budget with a second seed.
-/
namespace Fabio.Props.C06Pins
open Fabio Fabio.Model.C06 Fabio.Generated.C06

/-- The accesses of `GlobCache.Get` in source order are the statement list of the model's `gRecheck :: slowPath`
(append branch first, then the eviction).  A behaviour-preserving reshaping of the critical section (if/else instead
of early return, one shared `Store` after the branches) changes this list; `c06.globcache` compares map keys, ring,
head and count after every call, `c06.glob-race` the bounds under the mutex while lookups are in flight. -/
theorem globcache_statement_order :
    globGetUnlocked = getRepairedUnlocked ∧ globGetLocked = getRepairedLocked := by decide

end Fabio.Props.C06Pins
