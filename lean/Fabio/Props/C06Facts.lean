import Fabio.Generated.C06
import Fabio.Model.C06
/-!
C06 — obligations over the facts regenerated from `/repo` on every run.  They pin the micro-step lists of
`Model/C06.lean` (the programs the theorems of `Props/C06.lean` are about) to what the code does now:
a separate read of the cursor, a slow path outside the lock, a new store on the lookup path or a write through
the target in `ServeHTTP` breaks one of them.
-/
namespace Fabio.Props.C06Facts
open Fabio Fabio.Model.C06 Fabio.Generated.C06

/-- `rrPicker` is `pickRepaired`: one atomic add on `Route.total`, no other read of it, and the ring index is
computed from the value the add returns. -/
theorem rr_is_single_fetch_add :
    rrAccesses = pickRepairedAccesses ∧ rrPlainReadsOfTotal = 0 ∧ rrAtomicOps = 1 ∧
    rrIndexFromAtomicResult = true := by decide

/-- `GlobCache.Get` is `getRepaired`: the struct has a mutex, the only shared access before `Lock()` is the
fast-path `m.Load`, everything else (re-check, ring bookkeeping, map mutation — in the order of the model's
`gRecheck :: slowPath`) lies after it with the `Unlock` deferred, and no other function touches the ring. -/
theorem globcache_slow_path_is_locked :
    globHasMutex = true ∧ globGetLocks = true ∧ globGetUnlockDeferred = true ∧
    globGetUnlocked = getRepairedUnlocked ∧ globGetLocked = getRepairedLocked ∧
    globOtherAccessors = [] := by decide

/-- The shared writes on the lookup path (functions reachable from `Table.Lookup`/`LookupHost`, pickers and
matchers included; writes to per-request copies excluded) are exactly the model's: the atomic cursor add and
the cache bookkeeping under the lock. -/
theorem lookup_writes_pinned :
    lookupWrites.filter (fun w => w.2.1 != "copy") = lookupSharedWrites := by decide

/-- `HTTPProxy.ServeHTTP` assigns nothing through the target it was handed. -/
theorem proxy_does_not_write_target : proxyTargetWrites = [] := by decide

/-- The functions the write set was collected from still include the anchors of the property. -/
theorem lookup_reach_covers_anchors :
    ["GlobCache.Get", "Table.Lookup", "Table.lookup", "Table.matchingHosts", "rrPicker"].all
      (fun f => lookupReach.contains f) = true := by decide

end Fabio.Props.C06Facts
