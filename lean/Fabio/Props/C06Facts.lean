import Fabio.Generated.C06
import Fabio.Model.C06
/-!
C06 — obligations over the facts regenerated from `/repo` on every run.  They pin the micro-step lists of
`Model/C06.lean` (the programs the theorems of `Props/C06.lean` are about) to what the code does now:
a separate read of the cursor, a slow path outside the lock, a new store on the lookup path or a write through
the target in `ServeHTTP` breaks one of them.
-/
namespace Fabio.Props.C06Facts
open Fabio Fabio.Model.C06 Fabio.Generated.C06

/-- `rrPicker` is `pickRepaired`: one atomic add on `Route.total`, no other read of it, and the ring index is
computed from the value the add returns. -/
theorem rr_is_single_fetch_add :
    rrAccesses = pickRepairedAccesses ∧ rrPlainReadsOfTotal = 0 ∧ rrAtomicOps = 1 ∧
    rrIndexFromAtomicResult = true := by decide

/-- the accesses of the slow path that change the cache -/
def globMutations : List String := ["m.Store", "m.Delete", "write l", "write h", "write n"]

/-- every access of `GlobCache.Get` the model knows: loads, stores and deletes of the map, reads and writes of ring,
head and count (no `LoadOrStore`, `Swap`, `Range`, …) -/
def globKnownAccesses : List String :=
  ["m.Load", "m.Store", "m.Delete", "read l", "read h", "read n", "write l", "write h", "write n"]

/-- **The slow path of `GlobCache.Get` is one critical section** (`gSlowLocked` of the model), stated as a relation
between the accesses and the lock, not as a spelled-out list: the struct has a mutex; `Get` takes it and defers the
unlock; BEFORE the lock there is nothing but the fast-path `m.Load` (no access to `l`/`h`/`n`, no mutation of the map);
UNDER the lock the first access is the re-check `m.Load` (two goroutines that missed the same pattern must not both
insert it), every access is one the model knows, and all the bookkeeping (`Store`, `Delete`, ring, head, count) is
there; nothing of the cache is touched after a helper released the lock; no other function touches `l/h/n/m`.
The ORDER of the statements inside the critical section is not part of the obligation (one micro-step for every
other goroutine; what the statements compute is compared call by call by `c06.globcache`): it is pinned by the
change detector `Props/C06Pins.lean`. -/
theorem globcache_slow_path_is_locked :
    globHasMutex = true ∧ globGetLocks = true ∧ globGetUnlockDeferred = true ∧
    globGetUnlocked.all (fun e => e == "m.Load") = true ∧
    globGetLocked.head? = some "m.Load" ∧
    globGetLocked.all (fun e => globKnownAccesses.contains e) = true ∧
    globMutations.all (fun e => globGetLocked.contains e) = true ∧
    globGetAfterUnlock = [] ∧
    globOtherAccessors = [] := by decide

/-- The shared writes on the lookup path are exactly the model's: the atomic cursor add and the cache
bookkeeping under the lock.  Collected over everything reachable inside package `route` from `Table.Lookup`,
`Table.LookupHost`, the pickers and matchers, and the `Target` methods `ServeHTTP` calls
(`AccessDeniedHTTP`, `Authorized`): every assignment / `++` / `delete` / atomic op whose destination is memory
of an in-package type or a package-level variable, and every call of a method that is not known to be
read-only on a receiver rooted in such memory — directly, through a local alias (`c := target.cache;
c.Store(…)`), or through a pointer field of a shallow per-request copy.  Only a field of the per-request copy
itself, or memory the function freshly allocated on it, counts as `copy` and is excluded.  A new cache, counter,
`sync.Once`, `atomic.Value` or `sync.Map` consulted on the lookup path breaks this obligation. -/
theorem lookup_writes_pinned :
    lookupWriteKinds.filter (fun w => w.1 != "copy") = lookupSharedWrites := by decide

/-- **The published table is read-only for everybody.**  The write set above is collected not only from the
lookup entry points but from every exported method of `Table`, `Route` and `Target` that a file of another
package of the repository calls (found by name in the files importing package `route`: `main.go` logs
`t.Dump()` right after `route.SetTable(t)`, the admin API prints `route.GetTable().String()`, the TCP and gRPC
proxies ask `AccessDeniedTCP` / `AccessDeniedAddr`) — these run concurrently with lookups on the same table.
Writes are followed through parameters (a slice of shared memory handed to a helper: `promote(rules, i)`) and
into foreign functions that mutate their argument (`sort.SliceStable(r.Targets, …)`, `copy`, `append` on a shared
slice).  This discharges, for package `route` and its callers' entry points, the assumption "ring, rules and
target fields are immutable once the table is published": the scan of the external callers found the lookup
entry point and all the readers it found are inside the analysed reach. -/
theorem published_table_readers_analysed :
    publishedReaders.contains "Table.Lookup" = true ∧
    publishedReaders.all (fun m => lookupReach.contains m) = true := by decide

/-- `HTTPProxy.ServeHTTP` assigns nothing through the target it was handed; the only `Target` methods it calls
are on the analysed lookup path; the only other methods it calls through the target that are not read-only are on
fields whose type is a metrics handle (the response-time histogram); what it does through references it takes out of the target (`tr := t.Transport`) is followed by the alias
tracking of `no_other_package_writes_to_the_table`, which analyses all of package `proxy`. -/
theorem proxy_does_not_write_target :
    proxyTargetWrites = [] ∧ proxyTargetMethods.all (fun m => lookupReach.contains m) = true ∧
    proxyTargetCalls = [] := by decide

/-- The function registered as `route.Picker["rnd"]` is the model's `rndPick`: whatever helpers it goes through, it draws
from math/rand's process-wide generator through the package's TOP-LEVEL functions only (which are safe for
concurrent use: the generator sits behind its own lock) — the package holds no generator of its own
(`*rand.Rand`, `rand.Source`: not safe for concurrent use), and `rand` is math/rand. -/
theorem rnd_uses_locked_generator :
    routeOwnGenerators = [] ∧ routeRandImports = ["math/rand"] ∧
    rndPickerCalls.contains "rand.Intn" = true ∧
    rndPickerCalls.all (fun c => ["len", "rand.Intn", "rand.Seed", "var:sync.Once.Do", "time.Now", "time.Now().UnixNano"].contains c) = true := by
  decide

/-- **No other package writes to a table.**  Every package of the repository that imports `route` (`main`, `proxy`,
`proxy/tcp`, `admin/api`, …) is type-checked with the checked package `route` served to its imports, so that
`route.Target` and its fields resolve there; in ALL of their functions the writes to memory of `route`'s types
(assignments through a target/route/table, `++`, `delete`, atomic ops, non-read-only method calls on receivers rooted
there — also through locals and parameters —, foreign mutating calls) are collected.  The only ones are method
calls on fields whose declared TYPE is a metrics handle (`Timer gkm.Histogram`, `RxCounter`/`TxCounter gkm.Counter`:
internally synchronised counters, no routing input) — classified by the type of the field, not by a list of names,
so that a counter used at a new place is not a new kind of write.  Together with
`lookup_writes_pinned` this is "ring, rules and target fields are immutable once the table is published" as an
obligation over the whole repository instead of an assumption. -/
theorem no_other_package_writes_to_the_table :
    externalTableWrites.all (fun w => w.1 == "metrics") = true := by decide

/-- **The active table is fetched once per lookup** (`tblSnap`, the first micro-step of the model's lookup): every
call of `Table.Lookup` / `Table.LookupHost` in `main.go`, `proxy/` and `proxy/tcp/` has `route.GetTable()` itself as
its receiver — no table captured outside the request path keeps answering after it was replaced.  (The harness
wires its own `HTTPProxy.Lookup`; no stream runs main.go's closures.) -/
theorem lookups_fetch_the_active_table :
    tableLookupReceivers ≠ [] ∧ tableLookupReceivers.all (fun r => r == "route.GetTable()") = true := by decide

/-- The functions the write set was collected from still include the anchors of the property (exported entry
points by name, the two strategies by their role in `route.Picker`). -/
theorem lookup_reach_covers_anchors :
    ["GlobCache.Get", "Table.Lookup", "Table.LookupHost", "Target.BuildRedirectURL"].all
      (fun f => lookupReach.contains f) = true ∧ pickersInReach = true := by decide

end Fabio.Props.C06Facts
