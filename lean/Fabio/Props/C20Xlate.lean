import Fabio.Generated.C20
import Fabio.Props.C20
/-!
C20 — the tie by translation. `Fabio.Generated.C20.XUint16`, `XI32toa`, `XUuid`, `XHostport` and `XAtoi` are produced
on every run by the Go→Lean translator (`tools/factgen/xlate.go`) from the current `proxy/http_headers.go`,
`uuid/format.go` and `logger/pattern.go`: they are what the code says now. The theorems below prove them equal —
for every input, panics and "ran out of fuel" included — to the hand-written model (`Model/C20.lean`) the property
theorems of `Props/C20.lean` are about, and transfer those theorems to the translated source. A change to a Go
function changes the generated definition and these proofs are re-checked against it on every run (registered as a
change detector through `Props/C20Pins.lean`: when they stop building nothing is claimed broken — the streams
compare the same code with the model — but every stream runs at the widened budget).

Compared: the returned text (bytes read as characters: everything the formatters write is ASCII); the final state
and the wording of a panic are dropped.
-/
namespace Fabio.Props.C20Xlate
open Fabio Fabio.Xlate Fabio.Model.C20 Fabio.Generated.C20

def chars (b : Bytes) : List Char := b.map fun x => Char.ofNat x.toNat
def obsX {σ} : V (Bytes × σ) → Outcome (List Char)
  | .ok (r, _) => .ok (chars r)
  | .panic _ => .panic ""
def obsM {α} : Outcome α → Outcome α
  | .ok r => .ok r
  | .panic _ => .panic ""

/-- a loop that leaves through `return`: the returned text -/
def obsF {σ} : Flow Bytes σ → Outcome (List Char)
  | .ret r _ => .ok (chars r)
  | .panic _ => .panic ""
  | _ => .panic "no return"

theorem wrap64_id (x : Int) (h1 : -9223372036854775808 ≤ x) (h2 : x < 9223372036854775808) : wrapI 64 x = x := by
  rw [wrapI_64]; omega

theorem upd_ok (d : Bytes) (i : Nat) (v : UInt8) (h : i < d.length) : upd d (i : Int) v = .ok (d.set i v) := by
  simp [upd, h]

theorem upd_neg (d : Bytes) (i : Int) (v : UInt8) (h : i < 0) : ∃ w, upd d i v = .panic w := by
  exact ⟨"index out of range", by unfold upd; rw [if_neg (by omega)]⟩

theorem drop_set {α} (l : List α) (k : Nat) (v : α) (h : k < l.length) : (l.set k v).drop k = v :: l.drop (k+1) := by
  induction l generalizing k with
  | nil => simp at h
  | cons x xs ih =>
    cases k with
    | zero => simp
    | succ k => simp at h; simp [ih k h]

theorem digit_char (i : Int) (h : 0 ≤ i) : Char.ofNat ((48 : UInt8) + toU8 (Int.tmod i 10)).toNat = digitByte i.toNat := by
  have h1 : Int.tmod i 10 = ((i.toNat % 10 : Nat) : Int) := by
    rw [Int.tmod_eq_emod_of_nonneg h]; omega
  unfold digitByte toU8
  rw [h1]
  have : (((i.toNat % 10 : Nat) : Int) % 256).toNat = i.toNat % 10 := by omega
  rw [this, UInt8.toNat_add, UInt8.toNat_ofNat']
  congr 1
  simp
  omega

/-! ### `uint16base16` -/

theorem idxN_lt (d : List UInt8) (i : Nat) (h : i < d.length) : idxN d i = .ok d[i] := by
  simp [idxN, List.getElem?_eq_getElem h]

theorem getIdx_lt {α} (d : List α) (i : Nat) (h : i < d.length) : getIdx d i = .ok d[i] := by
  simp [getIdx, List.getElem?_eq_getElem h]

theorem digit16_tables : ∀ k : Fin 16, Char.ofNat (XUint16.g0[k.val]'(by decide +revert)).toNat = Model.C20.digit16[k.val]'(by decide +revert) := by
  decide

section
attribute [local simp] seq ifS Xlate.ret assign skip Xlate.len Xlate.idx

theorem idx_g0 (k : Nat) (h : k < 16) : Xlate.idx XUint16.g0 (k : Int) = .ok (XUint16.g0[k]'h) := by
  simp [Xlate.idx, idxN_lt XUint16.g0 k h]

theorem xuint16_eq_model (n : UInt16) :
    obsX (XUint16.run { p0 := n }) = obsM (uint16base16 n.toNat) := by
  have b0 : n.toNat &&& 15 < 16 := Nat.lt_succ_of_le Nat.and_le_right
  have b1 : (n.toNat &&& 240) >>> 4 < 16 := by
    have : n.toNat &&& 240 ≤ 240 := Nat.and_le_right
    rw [Nat.shiftRight_eq_div_pow]; omega
  have b2 : (n.toNat &&& 3840) >>> 8 < 16 := by
    have : n.toNat &&& 3840 ≤ 3840 := Nat.and_le_right
    rw [Nat.shiftRight_eq_div_pow]; omega
  have b3 : (n.toNat &&& 61440) >>> 12 < 16 := by
    have : n.toNat &&& 61440 ≤ 61440 := Nat.and_le_right
    rw [Nat.shiftRight_eq_div_pow]; omega
  unfold XUint16.run Xlate.run XUint16.body uint16base16
  simp [-Int.natCast_shiftRight, -Xlate.idx, UInt16.toNat_and, UInt16.toNat_shiftRight, idx_g0 _ b0, idx_g0 _ b1, idx_g0 _ b2, idx_g0 _ b3,
    getIdx_lt Model.C20.digit16 _ (show _ < 16 from b0), getIdx_lt Model.C20.digit16 _ (show _ < 16 from b1),
    getIdx_lt Model.C20.digit16 _ (show _ < 16 from b2), getIdx_lt Model.C20.digit16 _ (show _ < 16 from b3), upd, obsX, obsM, chars, Outcome.bind]
  exact ⟨digit16_tables ⟨_, b3⟩, digit16_tables ⟨_, b2⟩, digit16_tables ⟨_, b1⟩, digit16_tables ⟨_, b0⟩⟩

end

/-- `uint16_eq_hex4` transferred: the translated function prints `0x` and the four lower-case hex digits of every
uint16 — in particular it never panics (no index leaves `digit16` or the 6-byte buffer). -/
theorem xuint16_eq_hex4 (n : UInt16) : obsX (XUint16.run { p0 := n }) = .ok (Spec.hex4 n.toNat) := by
  rw [xuint16_eq_model, Props.C20.uint16base16_eq_hex4 n.toNat n.toNat_lt]; rfl

/-! ### `i32toa` -/

namespace I32
open XI32toa

theorem loop_spec (fuel : Nat) (s : St) (acc : List Char) (h11 : s.l0.length = 11) (hacc : acc.length ≤ 11)
    (hp : s.l1 = 11 - (acc.length : Int)) (hd : chars (s.l0.drop (11 - acc.length)) = acc) (hi : 0 ≤ s.l2) :
    obsF (loopN loop0Cond loop0Body fuel s) =
      obsM ((digitsLoop 11 fuel s.l2.toNat acc).bind fun ds => if s.l3 then pushFront 11 '-' ds else .ok ds) := by
  induction fuel generalizing s acc with
  | zero => simp [loopN, digitsLoop, obsF, obsM, Outcome.bind]
  | succ fuel ih =>
    unfold loopN digitsLoop
    simp only [loop0Cond]
    by_cases hfull : acc.length = 11
    · -- no room: the store panics on both sides
      have : wrapI 64 (s.l1 - 1) = -1 := by rw [wrap64_id] <;> omega
      simp [loop0Body, seq, assign, this, upd, pushFront, hfull, obsF, obsM, Outcome.bind]
    · have hlt : acc.length < 11 := by omega
      have hw : wrapI 64 (s.l1 - 1) = ((10 - acc.length : Nat) : Int) := by rw [wrap64_id] <;> omega
      have hk : 10 - acc.length < s.l0.length := by omega
      have hq : Int.tdiv s.l2 10 = ((s.l2.toNat / 10 : Nat) : Int) := by
        rw [Int.tdiv_eq_ediv_of_nonneg hi]; omega
      generalize hb : loop0Body s = fl
      simp only [loop0Body, seq, assign, hw, upd_ok _ _ _ hk, V.bind_ok, V.pure_eq, hq, ifS] at hb
      simp only [pushFront, hlt, if_true]
      have hdc := digit_char s.l2 hi
      have hdrop : chars ((s.l0.set (10 - acc.length) (48 + toU8 (s.l2.tmod 10))).drop (10 - acc.length)) = digitByte s.l2.toNat :: acc := by
        rw [drop_set _ _ _ hk]
        simp only [chars, List.map_cons, hdc]
        congr 1
        have : 10 - acc.length + 1 = 11 - acc.length := by omega
        rw [this]; exact hd
      by_cases hz : s.l2.toNat / 10 = 0
      · have hz' : (((s.l2.toNat / 10 : Nat) : Int) == 0) = true := by simp [hz]
        simp only [hz'] at hb
        cases hs : s.l3
        · simp only [hs, skip, Xlate.ret] at hb
          have hsl : sliceFrom (s.l0.set (10 - acc.length) (48 + toU8 (s.l2.tmod 10))) ((10 - acc.length : Nat) : Int) =
              .ok ((s.l0.set (10 - acc.length) (48 + toU8 (s.l2.tmod 10))).drop (10 - acc.length)) := by
            simp [sliceFrom]; omega
          simp only [hsl] at hb
          subst hb
          simp [hz, hs, obsF, obsM, Outcome.bind, hdrop]
        · simp only [hs] at hb
          by_cases hk0 : acc.length = 10
          · have hw2 : wrapI 64 (((10 - acc.length : Nat) : Int) - 1) = -1 := by rw [wrap64_id] <;> omega
            simp only [hw2, upd] at hb
            simp at hb
            subst hb
            simp [hz, hs, obsF, obsM, Outcome.bind, hk0]
          · have hw2 : wrapI 64 (((10 - acc.length : Nat) : Int) - 1) = ((9 - acc.length : Nat) : Int) := by rw [wrap64_id] <;> omega
            have hk2 : 9 - acc.length < (s.l0.set (10 - acc.length) (48 + toU8 (s.l2.tmod 10))).length := by simp; omega
            simp only [hw2, upd_ok _ _ _ hk2, Xlate.ret] at hb
            have hsl : sliceFrom ((s.l0.set (10 - acc.length) (48 + toU8 (s.l2.tmod 10))).set (9 - acc.length) 45) ((9 - acc.length : Nat) : Int) =
                .ok (((s.l0.set (10 - acc.length) (48 + toU8 (s.l2.tmod 10))).set (9 - acc.length) 45).drop (9 - acc.length)) := by
              simp [sliceFrom]; omega
            simp only [hsl] at hb
            subst hb
            have h9 : 9 - acc.length + 1 = 10 - acc.length := by omega
            have hlt2 : acc.length + 1 < 11 := by omega
            have hc : chars ((45 : UInt8) :: List.drop (10 - acc.length) (List.set s.l0 (10 - acc.length) (48 + toU8 (s.l2.tmod 10)))) =
                '-' :: digitByte s.l2.toNat :: acc := by
              show Char.ofNat (45 : UInt8).toNat :: chars _ = _
              rw [hdrop]; rfl
            simp [hz, obsF, obsM, Outcome.bind, drop_set _ _ _ hk2, h9, hc, hlt2]
      · have hz' : (((s.l2.toNat / 10 : Nat) : Int) == 0) = false := by
          simp; omega
        simp only [hz', skip] at hb
        subst hb
        simp only [hz, if_false]
        have := ih { s with l0 := s.l0.set (10 - acc.length) (48 + toU8 (s.l2.tmod 10)), l1 := ((10 - acc.length : Nat) : Int),
                            l2 := ((s.l2.toNat / 10 : Nat) : Int) } (digitByte s.l2.toNat :: acc)
          (by simp [h11]) (by simp; omega) (by simp; omega)
          (by simp only [List.length_cons]
              have : 11 - (acc.length + 1) = 10 - acc.length := by omega
              rw [this]; exact hdrop)
          (Int.natCast_nonneg _)
        have e : ((s.l2.toNat / 10 : Nat) : Int).toNat = s.l2.toNat / 10 := by omega
        simp only [e, pushFront] at this ⊢
        exact this

end I32

theorem obsX_run {σ} (body : Stmt Bytes σ) (bare : σ → Bytes) (s : σ) (x : Outcome (List Char))
    (h : obsF (body s) = obsM x) : obsX (Xlate.run body bare s) = obsM x := by
  unfold Xlate.run
  cases hb : body s <;> cases x <;> simp_all [obsF, obsX, obsM]

/-- **The translated `i32toa` equals the model's, for every integer** (same 11-byte buffer, same digit loop, same
fuel: running out of either is a panic value on both sides). -/
theorem xi32toa_eq_model (n : Int) : obsX (XI32toa.run { p0 := n }) = obsM (i32toa n) := by
  unfold XI32toa.run
  apply obsX_run
  unfold XI32toa.body i32toa
  by_cases hn : n < 0
  · simp only [seq, assign, ifS, ltI_eq, hn, decide_true, loop]
    have := I32.loop_spec 11 { p0 := n, l0 := List.replicate 11 0, l1 := 11, l2 := -n, l3 := true } [] (by simp) (by simp) (by simp) (by simp [chars]) (by simp; omega)
    simpa using this
  · simp only [seq, assign, ifS, ltI_eq, hn, decide_false, loop, skip]
    have := I32.loop_spec 11 { p0 := n, l0 := List.replicate 11 0, l1 := 11, l2 := n, l3 := false } [] (by simp) (by simp) (by simp) (by simp [chars]) (by simp; omega)
    simpa using this


/-- `i32toa_eq_decimal` transferred: the translated function equals `strconv.Itoa` on every int32 (MinInt32
included); it never panics and its `for { … }` loop terminates within the 11 rounds of fuel. -/
theorem xi32toa_eq_decimal (n : Int) (hlo : -2^31 ≤ n) (hhi : n < 2^31) :
    obsX (XI32toa.run { p0 := n }) = .ok (Spec.itoa n) := by
  rw [xi32toa_eq_model, Props.C20.i32toa_eq_decimal n hlo hhi]; rfl

example : obsX (XI32toa.run { p0 := -2147483648 }) = .ok "-2147483648".toList := by decide +kernel
example : obsX (XUint16.run { p0 := 0x0301 }) = .ok "0x0301".toList := by decide +kernel

/-! ### `uuid.ToString` -/

theorem chars_set (d : Bytes) (i : Nat) (v : UInt8) : chars (d.set i v) = (chars d).set i (Char.ofNat v.toNat) := by
  simp [chars, List.map_set]

theorem chars_length (d : Bytes) : (chars d).length = d.length := by simp [chars]

/-- `d[i] = v` against the model's `setIdx` on the text -/
theorem upd_setIdx (d : Bytes) (i : Nat) (v : UInt8) :
    (match upd d (i : Int) v with | .ok d' => Outcome.ok (chars d') | .panic _ => .panic "") =
      obsM (setIdx (chars d) i (Char.ofNat v.toNat)) := by
  unfold upd setIdx
  by_cases h : i < d.length
  · simp [h, chars_length, chars_set, obsM]
  · simp [h, chars_length, obsM]

namespace UU
open XUuid

theorem hex_tables : ∀ k : Fin 16, Char.ofNat (g0[k.val]'(by decide +revert)).toNat = Model.C20.halfbyte2hexchar[k.val]'(by decide +revert) := by
  decide

theorem idx_g0 (k : Nat) (h : k < 16) : Xlate.idx g0 (k : Int) = .ok (g0[k]'h) := by
  simp [Xlate.idx, idxN_lt g0 k h]

/-- what the enclosing code sees of the loop: the buffer (as text) and the untouched argument -/
def obsN : Flow Rho St → Outcome (List Char × Bytes)
  | .next s => .ok (chars s.l0, s.p0)
  | .panic _ => .panic ""
  | _ => .panic "unexpected flow"

theorem body_spec (s : St) (k n : Nat) (hk : s.l1 = k) (hn : s.l2 = n) :
    obsN (loop0Body s) = obsM (
      (getIdx s.p0 k).bind fun ui =>
      (getIdx Model.C20.halfbyte2hexchar ((ui.toNat >>> 4) &&& 0x0f)).bind fun hi =>
      (setIdx (chars s.l0) n hi).bind fun b1 =>
      (getIdx Model.C20.halfbyte2hexchar (ui.toNat &&& 0x0f)).bind fun lo =>
      (setIdx b1 (n+1) lo).bind fun b2 => .ok (b2, s.p0)) := by
  unfold loop0Body
  by_cases hku : k < s.p0.length
  · have i1 : Xlate.idx s.p0 s.l1 = .ok s.p0[k] := by rw [hk]; simp [Xlate.idx, idxN_lt _ _ hku]
    have b0 : (s.p0[k].toNat >>> 4) &&& 15 < 16 := Nat.lt_succ_of_le Nat.and_le_right
    have b1 : s.p0[k].toNat &&& 15 < 16 := Nat.lt_succ_of_le Nat.and_le_right
    have e0 : ((s.p0[k] >>> (4 : UInt8)) &&& (15 : UInt8)).toNat = (s.p0[k].toNat >>> 4) &&& 15 := by
      simp [UInt8.toNat_and, UInt8.toNat_shiftRight]
    have e1 : (s.p0[k] &&& (15 : UInt8)).toNat = s.p0[k].toNat &&& 15 := by simp [UInt8.toNat_and]
    have t0 : Char.ofNat (g0[(s.p0[k].toNat >>> 4) &&& 15]'b0).toNat = Model.C20.halfbyte2hexchar[(s.p0[k].toNat >>> 4) &&& 15]'b0 :=
      hex_tables ⟨_, b0⟩
    have t1 : Char.ofNat (g0[s.p0[k].toNat &&& 15]'b1).toNat = Model.C20.halfbyte2hexchar[s.p0[k].toNat &&& 15]'b1 :=
      hex_tables ⟨_, b1⟩
    have hg0 : g0.length = 16 := rfl
    have gi0 := idx_g0 _ b0
    have gi1 := idx_g0 _ b1
    have m0 := getIdx_lt Model.C20.halfbyte2hexchar _ (show _ < Model.C20.halfbyte2hexchar.length from b0)
    have m1 := getIdx_lt Model.C20.halfbyte2hexchar _ (show _ < Model.C20.halfbyte2hexchar.length from b1)
    by_cases h1 : n < s.l0.length
    · by_cases h2 : n + 1 < s.l0.length
      · have h2' : n + 1 < (s.l0.set n (g0[(s.p0[k].toNat >>> 4) &&& 15]'b0)).length := by simpa using h2
        have hc : ((n : Int) + 1) = ((n + 1 : Nat) : Int) := by omega
        simp only [seq, assign, i1, V.bind_ok, e0, e1, Int.ofNat_eq_natCast, gi0, gi1, hn, hc,
          getIdx_lt s.p0 k hku, m0, m1, Outcome.bind, upd_ok _ _ _ h1, upd_ok _ _ _ h2']
        simp [obsN, obsM, setIdx, chars_length, chars_set, h1, h2]
        rw [t0, t1]
        all_goals rfl
      · have hp : ∀ v, upd (s.l0.set n (g0[(s.p0[k].toNat >>> 4) &&& 15]'b0)) ((n : Int) + 1) v = .panic "index out of range" := by
          intro v; unfold upd; rw [if_neg]; simp; omega
        simp only [seq, assign, i1, V.bind_ok, e0, e1, Int.ofNat_eq_natCast, gi0, gi1, hn,
          getIdx_lt s.p0 k hku, m0, m1, Outcome.bind, upd_ok _ _ _ h1, hp]
        simp [obsN, obsM, setIdx, chars_length, h1, h2]
    · have hp : ∀ v, upd s.l0 (n : Int) v = .panic "index out of range" := by
        intro v; unfold upd; rw [if_neg]; omega
      simp only [seq, assign, i1, V.bind_ok, e0, e1, Int.ofNat_eq_natCast, gi0, gi1, hn,
          getIdx_lt s.p0 k hku, m0, m1, Outcome.bind, hp]
      simp [obsN, obsM, setIdx, chars_length, h1]
  · have i1 : ∃ w, Xlate.idx s.p0 s.l1 = .panic w := by
      rw [hk]; simp [Xlate.idx, idxN, List.getElem?_eq_none (Nat.le_of_not_lt hku)]
    obtain ⟨w, i1⟩ := i1
    simp [seq, assign, i1, obsN, obsM, getIdx, List.getElem?_eq_none (Nat.le_of_not_lt hku), Outcome.bind]

/-- the `range` loop over the position table against the model's `uuidLoop` -/
theorem loop_spec (ns : List Nat) (k : Nat) (s : St) :
    obsN (forEachL (fun k x s => { s with l1 := Int.ofNat k, l2 := x }) loop0Body (ns.map Int.ofNat) k s) =
      obsM ((uuidLoop s.p0 ns k (chars s.l0)).bind fun b => .ok (b, s.p0)) := by
  induction ns generalizing k s with
  | nil => simp [forEachL, uuidLoop, obsN, obsM, Outcome.bind]
  | cons n ns ih =>
    unfold uuidLoop
    simp only [List.map_cons, forEachL]
    have hb := body_spec { s with l1 := Int.ofNat k, l2 := Int.ofNat n } k n rfl rfl
    simp only at hb
    generalize hfl : loop0Body { s with l1 := Int.ofNat k, l2 := Int.ofNat n } = fl at hb
    cases hu : getIdx s.p0 k with
    | panic w => cases fl <;> simp_all [obsN, obsM, Outcome.bind]
    | ok ui =>
      simp only [hu, Outcome.bind] at hb ⊢
      cases h1 : getIdx Model.C20.halfbyte2hexchar ((ui.toNat >>> 4) &&& 0x0f) with
      | panic w => cases fl <;> simp_all [obsN, obsM, Outcome.bind]
      | ok hi =>
        simp only [h1] at hb ⊢
        cases h2 : setIdx (chars s.l0) n hi with
        | panic w => cases fl <;> simp_all [obsN, obsM, Outcome.bind]
        | ok b1 =>
          simp only [h2] at hb ⊢
          cases h3 : getIdx Model.C20.halfbyte2hexchar (ui.toNat &&& 0x0f) with
          | panic w => cases fl <;> simp_all [obsN, obsM, Outcome.bind]
          | ok lo =>
            simp only [h3] at hb ⊢
            cases h4 : setIdx b1 (n+1) lo with
            | panic w => cases fl <;> simp_all [obsN, obsM, Outcome.bind]
            | ok b2 =>
              simp only [h4] at hb ⊢
              cases fl <;> simp [obsN, obsM] at hb
              rename_i s'
              have := ih (k+1) s'
              rw [hb.1, hb.2] at this
              exact this

end UU

/-- **The translated `uuid.ToString` equals the model's, for every byte list** (a list shorter than the 16 bytes the
loop reads panics on both sides). -/
theorem xuuid_eq_model (u : Bytes) : obsX (XUuid.run { p0 := u }) = obsM (uuidToString u) := by
  unfold XUuid.run
  apply obsX_run
  unfold XUuid.body uuidToString
  simp only [seq, assign, forEach, XUuid.loop0List]
  have hl := UU.loop_spec Model.C20.uuidIdx 0 { p0 := u, l0 := List.replicate 36 0 }
  have hm : (Model.C20.uuidIdx.map Int.ofNat) = ([0, 2, 4, 6, 9, 11, 14, 16, 19, 21, 24, 26, 28, 30, 32, 34] : List Int) := by decide
  have hz : chars (List.replicate 36 (0 : UInt8)) = List.replicate 36 (Char.ofNat 0) := by decide
  rw [hm] at hl
  simp only [hz] at hl
  generalize forEachL _ XUuid.loop0Body _ 0 _ = fl at hl ⊢
  cases hu : uuidLoop u Model.C20.uuidIdx 0 (List.replicate 36 (Char.ofNat 0)) with
  | panic w => cases fl <;> simp_all [UU.obsN, obsF, obsM, Outcome.bind]
  | ok b =>
    simp only [hu, Outcome.bind, obsM] at hl ⊢
    cases fl <;> simp [UU.obsN] at hl
    rename_i s'
    obtain ⟨hb, _⟩ := hl
    subst hb
    have hd : (45 : UInt8).toNat = 45 := rfl
    have hc : Char.ofNat 45 = '-' := rfl
    simp only [Model.C20.uuidDashes, setAll, setIdx, chars_length, Outcome.bind]
    have lenset : ∀ (d : Bytes) (i : Nat) (v : UInt8), ((d.set i v).length : Int) = d.length := by intros; simp
    by_cases h8 : (8 : Int) < s'.l0.length
    · have g8 : 8 < s'.l0.length := by omega
      by_cases h13 : (13 : Int) < s'.l0.length
      · have g13 : 13 < s'.l0.length := by omega
        by_cases h18 : (18 : Int) < s'.l0.length
        · have g18 : 18 < s'.l0.length := by omega
          by_cases h23 : (23 : Int) < s'.l0.length
          · have g23 : 23 < s'.l0.length := by omega
            simp [upd, h8, h13, h18, h23, g8, g13, g18, g23, Xlate.ret, obsF, chars_set, chars_length, hc]
          · have g23 : ¬ 23 < s'.l0.length := by omega
            simp [upd, h8, h13, h18, h23, g8, g13, g18, g23, Xlate.ret, obsF, chars_set, chars_length, hc]
        · have g18 : ¬ 18 < s'.l0.length := by omega
          simp [upd, h8, h13, h18, g8, g13, g18, Xlate.ret, obsF, chars_set, chars_length, hc]
      · have g13 : ¬ 13 < s'.l0.length := by omega
        simp [upd, h8, h13, g8, g13, Xlate.ret, obsF, chars_set, chars_length, hc]
    · have g8 : ¬ 8 < s'.l0.length := by omega
      simp [upd, h8, g8, Xlate.ret, obsF, chars_set, chars_length, hc]

/-- `uuid_format` transferred: for 24 bytes the translated function prints the 8-4-4-4-12 lower-hex text of the
first 16 — no index leaves `u`, the hex table or the 36-byte buffer. -/
theorem xuuid_format (u : Bytes) (h : u.length = 24) : obsX (XUuid.run { p0 := u }) = .ok (Spec.uuidText u) := by
  rw [xuuid_eq_model, Props.C20.uuid_format u h]; rfl

example : obsX (XUuid.run { p0 := (List.range 24).map UInt8.ofNat }) = .ok "00010203-0405-0607-0809-0a0b0c0d0e0f".toList := by
  decide +kernel


/-! ### `hostport` -/

set_option maxRecDepth 20000 in
theorem colon_byte (x : UInt8) : (Char.ofNat x.toNat == ':') = (x == 58) := by
  have h : ∀ n : Fin 256, (Char.ofNat n.val == ':') = (n.val == 58) := by decide
  have := h ⟨x.toNat, x.toNat_lt⟩
  simp only at this
  rw [this]
  cases hx : (x == 58) <;> simp_all [← UInt8.toNat_inj]

/-- -1 / index as the model's `Option Nat` -/
def encIdx : Option Nat → Int
  | none => -1
  | some k => k

theorem lastIndex_go (b : Bytes) (i : Nat) (best : Option Nat) :
    lastIndexByteGo 58 b i (encIdx best) = encIdx (lastIndexOf.go ':' i best (chars b)) := by
  induction b generalizing i best with
  | nil => simp [lastIndexByteGo, lastIndexOf.go, chars]
  | cons x xs ih =>
    simp only [lastIndexByteGo, chars, List.map_cons, lastIndexOf.go, colon_byte]
    cases hx : (x == 58)
    · simpa [chars] using ih (i+1) best
    · simpa [chars, encIdx] using ih (i+1) (some i)

theorem lastIndex_eq (b : Bytes) : lastIndexByte b 58 = encIdx (lastIndexOf ':' (chars b)) := by
  unfold lastIndexByte lastIndexOf
  exact lastIndex_go b 0 none

/-- result of the translated `hostport`: both strings as text -/
def obsHP {σ} : V ((Bytes × Bytes) × σ) → Outcome (List Char × List Char)
  | .ok ((h, p), _) => .ok (chars h, chars p)
  | .panic _ => .panic ""

/-- **The translated `hostport` equals the model's on every byte string** (the bytes read as Latin-1 text: one
character per byte, `:` is the byte 58 and no other). -/
theorem xhostport_eq_model (b : Bytes) : obsHP (XHostport.run { p0 := b }) = obsM (hostport (chars b)) := by
  unfold XHostport.run Xlate.run XHostport.body hostport
  cases b with
  | nil => simp [seq, ifS, Xlate.ret, obsHP, obsM, chars]
  | cons x xs =>
    have hne : ((x :: xs : Bytes) == ([] : Bytes)) = false := by rfl
    have hne' : (chars (x :: xs)).isEmpty = false := by simp [chars]
    simp only [seq, ifS, assign, hne, hne', skip, lastIndex_eq, Bool.false_eq_true, if_false]
    cases hl : lastIndexOf ':' (chars (x :: xs)) with
    | none => simp [encIdx, Xlate.ret, obsHP, obsM, chars]
    | some n =>
      have hn : ¬ ((n : Int) < 0) := by omega
      simp only [encIdx, ltI_eq, hn, decide_false, Xlate.ret, chars_length]
      by_cases hb : n + 1 ≤ (x :: xs).length
      · have h1 : sliceTo (x :: xs) (n : Int) = .ok ((x :: xs).take n) := by
          simp [sliceTo]; simp at hb; omega
        have h2 : sliceFrom (x :: xs) ((n : Int) + 1) = .ok ((x :: xs).drop (n+1)) := by
          simp [sliceFrom]; simp at hb; constructor <;> omega
        have hb' : n ≤ xs.length := by simpa using hb
        simp [h1, h2, hb', obsHP, obsM, chars, List.map_take, List.map_drop]
      · have h2 : ∃ w, sliceFrom (x :: xs) ((n : Int) + 1) = .panic w := by
          refine ⟨"slice bounds out of range", ?_⟩
          unfold sliceFrom; rw [if_neg]; simp at hb ⊢; omega
        obtain ⟨w, h2⟩ := h2
        have hb' : ¬ n ≤ xs.length := by simpa using hb
        cases h1 : sliceTo (x :: xs) (n : Int) <;> simp [h1, h2, hb', obsHP, obsM]

/-- `hostport_total` transferred: the translated function never panics, whatever bytes the address consists of
(no slice bound leaves the string: `strings.LastIndexByte` answers an index inside it). -/
theorem xhostport_total (b : Bytes) : ∃ h p, obsHP (XHostport.run { p0 := b }) = .ok (h, p) := by
  rw [xhostport_eq_model]
  have := Props.C20.hostport_total (chars b)
  cases hm : hostport (chars b) with
  | ok r => exact ⟨r.1, r.2, rfl⟩
  | panic w => simp [hm, Outcome.isPanic] at this

/-- `hostport_spec` transferred: host ++ ":" ++ port is the address and the port has no colon; without a colon the
address is the host. -/
theorem xhostport_spec (b : Bytes) :
    ∃ h p, obsHP (XHostport.run { p0 := b }) = .ok (h, p) ∧ Spec.hostportOk (chars b) h p = true := by
  rw [xhostport_eq_model]
  obtain ⟨h, p, hm, hs⟩ := Props.C20.hostport_spec (chars b)
  exact ⟨h, p, by rw [hm]; rfl, hs⟩

example : obsHP (XHostport.run { p0 := "[::1]:80".toUTF8.toList }) = .ok ("[::1]".toList, "80".toList) := by decide +kernel
example : obsHP (XHostport.run { p0 := "backend".toUTF8.toList }) = .ok ("backend".toList, []) := by decide +kernel


/-! ### `hostport` on UTF-8 strings -/

/-- UTF-8 of a text, as Go holds it -/
def utf8 (cs : List Char) : Bytes := cs.flatMap String.utf8EncodeChar

/-- the byte 58 occurs in the UTF-8 encoding of a character only as the encoding of `:` itself (every byte of a
multi-byte sequence is ≥ 128) -/
theorem colon_in_utf8 (c : Char) (h : (58 : UInt8) ∈ String.utf8EncodeChar c) : c = ':' := by
  have hv : c.val.toNat < 1114112 := by
    have := c.valid
    simp only [UInt32.isValidChar, Nat.isValidChar] at this
    omega
  have key : ∀ n : Nat, UInt8.ofNat n = 58 → n % 256 = 58 := by
    intro n hn
    have := congrArg UInt8.toNat hn
    simpa using this
  unfold String.utf8EncodeChar at h
  simp only at h
  split at h
  · simp only [List.mem_singleton] at h
    have := key _ h.symm
    have hc : c.val.toNat = 58 := by omega
    exact Char.ext (UInt32.toNat_inj.mp hc)
  · split at h
    · simp only [List.mem_cons, List.not_mem_nil, or_false] at h
      rcases h with h | h <;> (have := key _ h.symm; omega)
    · split at h
      · simp only [List.mem_cons, List.not_mem_nil, or_false] at h
        rcases h with h | h | h <;> (have := key _ h.symm; omega)
      · simp only [List.mem_cons, List.not_mem_nil, or_false] at h
        rcases h with h | h | h | h <;> (have := key _ h.symm; omega)

theorem utf8_colon : String.utf8EncodeChar ':' = [58] := by decide

theorem colon_mem_utf8 (cs : List Char) : (58 : UInt8) ∈ utf8 cs ↔ ':' ∈ cs := by
  unfold utf8
  constructor
  · intro h
    obtain ⟨c, hc, hm⟩ := List.mem_flatMap.mp h
    have := colon_in_utf8 c hm
    subst this; exact hc
  · intro h
    exact List.mem_flatMap.mpr ⟨':', h, by rw [utf8_colon]; simp⟩

set_option maxRecDepth 20000 in
theorem latin1_toNat (x : UInt8) : (Char.ofNat x.toNat).toNat = x.toNat := by
  have h : ∀ n : Fin 256, (Char.ofNat n.val).toNat = n.val := by decide
  exact h ⟨x.toNat, x.toNat_lt⟩

theorem chars_inj (a b : Bytes) (h : chars a = chars b) : a = b := by
  refine (List.map_inj_right ?_).mp h
  intro x y hxy
  have := congrArg Char.toNat hxy
  rw [latin1_toNat, latin1_toNat] at this
  exact UInt8.toNat_inj.mp this

theorem colon_mem_chars (b : Bytes) : ':' ∈ chars b ↔ (58 : UInt8) ∈ b := by
  unfold chars
  constructor
  · intro h
    obtain ⟨x, hx, he⟩ := List.mem_map.mp h
    have := colon_byte x
    rw [he] at this
    simp at this
    rw [← this]; exact hx
  · intro h
    exact List.mem_map.mpr ⟨58, h, rfl⟩

theorem split_unique_gen {α} (c : α) (h1 h2 p1 p2 : List α) (c1 : c ∉ p1) (c2 : c ∉ p2)
    (h : h1 ++ c :: p1 = h2 ++ c :: p2) : h1 = h2 ∧ p1 = p2 := by
  induction h1 generalizing h2 with
  | nil =>
    cases h2 with
    | nil => simp at h; exact ⟨rfl, h⟩
    | cons y h2' =>
      simp at h
      exact absurd (by rw [h.2]; simp) c1
  | cons x h1' ih =>
    cases h2 with
    | nil =>
      simp at h
      exact absurd (by rw [← h.2]; simp) c2
    | cons y h2' =>
      simp at h
      obtain ⟨rfl, h'⟩ := h
      obtain ⟨e1, e2⟩ := ih h2' h'
      exact ⟨by rw [e1], e2⟩

/-- **The translated `hostport` on the UTF-8 bytes of a text is the reference split of the text** — the step from
bytes to runes: a string is cut at the last byte 58, and that is the last `:` of the text because no other
character has a byte 58 in its encoding. With `hostport_eq_reference` this is the character-level model. -/
theorem xhostport_utf8 (cs : List Char) :
    ∃ s', XHostport.run { p0 := utf8 cs } =
      .ok ((utf8 (Spec.splitLastColon cs).1, utf8 (Spec.splitLastColon cs).2), s') := by
  have hm := xhostport_eq_model (utf8 cs)
  rw [Lemmas.C20.hostport_eq_split] at hm
  cases hr : XHostport.run { p0 := utf8 cs } with
  | panic w => simp [hr, obsHP, obsM] at hm
  | ok r =>
    obtain ⟨⟨hb, pb⟩, s'⟩ := r
    simp only [hr, obsHP, obsM, Outcome.ok.injEq] at hm
    have hm1 : chars hb = (Spec.splitLastColon (chars (utf8 cs))).1 := by rw [← hm]
    have hm2 : chars pb = (Spec.splitLastColon (chars (utf8 cs))).2 := by rw [← hm]
    refine ⟨s', ?_⟩
    congr 2
    by_cases hc : ':' ∈ cs
    · have hcb : ':' ∈ chars (utf8 cs) := (colon_mem_chars _).mpr ((colon_mem_utf8 cs).mpr hc)
      obtain ⟨f1, f2⟩ := Lemmas.C20.splitLastColon_spec (chars (utf8 cs)) hcb
      rw [← hm1, ← hm2] at f1
      rw [← hm2] at f2
      have hbytes : hb ++ 58 :: pb = utf8 cs := by
        apply chars_inj
        rw [← f1]
        simp [chars]
      have hp : (58 : UInt8) ∉ pb := fun h => f2 ((colon_mem_chars pb).mpr h)
      obtain ⟨g1, g2⟩ := Lemmas.C20.splitLastColon_spec cs hc
      have hmodel : utf8 (Spec.splitLastColon cs).1 ++ 58 :: utf8 (Spec.splitLastColon cs).2 = utf8 cs := by
        conv => rhs; rw [← g1]
        simp [utf8, utf8_colon]
      have hp' : (58 : UInt8) ∉ utf8 (Spec.splitLastColon cs).2 := fun h => g2 ((colon_mem_utf8 _).mp h)
      obtain ⟨e1, e2⟩ := split_unique_gen 58 _ _ _ _ hp hp' (hbytes.trans hmodel.symm)
      exact Prod.ext e1 e2
    · have hcb : ¬ ':' ∈ chars (utf8 cs) := fun h => hc ((colon_mem_utf8 cs).mp ((colon_mem_chars _).mp h))
      have c1 : (chars (utf8 cs)).contains ':' = false := by simpa using hcb
      have c2 : cs.contains ':' = false := by simpa using hc
      simp only [Spec.splitLastColon, c1, c2, Bool.false_eq_true, if_false] at hm1 hm2 ⊢
      have e1 : hb = utf8 cs := chars_inj _ _ hm1
      have e2 : pb = [] := by
        cases pb <;> simp_all [chars]
      rw [e1, e2]; rfl

example : obsHP (XHostport.run { p0 := utf8 "hôte:8080".toList }) = .ok (chars (utf8 "hôte".toList), "8080".toList) := by
  decide +kernel


/-! ### `atoi` -/

namespace AT
open XAtoi

/-- the scratch array `d` of the state holds, behind index `p`, the text `acc` written so far -/
def Rel (s : St) (acc : List Char) : Prop :=
  s.l1.length = 128 ∧ acc.length ≤ 128 ∧ s.l3 = 127 - (acc.length : Int) ∧ chars (s.l1.drop (128 - acc.length)) = acc ∧ s.l2 = 128

/-- what the loops leave alone -/
def Frame (s s' : St) : Prop := s'.p0 = s.p0 ∧ s'.l0 = s.l0 ∧ s'.p2 = s.p2

/-- a loop of `atoi` against its model: both fall through with related buffers, or both panic -/
def LoopOut (s : St) (fl : Flow Rho St) (m : Outcome (List Char)) : Prop :=
  match fl, m with
  | .next s', .ok acc' => Rel s' acc' ∧ Frame s s'
  | .panic _, .panic _ => True
  | _, _ => False

theorem LoopOut.frame {s s1 : St} {fl : Flow Rho St} {m : Outcome (List Char)} (h : LoopOut s1 fl m) (hf : Frame s s1) :
    LoopOut s fl m := by
  unfold LoopOut at h ⊢
  cases fl <;> cases m <;> simp_all [Frame]

/-- one store `d[p] = v; p--` in a related state -/
theorem push_step (s : St) (acc : List Char) (v : UInt8) (h : Rel s acc) (hlt : acc.length < 128) :
    upd s.l1 s.l3 v = .ok (s.l1.set (127 - acc.length) v) ∧ wrapI 64 (s.l3 - 1) = 127 - ((acc.length + 1 : Nat) : Int) ∧
    chars ((s.l1.set (127 - acc.length) v).drop (128 - (acc.length + 1))) = Char.ofNat v.toNat :: acc := by
  obtain ⟨h1, h2, h3, h4, h5⟩ := h
  have hk : 127 - acc.length < s.l1.length := by omega
  refine ⟨?_, ?_, ?_⟩
  · have : s.l3 = ((127 - acc.length : Nat) : Int) := by omega
    rw [this, upd_ok _ _ _ hk]
  · rw [wrap64_id] <;> omega
  · have e : 128 - (acc.length + 1) = 127 - acc.length := by omega
    rw [e, drop_set _ _ _ hk]
    have e2 : 127 - acc.length + 1 = 128 - acc.length := by omega
    rw [e2]
    show Char.ofNat v.toNat :: chars _ = _
    rw [h4]

theorem push_full (s : St) (acc : List Char) (v : UInt8) (h : Rel s acc) (hfull : acc.length = 128) :
    ∃ w, upd s.l1 s.l3 v = .panic w := by
  obtain ⟨h1, h2, h3, h4, h5⟩ := h
  exact upd_neg _ _ _ (by omega)

/-- the digit loop (`for i >= 0 { d[p] = '0' + i%10; i /= 10; p--; if i == 0 { break } }`) -/
theorem loop0_spec (fuel : Nat) (s : St) (acc : List Char) (h : Rel s acc) (hi : 0 ≤ s.p1) :
    LoopOut s (loopN loop0Cond loop0Body fuel s) (digitsLoop 128 fuel s.p1.toNat acc) := by
  induction fuel generalizing s acc with
  | zero => simp [loopN, digitsLoop, LoopOut]
  | succ fuel ih =>
    unfold loopN digitsLoop
    have hc : loop0Cond s = .ok true := by simp [loop0Cond, hi]
    simp only [hc]
    by_cases hfull : acc.length = 128
    · obtain ⟨w, hw⟩ := push_full s acc ((48 : UInt8) + toU8 (Int.tmod s.p1 10)) h hfull
      simp [loop0Body, seq, assign, hw, pushFront, hfull, LoopOut]
    · have hlt : acc.length < 128 := by have := h.2.1; omega
      obtain ⟨hu, hw, hd⟩ := push_step s acc ((48 : UInt8) + toU8 (Int.tmod s.p1 10)) h hlt
      have hq : Int.tdiv s.p1 10 = ((s.p1.toNat / 10 : Nat) : Int) := by
        rw [Int.tdiv_eq_ediv_of_nonneg hi]; omega
      rw [digit_char s.p1 hi] at hd
      generalize hb : loop0Body s = fl
      simp only [loop0Body, seq, assign, hu, hq, ifS] at hb
      simp only [pushFront, hlt, if_true]
      have hrel : ∀ q : Int, Rel ({ s with p1 := q, l1 := List.set s.l1 (127 - acc.length) ((48 : UInt8) + toU8 (Int.tmod s.p1 10)), l3 := wrapI 64 (s.l3 - 1) } : St) (digitByte s.p1.toNat :: acc) := by
        intro q
        obtain ⟨h1, h2, h3, h4, h5⟩ := h
        refine ⟨by simp [h1], by simp; omega, ?_, hd, h5⟩
        simp only [hw, List.length_cons]
      by_cases hz : s.p1.toNat / 10 = 0
      · have hz' : (((s.p1.toNat / 10 : Nat) : Int) == 0) = true := by simp [hz]
        simp only [hz', brk] at hb
        subst hb
        simp only [hz, if_true, LoopOut]
        exact ⟨hrel _, rfl, rfl, rfl⟩
      · have hz' : (((s.p1.toNat / 10 : Nat) : Int) == 0) = false := by simp; omega
        simp only [hz', skip] at hb
        subst hb
        simp only [hz, if_false]
        have := ih _ (digitByte s.p1.toNat :: acc) (hrel ((s.p1.toNat / 10 : Nat) : Int)) (Int.natCast_nonneg _)
        have e : ((s.p1.toNat / 10 : Nat) : Int).toNat = s.p1.toNat / 10 := by omega
        simp only [e] at this
        exact this.frame ⟨rfl, rfl, rfl⟩

/-- the padding loop (`for n-p-1 < pad { d[p] = '0'; p-- }`): the fuel the translator was given (130) is enough —
the loop stores at most 128 zeros before the bounds check of `d[-1]` stops it -/
theorem loop1_spec (fuel : Nat) (s : St) (acc : List Char) (pad : Nat) (h : Rel s acc) (hp : s.p2 = pad)
    (hf : 130 - acc.length ≤ fuel) :
    LoopOut s (loopN loop1Cond loop1Body fuel s) (padLoop 128 (pad - acc.length) acc) := by
  induction fuel generalizing s acc with
  | zero => have := h.2.1; omega
  | succ fuel ih =>
    unfold loopN
    have hcond : loop1Cond s = .ok (decide (acc.length < pad)) := by
      obtain ⟨h1, h2, h3, h4, h5⟩ := h
      have e1 : wrapI 64 (s.l2 - s.l3) = (acc.length : Int) + 1 := by rw [wrap64_id] <;> omega
      have e2 : wrapI 64 ((acc.length : Int) + 1 - 1) = acc.length := by rw [wrap64_id] <;> omega
      simp only [loop1Cond, e1, e2, hp, ltI_eq]
      congr 1
      simp
    simp only [hcond]
    by_cases hlp : acc.length < pad
    · have hk : pad - acc.length = (pad - (acc.length + 1)) + 1 := by omega
      rw [hk]
      simp only [hlp, decide_true, padLoop]
      by_cases hfull : acc.length = 128
      · obtain ⟨w, hw⟩ := push_full s acc 48 h hfull
        simp [loop1Body, seq, assign, hw, pushFront, hfull, LoopOut]
      · have hlt : acc.length < 128 := by have := h.2.1; omega
        obtain ⟨hu, hw, hd⟩ := push_step s acc 48 h hlt
        have h48 : Char.ofNat (48 : UInt8).toNat = '0' := rfl
        rw [h48] at hd
        simp only [loop1Body, seq, assign, hu, pushFront, hlt, if_true]
        have hrel : Rel ({ s with l1 := List.set s.l1 (127 - acc.length) 48, l3 := wrapI 64 (s.l3 - 1) } : St) ('0' :: acc) := by
          obtain ⟨h1, h2, h3, h4, h5⟩ := h
          refine ⟨by simp [h1], by simp; omega, ?_, hd, h5⟩
          simp only [hw, List.length_cons]
        have := ih _ ('0' :: acc) hrel hp (by simp only [List.length_cons]; omega)
        exact this.frame ⟨rfl, rfl, rfl⟩
    · have hk : pad - acc.length = 0 := by omega
      rw [hk]
      simp only [hlp, decide_false, padLoop, LoopOut]
      exact ⟨h, rfl, rfl, rfl⟩

/-- `d[p+1:]` in a related state is the text written so far -/
theorem tail_slice (s : St) (acc : List Char) (h : Rel s acc) :
    sliceFrom s.l1 (wrapI 64 (s.l3 + 1)) = .ok (s.l1.drop (128 - acc.length)) := by
  obtain ⟨h1, h2, h3, h4, h5⟩ := h
  have e : wrapI 64 (s.l3 + 1) = ((128 - acc.length : Nat) : Int) := by rw [wrap64_id] <;> omega
  rw [e]
  simp [sliceFrom]; omega

end AT

/-- what `atoi` appended: the buffer afterwards, as text -/
def obsA : V (Unit × XAtoi.St) → Outcome (List Char)
  | .ok (_, s) => .ok (chars s.p0)
  | .panic _ => .panic ""

theorem rel_init (buf : Bytes) (a : Int) (pad : Int) (neg : Bool) :
    AT.Rel { p0 := buf, p1 := a, p2 := pad, l0 := neg, l1 := List.replicate 128 0, l2 := 128, l3 := 127 } [] := by
  refine ⟨by simp, by simp, by simp, by simp [chars], rfl⟩

/-- **The translated `atoi` equals the model's for every integer and every pad ≥ 0**: same 128-byte scratch array
filled from the back, same wrap-around of `-i` at MinInt64, same panic when the padding runs off the array; neither
loop runs out of the fuel the translator was given (20 and 130). -/
theorem xatoi_eq_model (buf : Bytes) (i : Int) (pad : Nat) :
    obsA (XAtoi.run { p0 := buf, p1 := i, p2 := (pad : Int) }) = obsM ((atoi i pad).map (chars buf ++ ·)) := by
  have hwr : ∀ x : Int, wrap64 x = wrapI 64 x := by intro x; simp [wrap64, wrapI]
  unfold XAtoi.run Xlate.run XAtoi.body atoi
  simp only [seq, assign, ifS, ltI_eq, loop, hwr]
  by_cases hneg : i < 0
  · simp only [hneg, decide_true, if_true]

    have hr := rel_init buf (wrapI 64 (-i)) (pad : Int) true
    have L0 : AT.LoopOut { p0 := buf, p1 := wrapI 64 (-i), p2 := (pad : Int), l0 := true, l1 := List.replicate 128 0, l2 := 128, l3 := 127 } (loopN XAtoi.loop0Cond XAtoi.loop0Body 20 { p0 := buf, p1 := wrapI 64 (-i), p2 := (pad : Int), l0 := true, l1 := List.replicate 128 0, l2 := 128, l3 := 127 })
        (if wrapI 64 (-i) < 0 then Outcome.ok [] else digitsLoop 128 20 (wrapI 64 (-i)).toNat []) := by
      by_cases ha : wrapI 64 (-i) < 0
      · simp only [ha, if_true]
        unfold loopN
        have : ¬ (0 ≤ wrapI 64 (-i)) := by omega
        simp only [XAtoi.loop0Cond, geI_eq, this, decide_false, AT.LoopOut]
        exact ⟨hr, rfl, rfl, rfl⟩
      · simp only [ha, if_false]
        exact AT.loop0_spec 20 _ [] hr (by simpa using ha)
    generalize loopN XAtoi.loop0Cond XAtoi.loop0Body 20 _ = fl0 at L0 ⊢
    generalize (if wrapI 64 (-i) < 0 then Outcome.ok [] else digitsLoop 128 20 (wrapI 64 (-i)).toNat []) = m0 at L0 ⊢
    cases fl0 <;> cases m0 <;> simp only [AT.LoopOut] at L0 <;> try contradiction
    · rename_i s1 ds
      obtain ⟨r1, f1⟩ := L0
      have L1 := AT.loop1_spec 130 s1 ds pad r1 (by rw [f1.2.2]) (by omega)
      simp only [Outcome.bind]
      generalize loopN XAtoi.loop1Cond XAtoi.loop1Body 130 s1 = fl1 at L1 ⊢
      generalize padLoop 128 (pad - ds.length) ds = m1 at L1 ⊢
      cases fl1 <;> cases m1 <;> simp only [AT.LoopOut] at L1 <;> try contradiction
      · rename_i s2 padded
        obtain ⟨r2, f2⟩ := L1
        have hl0 : s2.l0 = true := by rw [f2.2.1, f1.2.1]
        have hp0 : s2.p0 = buf := by rw [f2.1, f1.1]
        simp only [hl0]
        by_cases hfull : padded.length = 128
        · obtain ⟨w, hw⟩ := AT.push_full s2 padded 45 r2 hfull
          simp only [hw, pushFront, hfull, obsA, obsM, Outcome.map]
          simp
        · have hlt : padded.length < 128 := by have := r2.2.1; omega
          obtain ⟨hu, hw, hd⟩ := AT.push_step s2 padded 45 r2 hlt
          have h45 : Char.ofNat (45 : UInt8).toNat = '-' := rfl
          rw [h45] at hd
          have r3 : AT.Rel ({ s2 with l1 := List.set s2.l1 (127 - padded.length) 45, l3 := wrapI 64 (s2.l3 - 1) } : XAtoi.St) ('-' :: padded) := by
            obtain ⟨h1, h2, h3, h4, h5⟩ := r2
            refine ⟨by simp [h1], by simp; omega, ?_, hd, h5⟩
            simp only [hw, List.length_cons]
          have ts := AT.tail_slice _ _ r3
          simp only at ts
          simp only [hu, ts, V.bind_ok, V.pure_eq, pushFront, hlt, if_true, obsA, obsM, Outcome.map, hp0]
          have := r3.2.2.2.1
          simpa [chars] using this
      · simp [obsA, obsM, Outcome.map]
    · simp [obsA, obsM, Outcome.map, Outcome.bind]
  · simp only [hneg, decide_false, Bool.false_eq_true, if_false, skip]

    have hr := rel_init buf (i) (pad : Int) false
    have L0 : AT.LoopOut { p0 := buf, p1 := i, p2 := (pad : Int), l0 := false, l1 := List.replicate 128 0, l2 := 128, l3 := 127 } (loopN XAtoi.loop0Cond XAtoi.loop0Body 20 { p0 := buf, p1 := i, p2 := (pad : Int), l0 := false, l1 := List.replicate 128 0, l2 := 128, l3 := 127 })
        (digitsLoop 128 20 i.toNat []) := by
      exact AT.loop0_spec 20 _ [] hr (by simpa using hneg)
    generalize loopN XAtoi.loop0Cond XAtoi.loop0Body 20 _ = fl0 at L0 ⊢
    generalize (digitsLoop 128 20 i.toNat []) = m0 at L0 ⊢
    cases fl0 <;> cases m0 <;> simp only [AT.LoopOut] at L0 <;> try contradiction
    · rename_i s1 ds
      obtain ⟨r1, f1⟩ := L0
      have L1 := AT.loop1_spec 130 s1 ds pad r1 (by rw [f1.2.2]) (by omega)
      simp only [Outcome.bind]
      generalize loopN XAtoi.loop1Cond XAtoi.loop1Body 130 s1 = fl1 at L1 ⊢
      generalize padLoop 128 (pad - ds.length) ds = m1 at L1 ⊢
      cases fl1 <;> cases m1 <;> simp only [AT.LoopOut] at L1 <;> try contradiction
      · rename_i s2 padded
        obtain ⟨r2, f2⟩ := L1
        have hl0 : s2.l0 = false := by rw [f2.2.1, f1.2.1]
        have hp0 : s2.p0 = buf := by rw [f2.1, f1.1]
        simp only [hl0]
        have ts := AT.tail_slice _ _ r2
        simp only [ts, V.bind_ok, V.pure_eq, obsA, obsM, Outcome.map, hp0]
        have := r2.2.2.2.1
        simp [chars] at this ⊢
        exact this
      · simp [obsA, obsM, Outcome.map]
    · simp [obsA, obsM, Outcome.map, Outcome.bind]

/-- `atoi_eq_decimal` transferred: for every int64 but MinInt64 and every pad that fits the scratch array, the
translated `atoi` appends the sign and the zero-padded decimal digits (`Nat.toDigits 10`) to the buffer. -/
theorem xatoi_eq_decimal (buf : Bytes) (i : Int) (pad : Nat) (hlo : -2^63 < i) (hhi : i < 2^63) (hpad : pad ≤ 127) :
    obsA (XAtoi.run { p0 := buf, p1 := i, p2 := (pad : Int) }) = .ok (chars buf ++ Spec.decimal i pad) := by
  rw [xatoi_eq_model, Props.C20.atoi_eq_decimal i pad hlo hhi hpad]; rfl

/-- `atoi_total` transferred: no int64 (MinInt64 included) and no pad ≤ 127 makes the translated `atoi` panic —
no store leaves the 128-byte array and both loops end within their fuel. -/
theorem xatoi_total (buf : Bytes) (i : Int) (pad : Nat) (hlo : -2^63 ≤ i) (hhi : i < 2^63) (hpad : pad ≤ 127) :
    ∃ r, obsA (XAtoi.run { p0 := buf, p1 := i, p2 := (pad : Int) }) = .ok r := by
  rw [xatoi_eq_model]
  have := Props.C20.atoi_total i pad hlo hhi hpad
  cases hm : atoi i pad with
  | ok r => exact ⟨_, rfl⟩
  | panic w => simp [hm, Outcome.isPanic] at this

example : obsA (XAtoi.run { p0 := [65], p1 := -42, p2 := 4 }) = .ok "A-0042".toList := by decide +kernel


/-! ### `lex` -/

namespace LX
open Fabio.Generated.C20.XLex

/-- a rune slice that came from a string: the code points -/
def runes (cs : List Char) : List Int := cs.map fun c => (c.toNat : Int)

def stN : LexState → Int
  | .start => 0 | .text => 1 | .dollar => 2 | .field => 3 | .dot => 4 | .header => 5

def tyN : ItemType → Int
  | .text => 0 | .field => 1 | .header => 2

/-- the `switch state` after the loop -/
def fin (whole : List Char) : LexState → ItemType × Int
  | .dot => (.field, (whole.length : Int) - 1)
  | .field => (.field, whole.length)
  | .header => (.header, whole.length)
  | _ => (.text, whole.length)

theorem lexLoop_nil (whole : List Char) (st : LexState) (k : Nat) : lexLoop whole st k [] = fin whole st := by
  cases st <;> simp [lexLoop, fin]

theorem toNat_eq (c d : Char) : ((c.toNat : Int) == (d.toNat : Int)) = decide (c = d) := by
  have : (c.toNat : Int) = (d.toNat : Int) ↔ c = d := by
    constructor
    · intro h
      have : c.toNat = d.toNat := by omega
      exact Char.ext (UInt32.toNat_inj.mp this)
    · intro h; rw [h]
  cases hd : decide (c = d) <;> simp_all

theorem char_le (a c : Char) : (a ≤ c) ↔ ((a.toNat : Int) ≤ (c.toNat : Int)) := by
  rw [Char.le_def, UInt32.le_iff_toNat_le]
  show a.val.toNat ≤ c.val.toNat ↔ ((a.val.toNat : Nat) : Int) ≤ ((c.val.toNat : Nat) : Int)
  omega

theorem idchar (c : Char) : fn0 (c.toNat : Int) = isIDChar c := by
  unfold fn0 isIDChar
  have e1 := toNat_eq c '_'
  have e2 := toNat_eq c '-'
  have h95 : (('_' : Char).toNat : Int) = 95 := rfl
  have h45 : (('-' : Char).toNat : Int) = 45 := rfl
  rw [h95] at e1; rw [h45] at e2
  rw [e1, e2]
  simp only [leI_eq, char_le, show (('a' : Char).toNat : Int) = 97 from rfl, show (('z' : Char).toNat : Int) = 122 from rfl,
    show (('A' : Char).toNat : Int) = 65 from rfl, show (('Z' : Char).toNat : Int) = 90 from rfl,
    show (('0' : Char).toNat : Int) = 48 from rfl, show (('9' : Char).toNat : Int) = 57 from rfl]
  rfl

theorem runes_take (whole : List Char) (k : Nat) : (runes whole).take k = runes (whole.take k) := by
  simp [runes, List.map_take]

theorem runes_inj (a b : List Char) : (runes a == runes b) = decide (a = b) := by
  have inj : Function.Injective (fun c : Char => (c.toNat : Int)) := by
    intro c d h
    have : c.toNat = d.toNat := by simp only at h; omega
    exact Char.ext (UInt32.toNat_inj.mp this)
  have : runes a = runes b ↔ a = b := ⟨fun h => (List.map_inj_right inj).mp h, fun h => by rw [h]⟩
  cases hd : decide (a = b) <;> simp_all

theorem header_runes : ([36, 104, 101, 97, 100, 101, 114] : List Int) = runes headerPrefix := by decide

/-- what the `range` loop of the translated `lex` does, against the model's `lexLoop`: an early `return` is the
model's answer; otherwise the loop falls through in some state and the model's answer is that state's final case -/
def LoopRel (whole : List Char) (s : St) (fl : Flow Rho St) (m : ItemType × Int) : Prop :=
  match fl with
  | .ret (t, n) _ => (t, n) = (tyN m.1, m.2)
  | .next s' => s'.p0 = s.p0 ∧ ∃ st', s'.l0 = stN st' ∧ m = fin whole st'
  | _ => False

inductive Step where
  | goto (st : LexState)
  | done (ty : ItemType)

/-- one rune of the model's state machine -/
def step (whole : List Char) (k : Nat) : LexState → Char → Step
  | .start, r => if r = '$' then .goto .dollar else .goto .text
  | .text, r => if r = '$' then .done .text else .goto .text
  | .dollar, r => if isIDChar r then .goto .field else .goto .text
  | .field, r =>
    if r = '.' then (if whole.take k = headerPrefix then .goto .dot else .done .field)
    else if isIDChar r then .goto .field else .done .field
  | .dot, r => if isIDChar r then .goto .header else .done .field
  | .header, r => if isIDChar r then .goto .header else .done .header

theorem lexLoop_cons (whole : List Char) (st : LexState) (k : Nat) (c : Char) (cs : List Char) :
    lexLoop whole st k (c :: cs) =
      match step whole k st c with
      | .goto st' => lexLoop whole st' (k+1) cs
      | .done ty => (ty, (k : Int)) := by
  cases st <;> simp only [lexLoop, step] <;> repeat (split <;> try rfl)

theorem body_spec (whole : List Char) (k : Nat) (st : LexState) (c : Char) (s : St)
    (hp : s.p0 = runes whole) (hs : s.l0 = stN st) (hk : s.l1 = k) (hc : s.l2 = (c.toNat : Int)) (hl : k ≤ whole.length) :
    loop0Body s =
      match step whole k st c with
      | .goto st' => .next { s with l0 := stN st' }
      | .done ty => .ret (tyN ty, (k : Int)) s := by
  have d36 : (s.l2 == (36 : Int)) = decide (c = '$') := by rw [hc]; exact toNat_eq c '$'
  have d46 : (s.l2 == (46 : Int)) = decide (c = '.') := by rw [hc]; exact toNat_eq c '.'
  have hid : fn0 s.l2 = isIDChar c := by rw [hc]; exact idchar c
  have hsl : lsliceTo s.p0 s.l1 = .ok (runes (whole.take k)) := by
    rw [hp, hk, ← runes_take]
    unfold lsliceTo
    have : (k : Int) ≤ ((runes whole).length : Int) := by simp [runes]; omega
    simp [this]
  unfold loop0Body
  have hh : ∀ x : List Char, (runes x == ([36, 104, 101, 97, 100, 101, 114] : List Int)) = decide (x = headerPrefix) := by
    intro x; rw [header_runes]; exact runes_inj x headerPrefix
  cases st <;> simp only [stN] at hs <;> simp only [ifS, hs, step, d36, d46, hid, assign, Xlate.ret, skip, hsl, V.bind_ok, V.pure_eq, hh] <;>
    by_cases h1 : c = '$' <;> by_cases h2 : isIDChar c = true <;> by_cases h3 : c = '.' <;>
    by_cases h4 : List.take k whole = headerPrefix <;> simp [h1, h2, h3, h4, hk, tyN, stN] <;>
    (cases s; simp_all)

theorem LoopRel.frame {whole : List Char} {s s1 : St} {fl : Flow Rho St} {m : ItemType × Int}
    (h : LoopRel whole s1 fl m) (hf : s1.p0 = s.p0) : LoopRel whole s fl m := by
  unfold LoopRel at h ⊢
  cases fl <;> simp_all

theorem loop_spec (whole rest : List Char) (k : Nat) (st : LexState) (s : St)
    (hp : s.p0 = runes whole) (hs : s.l0 = stN st) (hl : whole.length = k + rest.length) :
    LoopRel whole s (forEachL (fun k x s => { s with l1 := Int.ofNat k, l2 := x }) loop0Body (runes rest) k s)
      (lexLoop whole st k rest) := by
  induction rest generalizing k st s with
  | nil =>
    simp only [runes, List.map_nil, forEachL, LoopRel, lexLoop_nil]
    exact ⟨trivial, st, hs, rfl⟩
  | cons c cs ih =>
    simp only [runes, List.map_cons, forEachL]
    have hb := body_spec whole k st c { s with l1 := Int.ofNat k, l2 := (c.toNat : Int) } hp hs rfl rfl (by omega)
    rw [hb, lexLoop_cons]
    cases hstep : step whole k st c with
    | goto st' =>
      simp only
      have := ih (k+1) st' { s with l0 := stN st', l1 := Int.ofNat k, l2 := (c.toNat : Int) } hp rfl (by simp at hl; omega)
      exact this.frame rfl
    | done ty =>
      simp [LoopRel]

end LX

/-- **The translated `lex` equals the model's on every rune slice that came from a string** (`parse` calls it on
`[]rune(format)` only): same item type, same length; it never panics — in particular `s[:i]` stays in range. -/
theorem xlex_eq_model (cs : List Char) :
    ∃ s', XLex.run { p0 := LX.runes cs } = .ok ((LX.tyN (lex cs).1, (lex cs).2), s') := by
  unfold XLex.run Xlate.run XLex.body
  simp only [seq, assign, forEach, XLex.loop0List]
  have L := LX.loop_spec cs cs 0 .start { p0 := LX.runes cs, l0 := 0 } rfl rfl (by simp)
  rw [show lexLoop cs .start 0 cs = lex cs from rfl] at L
  generalize forEachL _ XLex.loop0Body _ 0 _ = fl at L ⊢
  cases fl <;> simp only [LX.LoopRel] at L
  · rename_i s1
    obtain ⟨hp, st', hs, hm⟩ := L
    rw [hm]
    cases st' <;> simp only [LX.stN] at hs <;>
      simp [ifS, hs, Xlate.ret, LX.fin, LX.tyN, llen, hp, LX.runes]
  · rename_i r s1
    obtain ⟨t, n⟩ := r
    have L' : (t, n) = (LX.tyN (lex cs).1, (lex cs).2) := L
    exact ⟨s1, by simp only [L']⟩

/-- `lex_progress` transferred: on a non-empty rune slice the translated `lex` answers a length between 1 and the
length of the slice — the loop of `parse` terminates and its `s[:n]`, `s[n:]` are in range. -/
theorem xlex_progress (cs : List Char) (h : cs ≠ []) :
    ∃ t n s', XLex.run { p0 := LX.runes cs } = .ok ((t, n), s') ∧ 1 ≤ n ∧ n ≤ cs.length := by
  obtain ⟨s', hs'⟩ := xlex_eq_model cs
  exact ⟨_, _, s', hs', Props.C20.lex_progress cs h⟩


end Fabio.Props.C20Xlate
