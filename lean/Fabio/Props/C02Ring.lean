import Fabio.Props.C02
import Fabio.Props.C04
/-!
C02 — "never crashes", the part carried by C04's ring and picker theorems: corollaries for every table the model of
`route.NewTable` returns for ANY configuration text. Kept in its own module because it imports C04's property
module (Mathlib-backed proofs); `Props/C02.lean` stays core-only.

These are statements about the model over ℚ (effective weights are exact rationals in [0,1] that sum to 1). The
float64 side — the clamp introduced by the repair of D02 makes the computed weights land in [0,1] and the slot
counts non-negative — is exercised by `c02.nopanic` (hostile weights) and by C04's streams.
-/
namespace Fabio.Props.C02
open Fabio Fabio.Model.Route Fabio.Model.Parse Fabio.Model.C04

/-- **Ring construction never panics**, for every text that builds and every route of the resulting table, for
every order in which Go's unstable sort may leave the slot entries: the ring fill finds a free slot every
time (no endless scan, no index out of range, no negative `make`), the ring is not empty and holds no nil. -/
theorem ring_no_panic (env : Env) (pf : ParseFloat) (text : Model.C02.Text) (t : Table)
    (h : loadTable env pf text = .ok t) :
    ∀ kv ∈ t, ∀ r ∈ kv.2, ∀ pl : List (Int × Nat), pl.Perm (entries (slotCounts r.targets)) →
      ∃ ring, ringOf r.targets pl = .ok ring ∧ ring ≠ [] ∧ ∀ s ∈ ring, s ≠ none := by
  obtain ⟨defs, _, hn⟩ := no_partial_table env pf text t h
  intro kv hkv r hr pl hperm
  obtain ⟨ring, h1, h2, h3, _⟩ := Fabio.Props.C04.every_route_ring env defs t hn kv hkv r hr pl hperm
  exact ⟨ring, h1, h2, h3⟩

/-- **Neither picker panics on such a ring**: `rrPicker` for every value of the cursor (no division by zero, no
index out of range), `rndPicker` for every RNG that honours `0 ≤ randIntn n < n`. -/
theorem pickers_no_panic (env : Env) (pf : ParseFloat) (text : Model.C02.Text) (t : Table)
    (h : loadTable env pf text = .ok t) :
    ∀ kv ∈ t, ∀ r ∈ kv.2, ∀ pl : List (Int × Nat), pl.Perm (entries (slotCounts r.targets)) →
      ∃ ring, ringOf r.targets pl = .ok ring ∧
        (∀ total, ∃ s, rrPick ring total = .ok (s, (total + 1) % uint64Size)) ∧
        (∀ rnd : Nat → Int, 0 ≤ rnd ring.length ∧ rnd ring.length < ring.length → ∃ s, rndPick ring rnd = .ok s) := by
  intro kv hkv r hr pl hperm
  obtain ⟨ring, h1, h2, _⟩ := ring_no_panic env pf text t h kv hkv r hr pl hperm
  have hpos : 0 < ring.length := List.length_pos_iff.mpr h2
  refine ⟨ring, h1, fun total => ?_, fun rnd hr' => ?_⟩
  · obtain ⟨s, hs, _⟩ := Fabio.Lemmas.C04.rrPick_ok ring hpos total
    exact ⟨s, hs⟩
  · obtain ⟨s, hs, _⟩ := Fabio.Props.C04.rnd_picks_ring_slot ring rnd hr'
    exact ⟨s, hs⟩

/-- the hypotheses are satisfiable: a two-target route with a fixed weight builds and has the ring 1/9 -/
example : ∃ t, loadTable { normURL := some, globOK := fun _ => true }
    (fun s => if s = "0.1".toList then some (.fin (1/10)) else none)
    "route add a /x http://a:1/ weight 0.1\nroute add b /x http://b:1/".toList = .ok t ∧ t ≠ [] := by
  refine ⟨_, rfl, ?_⟩
  decide

end Fabio.Props.C02
