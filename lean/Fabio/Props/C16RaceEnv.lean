import Fabio.Lemmas.C16RaceEnv
/-!
C16, round 4 — racing callers while the cleanup loop runs (`Model/C16RaceEnv.lean`): any number of callers, any
schedule in which their micro-steps are interleaved with any number of cleanup iterations against arbitrary
tables, any starting pool.  What survives of `Props/C16Race.lean` when the pool is cleaned under the callers'
feet is the statement the property needs: **nothing stays open that nobody will close.**
-/
namespace Fabio.Props.C16RaceEnv
open Fabio.Model.Route (Str)
open Fabio.Model.C16 Fabio.Model.C16.RaceEnv Fabio.Lemmas.C16 Fabio.Lemmas.C16Race Fabio.Lemmas.C16RaceEnv
open Fabio.Model.C16.Race (TState isDone)

def reach (p0 : Pool) (next0 n : Nat) (k : Str) (es : List Ev) : EState := run k (start p0 next0 n) es

theorem reach_inv (p0 : Pool) (next0 n : Nat) (k : Str) (es : List Ev) : J2 next0 k (reach p0 next0 n k es) :=
  j2_run next0 k _ es (j2_start p0 next0 n k)

/-- **No orphan, whatever the cleanup loop does meanwhile.** At every moment of every schedule every connection
dialled in the race is the live pooled connection of the key, or was closed by `Set`, or was handed to the
closer by a cleanup that found its backend gone, or is still held by its dialler before its `Set`. -/
theorem race_with_cleanup_no_orphans (p0 : Pool) (next0 n : Nat) (k : Str) (es : List Ev) :
    orphans next0 (reach p0 next0 n k es) = [] := by
  have inv := reach_inv p0 next0 n k es
  unfold orphans
  rw [List.filter_eq_nil_iff]
  intro i hi hb
  simp only [Bool.and_eq_true, decide_eq_true_eq, Bool.not_eq_true'] at hb
  obtain ⟨⟨⟨⟨h0, hpool⟩, hclosed⟩, hhanded⟩, hheld⟩ := hb
  rcases inv.acct i h0 (List.mem_range.mp hi) with ⟨c, hc, hid, _⟩ | a | a | ⟨j, hj⟩
  · have hm := find_mem hc
    have : ((reach p0 next0 n k es).pool.any fun kc => kc.2.id == i) = true :=
      List.any_eq_true.mpr ⟨(k, c), hm, by simp [hid]⟩
    rw [this] at hpool; cases hpool
  · have : (reach p0 next0 n k es).closed.contains i = true := by simpa using a
    rw [this] at hclosed; cases hclosed
  · have : (reach p0 next0 n k es).handed.contains i = true := by simpa using a
    rw [this] at hhanded; cases hhanded
  · have : (reach p0 next0 n k es).ts.contains (TState.dialled i) = true := by
      simpa using List.mem_of_getElem? hj
    rw [this] at hheld; cases hheld

/-- still at most one dial per caller -/
theorem race_with_cleanup_bounds (p0 : Pool) (next0 n : Nat) (k : Str) (es : List Ev) :
    next0 ≤ (reach p0 next0 n k es).next ∧ (reach p0 next0 n k es).next ≤ next0 + n := by
  have inv := reach_inv p0 next0 n k es
  refine ⟨inv.mono, ?_⟩
  have hl : (reach p0 next0 n k es).ts.length = n := by
    unfold reach; rw [Lemmas.C16RaceEnv.run_length]; simp [start]
  have := inv.budget
  rw [hl] at this; omega

/-- once all callers have returned, every connection of the race is pooled and live, closed, or with the closer -/
theorem race_with_cleanup_done (p0 : Pool) (next0 n : Nat) (k : Str) (es : List Ev)
    (hd : (reach p0 next0 n k es).ts.all isDone = true) :
    ∀ i, next0 ≤ i → i < (reach p0 next0 n k es).next →
      (∃ c, (reach p0 next0 n k es).pool.find k = some c ∧ c.id = i ∧ c.shut = false) ∨
      i ∈ (reach p0 next0 n k es).closed ∨ i ∈ (reach p0 next0 n k es).handed := by
  have inv := reach_inv p0 next0 n k es
  intro i h0 h1
  rcases inv.acct i h0 h1 with a | a | a | ⟨j, hj⟩
  · exact Or.inl a
  · exact Or.inr (Or.inl a)
  · exact Or.inr (Or.inr a)
  · have hm := List.mem_of_getElem? hj
    have := List.all_eq_true.mp hd _ hm
    simp [isDone] at this

/-! ### non-vacuity -/

/-- caller 0 stores connection 0; a cleanup that sees a table without the backend hands it to the closer; caller
1, which had dialled meanwhile, stores connection 1 (the backend is back in the table by the next cleanup, which
keeps it); caller 2 reuses it -/
example :
    let K := "grpc://a".toList
    let s := reach [] 0 3 K [.thread 0, .thread 0, .thread 1, .thread 1, .thread 0, .cleanup [], .thread 1,
                             .cleanup [K], .thread 2]
    s.pool = [(K, { id := 1 })] ∧ s.handed = [0] ∧ s.closed = [] ∧ s.next = 2 ∧
    s.ts = [.done (.dialled 0), .done (.dialled 1), .done (.reused 1)] ∧ orphans 0 s = [] := by decide

end Fabio.Props.C16RaceEnv
