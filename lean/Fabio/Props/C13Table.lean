import Fabio.Model.C13Table
import Fabio.Props.C13
/-!
C13, round 4 — the *specification* of "matches the request host" used by `Model.C13Table.specAnswered` (written
from the sentence: default port removed via the reversed string, ASCII case ignored, `*`+literal as a suffix test)
and C03's *model* of host matching (`normalizeHost`, `globLib`) say the same, wherever the specification reads a
key at all. Together with `Props.C03.mem_matched_iff` and `Props.C13Compose.next_matching_host_is_tried` this is the
model-side counterpart of what `c13.http` checks on the real proxy's answers.
-/
namespace Fabio.Props.C13Table
open Fabio Fabio.Model Fabio.Model.C13Table

/-! ### bytes as code points -/

theorem chars_eq_map (s : C13.Str) : chars s = s.map b2c := rfl

set_option maxRecDepth 100000 in
theorem b2c_cases : ∀ b : Fin 256, (let x := UInt8.ofNat b.val;
    (b2c x).toNat = b.val ∧ lowerChar (b2c x) = b2c (C13.lowerByte x) ∧
    ((b2c x == '*') = (x == 42)) ∧ ((b2c x == '?') = (x == 63)) ∧ ((b2c x == '[') = (x == 91)) ∧
    ((b2c x == '{') = (x == 123)) ∧ ((b2c x == '\\') = (x == 92))) := by decide

theorem b2c_facts (x : UInt8) :
    (b2c x).toNat = x.toNat ∧ lowerChar (b2c x) = b2c (C13.lowerByte x) ∧
    ((b2c x == '*') = (x == 42)) ∧ ((b2c x == '?') = (x == 63)) ∧ ((b2c x == '[') = (x == 91)) ∧
    ((b2c x == '{') = (x == 123)) ∧ ((b2c x == '\\') = (x == 92)) := by
  have := b2c_cases ⟨x.toNat, x.toNat_lt⟩
  simpa only [UInt8.ofNat_toNat] using this

theorem b2c_inj {a b : UInt8} (h : b2c a = b2c b) : a = b := by
  have := congrArg Char.toNat h
  rw [(b2c_facts a).1, (b2c_facts b).1] at this
  exact UInt8.toNat_inj.1 this

theorem chars_inj {a b : C13.Str} (h : chars a = chars b) : a = b := by
  induction a generalizing b with
  | nil => cases b with
    | nil => rfl
    | cons y ys => cases h
  | cons x xs ih => cases b with
    | nil => cases h
    | cons y ys =>
      simp only [chars, List.map_cons, List.cons.injEq] at h
      rw [b2c_inj h.1, ih h.2]

theorem chars_beq (a b : C13.Str) : (chars a == chars b) = (a == b) := by
  by_cases h : a = b
  · subst h; simp
  · have : chars a ≠ chars b := fun e => h (chars_inj e)
    rw [beq_eq_false_iff_ne.2 this, beq_eq_false_iff_ne.2 h]

theorem chars_append (a b : C13.Str) : chars (a ++ b) = chars a ++ chars b := by simp [chars]
theorem chars_reverse (a : C13.Str) : chars a.reverse = (chars a).reverse := by simp [chars]
theorem chars_take (a : C13.Str) (n : Nat) : chars (a.take n) = (chars a).take n := by simp [chars]
theorem chars_length (a : C13.Str) : (chars a).length = a.length := by simp [chars]

theorem lowerL_chars (s : C13.Str) : lowerL (chars s) = chars (lower s) := by
  induction s with
  | nil => rfl
  | cons x xs ih =>
    simp only [chars, lower, lowerL, List.map_cons, List.cons.injEq] at ih ⊢
    exact ⟨(b2c_facts x).2.1, ih⟩

theorem isPrefixOf_chars (p s : C13.Str) : (chars p).isPrefixOf (chars s) = p.isPrefixOf s := by
  induction p generalizing s with
  | nil => rfl
  | cons x xs ih =>
    cases s with
    | nil => rfl
    | cons y ys =>
      have hxy : (b2c x == b2c y) = (x == y) := by
        by_cases h : x = y
        · subst h; simp
        · have : b2c x ≠ b2c y := fun e => h (b2c_inj e)
          rw [beq_eq_false_iff_ne.2 this, beq_eq_false_iff_ne.2 h]
      have := ih ys
      simp only [chars, List.map_cons, List.isPrefixOf] at this ⊢
      rw [hxy, this]

theorem isSuffixOf_chars (p s : C13.Str) : (chars p).isSuffixOf (chars s) = p.isSuffixOf s := by
  simp only [List.isSuffixOf, ← chars_reverse, isPrefixOf_chars]

/-! ### normalisation: default port removed, lower case -/

/-- removing a suffix through the reversed string is `take` -/
theorem cut_suffix (h p : C13.Str) (_hs : p.isSuffixOf h = true) :
    (h.reverse.drop p.length).reverse = h.take (h.length - p.length) := by
  rw [List.drop_reverse]; simp

theorem normalizeHost_chars (h : C13.Str) (tls : Bool) :
    C03.normalizeHost (chars h) tls = chars (specNorm h tls) := by
  have e80 : chars (C13.lit ":80") = C03.port80 := by decide
  have e443 : chars (C13.lit ":443") = C03.port443 := by decide
  have s80 : C03.hasSuffix (chars h) C03.port80 = (C13.lit ":80").isSuffixOf h := by
    rw [← e80]; exact isSuffixOf_chars _ _
  have s443 : C03.hasSuffix (chars h) C03.port443 = (C13.lit ":443").isSuffixOf h := by
    rw [← e443]; exact isSuffixOf_chars _ _
  have r80 : (C13.lit ":80").reverse.isPrefixOf h.reverse = (C13.lit ":80").isSuffixOf h := rfl
  have r443 : (C13.lit ":443").reverse.isPrefixOf h.reverse = (C13.lit ":443").isSuffixOf h := rfl
  unfold C03.normalizeHost C03.normalizeHostNoLower specNorm
  simp only [s80, s443, r80, r443]
  cases tls with
  | false =>
    simp only [Bool.not_false, Bool.true_and, Bool.false_eq_true, if_false, Bool.false_and]
    by_cases hs : (C13.lit ":80").isSuffixOf h = true
    · simp only [hs, if_true]
      rw [cut_suffix h _ hs, ← chars_length, ← chars_take, lowerL_chars]; rfl
    · simp only [hs, if_false, Bool.false_eq_true]
      exact lowerL_chars h
  | true =>
    simp only [Bool.not_true, Bool.false_and, Bool.false_eq_true, if_false, Bool.true_and, if_true]
    by_cases hs : (C13.lit ":443").isSuffixOf h = true
    · simp only [hs, if_true]
      rw [cut_suffix h _ hs, ← chars_length, ← chars_take, lowerL_chars]; rfl
    · simp only [hs, if_false, Bool.false_eq_true]
      exact lowerL_chars h

/-! ### host globs on the documented wildcard form -/

theorem hasMeta_chars (k : C13.Str) (h : hasMeta k = false) :
    ∀ c ∈ chars k, (c == '*') = false ∧ (c == '?') = false := by
  intro c hc
  simp only [chars, List.mem_map] at hc
  obtain ⟨x, hx, rfl⟩ := hc
  have := List.any_eq_false.1 h x hx
  have f := b2c_facts x
  rw [f.2.2.1, f.2.2.2.1]
  have hm : ∀ y ∈ (C13.lit "*?[{\\"), x ≠ y := by
    intro y hy e; subst e
    exact this (by simpa using hy)
  refine ⟨?_, ?_⟩
  · have := hm 42 (by decide); simpa using this
  · have := hm 63 (by decide); simpa using this

/-- a literal (no `*`, no `?`) matches exactly itself -/
theorem globFrag_literal (p s : Route.Str) (hp : ∀ c ∈ p, (c == '*') = false ∧ (c == '?') = false) :
    C03.globFrag p s = (s == p) := by
  induction p generalizing s with
  | nil => cases s <;> simp [C03.globFrag]
  | cons c p ih =>
    have hc := hp c (by simp)
    have ih' := fun s => ih s (fun x hx => hp x (by simp [hx]))
    cases s with
    | nil => simp [C03.globFrag, hc.1]
    | cons d s' =>
      simp only [C03.globFrag, hc.1, Bool.false_eq_true, if_false, hc.2, Bool.false_or, ih' s']
      by_cases hcd : c = d
      · subst hcd; simp
      · have : (d :: s' == c :: p) = false := by
          simp only [List.cons_beq_cons] ; simp [Ne.symm hcd]
        simp [hcd, this]

theorem anySuffix_eq (p : Route.Str) (s : Route.Str) :
    C03.anySuffix (fun s' => s' == p) s = p.isSuffixOf s := by
  induction s with
  | nil =>
    cases p with
    | nil => rfl
    | cons c p => simp [C03.anySuffix, List.isSuffixOf]
  | cons d s ih =>
    simp only [C03.anySuffix, ih]
    by_cases h : (d :: s) = p
    · subst h; simp [List.isSuffixOf]
    · have h1 : ((d :: s) == p) = false := by simpa using h
      rw [h1, Bool.false_or]
      -- a proper suffix of d :: s is a suffix of s
      apply Bool.eq_iff_iff.2
      rw [List.isSuffixOf_iff_suffix, List.isSuffixOf_iff_suffix, List.suffix_cons_iff]
      constructor
      · intro hs; exact Or.inr hs
      · rintro (he | hs)
        · exact absurd he.symm h
        · exact hs

theorem gobwasQuirk_star (lit s : Route.Str) (_hl : ∀ c ∈ lit, (c == '*') = false ∧ (c == '?') = false) :
    C03.gobwasQuirk ('*' :: lit) s = false := by
  simp [C03.gobwasQuirk, List.takeWhile]

theorem gobwasQuirk_literal (p s : Route.Str) (hp : ∀ c ∈ p, (c == '*') = false ∧ (c == '?') = false) :
    C03.gobwasQuirk p s = false := by
  have ht : ∀ q : Route.Str, (∀ c ∈ q, (c == '*') = false ∧ (c == '?') = false) →
      q.takeWhile (· != '*') = q ∧ q.dropWhile (· != '*') = [] := by
    intro q hq
    induction q with
    | nil => exact ⟨rfl, rfl⟩
    | cons c q ih =>
      have hc := (hq c (by simp)).1
      have hc' : (c != '*') = true := by simp [bne, hc]
      have := ih (fun x hx => hq x (by simp [hx]))
      simp only [List.takeWhile, List.dropWhile, hc', this]
      exact ⟨trivial, trivial⟩
  have hd := (ht p hp).2
  have ht := (ht p hp).1
  have hq : (p == ['?']) = false := by
    cases p with
    | nil => rfl
    | cons c p =>
      have := (hp c (by simp)).2
      simp only [List.cons_beq_cons]; simp [this]
  simp [C03.gobwasQuirk, ht, hd, hq]

/-- **The specification's reading of "the route's host matches the request host" is C03's model of it**,
wherever the specification reads the key: with host globs disabled, equality of the normalised names; with host
globs, a key without metacharacters matches itself only and `*`+literal is a suffix test — `C03.globLib`
(gobwas/glob with its two quirks) on the normalised strings says the same. -/
theorem specHostOK_is_model (noglob : Bool) (key host : C13.Str) (tls : Bool) (b : Bool)
    (h : specHostOK noglob key host tls = some b) :
    (if noglob then C03.normalizeHost (chars key) tls == C03.normalizeHost (chars host) tls
     else C03.globLib (C03.normalizeHost (chars key) tls) (C03.normalizeHost (chars host) tls)) = b := by
  rw [normalizeHost_chars, normalizeHost_chars]
  unfold specHostOK at h
  by_cases hng : noglob = true
  · subst hng
    simp only [Bool.true_or, if_true, Option.some.injEq] at h
    simp only [if_true, chars_beq]; exact h
  · have hng' : noglob = false := by simpa using hng
    subst hng'
    simp only [Bool.false_or, Bool.false_eq_true, if_false] at h ⊢
    by_cases hm : hasMeta (specNorm key tls) = true
    · simp only [hm, Bool.not_true, Bool.false_eq_true, if_false] at h
      split at h
      · rename_i lit hk
        split at h
        · cases h
        · rename_i hml
          have hml' : hasMeta lit = false := by simpa using hml
          simp only [Option.some.injEq] at h
          have hl := hasMeta_chars lit hml'
          have hk' : chars (specNorm key tls) = '*' :: chars lit := by rw [hk]; rfl
          rw [hk', C03.globLib, gobwasQuirk_star _ _ hl, Bool.or_false]
          simp only [C03.globFrag, beq_self_eq_true, if_true]
          have : C03.globFrag (chars lit) = (fun s' => s' == chars lit) := by
            funext s'; exact globFrag_literal _ _ hl
          rw [this, anySuffix_eq, isSuffixOf_chars]; exact h
      · cases h
    · have hm' : hasMeta (specNorm key tls) = false := by simpa using hm
      simp only [hm', Bool.not_false, if_true, Option.some.injEq] at h
      have hl := hasMeta_chars _ hm'
      rw [C03.globLib, gobwasQuirk_literal _ _ hl, Bool.or_false, globFrag_literal _ _ hl, chars_beq]
      rw [← h]; exact Bool.eq_iff_iff.2 ⟨fun e => by simpa using (by simpa using e : specNorm host tls = specNorm key tls).symm,
        fun e => by simpa using (by simpa using e : specNorm key tls = specNorm host tls).symm⟩

/-- non-vacuity: the three readings on concrete names -/
example : specHostOK true (C13.lit "Example.com:80") (C13.lit "example.COM") false = some true := by decide
example : specHostOK false (C13.lit "*.example.com") (C13.lit "www.example.com:443") true = some true := by decide
example : specHostOK false (C13.lit "*.example.com") (C13.lit "example.com") false = some false := by decide
example : specHostOK false (C13.lit "ex[a]mple.com") (C13.lit "example.com") false = none := by decide

/-! ### "surely not a self-redirect" is the model's "not skipped" -/

theorem not_hasSuffix_vPath_of_no_dollar (h : C13.Str) (hd : h.contains 36 = false) : C13.hasSuffix h C13.vPath = false := by
  apply Bool.eq_false_iff.2
  intro hs
  have hsuf : C13.vPath <:+ h := List.isSuffixOf_iff_suffix.1 hs
  obtain ⟨pre, rfl⟩ := hsuf
  have : (36 : UInt8) ∈ pre ++ C13.vPath := by simp [C13.vPath]
  have hc : (pre ++ C13.vPath).contains 36 = true := by simpa using this
  rw [hd] at hc; cases hc

theorem not_contains_vHost_of_no_dollar (h : C13.Str) (hd : h.contains 36 = false) : C13.contains C13.vHost h = false := by
  induction h with
  | nil => rfl
  | cons c cs ih =>
    have hc : c ≠ 36 := by
      intro e; subst e; simp at hd
    have hcs : cs.contains 36 = false := by
      apply Bool.eq_false_iff.2; intro h'
      have : (c :: cs).contains 36 = true := by
        simp only [List.contains_eq_any_beq, List.any_cons, Bool.or_eq_true] at h' ⊢; exact Or.inr h'
      rw [hd] at this; cases this
    have hp : C13.vHost.isPrefixOf (c :: cs) = false := by
      simp only [C13.vHost, List.isPrefixOf, Bool.and_eq_false_iff]
      left; simpa using fun e : (36 : UInt8) = c => hc e.symm
    simp [C13.contains, hp, ih hcs]

/-- **The specification's "surely not a self-redirect" implies the model's "not skipped".** A target that is no
redirect, or whose template scheme differs from the request's, or whose template host holds no variable and
differs from the request's `Host`, is never skipped by `Lookup` — whatever strip, prepend, path and query. -/
theorem surelyLive_not_skipped (t : C13.RTarget) (scheme : C13.Str) (req : C13.URL)
    (h : surelyLive t scheme req.host = true) :
    (decide (t.code ≠ 0) && C13.selfRedirect (C13.buildRedirectURL t req) scheme req) = false := by
  simp only [surelyLive, Bool.or_eq_true, beq_iff_eq, bne_iff_ne, ne_eq, Bool.and_eq_true, Bool.not_eq_true'] at h
  rcases h with (hc | hs) | ⟨hd, hh⟩
  · simp [hc]
  · have := Props.C13.scheme_kept t req
    have hne : ((C13.buildRedirectURL t req).scheme == scheme) = false := by
      rw [this]; exact beq_eq_false_iff_ne.2 hs
    simp [C13.selfRedirect, hne]
  · have hH := Props.C13.host_substituted t req
    have h2 : (C13.stage2 (C13.stage1 t)).host = t.url.host := by
      have : C13.hasSuffix (C13.stage1 t).host C13.vPath = false := not_hasSuffix_vPath_of_no_dollar _ hd
      unfold C13.stage2; rw [if_neg (by rw [this]; exact Bool.false_ne_true)]; rfl
    rw [h2, not_contains_vHost_of_no_dollar _ hd] at hH
    simp only [Bool.false_eq_true, if_false] at hH
    have hne : ((C13.buildRedirectURL t req).host == req.host) = false := by
      rw [hH]; exact beq_eq_false_iff_ne.2 hh
    simp [C13.selfRedirect, hne]

/-- for a table target: `skipFor` of the composition is false -/
theorem surelyLive_skipFor (view : Route.Target → C13.RTarget) (q : CReq) (tg : Route.Target)
    (h : surelyLive (view tg) (scheme q) q.url.host = true) : skipFor view q tg = false := by
  unfold skipFor; exact surelyLive_not_skipped (view tg) (scheme q) q.url h

/-- non-vacuity: the three ways to be surely live, and a self-redirect that is not -/
example : surelyLive { url := { scheme := C13.lit "http", host := C13.lit "10.0.0.1:80" } } (C13.lit "https") (C13.lit "foo.com") = true := by decide
example : surelyLive { url := { scheme := C13.lit "https", host := C13.lit "$host$path" }, code := 301 } (C13.lit "http") (C13.lit "foo.com") = true := by decide
example : surelyLive { url := { scheme := C13.lit "https", host := C13.lit "bar.com" }, code := 301 } (C13.lit "https") (C13.lit "foo.com") = true := by decide
example : surelyLive { url := { scheme := C13.lit "https", host := C13.lit "$host$path" }, code := 301 } (C13.lit "https") (C13.lit "foo.com") = false := by decide

end Fabio.Props.C13Table
