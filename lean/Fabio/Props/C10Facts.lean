import Fabio.Generated.C10
import Fabio.Model.C10
/-! Obligations over the facts regenerated from `/repo` on every run: the constants, offsets and the shape of
the code the C10 model was written against. -/
namespace Fabio.Props.C10Facts
open Fabio Fabio.Model

/-- `len(data) < 9`, `Peek(9)` and `return handshakeLength + 9` are the model's `peekLen`. -/
theorem peek_pinned :
    Generated.C10.peekMin = C10.peekLen ∧ Generated.C10.peekArg = C10.peekLen ∧
    Generated.C10.bufsizeAdd = C10.peekLen := by decide

/-- `readServerName(buf[5:])`: the record header that is skipped; 9 = 5 + 4. -/
theorem record_header_pinned :
    Generated.C10.recHdrSkip = C10.recHdrLen ∧
    Generated.C10.hsHdrLen = C10.hsHdrLen ∧ C10.recHdrLen + C10.hsHdrLen = C10.peekLen := by decide

/-- Record type 0x16 at offset 0, client_hello 0x01 at offset 5, record length limit 16384. -/
theorem header_constants_pinned :
    Generated.C10.recTypeOff = 0 ∧ Generated.C10.recTypeHandshake = C10.recTypeHandshake.toNat ∧
    Generated.C10.hsTypeOff = 5 ∧ Generated.C10.hsTypeClientHello = C10.hsTypeClientHello.toNat ∧
    Generated.C10.maxRecordLen = C10.maxRecordLen := by decide

/-- The two big-endian length fields are read from bytes 3,4 and 6,7,8 with the shifts of `be16`/`be24`. -/
theorem length_fields_pinned :
    (Generated.C10.recLenHiOff, Generated.C10.recLenShift, Generated.C10.recLenLoOff) = (3, 8, 4) ∧
    (Generated.C10.hsLenOff0, Generated.C10.hsLenShift0, Generated.C10.hsLenOff1, Generated.C10.hsLenShift1,
      Generated.C10.hsLenOff2) = (6, 16, 7, 8, 8) := by decide

/-- The fixed offsets of `unmarshal`. -/
theorem unmarshal_offsets_pinned :
    Generated.C10.minHelloLen = C10.minHelloLen ∧ Generated.C10.randomOff = C10.randomOff ∧
    Generated.C10.randomEnd = C10.sidLenOff ∧ Generated.C10.sidLenOff = C10.sidLenOff ∧
    Generated.C10.maxSidLen = C10.maxSidLen ∧ Generated.C10.sidOff = C10.sidOff ∧
    Generated.C10.sidRebindOff = C10.sidOff ∧ Generated.C10.cipherRebindOff = 2 ∧
    Generated.C10.compressionRebindOff = 1 := by decide

/-- The store of the server name is guarded by exactly two tests: extension type `== 0` (outermost) and
name type `== 0` (innermost, followed by `break`); no other extension is looked at. -/
theorem sni_constants_pinned :
    Generated.C10.extensionServerName = C10.extensionServerName ∧
    Generated.C10.nameTypeHost = C10.nameTypeHost.toNat ∧
    Generated.C10.nameStoreGuards = ["if _ == 0 [name]", "if _ == 0 [name] -> break"] := by decide

/-- The checks of `clientHelloBufferSize` as normalised events, in order (the model has one branch per `if`). -/
theorem bufsize_checks_pinned : Generated.C10.bufsizeEvents =
    ["if len(_) < 9 -> return 0, …", "if _[0] != 22 -> return 0, …", "let (int(_[3])<<8)|int(_[4])",
     "if _ == 0 || 16384 < _ -> return 0, …", "if _[5] != 1 -> return 0, …",
     "let ((int(_[6])<<16)|(int(_[7])<<8))|int(_[8])", "if _ == 0 || _ < _+4 -> return 0, …"] := by decide

/-- The checks, loops, byte reads and re-slicings of the parser `readServerName` calls (helpers inlined,
variable names erased, conditions in normal form), in order: the model has one branch per `if`/`for`, one
`idx` per byte read and one `sliceFrom` per `advance`. -/
theorem unmarshal_checks_pinned : Generated.C10.unmarshalEvents =
    ["if len(_) < 42 -> return false", "slice _[6:38]", "let int(_[38])",
     "if 32 < _ || len(_) < _+39 -> return false", "advance _[_+39:]",
     "if len(_) < 2 -> return false", "let (int(_[0])<<8)|int(_[1])",
     "if _&1 != 0 || len(_) < _+2 -> return false", "advance _[_+2:]",
     "if len(_) == 0 -> return false", "let int(_[0])", "if len(_) < _+1 -> return false", "advance _[_+1:]",
     "if len(_) == 0 -> return true", "if len(_) < 2 -> return false", "let (int(_[0])<<8)|int(_[1])",
     "advance _[2:]", "if _ != len(_) -> return false",
     "for len(_) != 0", "if len(_) < 4 -> return false", "let (uint16(_[0])<<8)|uint16(_[1])",
     "let (int(_[2])<<8)|int(_[3])", "advance _[4:]", "if len(_) < _ -> return false",
     "if _ == 0 [name]", "if len(_) < 2 -> return false", "let (int(_[0])<<8)|int(_[1])", "advance _[2:]",
     "if _ != len(_) -> return false", "for len(_) != 0", "if len(_) < 3 -> return false", "let _[0]",
     "let (int(_[1])<<8)|int(_[2])", "advance _[3:]", "if len(_) < _ -> return false",
     "if _ == 0 [name] -> break", "advance _[_:]", "advance _[_:]"] := by decide

/-- `sni_reads_exact` at the code level, as data flow by role: ServeTCP wraps its connection in a
`bufio.Reader`, peeks 9 bytes, sizes the buffer with `clientHelloBufferSize` of exactly those, reads exactly
that many bytes with `io.ReadFull` from the same reader into that buffer, parses `buf[5:]` and only then looks
the resulting host up (this is `Model.C10.sniRoute`); `readServerName` hands its argument unchanged to the
parser. -/
theorem sni_reads_exact_calls : Generated.C10.serveTCPFlow =
    ["reader=bufio.NewReader(p0)", "hdr=reader.Peek(9)", "size=clientHelloBufferSize(hdr)", "buf=make([]byte,size)",
     "io.ReadFull(reader,buf)", "host=readServerName(buf[5:])", "_.Lookup(host)"] ∧
    Generated.C10.readServerNamePassesArgument = true := by decide

end Fabio.Props.C10Facts
