import Fabio.Generated.C10
import Fabio.Model.C10
/-! Obligations over the facts regenerated from `/repo` on every run: the constants, offsets and the shape of
the code the C10 model was written against. -/
namespace Fabio.Props.C10Facts
open Fabio Fabio.Model

/-- `len(data) < 9`, `Peek(9)` and `return handshakeLength + 9` are the model's `peekLen`. -/
theorem peek_pinned :
    Generated.C10.peekMin = C10.peekLen ∧ Generated.C10.peekArg = C10.peekLen ∧
    Generated.C10.bufsizeAdd = C10.peekLen := by decide

/-- `readServerName(data[5:])`: the record header that is skipped; 9 = 5 + 4. -/
theorem record_header_pinned :
    Generated.C10.recHdrSkip = C10.recHdrLen ∧ Generated.C10.readServerNameArgBase = "data" ∧
    Generated.C10.hsHdrLen = C10.hsHdrLen ∧ C10.recHdrLen + C10.hsHdrLen = C10.peekLen := by decide

/-- Record type 0x16 at offset 0, client_hello 0x01 at offset 5, record length limit 16384. -/
theorem header_constants_pinned :
    Generated.C10.recTypeOff = 0 ∧ Generated.C10.recTypeHandshake = C10.recTypeHandshake.toNat ∧
    Generated.C10.hsTypeOff = 5 ∧ Generated.C10.hsTypeClientHello = C10.hsTypeClientHello.toNat ∧
    Generated.C10.maxRecordLen = C10.maxRecordLen := by decide

/-- The two big-endian length fields are read from bytes 3,4 and 6,7,8 with the shifts of `be16`/`be24`. -/
theorem length_fields_pinned :
    (Generated.C10.recLenHiOff, Generated.C10.recLenShift, Generated.C10.recLenLoOff) = (3, 8, 4) ∧
    (Generated.C10.hsLenOff0, Generated.C10.hsLenShift0, Generated.C10.hsLenOff1, Generated.C10.hsLenShift1,
      Generated.C10.hsLenOff2) = (6, 16, 7, 8, 8) := by decide

/-- The fixed offsets of `unmarshal`. -/
theorem unmarshal_offsets_pinned :
    Generated.C10.minHelloLen = C10.minHelloLen ∧ Generated.C10.randomOff = C10.randomOff ∧
    Generated.C10.randomEnd = C10.sidLenOff ∧ Generated.C10.sidLenOff = C10.sidLenOff ∧
    Generated.C10.maxSidLen = C10.maxSidLen ∧ Generated.C10.sidOff = C10.sidOff ∧
    Generated.C10.sidRebindOff = C10.sidOff ∧ Generated.C10.cipherRebindOff = 2 ∧
    Generated.C10.compressionRebindOff = 1 := by decide

/-- `extensionServerName = 0`, host_name = 0, and `server_name` is the only extension the switch looks at. -/
theorem sni_constants_pinned :
    Generated.C10.extensionServerName = C10.extensionServerName ∧
    Generated.C10.nameTypeHost = C10.nameTypeHost.toNat ∧ Generated.C10.unmarshalCaseClauses = 1 := by decide

/-- The checks of `clientHelloBufferSize`, in order (the model has one branch per entry). -/
theorem bufsize_checks_pinned : Generated.C10.bufsizeConds =
    ["if len(data) < 9", "if data[0] != 0x16", "if recordLength <= 0 || recordLength > 16384",
     "if data[5] != 0x01", "if handshakeLength <= 0 || handshakeLength > recordLength-4"] := by decide

/-- The checks and loops of `unmarshal`, in order (the model has one branch per entry). -/
theorem unmarshal_checks_pinned : Generated.C10.unmarshalConds =
    ["if len(data) < 42", "if sessionIdLen > 32 || len(data) < 39+sessionIdLen", "if len(data) < 2",
     "if cipherSuiteLen%2 == 1 || len(data) < 2+cipherSuiteLen", "if len(data) < 1",
     "if len(data) < 1+compressionMethodsLen", "if len(data) == 0", "if len(data) < 2",
     "if extensionsLength != len(data)", "for len(data) != 0", "if len(data) < 4", "if len(data) < length",
     "case extensionServerName", "if len(d) < 2", "if len(d) != namesLen", "for len(d) > 0", "if len(d) < 3",
     "if len(d) < nameLen", "if nameType == 0"] := by decide

/-- `sni_reads_exact` at the code level: ServeTCP peeks 9 bytes, sizes the buffer with
`clientHelloBufferSize` of exactly those, reads exactly that many bytes with `io.ReadFull`, parses `data[5:]`
and only then looks the host up (this is `Model.C10.sniRoute`). -/
theorem sni_reads_exact_calls : Generated.C10.serveTCPCalls =
    ["bufio.NewReader(in)", "tlsReader.Peek(9)", "clientHelloBufferSize(tlsHeaders)", "make([]byte, bufferSize)",
     "io.ReadFull(tlsReader, data)", "readServerName(data[5:])", "p.Lookup(host)"] ∧
    Generated.C10.readServerNamePassesArgument = true := by decide

end Fabio.Props.C10Facts
