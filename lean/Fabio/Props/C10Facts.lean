import Fabio.Generated.C10
import Fabio.Model.C10
/-! Obligations over the facts regenerated from `/repo` on every run. Only what the proof chain needs and no
stream can establish by running the code stays here: the data flow of `ServeTCP` (which reader is peeked, which is
read, what is parsed, that the lookup comes last). The *shape* of the two pure functions `clientHelloBufferSize` and
`unmarshal` (their constants and their ordered check lists) is sequential deterministic code the streams compare with
the model on every run: those pins are change detectors and live in `Props/C10Xlate.lean` (HOWTO, "Obligations versus
change detectors"); a behaviour-preserving rewrite of those functions makes them fire, which widens the search and
claims nothing broken. -/
namespace Fabio.Props.C10Facts
open Fabio Fabio.Model

/-- `Peek(9)` is the model's `peekLen`; `readServerName(buf[5:])` skips the record header. -/
theorem peek_pinned :
    Generated.C10.peekArg = C10.peekLen ∧ Generated.C10.recHdrSkip = C10.recHdrLen := by decide

/-- `sni_reads_exact` at the code level, as data flow by role: ServeTCP wraps its connection in a
`bufio.Reader`, peeks 9 bytes, sizes the buffer with `clientHelloBufferSize` of exactly those, reads exactly
that many bytes with `io.ReadFull` from the same reader into that buffer, parses `buf[5:]` and only then looks
the resulting host up (this is `Model.C10.sniRoute`); `readServerName` hands its argument unchanged to the
parser. -/
theorem sni_reads_exact_calls : Generated.C10.serveTCPFlow =
    ["reader=bufio.NewReader(p0)", "hdr=reader.Peek(9)", "size=clientHelloBufferSize(hdr)", "buf=make([]byte,size)",
     "io.ReadFull(reader,buf)", "host=readServerName(buf[5:])", "_.Lookup(host)"] ∧
    Generated.C10.readServerNamePassesArgument = true := by decide

end Fabio.Props.C10Facts
