import Fabio.Props.C02Compose
import Fabio.Lemmas.C02Custom
/-!
C02, round 4 — the custom backend end to end UNDER CONCURRENCY.

`Props/C02Compose.lean` states "every lookup is answered from one complete installed configuration, and the cell ends
on the last good one" for the text backends (`serving_table_is_last_good_config`); for the custom backend it had the
sequential history only (`custom_serving_table_is_last_good_document`). Here the poll loop is the one writer thread of
the cell machine, programmed with ALL its `route.SetTable` calls — the `SetTable(nil)` calls after a `null` document
or a document that does not build included — and the same two sentences are proved for every poll history, every
set of request goroutines and every schedule.
-/
namespace Fabio.Props.C02Custom
open Fabio Fabio.Model.Route Fabio.Model.Parse Fabio.Model.C02 Fabio.Model.C02Compose Fabio.Model.C02Custom
open Fabio.Lemmas.C02 Fabio.Lemmas.C02Custom Fabio.Props.C02Compose

abbrev Ans := Option (Str × Route × Target)

/-- the system: request goroutines `rs` and the poll goroutine of `registry/custom` as the one writer -/
def system (env : Env) (ps : List (Poll (List RouteDef))) (rs : List (Thread Table Model.C03.Req Ans)) :
    Sys Table Model.C03.Req Ans :=
  Sys.start [] (rs ++ [.writer (calls (buildDefs env) ps)])

/-- `T` is a configuration the poll loop can have installed: the initial empty table or `NewTableCustom` of one of
the polled documents -/
def InstalledDoc (env : Env) (ps : List (Poll (List RouteDef))) (T : Table) : Prop :=
  T = [] ∨ ∃ ds, Poll.defs ds ∈ ps ∧ newTable env ds = .ok T

theorem lastGoodPoll_eq (env : Env) (ps : List (Poll (List RouteDef))) (a : Table) :
    lastGoodPoll (buildDefs env) a ps = lastGoodDoc env a ps := by
  unfold lastGoodPoll lastGoodDoc
  congr 1
  funext a p
  cases p <;> rfl

/-- the poll loop's `SetTable` calls are what the sequential machine of `Model/C02.lean` does -/
theorem calls_are_the_poll_machine (env : Env) (ps : List (Poll (List RouteDef))) (a : Table) :
    customRun (newTableCustom (buildDefs env)) a ps = .ok ((calls (buildDefs env) ps).foldl setTable a) ∧
    (calls (buildDefs env) ps).foldl setTable a = lastGoodDoc env a ps :=
  ⟨customRun_eq_calls _ ps a, by rw [calls_fold_lastGood, lastGoodPoll_eq]⟩

/-- **Custom backend, history + concurrency.** Any sequence of polls (transport errors, undecodable bodies, `null`,
documents that build and documents that do not), any number of request goroutines, any interleaving. Then
(a) every lookup is answered as `Model.C03.Lookup` on ONE table of the cell's history, and that table is the initial
empty table or `NewTableCustom` of ONE polled document that built — never a mixture, never a document that failed;
(b) once the poll loop has made all its `SetTable` calls (the nil ones included) the cell holds the table of the LAST
document that built. -/
theorem custom_serving_table_under_concurrency (env : Env) (le : LookupEnv) (k : Model.C03.Req → Nat)
    (ps : List (Poll (List RouteDef))) (rs : List (Thread Table Model.C03.Req Ans)) (hr : Readers rs) (sch : List Nat) :
    (∀ th ∈ (Sys.run (lk le k) sch (system env ps rs)).threads, ∀ r ∈ th.results,
      ∃ T, (Sys.run (lk le k) sch (system env ps rs)).cell.hist[r.idx]? = some T ∧ InstalledDoc env ps T ∧
        r.ans = Model.C03.Lookup (le.cfg r.req) T r.req) ∧
    ((∃ th, (Sys.run (lk le k) sch (system env ps rs)).threads[rs.length]? = some th ∧ th.finished = true) →
      (Sys.run (lk le k) sch (system env ps rs)).cell.val = lastGoodDoc env [] ps) := by
  have hfresh : ∀ th ∈ (system env ps rs).threads, th.fresh = true := by
    intro th hth
    simp only [system, Sys.start, List.mem_append, List.mem_singleton] at hth
    rcases hth with h | rfl
    · obtain ⟨todo, rfl⟩ := hr th h; rfl
    · rfl
  have inv : Inv (lk le k) [] ((system env ps rs).threads.flatMap Thread.stores)
      (Sys.run (lk le k) sch (system env ps rs)) :=
    (Inv.run (lk := lk le k) sch (Inv.start (lk le k) [] _ hfresh)).1
  constructor
  · intro th hth r hrr
    have ok := inv.thr th hth
    cases th with
    | writer todo => simp [Thread.results] at hrr
    | reader todo cur done =>
      obtain ⟨T, hT, ha⟩ := ok.2.1 r hrr
      refine ⟨T, hT, ?_, ha⟩
      rcases inv.mem T (List.mem_of_getElem? hT) with h | h
      · exact Or.inl h
      · right
        simp only [system, Sys.start, List.flatMap_append, List.mem_append, List.mem_flatMap] at h
        rcases h with ⟨th, hth, hm⟩ | ⟨th, hth, hm⟩
        · obtain ⟨todo, rfl⟩ := hr th hth
          simp [Thread.stores] at hm
        · simp only [List.mem_singleton] at hth
          subst hth
          obtain ⟨ds, hds, hb⟩ := calls_mem (buildDefs env) ps T (by simpa [Thread.stores] using hm)
          refine ⟨ds, hds, ?_⟩
          unfold buildDefs at hb
          cases hn : newTable env ds with
          | error e => simp [hn, Except.toOption] at hb
          | ok t => simp [hn, Except.toOption] at hb; rw [hb]
  · rintro ⟨th, hth, hfin⟩
    have ow := OneWriterO.run (lk le k) sch
      (OneWriterO.start ([] : Table) (calls (buildDefs env) ps) rs
        (fun th h => by obtain ⟨todo, rfl⟩ := hr th h; exact ⟨_, _, _, rfl⟩))
    obtain ⟨done, pending, hdp, hh, hw, _⟩ := ow
    change (Sys.run (lk le k) sch (system env ps rs)).threads[rs.length]? = _ at hw
    rw [hth] at hw
    cases hw
    have hp : pending = [] := by
      cases pending with
      | nil => rfl
      | cons x xs => simp [Thread.finished] at hfin
    subst hp
    simp only [List.append_nil] at hdp
    subst hdp
    have hc := inv.cell
    unfold CellOk at hc
    change (Sys.run (lk le k) sch (system env ps rs)).cell.hist = _ at hh
    have hl := getLast_calls (calls (buildDefs env) ps) ([] : Table)
    rw [List.getLast?_eq_getElem?, ← hh] at hl
    rw [hl] at hc
    rw [← (calls_are_the_poll_machine env ps []).2]
    exact (Option.some.inj hc).symm

/-- **…and every such answer is sound for that one document**: host key, route, path match and target all come from
the table `NewTableCustom` built from one polled document (C03 `lookup_sound`). -/
theorem custom_every_answer_is_sound (env : Env) (le : LookupEnv) (k : Model.C03.Req → Nat)
    (ps : List (Poll (List RouteDef))) (rs : List (Thread Table Model.C03.Req Ans)) (hr : Readers rs) (sch : List Nat) :
    ∀ th ∈ (Sys.run (lk le k) sch (system env ps rs)).threads, ∀ r ∈ th.results,
      ∀ h route tg, r.ans = some (h, route, tg) →
      ∃ T, InstalledDoc env ps T ∧
        (h = [] ∨ C03.HostMatches (le.cfg r.req) T r.req h) ∧ route ∈ T.get (lowerL h) ∧
        (le.cfg r.req).pathMatch r.req.path route.path = true ∧ tg ∈ route.targets := by
  intro th hth r hrr h route tg hans
  obtain ⟨T, _, hinst, ha⟩ := (custom_serving_table_under_concurrency env le k ps rs hr sch).1 th hth r hrr
  rw [ha] at hans
  obtain ⟨h1, h2, h3, h4⟩ := C03.lookup_sound (le.cfg r.req) T r.req (pickFn_ok le.pe) hans
  exact ⟨T, hinst, h1, h2, h3, h4⟩

/-- **`SetTable(nil)` end to end**: a poll history that ends in any number of `null` documents, documents that do not
build, and failed polls leaves the cell on the table it had before them. -/
theorem trailing_failures_keep_table (env : Env) (ps qs : List (Poll (List RouteDef)))
    (hq : ∀ q ∈ qs, ∀ ds, q = Poll.defs ds → buildDefs env ds = none) (a : Table) :
    lastGoodDoc env a (ps ++ qs) = lastGoodDoc env a ps := by
  unfold lastGoodDoc
  rw [List.foldl_append]
  generalize List.foldl _ a ps = b
  induction qs generalizing b with
  | nil => rfl
  | cons q qs ih =>
    have hq' : ∀ q' ∈ qs, ∀ ds, q' = Poll.defs ds → buildDefs env ds = none :=
      fun q' h => hq q' (List.mem_cons_of_mem _ h)
    simp only [List.foldl_cons]
    cases q with
    | httpError => exact ih hq' b
    | decodeError => exact ih hq' b
    | null => exact ih hq' b
    | defs ds =>
      have := hq (.defs ds) (List.mem_cons_self) ds rfl
      simp only [this, Option.getD_none]
      exact ih hq' b

/-! ## non-vacuity -/
section examples
open Fabio.Props.C02Compose.Ex

/-- four polls — a document, `null`, a failed poll, a second document: three `SetTable` calls, one of them nil -/
example (env : Env) (d1 d2 : List RouteDef) :
    (calls (buildDefs env) [.defs d1, .null, .httpError, .defs d2]).length = 3 := rfl

example (env : Env) (d1 : List RouteDef) :
    calls (buildDefs env) [.defs d1, .null, .decodeError] = [buildDefs env d1, none] := rfl

/-- five polls: document, `null`, a document that does not build, a failed poll, a new document -/
def polls : List (Poll (List RouteDef)) := [.defs doc1, .null, .defs doc2, .httpError, .defs doc3]
def reqY : Model.C03.Req := { host := "h".toList, tls := false, path := "/y/1".toList }

set_option maxRecDepth 100000

/-- four `SetTable` calls, two of them with nil -/
example : (calls (buildDefs env) polls).map Option.isSome = [true, false, false, true] := by decide +kernel

/-- one request goroutine doing three lookups interleaved with the poll goroutine: the writer finishes, the history
holds three tables (initial, doc1, doc3 — the two nil calls left no trace), and the three lookups were answered from
tables 0, 1 and 2: no route for `/y/1` in the empty table and in doc1's, target `b` in doc3's -/
def runEx : Sys Table Model.C03.Req Ans :=
  Sys.run (lk le (fun _ => 1)) (roundRobin 2 12) (system env polls [.reader [reqY, reqY, reqY] none []])

example :
    runEx.threads[1]?.map Thread.finished = some true ∧ runEx.cell.hist.length = 3 ∧
    (runEx.threads.flatMap Thread.results).map (fun r => (r.idx, (r.ans.map (fun a => a.2.2.service)).getD [])) =
      [(0, []), (1, []), (2, "b".toList)] := by decide +kernel

/-- hypothesis of `trailing_failures_keep_table` on the three failing polls in the middle -/
example : (buildDefs env doc2) = none ∧
    (lastGoodDoc env [] ([.defs doc1] ++ [.null, .defs doc2, .httpError])).map (·.1) =
    (lastGoodDoc env [] [.defs doc1]).map (·.1) := by decide +kernel

end examples

end Fabio.Props.C02Custom
