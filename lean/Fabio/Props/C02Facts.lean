import Fabio.Generated.C02
/-!
C02 — OBLIGATIONS over the facts regenerated from /repo on every run (`tools/factgen/c02.go`).

Round 3 split the twelve statements of this file in two (HOWTO, "Obligations versus change detectors"):

* here: what the proof chain needs and NO stream can establish by running the code — the granularity and the
  access sites of the atomic cell (the concurrency theorems quantify over schedules of exactly these micro-steps),
  the writers of the cell anywhere in the repository (single-writer invariant of `Props/C02Compose.lean`), "the
  decode target of a poll is not reachable by the next poll" (the table handed to `SetTable` is not written again
  by the decoder while lookups read it), "no recover on the update path" (a contract read from the AST), and the
  wiring of the lookup closures in `main.go` that no harness executes;
* `Props/C02Pins.lean` (change detectors): the ordered event lists of `NewTable`, `NewTableCustom`, `Parse`,
  `watchBackend`, the poll loop, and the panic-point guards — sequential, deterministic code whose input/output
  behaviour the streams `c02.history`, `c02.custom`, `c02.nopanic` compare with the model on every run.

Event lists are built to pin meaning rather than spelling (header of `c02.go`): normalised AST, helpers
followed, variables named by role (`p0` first parameter, `var:atomic.Value` the package-level cell).
-/
namespace Fabio.Props.C02Facts
open Fabio.Generated.C02

/-- `Cell.setTable (some t)` is ONE micro-step and `Cell.setTable none` is none: the only effect of `SetTable` on
shared state (`setTableSharedEffects`: its calls on the cell, of `sync/atomic`, `clear`, `delete`, and its stores to
package-level variables) is one `Store` of its parameter on the cell — no second store (a flag published after the table:
a lookup in between would combine the new table with the old flag), no `clear`/`delete` of the replaced table
(a lookup that loaded it is still reading it) — and on a nil parameter it returns BEFORE that store. -/
theorem setTable_is_one_store_after_nil_guard :
    setTableSharedEffects = ["call:var:atomic.Value.Store(p0)"] ∧
    setTableBeforeStore = ["if(=nil:p0){", "return", "}"] := by decide

/-- `Cell.load` is ONE micro-step: the only call `GetTable` makes is one `Load` on the cell, then it returns. -/
theorem getTable_is_one_load :
    getTableEvents = ["call:var:atomic.Value.Load()", "return val"] := by decide

/-- There is one cell; it is written by `init` (the empty table: `Cell.init`) and `SetTable` only, read by
`GetTable` only, and touched through `Load`/`Store` only (no Swap/CompareAndSwap): the thread programs of the
model are the only ways to reach it. -/
theorem cell_access_sites :
    cellVariables = 1 ∧ tableStoreSites = ["SetTable", "init"] ∧ tableLoadSites = ["GetTable"] ∧
    tableOtherUses = [] := by decide

/-- **Single writer.** `route.SetTable` is called at two places of the whole repository (test and verif files
excluded, import aliases resolved): package main (the `watchBackend` loop) and `registry/custom` (the poll loop),
both on the goroutine of their loop — not from a `go` statement or a function literal, so installations of one
loop never overlap or overtake each other; `watchBackend` contains one call, and that one is in the branch of the
text backends (its branch for the custom backend only drains status strings): whichever backend is configured,
ONE goroutine installs tables. This is the `OneWriter` hypothesis of `serving_table_is_last_good_config`. -/
theorem single_writer :
    setTableCallers = [".:sync", "registry/custom:sync"] ∧ watchBackendSetTableCalls = 1 ∧
    watchBackendTextBranchSetTableCalls = 1 := by decide

/-- `Poll.defs ds` carries the definitions of THIS document and nothing the next poll can reach: the variable
`Decode` fills is declared inside the poll loop (repair of D32). Otherwise the decoder of the next poll writes
into the option maps and tag arrays of the targets of the ACTIVE table while lookups read them — the published
table would not be immutable. -/
theorem customRoutes_decodes_into_fresh_variable :
    customRoutesDecodeTargetFound = true ∧ customRoutesVarInLoop = true := by decide

/-- The only `recover()` in `route/`, `main.go`, `registry/custom` sits in a function whose only method call is
the third-party `Match` (repair of D33: gobwas/glob compiles patterns such as `foo{` whose `Match` panics), and
every `Match` call of package `route` is inside it. Nothing else recovers: the model's "a panic on the update
path ends the process" (`customRun`, `stepO`, `Outcome.panic`) is what happens, and no theorem relies on a
recover. -/
theorem no_recover_is_relied_upon :
    recoverSites = ["route:recover-around:Match"] ∧ globMatchCalls = 1 ∧ globMatchCallsGuarded = 1 := by decide

/-- the reader thread of the model is `[load; lookup on the snapshot]`: each of the three lookup closures of
package main (HTTP `Lookup`, `lookupHostFn`, `lookupHostMatcher`) calls `route.GetTable()` exactly once per
lookup. -/
theorem lookups_load_the_table_once :
    lookupClosures = ["lookups=1:getTable=1", "lookups=1:getTable=1", "lookups=1:getTable=1"] := by decide

/-- **Every lookup site of the repository loads the cell once** (round 4; `lookups_load_the_table_once` looked at the
function literals of `main.go` only). Over all non-test packages: the innermost functions that call `route.GetTable`
AND look a request up (`Lookup`/`LookupHost` on a table) are the three proxy closures of package main and the gRPC
director of package proxy, each with ONE `GetTable` call per lookup — a second load in one of them, or a `Lookup`
inside package route that re-reads the cell half-way (`routeGetTableCallers`), would answer one request from two
tables; a site that stopped loading (a cached table) would never see the next valid configuration. Functions that
load without looking up (admin API, dynamic TCP listeners, gRPC pool cleanup: `snapshotReaders`) are not constrained. -/
theorem every_lookup_site_loads_once :
    lookupSites = [".:getTable=1:lookups=1", ".:getTable=1:lookups=1", ".:getTable=1:lookups=1",
                   "proxy:getTable=1:lookups=1"] ∧
    routeGetTableCallers = [] := by decide

end Fabio.Props.C02Facts
