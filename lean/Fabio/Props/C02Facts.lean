import Fabio.Generated.C02
/-!
C02 — obligations over the facts regenerated from /repo on every run (`tools/factgen/c02.go`).

Each fact is the *skeleton* of an anchored function: its control statements and the calls/assignments the
model depends on, in source order, everything else (logging, metrics) left out. A skeleton that no longer
matches is a broken tie between the Lean model (`Model/C02.lean`) and the code.
-/
namespace Fabio.Props.C02Facts
open Fabio.Generated.C02

/-- `Cell.setTable none = c` (`setTable_nil_ignored`): `SetTable` returns before the only `table.Store` when
`t == nil`, and stores its parameter otherwise. -/
theorem setTable_returns_before_store_on_nil :
    setTableSkeleton = ["if(t == nil){", "return", "}", "call:table.Store(t)"] := by decide

/-- `Cell.load` is ONE micro-step: `GetTable` is the single statement `return table.Load().(Table)`. -/
theorem getTable_is_one_load :
    getTableSkeleton = ["return table.Load().(Table)", "call:table.Load()"] ∧ getTableStatements = 1 := by decide

/-- The cell is written by `init` (the empty table: `Cell.init`) and `SetTable` only, read by `GetTable` only,
and touched through `Load`/`Store` only (no Swap/CompareAndSwap): the thread programs of the model are the
only ways to reach it. -/
theorem cell_access_sites :
    tableStoreSites = ["SetTable", "init"] ∧ tableLoadSites = ["GetTable"] ∧ tableOtherUses = [] := by decide

/-- `build : Text → Option T` has no third outcome: `NewTable` returns `nil, err` when `Parse` fails and on the
FIRST failing command inside the loop, `t, nil` only after the loop and the sort (`no_partial_table`). -/
theorem newTable_never_returns_partial_table :
    newTableSkeleton = ["call:Parse(b)", "if(err != nil){", "return nil, err", "}", "call:make(Table)",
      "range(defs){", "if(err != nil){", "return nil, err", "}", "}", "range(t){", "call:sort.Sort(h)", "}",
      "return t, nil"] := by decide

/-- same for `NewTableCustom`, which additionally refuses a nil definition list before dereferencing it
(`newTableCustom` rather than `newTableCustomOld`: repair of D27) -/
theorem newTableCustom_never_returns_partial_table :
    newTableCustomNilGuard = true ∧
    newTableCustomSkeleton.drop 3 = ["call:make(Table)", "range(*defs){", "if(err != nil){", "return nil, err", "}", "}",
      "range(t){", "call:sort.Sort(h)", "}", "return t, nil"] ∧
    newTableCustomSkeleton.take 1 = ["if(defs == nil){"] := by decide

/-- `Parse` reports the scanner's error after the loop (repair of D29: an over-long line is an error of the
whole text, so `build` fails and the previous table keeps serving) and returns `nil` with every error. -/
theorem parse_returns_scanner_error :
    parseSkeleton = ["call:bufio.NewScanner(in)", "for{", "continue", "if(err != nil){",
      "return nil, fmt.Errorf(\"line %d: %s\", i, err)", "}", "}", "if(err := scanner.Err(); err != nil){",
      "return nil, fmt.Errorf(\"line %d: %s\", i+1, err)", "}", "return defs, nil"] := by decide

/-- `WB.step`: the loop body concatenates svccfg, "\n", mancfg; skips when the text equals `lastTable`;
`continue`s on a build error BEFORE `route.SetTable(t)`; assigns `lastTable = nextTable` AFTER it — and nowhere
else in the function; there is one `SetTable` call. -/
theorem watchBackend_shape :
    watchBackendSkeleton = ["for{", "call:tableBuffer.Reset()", "call:tableBuffer.WriteString(svccfg)",
      "call:tableBuffer.WriteString(\"\\n\")", "call:tableBuffer.WriteString(mancfg)",
      "nextTable = tableBuffer.String()", "if(nextTable = tableBuffer.String(); nextTable == lastTable){", "continue", "}",
      "call:route.ParseAliases(nextTable)", "if(err != nil){", "}", "call:registry.Default.Register(aliases)",
      "call:route.NewTable(tableBuffer)", "if(err != nil){", "continue", "}", "call:route.SetTable(t)",
      "call:logRoutes(t, lastTable, nextTable, cfg.Log.RoutesFormat)", "lastTable = nextTable", "call:once.Do(func)",
      "call:close(first)", "}"] ∧
    watchBackendLastTableAssignments = 1 ∧ watchBackendSetTableCalls = 1 := by decide

/-- `customStep`: transport error, non-200 and decode error `continue` before `NewTableCustom`; its error is
only reported, and `route.SetTable(t)` follows UNCONDITIONALLY (with `t == nil` on error: relies on
`setTable_returns_before_store_on_nil`). -/
theorem customRoutes_shape :
    customRoutesSkeleton = ["call:client.Do(req)", "if(resp != nil){", "if(err := resp.Body.Close(); err != nil){", "}", "}",
      "if(err != nil){", "continue", "}", "if(resp.StatusCode != 200){", "continue", "}",
      "call:decoder.Decode(&Routes)", "if(err != nil){", "continue", "}", "call:route.NewTableCustom(Routes)",
      "if(err != nil){", "}", "call:route.SetTable(t)"] := by decide

/-- `Poll.defs ds` carries the definitions of THIS document: the variable `Decode` fills is declared inside the
poll loop, so nothing of the previous poll's document is left in it (repair of D32). -/
theorem customRoutes_decodes_into_fresh_variable :
    customRoutesDecodeTarget = "Routes" ∧ customRoutesVarInLoop = true := by decide

/-- The only `recover()` in `route/`, `main.go`, `registry/custom` is the guard `globMatch` around the
third-party matcher (repair of D33: gobwas/glob compiles patterns such as `foo{` whose `Match` panics), and
every `Match` call of package `route` goes through it. Nothing else recovers: the model's "a panic on the update
path ends the process" (`customRun`, `Outcome.panic`) is what happens, and no theorem relies on a recover. -/
theorem no_recover_is_relied_upon :
    recoverSites = ["route:globMatch"] ∧ globMatchSites = ["globMatch"] ∧
    globMatchSkeleton = ["if(recover() != nil){", "}", "return g.Match(s)", "call:g.Match(s)"] := by decide

/-- panic points closed by earlier repairs stay closed: non-finite weights are refused by `addRoute` and
`weighRoute` (D02), the host pattern is compiled when the route is added and nothing in package `route`
calls `glob.MustCompile` (D03). -/
theorem panic_points_closed :
    addRouteRejectsNonFinite = true ∧ weighRouteRejectsNonFinite = true ∧ validWeightChecksNaNAndInf = true ∧
    addRouteCompilesHost = true ∧ mustCompileSites = [] := by decide

/-- the reader thread of the model is `[load; lookup on the snapshot]`: each of the three lookup closures of
`main.go` (HTTP `Lookup`, `lookupHostFn`, `lookupHostMatcher`) calls `route.GetTable()` exactly once per
lookup. -/
theorem lookups_load_the_table_once :
    lookupClosures = ["func@main.go:lookups=1:getTable=1", "func@main.go:lookups=1:getTable=1",
      "func@main.go:lookups=1:getTable=1"] := by decide

end Fabio.Props.C02Facts
