import Fabio.Generated.C02
/-!
C02 — obligations over the facts regenerated from /repo on every run (`tools/factgen/c02.go`).

Each fact is an ordered EVENT list of an anchored function, built to pin meaning rather than spelling (see the
header of `c02.go`): the AST is normalised (constants inlined, `switch` → `if` chain), calls into unexported
same-package helpers are followed, an `if`/`for`/`range` appears only when a pinned call, a pinned store or a
`return`/`continue`/`break` of the anchored function happens inside it, and variables are named by role
(`p0` first parameter, `NewTable#0` first result of the call to `NewTable`, `recv(WatchServices#0)` received from
the channel `WatchServices` returned, `copy(X)` assigned from the variable with role `X`, `rangeV` range value,
`var:atomic.Value` the package-level cell, `decl:T`/`lit:T` declared without value / composite literal).
`if(≠nil)` is a guard `x != nil`, `if(=nil:r)` a guard `r == nil`; returns list `nil`/`val` per result.
An event list that no longer matches is a broken tie between the Lean model (`Model/C02.lean`) and the code.
-/
namespace Fabio.Props.C02Facts
open Fabio.Generated.C02

/-- `Cell.setTable none = c` (`setTable_nil_ignored`): `SetTable` returns before the only `Store` on the cell
when its parameter is nil, stores its parameter otherwise, and touches no other atomic / clears nothing. -/
theorem setTable_returns_before_store_on_nil :
    setTableEvents = ["if(=nil:p0){", "return", "}", "call:var:atomic.Value.Store(p0)"] := by decide

/-- `Cell.load` is ONE micro-step: the only call `GetTable` makes is one `Load` on the cell, then it returns. -/
theorem getTable_is_one_load :
    getTableEvents = ["call:var:atomic.Value.Load()", "return val"] := by decide

/-- There is one cell; it is written by `init` (the empty table: `Cell.init`) and `SetTable` only, read by
`GetTable` only, and touched through `Load`/`Store` only (no Swap/CompareAndSwap): the thread programs of the
model are the only ways to reach it. -/
theorem cell_access_sites :
    cellVariables = 1 ∧ tableStoreSites = ["SetTable", "init"] ∧ tableLoadSites = ["GetTable"] ∧
    tableOtherUses = [] := by decide

/-- `build : Text → Option T` has no third outcome: `NewTable` returns `nil, err` when `Parse` fails and on the
FIRST failing command inside the loop over the definitions, and `table, nil` only after that loop and after
sorting every host's routes (`no_partial_table`). -/
theorem newTable_never_returns_partial_table :
    newTableEvents = ["call:Parse(p0)", "if(≠nil){", "return nil,val", "}", "call:make(Table)", "range{", "if(≠nil){",
      "return nil,val", "}", "}", "range{", "call:sort.Sort(rangeV)", "}", "return val,nil"] := by decide

/-- same for `NewTableCustom`, which first refuses a nil definition list (`newTableCustom` rather than
`newTableCustomOld`: repair of D27) -/
theorem newTableCustom_never_returns_partial_table :
    newTableCustomEvents = ["if(=nil:p0){", "return nil,val", "}", "call:make(Table)", "range{", "if(≠nil){",
      "return nil,val", "}", "}", "range{", "call:sort.Sort(rangeV)", "}", "return val,nil"] := by decide

/-- `Parse` returns `nil` with every error inside the scanner loop and reports the scanner's own error after it
(repair of D29: an over-long line is an error of the whole text, so `build` fails and the previous table keeps
serving). -/
theorem parse_returns_scanner_error :
    parseEvents = ["call:bufio.NewScanner(p0)", "for{", "call:NewScanner#0.Scan()", "if(≠nil){", "return nil,val", "}", "}",
      "call:NewScanner#0.Err()", "if(≠nil){", "return nil,val", "}", "return val,nil"] := by decide

/-- `WB.step`: the loop body resets the buffer and writes service text, "\n", manual text (what was received
from the `WatchServices` / `WatchManual` channels); the candidate text is the buffer's `String()`; the loop
skips when it equals the remembered text; `continue`s on a build error BEFORE `route.SetTable(table)`; remembers
the candidate AFTER it — and nowhere else in the function; there is one `SetTable` call. -/
theorem watchBackend_shape :
    watchBackendEvents = ["for{", "call:new(bytes.Buffer).Reset()",
      "call:new(bytes.Buffer).WriteString(recv(WatchServices#0))", "call:new(bytes.Buffer).WriteString(\"\\n\")",
      "call:new(bytes.Buffer).WriteString(recv(WatchManual#0))", "set:String#0",
      "if(String#0 == copy(String#0)){", "continue", "}", "call:route.ParseAliases(String#0)",
      "call:registry.Default.Register(ParseAliases#0)", "call:route.NewTable(new(bytes.Buffer))", "if(≠nil){", "continue",
      "}", "call:route.SetTable(NewTable#0)", "set:copy(String#0)", "}"] ∧
    watchBackendLastTableAssignments = 1 ∧ watchBackendSetTableCalls = 1 := by decide

/-- `customStep`: transport error, non-200 and decode error `continue` before `NewTableCustom`; its error is
only reported, and `route.SetTable(table)` follows UNCONDITIONALLY (not inside any guard; with a nil table on
error: relies on `setTable_returns_before_store_on_nil`); what is decoded is what is built. -/
theorem customRoutes_shape :
    customRoutesEvents = ["call:lit:http.Client.Do(NewRequest#0)", "if(≠nil){", "continue", "}",
      "if(Do#0.StatusCode != 200){", "continue", "}", "call:NewDecoder#0.Decode(&decl:*[]route.RouteDef)", "if(≠nil){",
      "continue", "}", "call:route.NewTableCustom(decl:*[]route.RouteDef)", "call:route.SetTable(NewTableCustom#0)"] := by
  decide

/-- `Poll.defs ds` carries the definitions of THIS document: the variable `Decode` fills is declared inside the
poll loop, so nothing of the previous poll's document is left in it (repair of D32). -/
theorem customRoutes_decodes_into_fresh_variable :
    customRoutesDecodeTargetFound = true ∧ customRoutesVarInLoop = true := by decide

/-- The only `recover()` in `route/`, `main.go`, `registry/custom` sits in a function whose only method call is
the third-party `Match` (repair of D33: gobwas/glob compiles patterns such as `foo{` whose `Match` panics), and
every `Match` call of package `route` is inside it. Nothing else recovers: the model's "a panic on the update
path ends the process" (`customRun`, `Outcome.panic`) is what happens, and no theorem relies on a recover. -/
theorem no_recover_is_relied_upon :
    recoverSites = ["route:recover-around:Match"] ∧ globMatchCalls = 1 ∧ globMatchCallsGuarded = 1 := by decide

/-- panic points closed by earlier repairs stay closed: both functions of package `route` that read
`RouteDef.Weight` refuse NaN/±Inf with an error (D02); the function that compiles route patterns compiles two
different ones — host and path (D03); nothing in package `route` calls `glob.MustCompile`. -/
theorem panic_points_closed :
    weightReaders = ["guarded", "guarded"] ∧ routeDefGlobCompileDistinctArgs = ["2"] ∧ mustCompileSites = [] := by
  decide

/-- the reader thread of the model is `[load; lookup on the snapshot]`: each of the three lookup closures of
package main (HTTP `Lookup`, `lookupHostFn`, `lookupHostMatcher`) calls `route.GetTable()` exactly once per
lookup. -/
theorem lookups_load_the_table_once :
    lookupClosures = ["lookups=1:getTable=1", "lookups=1:getTable=1", "lookups=1:getTable=1"] := by decide

end Fabio.Props.C02Facts
