import Fabio.Generated.C01
import Fabio.Model.C01
/-!
CHANGE DETECTORS for C01 (`"pins_module"` in checks/C01.json): the guarded-action lists of sequential, deterministic
code whose input/output behaviour a correspondence stream compares with the model on every run. When one of these
stops building nothing is claimed broken — the streams run at the widened budget with a second seed and decide. A
behaviour-preserving refactoring of this code (buffer idiom vs. concatenation, a hand-written loop vs. `slices.Contains`,
inlined locals) ends with exit 0. Tie carried by: `c01.passing` (passingServices, its helpers, checksWithTagPrefix —
every run compares the real functions with the model and with `HealthyAt`), `c01.pipeline` (serviceConfig under
scripted lookup failures, watchKV under index anomalies, the `watchBackend` loop: text order, skip-if-unchanged,
last good table). What no stream can establish stays in `Props/C01Facts.lean`.
-/
namespace Fabio.Props.C01Pins
open Fabio Fabio.Model.C01

/-- `passingServices` (v0 result, v1 outer element, v2 total, v3 passing, v4 inner element; p0 checks, p1 statuses,
p2 strict; helper0 = isServiceCheck, helper1 = hasStatus): only service checks are considered; the inner loop runs
over the *same* list; on the same node: a check of the same service id counts (and counts as passing when its
status is accepted); then, in this order, critical serfHealth / `_node_maintenance` with any status / critical
`_service_maintenance:<id of the outer element>` leave the outer iteration; the element is appended iff
`passing != 0` and (not strict or total == passing). This is the model's `inner` / `keep`. -/
theorem passing_services_shape :
    Generated.C01.passingServicesActions =
      ["range p0",
       "> helper0(v1) => range p0",
       ">> v1.Node == v4.Node & v1.ServiceID == v4.ServiceID => v2++",
       ">> v1.Node == v4.Node & v1.ServiceID == v4.ServiceID & helper1(v4, p1) => v3++",
       ">> v1.Node == v4.Node & \"serfHealth\" == v4.CheckID & \"critical\" == v4.Status => continue L0",
       ">> v1.Node == v4.Node & \"serfHealth\" != v4.CheckID & \"_node_maintenance\" == v4.CheckID => continue L0",
       ">> v1.Node == v4.Node & \"serfHealth\" == v4.CheckID & \"critical\" != v4.Status & \"_node_maintenance\" == v4.CheckID => continue L0",
       ">> v1.Node == v4.Node & \"serfHealth\" != v4.CheckID & \"_node_maintenance\" != v4.CheckID & \"_service_maintenance:\" + v1.ServiceID == v4.CheckID & \"critical\" == v4.Status => continue L0",
       "> helper0(v1) & 0 != v3 & !p2 => v0 = append(v0, v1)",
       "> helper0(v1) & 0 != v3 & p2 & v2 == v3 => v0 = append(v0, v1)",
       "return v0"] := by
  repeat' apply And.intro
  all_goals first | rfl | decide

/-- `isServiceCheck` (helper0) and `hasStatus` (helper1) -/
theorem passing_helpers_shape :
    Generated.C01.passingHelperCount = 2 ∧
    Generated.C01.passingHelper0Actions =
      ["return \"\" != p0.ServiceID & \"serfHealth\" != p0.CheckID & \"_node_maintenance\" != p0.CheckID & !(strings.HasPrefix(p0.CheckID, \"_service_maintenance:\"))"] ∧
    Generated.C01.passingHelper1Actions = ["range p1",
       "> p0.Status == v0 => return true",
       "return false"] := by
  repeat' apply And.intro
  all_goals first | rfl | decide

/-- `checksWithTagPrefix` (p0 prefix, p1 checks, v0 result, v1 element, v2 tag): serf / node-maintenance /
`_service_maintenance…` checks are appended unconditionally, any other check once if one of its tags, trimmed as
`routecmd.build` trims it (repair of D27), has the prefix -/
theorem filter_shape :
    Generated.C01.checksWithTagPrefixActions =
      ["range p1",
       "> \"serfHealth\" == v1.CheckID => v0 = append(v0, v1)",
       "> \"serfHealth\" != v1.CheckID & \"_node_maintenance\" == v1.CheckID => v0 = append(v0, v1)",
       "> \"serfHealth\" != v1.CheckID & \"_node_maintenance\" != v1.CheckID & strings.HasPrefix(v1.CheckID, \"_service_maintenance\") => v0 = append(v0, v1)",
       "> \"serfHealth\" != v1.CheckID & \"_node_maintenance\" != v1.CheckID & !(strings.HasPrefix(v1.CheckID, \"_service_maintenance\")) => range v1.ServiceTags",
       ">> strings.HasPrefix(strings.TrimSpace(v2), p0) => v0 = append(v0, v1)",
       ">> strings.HasPrefix(strings.TrimSpace(v2), p0) => break",
       "return v0"] := by
  repeat' apply And.intro
  all_goals first | rfl | decide

/-- the lookup function (`serviceConfig`; p0 service name, p1 passing set, r0 result): nothing for the empty name or
an empty set; the catalog is asked for *that name*; **on a lookup error it returns nil**; otherwise the commands built
in this call for the entries whose key is in the set (model: `joinedF`) -/
theorem service_config_nil_on_lookup_error :
    Generated.C01.lookupActions =
      ["\"\" == p0 => return nil",
       "\"\" != p0 & 0 == len(p1) => return nil",
       "\"\" != p0 & 0 != len(p1) => Service#0, _, Service#2 := recv.f0.Catalog().Service(p0, \"\", v0)",
       "\"\" != p0 & 0 != len(p1) & Service#2 != nil => return nil",
       "\"\" != p0 & 0 != len(p1) & Service#2 == nil => range Service#0",
       "> v3 => r0 = append(r0, build#0...)",
       "\"\" != p0 & 0 != len(p1) & Service#2 == nil => return r0"] := by
  repeat' apply And.intro
  all_goals first | rfl | decide

/-- `watchKV` (p2 channel, v0 remembered index, v1 remembered value, helper0 = listKV called with the remembered
index as wait index): on an error pause; otherwise publish and remember iff the value or the index differs — a
*change* test, no ordering comparison on the index (an index that goes backwards is a change like any other).
`Watch` only stores the index, it never compares it. -/
theorem watchers_only_test_for_change :
    Generated.C01.watchKVActions =
      ["for",
       "> helper0#0, helper0#1, helper0#2 := helper0(p0, p1, v0, p3, p4, p5)",
       "> helper0#2 != nil => call time.Sleep(time.Second)",
       "> helper0#2 == nil & helper0#0 != v1 => send p2 <- helper0#0",
       "> helper0#2 == nil & helper0#0 == v1 & helper0#1 != v0 => send p2 <- helper0#0",
       "> helper0#2 == nil & helper0#0 != v1 => v1, v0 = helper0#0, helper0#1",
       "> helper0#2 == nil & helper0#0 == v1 & helper0#1 != v0 => v1, v0 = helper0#0, helper0#1"] ∧
    Generated.C01.watchIndexWrites = ["v0 = State#1.LastIndex"] ∧
    Generated.C01.watchIndexConds = [] := by
  repeat' apply And.intro
  all_goals first | rfl | decide

/-- `watchBackend` (v0 nextTable, v1 lastTable, v2 svccfg, v3 mancfg, v6 the buffer): receive one event; service
text, "\n", manual text; skip when equal to the remembered text; `NewTable`; only if it succeeded `SetTable` and
then `lastTable = nextTable`; `SetTable` is called nowhere else in the function. -/
theorem watch_backend_loop_shape :
    Generated.C01.watchBackendLoop =
      ["select v2 = <-v7 | v3 = <-WatchManual#0",
       "call v6.Reset()",
       "call v6.WriteString(v2)",
       "call v6.WriteString(\"\\n\")",
       "call v6.WriteString(v3)",
       "v0 = v6.String()",
       "v0 != v1 => NewTable#0, v8 := route.NewTable(v6)",
       "v0 != v1 & nil == v8 => call route.SetTable(NewTable#0)",
       "v0 != v1 & nil == v8 => v1 = v0"] := by
  repeat' apply And.intro
  all_goals first | rfl | decide

end Fabio.Props.C01Pins
