import Fabio.Generated.C14
import Fabio.Model.C14
/-!
CHANGE DETECTORS for C14 (`"pins_module"` in checks/C14.json): the shape of the sequential, deterministic pipeline
`routecmd.build → parseURLPrefixTag → denotes` and of `makeConfig`'s join, whose input/output behaviour the
correspondence streams compare with the model on every run. When one of these stops building nothing is claimed
broken — the streams run at the widened budget with a second seed and decide: a behaviour-preserving refactoring
(extracting `wantedRouteDef`, `strings.Cut` for `SplitN(…, 2)`, merging two guards with `||`, a package-level
`expandEnv` for the closure — archived refactoring h4) ends with exit 0, a breaking change is exposed by the named
stream with a concrete input. Until round 4 these were obligations in `C14Facts.lean`; every archived breaking change
that broke one of them (m1, m3, m5, m11 and the mutation-sanity edits M1–M6) is also exposed by the streams with a
failing input (design/C14.md, re-validation table).

Streams that carry the tie: options, destination, weight, tags, quoting, validation — `c14.build` (per command: the
real `route.Parse`/`NewTable`, the intended definition) and `c14.poison`/`c14.history`/`c14.watch` (joined text,
table); `parseURLPrefixTag`, `os.Expand`, the variable `DC` — `c14.expand` and the `ptags` column of `c14.build`.
-/
namespace Fabio.Props.C14Pins
open Fabio Fabio.Generated.C14 Fabio.Model.C14

/-- every element of `req` occurs in `l` -/
def sub (req l : List String) : Bool := req.all (fun s => l.contains s)

/-! ### the option loop of `build` -/

/-- what each option does first: the destination by protocol (no trailing slash), the weight text after
`weight=`, the redirect value after `redirect=` split on "," — as `Model.C14.optStep` -/
theorem option_effects :
    optionEffects = ["_ == \"proto=grpc\" => _ = \"grpc://\" + _", "_ == \"proto=grpcs\" => _ = \"grpcs://\" + _",
      "_ == \"proto=https\" => _ = \"https://\" + _", "_ == \"proto=tcp\" => _ = \"tcp://\" + _",
      "strings.HasPrefix(_, \"redirect=\") => _ := strings.Split(strings.TrimPrefix(_, \"redirect=\"), \",\")",
      "strings.HasPrefix(_, \"weight=\") => _ = strings.TrimPrefix(_, \"weight=\")"] := by decide

/-- the model's keywords are literals of the code -/
theorem model_keywords :
    sub [String.ofList kProtoTcp, String.ofList kProtoHttps, String.ofList kProtoGrpcs, String.ofList kProtoGrpc,
      String.ofList kWeightEq, String.ofList kRedirectEq] pipelineLiterals = true := by decide

/-- the literals of the emitted line (tags and options **raw** between double quotes), the five destination
schemes, the separators, the `redirect=%s` option, the variable `DC`, the join with "\n" -/
theorem line_literals :
    sub ["route add ", " ", " weight ", " tags \"", " opts \"", "\"", ",", "http://", "/", "tcp://", "https://",
      "grpcs://", "grpc://", "redirect=%s", ":", "=", "DC", "\n", ".local", "darwin"] pipelineLiterals = true := by decide

/-! ### the library calls of the pipeline `makeConfig → serviceConfig → build → parseURLPrefixTag / validation` -/

/-- options are split with `strings.Fields`, tags trimmed with `strings.TrimSpace`, tags joined with ",", options
with " ", commands with "\n" after a reverse sort; host and port joined by `net.JoinHostPort(_, strconv.Itoa(_))`;
the redirect value split on ","; `parseURLPrefixTag` trims, splits once at " " and once at "/", tests ":" and "/",
lower-cases the expanded host and expands with `os.Expand` -/
theorem pipeline_calls :
    sub ["strings.Fields(_)", "strings.TrimSpace(_)", "strings.TrimSpace(_[len(_):])", "strings.Join(_, \",\")",
      "strings.Join(_, \" \")", "strings.Join(_, \"\\n\")", "sort.Sort(sort.Reverse(sort.StringSlice(_)))",
      "net.JoinHostPort(_, strconv.Itoa(_))", "strings.Split(strings.TrimPrefix(_, \"redirect=\"), \",\")",
      "fmt.Sprintf(\"redirect=%s\", _[0])", "strings.SplitN(_, \" \", 2)", "strings.SplitN(_, \"/\", 2)",
      "strings.HasPrefix(_, \":\")", "strings.Contains(_, \"/\")", "strings.HasPrefix(_, _)",
      "strings.ToLower(_(_))", "os.Expand(_, func)"] pipelineCalls = true := by decide

/-- tags and options are not written with `strconv.Quote` / `%q` (the grammar `"[^"]*"` knows no escapes) -/
theorem no_go_quoting : goQuotingCalls = [] := by decide

/-- the guards the model mirrors (without polarity): the tag partition and `parseURLPrefixTag`'s prefix test, the
address fallback / weight clause (`_ == ""`), the redirect arity and the two-way splits (`len(_) == 2`), the
optional clauses (`len(_) == 0`), `serviceConfig`'s empty-name guard, the darwin-only `.local` suffix (outside the
model: the harness runs on linux) -/
theorem pipeline_guards :
    sub ["strings.HasPrefix(_, _)", "_ == \"\"", "len(_) == 2", "len(_) == 0", "_ == \"\" || len(_) == 0",
      "strings.HasPrefix(_, \":\")", "strings.Contains(_, \"/\")",
      "runtime.GOOS == \"darwin\" && !strings.Contains(_, \".\") && !strings.HasSuffix(_, \".local\")",
      "_ == \"proto=tcp\"", "_ == \"proto=https\"", "_ == \"proto=grpcs\"", "_ == \"proto=grpc\"",
      "strings.HasPrefix(_, \"weight=\")", "strings.HasPrefix(_, \"redirect=\")"] pipelineConds = true := by decide

/-! ### repair of D19: a command is emitted only if it denotes the route that is meant -/

/-- in `build` (helpers inlined), between the assembly of a command and the append to the result: the weight is
read with `strconv.ParseFloat`, the command goes through `route.Parse`, the one definition is compared with
`reflect.DeepEqual`, a table is built with `route.NewTable` — each followed by a conditional exit — and only then
the command is emitted (`Model.C14.denotes`, `Model.C14.build`) -/
theorem validation_before_emit :
    validationOrder = ["call strconv.ParseFloat", "exit", "call route.Parse", "exit", "call reflect.DeepEqual", "exit",
      "call route.NewTable", "exit", "emit"] := by decide

/-- parser and table each get the command text in a buffer of their own (`route.Parse` drains its buffer), the
comparison is between the parsed definition and the intended one, the weight is a 64-bit float, the intended
options are split at the first "=" -/
theorem validator_calls :
    sub ["route.Parse(bytes.NewBufferString(_))", "route.NewTable(bytes.NewBufferString(_))",
      "reflect.DeepEqual(_[0], _)", "strconv.ParseFloat(_, 64)", "strings.SplitN(_, \"=\", 2)"] pipelineCalls = true ∧
    sub ["len(_) != 1 || !reflect.DeepEqual(_[0], _)", "_ == nil"] pipelineConds = true := by decide

/-! ### `parseURLPrefixTag` -/

/-- its results: not a routing tag / bad syntax; the `:port` and no-slash forms verbatim; host lower-cased and
expanded, path expanded -/
theorem parse_tag_returns :
    parseTagReturns = ["return \"\", \"\", false", "return \"\", \"\", false", "return _, _, true", "return _, _, true",
      "return strings.ToLower(_(_)) + \"/\" + _(_), _, true"] := by decide

/-- the only variable is `DC` -/
theorem env_keys : envKeys = ["DC"] := by decide

end Fabio.Props.C14Pins
