import Fabio.Props.System
import Fabio.Props.C02
/-!
System-level composition under concurrency (round 4): request goroutines running `HTTPProxy.ServeHTTP` against the
atomic table cell while writers (the update loop) replace the table.

C02's interleaving semantics is generic in the reader's pure function. Here the reader is the WHOLE request handler:
`lookupPure := serveHTTP pcfg` — justified by `serveHTTP_reads_table_once`: the table enters `serveHTTP` only through
`select` (the one `route.GetTable()` load behind `p.Lookup`); gates, redirect, headers and target URL are computed from
the selected target and the request alone.

* `serveHTTP_reads_table_once`                 — `serveHTTP pcfg t r` depends on `t` only through `select pcfg t r`;
* `concurrent_outcome_from_one_table`          — every schedule, any number of request goroutines and writers: each completed
                                                 request's outcome is `serveHTTP` on ONE table — the initial one or one some
                                                 writer passed to `SetTable` — never a mixture;
* `concurrent_forward_only_to_eligible`        — if the initial table and every table a writer installs is the service
                                                 table of SOME observed registry state (`Observed`), then under every
                                                 schedule every forwarded request goes to the `route add` of a routing tag of
                                                 an instance that was eligible (healthy) in one of those observed states — the
                                                 state whose table the request loaded.
-/
namespace Fabio.Props.SystemConc
open Fabio Fabio.Model Fabio.Model.ServeHTTP Fabio.Model.C02
open Fabio.Model.Route (Env RouteDef Table Target Route)
open Fabio.Model.C05Spec (key newTarget)
open Fabio.Model.C01 Fabio.Model.C01Compose Fabio.Props.C01Compose
open Fabio.Model.C14 (intents wantDef)
open Fabio.Model.Parse (loadTable ParseFloat)
open Fabio.Lemmas.C14 (core)

/-- the table is read once: through the lookup -/
theorem serveHTTP_reads_table_once (pcfg : ServeHTTP.Cfg) (t t' : Table) (r : Request)
    (h : select pcfg t r = select pcfg t' r) : serveHTTP pcfg t r = serveHTTP pcfg t' r := by
  unfold serveHTTP
  rw [h]

/-- request goroutines: the pure function of a reader is the whole handler; `k r` internal micro-steps -/
def handler (pcfg : ServeHTTP.Cfg) (k : Request → Nat) : Lk Table Request ServeHTTP.Outcome :=
  { lookupPure := serveHTTP pcfg, k := k }

/-- **concurrent_outcome_from_one_table.** -/
theorem concurrent_outcome_from_one_table (pcfg : ServeHTTP.Cfg) (k : Request → Nat) (t0 : Table)
    (ths : List (Thread Table Request ServeHTTP.Outcome)) (hfresh : ∀ th ∈ ths, th.fresh = true) (sch : List Nat) :
    ∀ th ∈ (Sys.run (handler pcfg k) sch (Sys.start t0 ths)).threads, ∀ res ∈ th.results,
      ∃ t, (t = t0 ∨ t ∈ ths.flatMap Thread.stores) ∧
        (Sys.run (handler pcfg k) sch (Sys.start t0 ths)).cell.hist[res.idx]? = some t ∧
        res.ans = serveHTTP pcfg t res.req := by
  intro th hth res hres
  obtain ⟨t, ht, ha⟩ := Props.C02.lookup_linearizable (handler pcfg k) t0 ths hfresh sch th hth res hres
  have inv := (Fabio.Lemmas.C02.Inv.run sch (Fabio.Lemmas.C02.Inv.start (handler pcfg k) t0 ths hfresh)).1
  exact ⟨t, inv.mem t (List.mem_of_getElem? ht), ht, ha⟩

section
variable (env : Env) (pf : ParseFloat) (ccfg : Fabio.Model.C14.Cfg) (st : List (List Char)) (strict : Bool)

/-- a registry state as the monitor observes it -/
structure Reg where
  checks : List Check
  catalog : List Char → List Instance

/-- `t` is the service table of an observed, well-formed registry state -/
def Observed (obs : List Reg) (t : Table) : Prop :=
  ∃ R ∈ obs, WellFormed ccfg R.checks R.catalog ∧
    loadTable env pf (svcText env pf ccfg st strict R.checks R.catalog) = .ok t

/-- **concurrent_forward_only_to_eligible.** -/
theorem concurrent_forward_only_to_eligible (obs : List Reg)
    (pcfg : ServeHTTP.Cfg) (hpick : Props.C03.PickOK pcfg.lookup.pick) (k : Request → Nat) (t0 : Table)
    (ths : List (Thread Table Request ServeHTTP.Outcome)) (hfresh : ∀ th ∈ ths, th.fresh = true)
    (h0 : Observed env pf ccfg st strict obs t0)
    (hst : ∀ t ∈ ths.flatMap Thread.stores, Observed env pf ccfg st strict obs t) (sch : List Nat) :
    ∀ th ∈ (Sys.run (handler pcfg k) sch (Sys.start t0 ths)).threads, ∀ res ∈ th.results,
      ∀ f, res.ans = .forward f →
      ∃ R ∈ obs, ∃ t, (Sys.run (handler pcfg k) sch (Sys.start t0 ths)).cell.hist[res.idx]? = some t ∧
        loadTable env pf (svcText env pf ccfg st strict R.checks R.catalog) = .ok t ∧
        ∃ h ro tg, select pcfg t res.req = some (h, ro, tg) ∧ f.upstream = targetHost pcfg tg ∧
          ∃ i, Eligible st strict R.checks R.catalog i ∧
            ∃ it ∈ intents ccfg (regOf i), ∃ d u, wantDef pf it = some d ∧ env.normURL d.dst = some u ∧
              key d.src = (lowerL h, ro.path) ∧ core tg = core (newTarget d u) := by
  intro th hth res hres f hf
  obtain ⟨t, hmem, hidx, hans⟩ := concurrent_outcome_from_one_table pcfg k t0 ths hfresh sch th hth res hres
  have hobs : Observed env pf ccfg st strict obs t := by
    rcases hmem with rfl | hm
    · exact h0
    · exact hst t hm
  obtain ⟨R, hR, wf, hload⟩ := hobs
  rw [hans] at hf
  obtain ⟨h, ro, tg, hsel, hup, hrest⟩ :=
    Props.System.forwarded_only_to_eligible_instance env pf ccfg st strict R.checks R.catalog wf t hload pcfg hpick
      res.req hf
  exact ⟨R, hR, t, hidx, hload, h, ro, tg, hsel, hup, hrest⟩

end

/-! ### non-vacuity: two request goroutines against a writer that installs the table of a second registry state -/
namespace Demo
open Fabio.Props.C14 (envW pfW cfgW)
open Fabio.Props.C01Compose (checksW catalogW stW wellFormedW ck inst)
open Fabio.Props.System.Demo (pcfgW reqW tableW tableW_loads pickW)

/-- state 2: the instance on n2 has recovered, the one on n1 is critical -/
def checks2 : List Check :=
  [ck "n1" "serfHealth" "" "" "passing" [],
   ck "n1" "service:web-1" "web-1" "web" "critical" ["urlprefix-foo.com/", "v1"],
   ck "n2" "serfHealth" "" "" "passing" [],
   ck "n2" "service:web-2" "web-2" "web" "passing" ["urlprefix-foo.com/", "v1"]]

def table2 : Table :=
  match loadTable envW pfW (svcText envW pfW cfgW stW false checks2 catalogW) with
  | .ok t => t
  | .error _ => []

def threadsW : List (Thread Table Request ServeHTTP.Outcome) :=
  [.reader [reqW, reqW] none [], .reader [reqW] none [], .writer [some table2]]

/-- reader 0 loads, the writer stores, reader 0 finishes and serves its second request, reader 1 serves -/
def schedW : List Nat := [0, 2, 0, 0, 0, 0, 0, 0, 1, 1, 1, 1]

/-- the first request of reader 0 was answered from the table of state 1 (n1), its second and reader 1's from the
table of state 2 (n2): each from ONE complete table -/
example : ((Sys.run (handler pcfgW (fun _ => 1)) schedW (Sys.start tableW threadsW)).threads.map
      (fun th => th.results.map (fun res => (res.idx, match res.ans with
        | .forward _ => (match select pcfgW (if res.idx = 0 then tableW else table2) res.req with
            | some (_, _, tg) => tg.url | none => [])
        | _ => [])))) =
    [[(0, "http://10.0.0.1:8000/".toList), (1, "http://10.0.0.2:8000/".toList)],
     [(1, "http://10.0.0.2:8000/".toList)], []] := by decide +kernel

example : ∀ th ∈ threadsW, th.fresh = true := by decide

end Demo

end Fabio.Props.SystemConc
