import Fabio.Generated.C08
import Fabio.Model.C08
/-!
CHANGE DETECTORS for C08 (`"pins_module"` in checks/C08.json): the shape of the sequential, deterministic header
code whose input/output behaviour the correspondence streams compare with the model on every run. When one of
these stops building nothing is claimed broken — the streams run at the widened budget with a second seed and
decide. Each line names the stream that carries the tie.
-/
namespace Fabio.Props.C08Pins
open Fabio Fabio.Model.C08

def names (l : List Str) : List String := l.map String.ofList

/-- header names `addHeaders` (helpers inlined) reads and writes — `c08.unit` compares the whole header map -/
theorem addHeaders_names_pinned :
    Generated.C08.addHeadersNames =
      names [connection, forwarded, upgrade, xForwardedFor, xForwardedHost, xForwardedPort, xForwardedPrefix,
             xForwardedProto, xRealIp] := by
  decide

/-- the writes of `addHeaders` come in the order of the model's steps, the Connection protection (D12d) after
every header it protects — `c08.unit` (whole map, class `conn-names-managed`), `c08.serve`, `c08.hopbyhop` -/
theorem addHeaders_write_order :
    Generated.C08.addHeadersWrites =
      ["set:field:ClientIPHeader", "set:X-Real-Ip", "set:X-Forwarded-For", "set:X-Forwarded-Proto",
       "set:X-Forwarded-Port", "set:X-Forwarded-Host", "set:X-Forwarded-Prefix", "set:Forwarded",
       "set:field:TLSHeader", "del:field:TLSHeader", "del:Connection", "assign:Connection"] ∧
    Generated.C08.schemeWrites = [] ∧
    Generated.C08.responseWrites = ["set:Strict-Transport-Security"] := by decide

/-- `c08.unit` (`scheme0` on every case) -/
theorem scheme_names_pinned : Generated.C08.schemeNames = names [forwarded, upgrade, xForwardedProto] := by decide

/-- `c08.unit` (response header map), `c08.serve`, `c08.proxy` (what the client reads) -/
theorem response_names_pinned : Generated.C08.responseNames = names [stsName] := by decide

/-- every literal header name is canonical, so map indexing and `Get/Set` hit the same entry — `c08.unit`
sends every name in several casings and compares the map -/
theorem header_literals_canonical :
    (Generated.C08.addHeadersNames ++ Generated.C08.schemeNames ++ Generated.C08.responseNames ++
      Generated.C08.managedHeaders).all
      (fun n => canonicalKey n.toList == n.toList) = true := by decide

/-- `c08.unit` / `c08.serve` configure `X-Forwarded-For`, `X-Real-Ip` (and lower-case spellings) as client-IP header -/
theorem clientip_excluded_pinned : Generated.C08.clientIPExcluded = names [xForwardedFor, xRealIp] := by decide

/-- `c08.unit`: Forwarded value compared literally (local IP, every r.Proto, TLS versions and ciphers) -/
theorem forwarded_pieces_pinned :
    Generated.C08.forwardedPieces = ["for=", "; proto=", "; by=", "; httpproto=", "; tlsver=", "; tlscipher="] := by decide

/-- `c08.unit`: max-age incl. the int32 wrap, both flags -/
theorem sts_pieces_pinned : Generated.C08.stsPieces = ["max-age=", "; includeSubdomains", "; preload"] := by decide

/-- `c08.unit` (`scheme0`) -/
theorem scheme_literals_pinned :
    Generated.C08.schemeLiterals = ["proto=", "websocket", "wss", "ws", "https", "http"] := by decide

/-- `c08.unit` / `c08.serve` draw the TLS version from 0x0300 … 0x0304, 0 and 0xffff: every row and both sides
of the table's edge on every run -/
theorem tlsver_pinned :
    Generated.C08.tlsverKeys = ["tls.VersionSSL30", "tls.VersionTLS10", "tls.VersionTLS11", "tls.VersionTLS12"] ∧
    Generated.C08.tlsverValues = names [tlsverName 0x0300, tlsverName 0x0301, tlsverName 0x0302, tlsverName 0x0303] := by
  decide

/-- D12b and the handler choice: the three places that decide "this is a websocket upgrade" (`ServeHTTP`
choosing the tunnel, `addHeaders` adding X-Forwarded-For, `scheme` reporting ws/wss) apply the same
case-insensitive comparison to the same reading of the request (`Header.Get("Upgrade")`, the model's
`isWebsocket`) — `c08.serve` and `c08.proxy` send the token in every casing, inside lists, with blanks and on
second lines and compare handler and headers; `c08.unit` does the same for `addHeaders` / `scheme` -/
theorem websocket_test_same_at_all_sites :
    Generated.C08.wsCompareAddHeaders = ["fold:websocket"] ∧
    Generated.C08.wsCompareScheme = Generated.C08.wsCompareAddHeaders ∧
    Generated.C08.wsCompareServeHTTP = Generated.C08.wsCompareAddHeaders ∧
    Generated.C08.wsOperandAddHeaders = ["hdr.Get(Upgrade)"] ∧
    Generated.C08.wsOperandScheme = Generated.C08.wsOperandAddHeaders ∧
    Generated.C08.wsOperandServeHTTP = Generated.C08.wsOperandAddHeaders := by decide

/-- D12d: the protected names and the token reading — `c08.unit` clause `connection`, `c08.serve` /
`c08.hopbyhop` class `conn-names-managed` (tokens drawn from all managed and configured names, any casing) -/
theorem protect_managed_headers_pinned :
    Generated.C08.managedHeaders = names (managedKeys {}) ∧
    Generated.C08.protectConfigFields = ["ClientIPHeader", "TLSHeader", "RequestID"] ∧
    Generated.C08.protectTokenKey = ["http.CanonicalHeaderKey(textproto.TrimString(_))"] := by decide

/-- D12: no assignment to the request's Host before `addHeaders(<request>, <receiver>.Config, <target>.StripPath)`
— `c08.serve` and `c08.proxy` run every `host=` option and compare X-Forwarded-Host / -Port and the upstream Host -/
theorem addHeaders_before_host_override :
    Generated.C08.hostAssignmentsBeforeAddHeaders = 0 ∧
    Generated.C08.addHeadersArgs = ["param1", "recv.Config", "local.StripPath"] := by decide

/-- the request-id header is set before `addHeaders` runs — `c08.serve` / `c08.proxy` (request id configured in a
third of the cases, also under colliding names, class `config-collision`) -/
theorem requestid_before_addHeaders :
    Generated.C08.requestIDSets = 1 ∧ Generated.C08.requestIDSetsBeforeAddHeaders = 1 := by decide

/-- every header field of `config.Proxy` is bound to its documented option, of the right kind, defaulting to the
default configuration, which sets none of them except `LocalIP` (`config/load.go`) — `c08.main` starts the real
executable with the options on the command line, in the environment and in a properties file (classes `/arg`,
`/env`, `/file`, `/defaults`) and compares what the upstream receives with `Model.C08.loadCfg` composed with
`serveHTTP`; an obligation until round 3, when no stream ran `config.Load` -/
theorem header_options_bound :
    Generated.C08.headerOptionBindings =
      ["proxy.header.clientip -> ClientIPHeader : String : default",
       "proxy.header.requestid -> RequestID : String : default",
       "proxy.header.sts.maxage -> STSHeader.MaxAge : Int : default",
       "proxy.header.sts.preload -> STSHeader.Preload : Bool : default",
       "proxy.header.sts.subdomains -> STSHeader.Subdomains : Bool : default",
       "proxy.header.tls -> TLSHeader : String : default",
       "proxy.header.tls.value -> TLSHeaderValue : String : default",
       "proxy.localip -> LocalIP : String : default"] ∧
    Generated.C08.headerDefaultsSet = ["LocalIP"] := by decide

end Fabio.Props.C08Pins
