import Fabio.Generated.C04
import Fabio.Model.Route
/-!
C04 — the tie by translation for `contains` (`route/route.go`), the tag matcher behind `route weight … tags`
and `route del … tags`. `Fabio.Generated.C04.XContains` is produced on every run from the current Go source by
`tools/factgen/xlate.go`; below it is proved equal, for all inputs, to the function the model uses
(`Model.Route.containsAll`: every element of `dst` occurs in `src` — a list read as a set, repeated elements
and the lengths of the lists are irrelevant). Go strings are byte lists in the translation and character lists
in the model: `containsAll` is the instance at `List Char` of the polymorphic `fun src dst => dst.all
(src.contains ·)`, the theorem is about the instance at `List UInt8`.

Part of the change detectors (imported by `Props/C04Pins.lean`, the `pins_module`): when `contains` is rewritten so that this proof no longer goes
through, the check widens the streams (which compare `route weight`/`route del` over tag lists with repeated,
missing and surplus tags against the model) instead of claiming a violation.
-/
namespace Fabio.Props.C04Pins.Xlate
open Fabio.Xlate Fabio.Generated.C04 Fabio.Generated.C04.XContains

/-- the model's function at the translation's string type -/
def containsAllB (src dst : List Bytes) : Bool := dst.all (fun d => src.contains d)

/-- `Model.Route.containsAll` is the same polymorphic expression at `List Char` -/
theorem model_containsAll (src dst : List Fabio.Model.Route.Str) :
    Fabio.Model.Route.containsAll src dst = dst.all (fun d => src.contains d) := rfl

/-- the inner loop `for _, s := range src { if s == d { found = true; break } }` -/
theorem inner (xs : List Bytes) : ∀ (k : Nat) (s : St),
    ∃ s', forEachL (fun _ x s => { s with l2 := x }) loop1Body xs k s = .next s' ∧
      s'.p0 = s.p0 ∧ s'.p1 = s.p1 ∧ s'.l0 = s.l0 ∧ s'.l1 = (s.l1 || xs.contains s.l0) := by
  induction xs with
  | nil => intro k s; exact ⟨s, rfl, rfl, rfl, rfl, by simp⟩
  | cons x xs ih =>
    intro k s
    by_cases h : x == s.l0
    · refine ⟨{ s with l2 := x, l1 := true }, ?_, rfl, rfl, rfl, ?_⟩
      · simp [forEachL, loop1Body, ifS, seq, assign, brk, h]
      · have e : s.l0 = x := (beq_iff_eq.mp h).symm
        simp [e]
    · obtain ⟨s', h1, h2, h3, h4, h5⟩ := ih (k+1) { s with l2 := x }
      refine ⟨s', ?_, h2, h3, h4, ?_⟩
      · simp only [forEachL, loop1Body, ifS, skip, h]
        exact h1
      · rw [h5]
        have ne : ¬ s.l0 = x := fun e => h (by rw [e]; exact beq_self_eq_true _)
        simp [ne]

/-- one round of the outer loop -/
theorem outerBody (s : St) :
    (s.p0.contains s.l0 = true → ∃ s', loop0Body s = .next s' ∧ s'.p0 = s.p0 ∧ s'.p1 = s.p1) ∧
    (s.p0.contains s.l0 = false → ∃ s', loop0Body s = .ret false s') := by
  obtain ⟨s', h1, h2, h3, h4, h5⟩ := inner s.p0 0 { s with l1 := false }
  simp only [Bool.false_or] at h5
  constructor
  · intro hc
    refine ⟨s', ?_, h2, h3⟩
    simp only [loop0Body, seq, assign, forEach, loop1List, h1, ifS, ret, skip]
    rw [h5, hc]; rfl
  · intro hc
    refine ⟨s', ?_⟩
    simp only [loop0Body, seq, assign, forEach, loop1List, h1, ifS, ret, skip]
    rw [h5, hc]; rfl

/-- the outer loop `for _, d := range dst { …; if !found { return false } }` -/
theorem outer (ds : List Bytes) : ∀ (k : Nat) (s : St),
    (ds.all (fun d => s.p0.contains d) = true →
      ∃ s', forEachL (fun _ x s => { s with l0 := x }) loop0Body ds k s = .next s') ∧
    (ds.all (fun d => s.p0.contains d) = false →
      ∃ s', forEachL (fun _ x s => { s with l0 := x }) loop0Body ds k s = .ret false s') := by
  induction ds with
  | nil => intro k s; exact ⟨fun _ => ⟨s, rfl⟩, fun h => by simp at h⟩
  | cons d ds ih =>
    intro k s
    obtain ⟨hyes, hno⟩ := outerBody { s with l0 := d }
    by_cases hc : s.p0.contains d = true
    · obtain ⟨s1, e1, e2, _⟩ := hyes hc
      obtain ⟨iy, in_⟩ := ih (k+1) s1
      rw [e2] at iy in_
      constructor
      · intro hall
        have : ds.all (fun d => s.p0.contains d) = true := by
          simp only [List.all_cons, Bool.and_eq_true] at hall; exact hall.2
        obtain ⟨s', hs'⟩ := iy this
        exact ⟨s', by simp only [forEachL, e1]; exact hs'⟩
      · intro hall
        have : ds.all (fun d => s.p0.contains d) = false := by
          simp only [List.all_cons, hc, Bool.true_and] at hall; exact hall
        obtain ⟨s', hs'⟩ := in_ this
        exact ⟨s', by simp only [forEachL, e1]; exact hs'⟩
    · have hc' : s.p0.contains d = false := by simpa using hc
      obtain ⟨s1, e1⟩ := hno hc'
      constructor
      · intro hall
        simp only [List.all_cons, hc', Bool.false_and] at hall
        exact absurd hall (by decide)
      · intro _
        exact ⟨s1, by simp only [forEachL, e1]⟩

/-- **The `contains` translated from the current source is the model's `containsAll`, for every input**, and
it never panics. -/
theorem xcontains_eq (src dst : List Bytes) :
    ∃ s, XContains.run { p0 := src, p1 := dst } = .ok (containsAllB src dst, s) := by
  unfold XContains.run Fabio.Xlate.run body containsAllB
  obtain ⟨hy, hn⟩ := outer dst 0 ({ p0 := src, p1 := dst } : St)
  cases hall : dst.all (fun d => src.contains d) with
  | true =>
    obtain ⟨s', hs'⟩ := hy hall
    exact ⟨s', by simp only [seq, forEach, loop0List, hs', ret]⟩
  | false =>
    obtain ⟨s', hs'⟩ := hn hall
    exact ⟨s', by simp only [seq, forEach, loop0List, hs']⟩

/-- repeated tags and a list longer than the target's own do not matter (the class seeded change m12 broke) -/
example : ∃ s, XContains.run { p0 := [[98], [99]], p1 := [[98], [98], [98]] } = .ok (true, s) := ⟨_, rfl⟩
example : ∃ s, XContains.run { p0 := [[98], [99]], p1 := [[98], [97]] } = .ok (false, s) := ⟨_, rfl⟩
example : XContains.translated = true := rfl

/-- nothing of `contains` was left untranslated (a construct outside the translator's subset would be listed) -/
theorem xlate_everything_translated : Fabio.Generated.C04.xlateNotes = [] := by decide

end Fabio.Props.C04Pins.Xlate
