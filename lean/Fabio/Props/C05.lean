import Fabio.Lemmas.C05Main
import Fabio.Lemmas.C05Text
import Fabio.Lemmas.C05Rebuild
import Fabio.Lemmas.C05Glue
import Fabio.Lemmas.C05Lang
import Fabio.Lemmas.C05Fix
import Fabio.Lemmas.C05From
/-!
C05 — route commands mean what the command language says: property theorems.

Model: `Model/Route.lean` (table commands), `Model/Parse.lean` (command language, text rendering),
`Model/C05Spec.lean` (invariants, abstraction `abs : Table → (host → path → targets)`, spec machine).
Helper lemmas: `Lemmas/C05Add|Del|Weight|Main|Text|Rebuild.lean`. Nothing here is weakened to make a proof pass;
where the code cannot satisfy a sentence of the property the forced hypothesis is spelled out and the negation is
witnessed (`round_trip_needs_*`).

`Good env t` = the invariants every table built by commands satisfies (`reachable_good`): host keys unique, paths
unique per host, `Route.Host` = key, no empty route or host, effective weights = `weighTargets` of the current
targets, every host accepted by `glob.Compile`.
-/
namespace Fabio.Props.C05
open Fabio Fabio.Model.Route Fabio.Model.Parse Fabio.Model.C05Spec
open Fabio.Lemmas Fabio.Lemmas.C05Main
open Fabio.Model.C05Glue

variable {env : Env} {t t1 t' : Table} {d : RouteDef}

/-! ### invariants of every reachable table -/

/-- every table some command list produces satisfies the invariants (in particular: paths unique per host,
no empty route, no empty host) -/
theorem reachable_good (h : Reachable env t) : Good env t := C05Main.reachable_good h

/-- … and so does what `NewTable` returns after the final sort -/
theorem newTable_good {defs : List RouteDef} (h : newTable env defs = .ok t) : Good env t := good_newTable h

/-- **paths_unique_per_host**: in every reachable table each host holds each path at most once (and each host
once, and a route is stored under its own host) -/
theorem paths_unique_per_host (h : Reachable env t) : WF t := (C05Main.reachable_good h).inv.wf

/-- … which makes the final (unstable) `sort.Sort` deterministic: any list that is a permutation of the host's
routes and is ordered by `Routes.Less` *is* the model's `sortRoutes` -/
theorem final_sort_deterministic (rs l : List Route) (hu : (rs.map (·.path)).Nodup) (hp : l.Perm rs)
    (hs : C05Weight.SortedDesc l) : l = sortRoutes rs := C05Weight.sort_unique rs l hu hp hs

theorem final_sort_sorted (rs : List Route) (hu : (rs.map (·.path)).Nodup) :
    C05Weight.SortedDesc (sortRoutes rs) ∧ (sortRoutes rs).Perm rs :=
  ⟨C05Weight.sortRoutes_sorted rs hu, C05Weight.sortRoutes_perm rs⟩

/-! ### refinement of the spec machine -/

/-- **refines_spec**: for every command list, the concrete table abstracts to exactly what the spec machine
`(host,path) ↦ targets` computes — same error, or same map. -/
theorem refines_spec (defs : List RouteDef) : (newTable env defs).map abs = specRun env defs :=
  C05Main.refines_spec defs

/-- one command, from any good table -/
theorem step_refines_spec (hg : Good env t) : (applyDef env t d).map abs = specApply env (abs t) d :=
  apply_refines hg

/-! ### `route add` -/

/-- **add_idempotent**: applying the same add twice equals applying it once -/
theorem add_idempotent (hg : Good env t) (h : addRoute env t d = .ok t1) : addRoute env t1 d = .ok t1 :=
  C05Add.add_idempotent hg.inv h

/-- … inside any script: repeating an `add` right after itself never changes what `NewTable` returns -/
theorem add_twice_in_script (pre post : List RouteDef) (hc : d.cmd = .add) :
    newTable env (pre ++ d :: d :: post) = newTable env (pre ++ d :: post) := by
  unfold newTable buildFrom
  have hk : (pre ++ d :: d :: post).foldlM (applyDef env) ([] : Table) =
      (pre ++ d :: post).foldlM (applyDef env) [] := by
    rw [List.foldlM_append, List.foldlM_append]
    cases hp : pre.foldlM (applyDef env) ([] : Table) with
    | error e => rfl
    | ok t0 =>
      show (d :: d :: post).foldlM (applyDef env) t0 = (d :: post).foldlM (applyDef env) t0
      have hg : Good env t0 := good_fold pre good_nil hp
      rw [List.foldlM_cons, List.foldlM_cons]
      cases ha : applyDef env t0 d with
      | error e => rfl
      | ok t1 =>
        show (d :: post).foldlM (applyDef env) t1 = post.foldlM (applyDef env) t1
        have h1 : addRoute env t0 d = .ok t1 := by simpa [applyDef, hc] using ha
        have h2 : applyDef env t1 d = .ok t1 := by
          simpa [applyDef, hc] using C05Add.add_idempotent hg.inv h1
        rw [List.foldlM_cons, h2]; rfl
  rw [hk]

/-- **add_accumulates**: a successful add leaves every other (host,path) alone; at its own (lower-cased host,
path) the target list is unchanged when an equal target (service, URL, weight, tags) is there already, else the
new target is appended at the end (and the shares are recomputed) -/
theorem add_accumulates (hg : Good env t) (h : addRoute env t d = .ok t1) :
    ∃ url, env.normURL d.dst = some url ∧
      (∀ h' p', ¬ (h' = (key d.src).1 ∧ p' = (key d.src).2) → abs t1 h' p' = abs t h' p') ∧
      abs t1 (key d.src).1 (key d.src).2 =
        (if isDup (abs t (key d.src).1 (key d.src).2) (newTarget d url) then abs t (key d.src).1 (key d.src).2
         else weigh (abs t (key d.src).1 (key d.src).2 ++ [newTarget d url])) := by
  have hr := C05Add.add_refines (d := d) hg.inv hg.hosts
  rw [h] at hr
  simp only [Except.map] at hr
  unfold specAdd at hr
  split at hr
  · cases hr
  · split at hr
    · cases hr
    · split at hr
      · cases hr
      · rename_i url hu
        refine ⟨url, hu, ?_⟩
        dsimp only at hr
        split at hr
        · cases hr
        · split at hr
          · cases hr
          · split at hr
            · rename_i hd
              injection hr with hr
              rw [hr]
              exact ⟨fun _ _ _ => rfl, by rw [if_pos hd]⟩
            · rename_i hd
              injection hr with hr
              rw [hr]
              refine ⟨fun h' p' hne => by simp [upd, hne], ?_⟩
              rw [if_neg hd]; simp [upd]

/-! ### `route del` -/

/-- what "the targets removed are exactly those selected; all others stay, in order" means for one list:
`weigh` only recomputes the `weight` field (`dropSel_core`) -/
def core (x : Target) : Target := { x with weight := 0 }

theorem weigh_core (ts : List Target) : (weigh ts).map core = ts.map core := by
  rw [C05Del.weigh_eq, List.map_map]
  apply List.map_congr_left
  intro x _
  simp only [Function.comp, core, C05Del.wfun]
  split
  · rfl
  · split <;> rfl

/-- the survivors of a delete are the unselected targets, in their old order, untouched except for the share -/
theorem dropSel_core (sel : Target → Bool) (ts : List Target) :
    (dropSel sel ts).map core = (ts.filter (fun x => !sel x)).map core := weigh_core _

private theorem del_ok (hg : Good env t) (h : delRoute env t d = .ok t1) : specDel env (abs t) d = .ok (abs t1) := by
  have hr := C05Del.del_refines (env := env) (d := d) hg.inv
  rw [h] at hr; exact hr.symm

/-- **del_removes_exactly**, form `route del <svc>`: in every route the targets of that service disappear -/
theorem del_removes_exactly_svc (hg : Good env t) (ht : d.tags = []) (hs : d.src = []) (hd : d.dst = [])
    (h : delRoute env t d = .ok t1) :
    ∀ h' p', abs t1 h' p' = dropSel (fun x => x.service == d.service) (abs t h' p') := by
  have := del_ok hg h
  simp [specDel, ht, hs, hd] at this
  intro h' p'; rw [← this]; rfl

/-- form `route del <svc> <src>`: only the route at (lower-cased host, path) of `src` is touched -/
theorem del_removes_exactly_svc_src (hg : Good env t) (ht : d.tags = []) (hs : d.src ≠ []) (hd : d.dst = [])
    (h : delRoute env t d = .ok t1) :
    abs t1 = upd (abs t) (key d.src).1 (key d.src).2
      (dropSel (fun x => x.service == d.service) (abs t (key d.src).1 (key d.src).2)) := by
  have := del_ok hg h
  have hs' : d.src.isEmpty = false := by cases hsrc : d.src with
    | nil => exact absurd hsrc hs
    | cons _ _ => rfl
  simp [specDel, ht, hs', hd] at this
  rw [← this]; rfl

/-- form `route del <svc> <src> <dst>`: in that one route, the targets of that service with that URL -/
theorem del_removes_exactly_svc_src_dst (hg : Good env t) (ht : d.tags = []) (hd : d.dst ≠ [])
    (h : delRoute env t d = .ok t1) :
    ∃ url, env.normURL d.dst = some url ∧
      abs t1 = upd (abs t) (key d.src).1 (key d.src).2
        (dropSel (fun x => x.service == d.service && x.url == url) (abs t (key d.src).1 (key d.src).2)) := by
  have := del_ok hg h
  have hd' : d.dst.isEmpty = false := by cases hdst : d.dst with
    | nil => exact absurd hdst hd
    | cons _ _ => rfl
  simp only [specDel, ht, hd', List.isEmpty_nil, Bool.not_true, Bool.false_eq_true, if_false,
    Bool.and_false] at this
  split at this
  · cases this
  · rename_i url hu
    injection this with this
    exact ⟨url, hu, by rw [← this]; rfl⟩

/-- form `route del tags "…"`: in every route, the targets carrying all the listed tags -/
theorem del_removes_exactly_tags (hg : Good env t) (ht : d.tags ≠ []) (hs : d.service = [])
    (h : delRoute env t d = .ok t1) :
    ∀ h' p', abs t1 h' p' = dropSel (fun x => containsAll x.tags d.tags) (abs t h' p') := by
  have := del_ok hg h
  have ht' : d.tags.isEmpty = false := by cases htags : d.tags with
    | nil => exact absurd htags ht
    | cons _ _ => rfl
  simp only [specDel, ht', Bool.not_false, if_true] at this
  injection this with this
  intro h' p'; rw [← this]
  show dropSel (delSelTags d) _ = _
  congr 1; funext x; simp [delSelTags, hs]

/-- form `route del <svc> tags "…"`: in every route, the targets of that service carrying all the listed tags -/
theorem del_removes_exactly_svc_tags (hg : Good env t) (ht : d.tags ≠ []) (hs : d.service ≠ [])
    (h : delRoute env t d = .ok t1) :
    ∀ h' p', abs t1 h' p' = dropSel (fun x => x.service == d.service && containsAll x.tags d.tags) (abs t h' p') := by
  have := del_ok hg h
  have ht' : d.tags.isEmpty = false := by cases htags : d.tags with
    | nil => exact absurd htags ht
    | cons _ _ => rfl
  have hs' : d.service.isEmpty = false := by cases hsv : d.service with
    | nil => exact absurd hsv hs
    | cons _ _ => rfl
  simp only [specDel, ht', Bool.not_false, if_true] at this
  injection this with this
  intro h' p'; rw [← this]
  show dropSel (delSelTags d) _ = _
  congr 1; funext x; simp [delSelTags, hs']

/-- **del_leaves_no_empty**: after any del no route has an empty target list and no host an empty route list -/
theorem del_leaves_no_empty (hn : NoEmpty t) (h : delRoute env t d = .ok t1) : NoEmpty t1 :=
  C05Del.del_leaves_no_empty hn h

/-- … and no reachable table ever has one -/
theorem reachable_no_empty (h : Reachable env t) : NoEmpty t := (C05Main.reachable_good h).inv.noEmpty

/-- in a table without empty routes, "no route" and "no targets" coincide -/
theorem route_none_iff_no_targets (hn : NoEmpty t) (h' p' : Str) : t.route h' p' = none ↔ abs t h' p' = [] := by
  unfold abs targetsAt
  cases hr : t.route h' p' with
  | none => simp
  | some r =>
    obtain ⟨rs0, hl, _, hm, _⟩ := C05Del.route_some hr
    have := (hn (h', rs0) (C05Del.mem_of_lookup hl)).2 r hm
    simp [this]

/-! ### `route weight` -/

/-- **weight_changes_only_matching**: a successful `route weight` touches one (host,path) only; there, the
matching targets (service if given, all tags if given) get the share `w / n` each, every other target keeps its
fixed weight, and nothing is added, removed or reordered -/
theorem weight_changes_only_matching (hg : Good env t) (h : weighRoute t d = .ok t1) :
    let ts := abs t (key d.src).1 (key d.src).2
    let n := (ts.filter (matchesWeight d.service d.tags)).length
    n ≠ 0 ∧
    abs t1 = upd (abs t) (key d.src).1 (key d.src).2
      (weigh (ts.map (fun x => if matchesWeight d.service d.tags x then { x with fixedWeight := d.weight / (n : Rat) } else x))) := by
  have hr := C05Weight.weigh_refines (d := d) hg.inv
  rw [h] at hr
  simp only [Except.map] at hr
  unfold specWeigh at hr
  dsimp only at hr
  split at hr
  · cases hr
  · split at hr
    · cases hr
    · rename_i hn
      injection hr with hr
      exact ⟨hn, hr⟩

/-! ### host names are case-insensitive -/

private theorem isEmpty_case (h h' rest : Str) (hl : lowerL h = lowerL h') :
    (h ++ rest).isEmpty = (h' ++ rest).isEmpty := by
  have : h.length = h'.length := by
    have := congrArg List.length hl
    simpa [lowerL] using this
  cases h <;> cases h' <;> simp_all

/-- **host_case_insensitive_add/del/weight**: two commands whose sources `host ++ rest` differ only in the letter
case of the host (`rest` = empty or the path starting with '/') have the same effect on every table -/
theorem host_case_insensitive_add (h h' rest : Str) (hl : lowerL h = lowerL h') (hs : '/' ∉ h) (hs' : '/' ∉ h')
    (hr : rest = [] ∨ ∃ r, rest = '/' :: r) :
    addRoute env t { d with src := h ++ rest } = addRoute env t { d with src := h' ++ rest } :=
  C05Add.host_case_add (d := { d with src := h ++ rest }) (h' ++ rest)
    (C05Add.key_case h h' rest hl hs hs' hr) (isEmpty_case h h' rest hl)

theorem host_case_insensitive_del (h h' rest : Str) (hl : lowerL h = lowerL h') (hs : '/' ∉ h) (hs' : '/' ∉ h')
    (hr : rest = [] ∨ ∃ r, rest = '/' :: r) :
    delRoute env t { d with src := h ++ rest } = delRoute env t { d with src := h' ++ rest } :=
  C05Del.host_case_del (d := { d with src := h ++ rest }) (h' ++ rest)
    (C05Add.key_case h h' rest hl hs hs' hr) (isEmpty_case h h' rest hl)

theorem host_case_insensitive_weight (h h' rest : Str) (hl : lowerL h = lowerL h') (hs : '/' ∉ h) (hs' : '/' ∉ h')
    (hr : rest = [] ∨ ∃ r, rest = '/' :: r) :
    weighRoute t { d with src := h ++ rest } = weighRoute t { d with src := h' ++ rest } :=
  C05Weight.host_case_weight (d := { d with src := h ++ rest }) (h' ++ rest)
    (C05Add.key_case h h' rest hl hs hs' hr) (isEmpty_case h h' rest hl)

/-! ### the order in which Go iterates the table (a map) is irrelevant -/

theorem good_perm (hg : Good env t) (hp : t.Perm t') : Good env t' :=
  ⟨C05Weight.inv_perm hg.inv hp, fun kv hkv => hg.hosts kv (hp.symm.subset hkv)⟩

/-- **map_order_irrelevant**: the association list's order stands for Go's map iteration order; any other order
of the same table gives the same routing map after every command (same error or same `abs`), the same
invariants, and the same text rendering -/
theorem map_order_irrelevant (hg : Good env t) (hp : t.Perm t') :
    (applyDef env t' d).map abs = (applyDef env t d).map abs ∧ render t' = render t := by
  refine ⟨?_, C05Weight.render_perm hg.inv.wf hp⟩
  rw [apply_refines (good_perm hg hp), apply_refines hg, C05Weight.abs_perm hg.inv.wf hp]

/-! ### text rendering → parser → same table -/

/-- **render_parse_roundtrip**. For a good table `t` (every reachable table is one) whose rendering is readable
(`TextOK`: what the command grammar can carry at all — no white space inside service/source/URL, no quote or
comma inside a tag, no lone empty tag, option keys without '=', lines shorter than 64 KiB) and rebuildable
(`RebuildOK`, the hypotheses the proof forces — "every target has a positive traffic share" is no longer
among them since `String()` writes every target:
  * `keys` — no route holds two targets with the same service, URL, tags and 4-decimal weight
             (the property's "two targets that differ only in weight" — and, beyond it, targets that differ only
             in options, which `addTarget`'s de-duplication ignores),
  * `url`, `glob`, `src` — `url.Parse∘String` is idempotent on the stored URLs, stored hosts/paths compile as
             globs, stored host/path re-split to themselves (all three hold for tables built by commands; the
             first is an assumption about net/url),
and for an exact `strconv.ParseFloat` on the printed weights (`hpf`), `NewTable(t.String())` succeeds and
rebuilds, for every (host,path), the same targets in the same order with the same service, URL, tags and
options, the weight rounded to the four decimals the text carries, and shares recomputed from those. -/
theorem render_parse_roundtrip (pf : ParseFloat)
    (hpf : ∀ w : Rat, 0 < w → pf (fmt4 w) = some (.fin (round4Rat w)))
    (hg : Good env t)
    (htext : ∀ hst, ∀ r ∈ t.get hst, ∀ tg ∈ r.targets, C05Text.TextOK r tg)
    (ho : C05Rebuild.RebuildOK env t) :
    ∃ t2, loadTable env pf (render t) = .ok t2 ∧ Good env t2 ∧
      abs t2 = fun h p => weigh ((abs t h p).map norm4) := by
  have hparse := C05Text.parse_render pf hpf t htext
  have hspec := C05Rebuild.rebuild_spec hg.inv ho
  have href := C05Main.refines_spec (env := env) (defsOfTable t)
  rw [hspec] at href
  cases hn : newTable env (defsOfTable t) with
  | error e => rw [hn] at href; cases href
  | ok t2 =>
    rw [hn] at href
    simp only [Except.map] at href
    injection href with href
    refine ⟨t2, ?_, good_newTable hn, href⟩
    unfold loadTable
    rw [hparse]; simp only; rw [hn]

/-- `weigh` does not look at the old shares -/
theorem weigh_forget_weight (ts : List Target) : weigh (ts.map core) = weigh ts := by
  rw [C05Del.weigh_eq, C05Del.weigh_eq (ts := ts), List.length_map,
    C05Del.nFixed_map core (fun _ => rfl), C05Del.sumFixed_map core (fun _ => rfl), List.map_map]
  apply List.map_congr_left
  intro x _
  simp only [Function.comp, core, C05Del.wfun]
  split
  · rfl
  · split <;> simp_all

/-- **render_parse_roundtrip, exact form**: if moreover every fixed weight is ≥ 0 and already has at most four
decimals and the options are stored sorted by key (as `parseOpts` builds them), the rebuilt table routes
*exactly* as the original: `abs t2 = abs t`, shares included. -/
theorem render_parse_roundtrip_exact (pf : ParseFloat)
    (hpf : ∀ w : Rat, 0 < w → pf (fmt4 w) = some (.fin (round4Rat w)))
    (hg : Good env t)
    (htext : ∀ hst, ∀ r ∈ t.get hst, ∀ tg ∈ r.targets, C05Text.TextOK r tg)
    (ho : C05Rebuild.RebuildOK env t)
    (hx : ∀ hst, ∀ r ∈ t.get hst, ∀ tg ∈ r.targets,
      0 ≤ tg.fixedWeight ∧ (0 < tg.fixedWeight → round4Rat tg.fixedWeight = tg.fixedWeight) ∧ sortOpts tg.opts = tg.opts) :
    ∃ t2, loadTable env pf (render t) = .ok t2 ∧ Good env t2 ∧ abs t2 = abs t := by
  obtain ⟨t2, hl, hg2, ha⟩ := render_parse_roundtrip pf hpf hg htext ho
  refine ⟨t2, hl, hg2, ?_⟩
  rw [ha]
  funext h p
  show weigh ((targetsAt t h p).map norm4) = targetsAt t h p
  unfold targetsAt
  cases hr : t.route h p with
  | none => exact C05Del.weigh_nil
  | some r =>
    dsimp only
    obtain ⟨rs0, hlk, hget, hm, _⟩ := C05Del.route_some hr
    have hmem : r ∈ t.get h := by rw [hget]; exact hm
    have hn : r.targets.map norm4 = r.targets.map core := by
      apply List.map_congr_left
      intro x hxm
      obtain ⟨h0, h4, hs⟩ := hx h r hmem x hxm
      unfold norm4 core
      rw [hs]
      by_cases hp : 0 < x.fixedWeight
      · rw [if_pos hp, h4 hp]
      · rw [if_neg hp]
        have : x.fixedWeight = 0 := by
          have := Rat.not_lt.mp hp
          exact Rat.le_antisymm this h0
        rw [this]
    rw [hn, weigh_forget_weight]
    exact hg.inv.weighed (h, rs0) (C05Del.mem_of_lookup hlk) r hm

/-! ### round 3: the glue around the command core (`Model/C05Glue.lean`)

`ParseAliases` — the second reader of the command language, which `main.go` runs on every configuration text before
`NewTable` — `validWeight`, the option-derived target fields, and the admin endpoint that prints the table. -/

section glue
variable {pf : ParseFloat} {text : Str}

/-- **aliases_agree_with_parse**: every text `Parse` accepts is accepted by `ParseAliases`, which returns exactly the
`register` options of the parsed definitions, in order -/
theorem aliases_agree_with_parse {defs : List RouteDef} (h : parse pf text = .ok defs) :
    parseAliases pf text = .ok (registerNames defs) := by
  unfold parseAliases
  rw [C05Glue.aliasDefs_rawLines, (C05Glue.alias_transfer pf 1 (rawLines text)).1 defs (by rw [← C05Glue.parse_eq_scan]; exact h)]

/-- **aliases_same_syntax_error**: a syntax error is reported by both readers, for the same line -/
theorem aliases_same_syntax_error {j : Nat} {e : SynErr} (h : parse pf text = .error (.syn j e)) :
    parseAliases pf text = .error (.syn j e) := by
  unfold parseAliases
  rw [C05Glue.aliasDefs_rawLines, (C05Glue.alias_transfer pf 1 (rawLines text)).2 j e (by rw [← C05Glue.parse_eq_scan]; exact h)]

/-- **aliases_differ_only_outside**: when `ParseAliases` succeeds, `Parse` yields the same definitions (hence the
same names) unless it stops at a line of 64 KiB or more (`ParseAliases` has no line limit) or at a non-finite
weight (`ParseAliases` does not look at weights; `NewTable` refuses such a text, `nonfinite_weight_never_loads`) -/
theorem aliases_differ_only_outside {names : List Str} (h : parseAliases pf text = .ok names) :
    (∃ defs, parse pf text = .ok defs ∧ registerNames defs = names) ∨
    (∃ j, parse pf text = .error (.tooLong j)) ∨ (∃ j v, parse pf text = .error (.nonFinite j v)) := by
  unfold parseAliases at h
  rw [C05Glue.aliasDefs_rawLines] at h
  cases hs : scan false (parseLine (finPf pf)) 1 (rawLines text) with
  | error e => rw [hs] at h; cases h
  | ok defs =>
    rw [hs] at h
    injection h with h
    rw [C05Glue.parse_eq_scan]
    rcases C05Glue.scan_alias_back pf 1 (rawLines text) defs hs with h1 | h1 | h1
    · exact .inl ⟨defs, h1, h⟩
    · exact .inr (.inl h1)
    · exact .inr (.inr h1)

/-- only `route add` lines contribute names: `route del` and `route weight` carry no options -/
theorem aliases_only_from_adds {l : Str} {d : RouteDef} (h : parseLine pf l = .ok (some d)) (hc : d.cmd ≠ .add) :
    d.opts = [] := by
  rw [C05Glue.parseLine_shape] at h
  generalize hs : C05Glue.shape (trimSpace l) = sh at h
  unfold C05Glue.shape at hs
  split at hs
  · subst hs; cases h
  · split at hs
    · cases hm : matchAdd (trimSpace l) with
      | none => rw [hm] at hs; subst hs; cases h
      | some m =>
        rw [hm] at hs; subst hs
        simp only [C05Glue.runShape] at h
        cases hw : parseWeight pf m.weight with
        | error e => rw [hw] at h; cases h
        | ok q => rw [hw] at h; injection h with h; injection h with h; subst h; exact absurd rfl hc
    · split at hs
      · cases h1 : matchDelSvcTags (trimSpace l) with
        | some st => rw [h1] at hs; subst hs; injection h with h; injection h with h; subst h; rfl
        | none =>
          rw [h1] at hs
          cases h2 : matchDelTags (trimSpace l) with
          | some tg => rw [h2] at hs; subst hs; injection h with h; injection h with h; subst h; rfl
          | none =>
            rw [h2] at hs
            cases h3 : matchDel (trimSpace l) with
            | some x => rw [h3] at hs; subst hs; injection h with h; injection h with h; subst h; rfl
            | none => rw [h3] at hs; subst hs; cases h
      · split at hs
        · cases h1 : matchWeightSvc (trimSpace l) with
          | some x =>
            rw [h1] at hs; subst hs
            simp only [C05Glue.runShape] at h
            cases hw : parseWeight pf x.2.2.1 with
            | error e => rw [hw] at h; cases h
            | ok q => rw [hw] at h; injection h with h; injection h with h; subst h; rfl
          | none =>
            rw [h1] at hs
            cases h2 : matchWeightSrc (trimSpace l) with
            | some x =>
              rw [h2] at hs; subst hs
              simp only [C05Glue.runShape] at h
              cases hw : parseWeight pf x.2.1 with
              | error e => rw [hw] at h; cases h
              | ok q => rw [hw] at h; injection h with h; injection h with h; subst h; rfl
            | none => rw [h2] at hs; subst hs; cases h
        · subst hs; cases h

/-- **aliases_of_rendered_table**: the text `String()` writes for a table (under the hypotheses of the round trip
that concern the text) is accepted by `ParseAliases` too, which finds the `register` options of the targets in
rendering order -/
theorem aliases_of_rendered_table
    (hpf : ∀ w : Rat, 0 < w → pf (fmt4 w) = some (.fin (round4Rat w)))
    (htext : ∀ hst, ∀ r ∈ t.get hst, ∀ tg ∈ r.targets, C05Text.TextOK r tg) :
    parseAliases pf (render t) = .ok (registerNames (defsOfTable t)) :=
  aliases_agree_with_parse (C05Text.parse_render pf hpf t htext)

/-- **finite_weights_conservative**: on a text without non-finite weights the model that is total over float64
weights is `loadTable` — every theorem above about `NewTable` is about `loadTableW` -/
theorem finite_weights_conservative {defs : List RouteDef} (h : parse pf text = .ok defs) :
    loadTableW env pf text =
      (match newTable env defs with
       | .ok t => .ok t
       | .error e => .error (.cmd (.table e))) := by
  unfold loadTableW parseW
  rw [(C05Glue.parseW_transfer pf 1 (rawLines text)).1 defs (by rw [← C05Glue.parse_eq_scan]; exact h)]
  dsimp only
  rw [C05Glue.newTableW_fin env _ (by
    intro x hx
    obtain ⟨d, _, rfl⟩ := List.mem_map.1 hx
    rfl)]
  rw [List.map_map]
  have : (defs.map ((fun x : WDef => x.d) ∘ fun d => ({ d, bad := false } : WDef))) = defs := by
    have : ∀ l : List RouteDef, l.map ((fun x : WDef => x.d) ∘ fun d => ({ d, bad := false } : WDef)) = l := by
      intro l; induction l with
      | nil => rfl
      | cons a l ih => rw [List.map_cons, ih]; rfl
    exact this defs
  rw [this]
  cases newTable env defs <;> rfl

/-- **refines_spec_total**: `refines_spec` for commands whose weight is any float64 — the table abstracts to what
the spec machine with "a non-finite weight is refused" computes: same error (which command fails first, with which
error) or same map -/
theorem refines_spec_total (xs : List WDef) : (newTableW env xs).map abs = specRunW env xs :=
  C05Glue.refinesW_spec env xs

/-- syntax errors and over-long lines are reported as before -/
theorem syntax_errors_unchanged {j : Nat} {e : SynErr} (h : parse pf text = .error (.syn j e)) :
    loadTableW env pf text = .error (.parse (.syn j e)) := by
  unfold loadTableW parseW
  rw [(C05Glue.parseW_transfer pf 1 (rawLines text)).2.1 j e (by rw [← C05Glue.parse_eq_scan]; exact h)]

theorem too_long_unchanged {j : Nat} (h : parse pf text = .error (.tooLong j)) :
    loadTableW env pf text = .error (.parse (.tooLong j)) := by
  unfold loadTableW parseW
  rw [(C05Glue.parseW_transfer pf 1 (rawLines text)).2.2 j (by rw [← C05Glue.parse_eq_scan]; exact h)]

/-- **nonfinite_weight_never_loads**: a text in which some `route add` / `route weight` carries a weight that
`strconv.ParseFloat` accepts as NaN or ±Inf never yields a table (it ends in a syntax error of a later line, or in
the first command that fails — `invalid weight` at the latest) -/
theorem nonfinite_weight_never_loads {j : Nat} {v : F64} (h : parse pf text = .error (.nonFinite j v)) :
    ∀ t, loadTableW env pf text ≠ .ok t := by
  intro t ht
  unfold loadTableW parseW at ht
  rw [C05Glue.parse_eq_scan] at h
  rcases C05Glue.scan_nonFinite pf 1 (rawLines text) j v h with ⟨e, he⟩ | ⟨xs, hxs, x, hx, hb, hc⟩
  · rw [he] at ht; cases ht
  · rw [hxs] at ht
    dsimp only at ht
    obtain ⟨e, he⟩ := C05Glue.foldW_bad env xs x hx hb hc []
    unfold newTableW at ht
    rw [he] at ht
    cases ht

/-- **invalid_weight_only_for_nonfinite**: `route: invalid weight` is the answer to a non-finite weight only -/
theorem invalid_weight_only_for_nonfinite {x : WDef} (h : applyW env t x = .error .invalidWeight) : x.bad = true :=
  C05Glue.applyW_invalidWeight env t x h

/-- **redirect_code_range**: whatever the `redirect` option says, the target's redirect code is 0 (none) or a
3xx code -/
theorem redirect_code_range (o : List (Str × Str)) :
    (derive o).redirect = 0 ∨ (300 ≤ (derive o).redirect ∧ (derive o).redirect ≤ 399) :=
  C05Glue.redirect_range _

/-- **derived_fields_survive_round_trip**: in the table rebuilt from the text (`render_parse_roundtrip`), every
target has the same option-derived fields (strip, prepend, host, auth scheme, TLS verification, PROXY protocol,
redirect code) as the target it came from — options are a Go map: keys unique -/
theorem derived_fields_survive_round_trip {t2 : Table}
    (ha : abs t2 = fun h p => weigh ((abs t h p).map norm4))
    (hk : ∀ h p, ∀ x ∈ abs t h p, (x.opts.map (·.1)).Nodup) (h p : Str) :
    (abs t2 h p).map (fun x => derive x.opts) = (abs t h p).map (fun x => derive x.opts) := by
  rw [ha]
  have h1 : ∀ ts : List Target, (weigh ts).map (fun x => derive x.opts) = ts.map (fun x => derive x.opts) := by
    intro ts
    have := congrArg (List.map (fun x : Target => derive x.opts)) (weigh_core ts)
    rw [List.map_map, List.map_map] at this
    exact this
  rw [h1, List.map_map]
  apply List.map_congr_left
  intro x hx
  simp only [Function.comp, norm4]
  exact C05Glue.derive_sortOpts x.opts (hk h p x hx)

/-- **raw_api_reloads**: what `GET /api/routes?raw` prints (`t.String()` and a newline) is read by `NewTable`
exactly like `t.String()` — the round-trip theorems apply to it -/
theorem raw_api_reloads (t : Table) : loadTable env pf (apiRaw t) = loadTable env pf (render t) := by
  unfold loadTable apiRaw
  rw [C05Glue.parse_append_nl]

/-- **api_lists_the_routing_map**: the JSON listing of `/api/routes` has an entry for a target exactly when the
routing map `abs` holds that target, and the entry names the host and path it is routed at -/
theorem api_lists_the_routing_map (hw : WF t) (a : ApiRoute) :
    a ∈ apiRoutes t ↔ ∃ h p, ∃ tg ∈ abs t h p, a = apiEntry ⟨h, p, abs t h p⟩ tg :=
  C05Glue.api_lists_abs hw a

/-- **api_lists_each_route_in_order**: restricted to one host and path, the listing *is* the target list of the
routing map there, in order (and nothing else carries that host and path) -/
theorem api_lists_each_route_in_order (hw : WF t) (h p : Str) :
    (apiRoutes t).filter (fun a => a.host == h && a.path == p) = (abs t h p).map (apiEntry ⟨h, p, abs t h p⟩) :=
  C05Glue.api_at_key hw h p

end glue

/-! ### round 4: the command language as a writer (`Model/C05Lang.lean`) — text and structured commands agree

`printDef w d` is the text of a command in the documented syntax (`w` = the decimal text of its weight);
`DefOK pf w d` says that the language can carry `d` at all (tokens without white space or quotes, tags without
comma/quote, option keys without `=`, a `del` by tags or by service, a `weight` that names a service or tags, `w`
read by `strconv.ParseFloat` as `d.weight`). The property quantifies over "every finite sequence of well-formed
route commands": these theorems say that such a sequence may be given as text (`NewTable`) or as definitions
(`NewTableCustom`, the custom backend) with the same result, so every theorem above is a theorem about texts. -/

section lang
open Fabio.Model.C05Lang Fabio.Lemmas.C05Lang
variable {pf : ParseFloat}

/-- **print_then_parse**: every well-formed command, written in the command language, is read back by `Parse`'s
line reader as that very command — all three commands, all eight forms (`route del tags …` is not mistaken for a
service called `tags`, `route weight <src> weight …` not for the service form, a source called `weight` or a
service called `tags` are read correctly) -/
theorem print_then_parse {w : Str} (h : DefOK pf w d) : parseLine pf (printDef w d) = .ok (some d) :=
  parseLine_printDef h

/-- … a whole command list, one command per line -/
theorem parse_of_printed_commands (cs : List (Str × RouteDef))
    (h : ∀ x ∈ cs, DefOK pf x.1 x.2 ∧ byteLen (printDef x.1 x.2) < maxToken) :
    parse pf (scriptText cs) = .ok (cs.map (·.2)) := parse_scriptText pf cs h

/-- **commands_as_text**: `NewTable` on the text of a well-formed command list returns what `NewTableCustom` returns
on the list itself — the same table or the same error of the same command -/
theorem commands_as_text (cs : List (Str × RouteDef))
    (h : ∀ x ∈ cs, DefOK pf x.1 x.2 ∧ byteLen (printDef x.1 x.2) < maxToken) :
    loadTable env pf (scriptText cs) =
      (match newTable env (cs.map (·.2)) with
       | .ok t => .ok t
       | .error e => .error (.table e)) := by
  unfold loadTable
  rw [parse_scriptText pf cs h]
  dsimp only
  cases hn : newTable env (cs.map (·.2)) <;> rfl

/-- **commands_as_text_total**: `commands_as_text` for every float64 weight — a weight text such as `nan` or `-Inf`
is a weight text like any other (`DefOK` is asked of the reader with NaN/±Inf mapped to 0, the flag `bad` records that
the text denotes a non-finite value): `NewTable` on the text returns what `NewTableCustom` returns on the commands,
`route: invalid weight` included -/
theorem commands_as_text_total (cs : List (Str × RouteDef))
    (h : ∀ x ∈ cs, DefOK (finPf pf) x.1 x.2 ∧ byteLen (printDef x.1 x.2) < maxToken) :
    loadTableW env pf (scriptText cs) =
      (match newTableW env (cs.map (fun x => ({ d := x.2, bad := nonFiniteTok pf x.1 } : WDef))) with
       | .ok t => .ok t
       | .error e => .error (.cmd e)) := by
  unfold loadTableW
  rw [parseW_scriptText pf cs h]
  dsimp only
  cases hn : newTableW env (cs.map (fun x => ({ d := x.2, bad := nonFiniteTok pf x.1 } : WDef))) <;> rfl

/-- **text_refines_spec**: for every text `Parse` accepts, what `NewTable` makes of it is what the spec machine
computes from the parsed commands — the table abstracts to the spec's map, or both stop with the same error -/
theorem text_refines_spec {text : Str} {defs : List RouteDef} (h : parse pf text = .ok defs) :
    (∀ t, loadTable env pf text = .ok t → specRun env defs = .ok (abs t)) ∧
    (∀ e, loadTable env pf text = .error (.table e) → specRun env defs = .error e) ∧
    (∀ e, loadTable env pf text ≠ .error (.parse e)) := by
  have hr := refines_spec (env := env) defs
  unfold loadTable
  rw [h]
  dsimp only
  cases hn : newTable env defs with
  | error e0 =>
    rw [hn] at hr
    refine ⟨?_, ?_, ?_⟩
    · intro t ht; cases ht
    · intro e he
      injection he with he; injection he with he; subst he
      exact hr.symm
    · intro e he; cases he
  | ok t0 =>
    rw [hn] at hr
    refine ⟨?_, ?_, ?_⟩
    · intro t ht
      injection ht with ht; subst ht
      exact hr.symm
    · intro e he; cases he
    · intro e he; cases he

/-- **text_refines_spec_total**: the same for every text and every float64 weight — what `NewTable` makes of a text
(`loadTableW`) is what the spec machine with "a non-finite weight is refused" computes from the commands `Parse`
reads (`parseW`); a parse error of `NewTable` is `Parse`'s own. This is the predicate stream `c05.text` evaluates
on the implementation's output. -/
theorem text_refines_spec_total {text : Str} {xs : List WDef} (h : parseW pf text = .ok xs) :
    (∀ t, loadTableW env pf text = .ok t → specRunW env xs = .ok (abs t)) ∧
    (∀ e, loadTableW env pf text = .error (.cmd e) → specRunW env xs = .error e) ∧
    (∀ e, loadTableW env pf text ≠ .error (.parse e)) := by
  have hr := refines_spec_total (env := env) xs
  unfold loadTableW
  rw [h]
  dsimp only
  cases hn : newTableW env xs with
  | error e0 =>
    rw [hn] at hr
    refine ⟨?_, ?_, ?_⟩
    · intro t ht; cases ht
    · intro e he
      injection he with he; injection he with he; subst he
      exact hr.symm
    · intro e he; cases he
  | ok t0 =>
    rw [hn] at hr
    refine ⟨?_, ?_, ?_⟩
    · intro t ht
      injection ht with ht; subst ht
      exact hr.symm
    · intro e he; cases he
    · intro e he; cases he

/-- **text_of_commands_refines_spec**: the property's first sentence for commands given as text — applying a
sequence of well-formed `route add`, `del` and `weight` commands, written in the command language, yields exactly
the table the spec machine prescribes for those commands -/
theorem text_of_commands_refines_spec (cs : List (Str × RouteDef))
    (h : ∀ x ∈ cs, DefOK pf x.1 x.2 ∧ byteLen (printDef x.1 x.2) < maxToken) :
    (∀ t, loadTable env pf (scriptText cs) = .ok t → specRun env (cs.map (·.2)) = .ok (abs t)) ∧
    (∀ e, loadTable env pf (scriptText cs) = .error (.table e) → specRun env (cs.map (·.2)) = .error e) :=
  ⟨(text_refines_spec (parse_scriptText pf cs h)).1, (text_refines_spec (parse_scriptText pf cs h)).2.1⟩

/-- **add_line_twice_in_text**: writing a `route add` line twice in a row anywhere in a configuration text does
not change what `NewTable` returns -/
theorem add_line_twice_in_text (pre post : List (Str × RouteDef)) (x : Str × RouteDef) (hc : x.2.cmd = .add)
    (h : ∀ y ∈ pre ++ x :: post, DefOK pf y.1 y.2 ∧ byteLen (printDef y.1 y.2) < maxToken) :
    loadTable env pf (scriptText (pre ++ x :: x :: post)) = loadTable env pf (scriptText (pre ++ x :: post)) := by
  have h2 : ∀ y ∈ pre ++ x :: x :: post, DefOK pf y.1 y.2 ∧ byteLen (printDef y.1 y.2) < maxToken := by
    intro y hy
    apply h y
    simp only [List.mem_append, List.mem_cons] at hy ⊢
    rcases hy with hy | hy | hy | hy
    · exact .inl hy
    · exact .inr (.inl hy)
    · exact .inr (.inl hy)
    · exact .inr (.inr hy)
  rw [commands_as_text _ h2, commands_as_text _ h]
  simp only [List.map_append, List.map_cons]
  rw [add_twice_in_script (env := env) (d := x.2) (pre.map (·.2)) (post.map (·.2)) hc]

/-- **aliases_of_printed_commands**: `ParseAliases` finds in the text of a command list exactly the `register`
options of its commands -/
theorem aliases_of_printed_commands (cs : List (Str × RouteDef))
    (h : ∀ x ∈ cs, DefOK pf x.1 x.2 ∧ byteLen (printDef x.1 x.2) < maxToken) :
    parseAliases pf (scriptText cs) = .ok (registerNames (cs.map (·.2))) :=
  aliases_agree_with_parse (parse_scriptText pf cs h)

/-- the hypotheses are satisfiable on a list with one command of every form (a service called `tags`, a source
called `weight`, an option value containing `=`, a repeated tag) -/
example : parse pfEx (scriptText csEx) = .ok (csEx.map (·.2)) := parse_of_printed_commands csEx csEx_ok
example : csEx.length = 9 ∧ (csEx.map (·.2.cmd)).eraseDups.length = 3 := by decide +kernel
/-- … and on a list whose commands all succeed `NewTable(text)` = `NewTableCustom(commands)`, a non-empty table -/
example : (match loadTable C05Rebuild.env0 pfEx (scriptText csT), newTable C05Rebuild.env0 (csT.map (·.2)) with
    | .ok a, .ok b => a == b && !a.isEmpty | _, _ => false) = true := by decide +kernel
example := commands_as_text (env := C05Rebuild.env0) csT csT_ok

/-- `commands_as_text_total` on a list with the weight text `nan`: both entry points answer `invalid weight` -/
example := commands_as_text_total (env := C05Rebuild.env0) csN csN_ok
example : (match loadTableW C05Rebuild.env0 pfN (scriptText csN) with
    | .error (.cmd .invalidWeight) => true | _ => false) = true := by decide +kernel

end lang

/-! ### round 4: case-insensitivity for whole scripts -/

/-- two commands that differ only in the letter case of the host of their source -/
def CaseEq (d d' : RouteDef) : Prop :=
  ∃ (d0 : RouteDef) (h h' rest : Str), d = { d0 with src := h ++ rest } ∧ d' = { d0 with src := h' ++ rest } ∧
    lowerL h = lowerL h' ∧ '/' ∉ h ∧ '/' ∉ h' ∧ (rest = [] ∨ ∃ r, rest = '/' :: r)

theorem applyDef_caseEq {d d' : RouteDef} (h : CaseEq d d') (t : Table) : applyDef env t d = applyDef env t d' := by
  obtain ⟨d0, h1, h2, rest, rfl, rfl, hl, hs, hs', hr⟩ := h
  unfold applyDef
  cases hc : d0.cmd with
  | add => exact host_case_insensitive_add (d := d0) h1 h2 rest hl hs hs' hr
  | del => exact host_case_insensitive_del (d := d0) h1 h2 rest hl hs hs' hr
  | weight => exact host_case_insensitive_weight (d := d0) h1 h2 rest hl hs hs' hr
  | other s => rfl

/-- **host_case_insensitive_script**: re-casing the host of any number of commands of a script — adds, dels and
weights alike — does not change what `NewTable`/`NewTableCustom` returns (same table or same error) -/
theorem host_case_insensitive_script (ps : List (RouteDef × RouteDef)) (h : ∀ p ∈ ps, CaseEq p.1 p.2) :
    newTable env (ps.map (·.1)) = newTable env (ps.map (·.2)) := by
  unfold newTable buildFrom
  have : ∀ t0 : Table, (ps.map (·.1)).foldlM (applyDef env) t0 = (ps.map (·.2)).foldlM (applyDef env) t0 := by
    induction ps with
    | nil => intro t0; rfl
    | cons p l ih =>
      intro t0
      simp only [List.map_cons]
      rw [List.foldlM_cons, List.foldlM_cons, applyDef_caseEq (h p (by simp)) t0]
      cases applyDef env t0 p.2 with
      | error e => rfl
      | ok t1 => exact ih (fun q hq => h q (List.mem_cons_of_mem _ hq)) t1
  rw [this]

/-- not vacuous: `Foo.COM/x` and `foo.com/x` in a `route weight` -/
example : CaseEq { cmd := .weight, service := ['s'], src := "Foo.COM".toList ++ "/x".toList, weight := 1 }
    { cmd := .weight, service := ['s'], src := "foo.com".toList ++ "/x".toList, weight := 1 } :=
  ⟨{ cmd := .weight, service := ['s'], weight := 1 }, "Foo.COM".toList, "foo.com".toList, "/x".toList, rfl, rfl,
    by decide, by decide, by decide, Or.inr ⟨['x'], rfl⟩⟩

/-! ### round 4: the text is a canonical form and a fixpoint (`Lemmas/C05Fix.lean`) -/

/-- **render_is_canonical**: the text is a function of the routing map — two well-formed tables without empty
routes, each host's routes in final-sort order (every table `NewTable` returns is such a table), that route the
same targets up to the computed shares, have the same `String()` -/
theorem render_is_canonical {a b : Table} (ha : Good env a) (hb : Good env b) (hsa : C05Fix.Sorted a) (hsb : C05Fix.Sorted b)
    (hc : ∀ h p, (abs a h p).map core = (abs b h p).map core) : render a = render b :=
  C05Fix.render_canonical ha.inv.wf hb.inv.wf ha.inv.noEmpty hb.inv.noEmpty hsa hsb hc

/-- what `NewTable` returns is in final-sort order -/
theorem newTable_sorted {defs : List RouteDef} (h : newTable env defs = .ok t) : C05Fix.Sorted t :=
  C05Fix.newTable_sorted h

/-- **rendered_text_is_fixpoint**: under the hypotheses of `render_parse_roundtrip`, for a table in final-sort order
(as `NewTable` returns it), the table rebuilt from `t.String()` renders to the text of `t` with every weight rounded
to the four decimals the text carries and the options sorted (`normTable`): the same lines in the same order,
except that a weight that rounds to `0.0000` is no longer written -/
theorem rendered_text_is_fixpoint (pf : ParseFloat)
    (hpf : ∀ w : Rat, 0 < w → pf (fmt4 w) = some (.fin (round4Rat w)))
    (hg : Good env t) (hs : C05Fix.Sorted t)
    (htext : ∀ hst, ∀ r ∈ t.get hst, ∀ tg ∈ r.targets, C05Text.TextOK r tg)
    (ho : C05Rebuild.RebuildOK env t) :
    ∃ t2, loadTable env pf (render t) = .ok t2 ∧ render t2 = render (C05Fix.normTable t) := by
  have hparse := C05Text.parse_render pf hpf t htext
  have hspec := C05Rebuild.rebuild_spec hg.inv ho
  have href := C05Main.refines_spec (env := env) (defsOfTable t)
  rw [hspec] at href
  cases hn : newTable env (defsOfTable t) with
  | error e => rw [hn] at href; cases href
  | ok t2 =>
    rw [hn] at href
    simp only [Except.map] at href
    injection href with href
    refine ⟨t2, ?_, C05Fix.render_of_rebuilt hg.inv hs (good_newTable hn).inv (C05Fix.newTable_sorted hn) href⟩
    unfold loadTable
    rw [hparse]; simp only; rw [hn]


/-- **rendered_text_is_fixpoint_exact**: if moreover the fixed weights are ≥ 0 with at most four decimals and the
options are stored key-sorted (every table built from a text `String()` wrote is such a table), `String()` of the
rebuilt table *is* the text it was read from -/
theorem rendered_text_is_fixpoint_exact (pf : ParseFloat)
    (hpf : ∀ w : Rat, 0 < w → pf (fmt4 w) = some (.fin (round4Rat w)))
    (hg : Good env t) (hs : C05Fix.Sorted t)
    (htext : ∀ hst, ∀ r ∈ t.get hst, ∀ tg ∈ r.targets, C05Text.TextOK r tg)
    (ho : C05Rebuild.RebuildOK env t)
    (hx : ∀ hst, ∀ r ∈ t.get hst, ∀ tg ∈ r.targets,
      0 ≤ tg.fixedWeight ∧ (0 < tg.fixedWeight → round4Rat tg.fixedWeight = tg.fixedWeight) ∧ sortOpts tg.opts = tg.opts) :
    ∃ t2, loadTable env pf (render t) = .ok t2 ∧ render t2 = render t := by
  obtain ⟨t2, hl, hr⟩ := rendered_text_is_fixpoint pf hpf hg hs htext ho
  refine ⟨t2, hl, ?_⟩
  rw [hr]
  apply C05Fix.render_canonical (C05Fix.wf_norm hg.inv.wf) hg.inv.wf (C05Fix.noEmpty_norm hg.inv.noEmpty) hg.inv.noEmpty
    (C05Fix.sorted_norm hs) hs
  intro h p
  rw [C05Fix.abs_norm, List.map_map]
  apply List.map_congr_left
  intro x hxm
  have hne : abs t h p ≠ [] := by intro e; rw [e] at hxm; cases hxm
  obtain ⟨r, hr', _, htg⟩ := C05Fix.mem_get_of_abs hne
  obtain ⟨h0, h4, hso⟩ := hx h r hr' x (by rw [htg]; exact hxm)
  simp only [Function.comp, C05Fix.coreT, norm4]
  rw [hso]
  by_cases hp : 0 < x.fixedWeight
  · rw [if_pos hp, h4 hp]
  · rw [if_neg hp]
    have : x.fixedWeight = 0 := Rat.le_antisymm (Rat.not_lt.mp hp) h0
    rw [this]

/-! ### round 4: no target comes from nowhere (`Lemmas/C05From.lean`) -/

/-- **targets_come_from_adds**: every target a table built by a command list holds — under whatever host and path,
after whatever dels and weights — carries the service, tags, options and normalised destination of one of the list's
`route add` commands: `del` and `weight` never invent or rewrite any of these ("add accumulates", "weight changes
only the matching targets" — and of them only the weight) -/
theorem targets_come_from_adds {defs : List RouteDef} (h : newTable env defs = .ok t) (hst p : Str) :
    ∀ x ∈ abs t hst p, ∃ d ∈ defs, d.cmd = .add ∧ x.service = d.service ∧ x.tags = d.tags ∧ x.opts = d.opts ∧
      env.normURL d.dst = some x.url :=
  C05From.newTable_from h hst p

/-- **targets_of_wellformed_commands**: in a table built from well-formed commands (`DefOK`, e.g. from any text
written with `printDef`) every target has a service, tags and options the command language can carry — the part of
the round trip's hypothesis `TextOK` that concerns them holds for every such table -/
theorem targets_of_wellformed_commands {pf : ParseFloat} (cs : List (Str × RouteDef))
    (h : ∀ x ∈ cs, C05Lang.DefOK pf x.1 x.2) (ht : newTable env (cs.map (·.2)) = .ok t) (hst p : Str) :
    ∀ x ∈ abs t hst p, C05Lang.Tok x.service ∧ C05Lang.TagsOK x.tags ∧ C05Lang.OptsOK x.opts := by
  intro x hx
  obtain ⟨d, hd, hc, h1, h2, h3, _⟩ := targets_come_from_adds ht hst p x hx
  obtain ⟨c, hcm, rfl⟩ := List.mem_map.1 hd
  have hok := h c hcm
  unfold C05Lang.DefOK at hok
  rw [hc] at hok
  rw [h1, h2, h3]
  exact ⟨hok.1, hok.2.2.2.2.1, hok.2.2.2.2.2⟩

/-- not vacuous: the table of `csT` (two adds, a weight, a del) — its one remaining target is the first add's -/
example : (match newTable C05Rebuild.env0 (C05Lang.csT.map (·.2)) with
    | .ok t => (abs t "foo.com".toList "/a".toList).map (·.service) == ["svc".toList] | .error _ => false) = true := by
  decide +kernel

/-- helpers of the evaluated example below -/
def envB : Env := { normURL := fun s => some s, globOK := fun _ => true }
def pfB : ParseFloat := fun s =>
  if s == "0.2500".toList then some (.fin (1/4)) else if s == "0.7500".toList then some (.fin (3/4)) else none
def addB (svc src dst : String) (w : Rat) : RouteDef :=
  { cmd := .add, service := svc.toList, src := src.toList, dst := dst.toList, weight := w }

/-- **built_table_rebuild_ok**: for a table built by any command list the structural hypotheses of the round trip are
theorems, not assumptions — every route sits at the `key` of an add's source (so `hostpath` splits the rendered prefix
into the same host and path) and its host and path were accepted by `glob.Compile`. What remains are the property's
own hypothesis `hk` (no route holds two targets with the same service, URL, tags and four-decimal weight) and the
assumption `hu` about `net/url` (`url.Parse ∘ String` is idempotent on the stored URLs) -/
theorem built_table_rebuild_ok {defs : List RouteDef} (h : newTable env defs = .ok t)
    (hk : ∀ kv ∈ t, ∀ r ∈ kv.2, (r.targets.map C05Rebuild.dupKey).Nodup)
    (hu : ∀ kv ∈ t, ∀ r ∈ kv.2, ∀ tg ∈ r.targets, tg.url ≠ [] ∧ env.normURL tg.url = some tg.url) :
    C05Rebuild.RebuildOK env t :=
  C05From.rebuildOK_of_built h hk hu

/-- **round_trip_of_built_table**: the last sentence of the property for "every table such sequences produce" — a table
`NewTable`/`NewTableCustom` built from any command list, whose text is readable (`TextOK`), with `hk` and `hu` as above:
`NewTable(t.String())` succeeds, the rebuilt table is good, routes per host and path the same targets in order with
the weight to four decimals, and renders to the normalised text of `t` (no `Good`, `Sorted` or structural `RebuildOK`
hypothesis is left: they are consequences of being built by commands) -/
theorem round_trip_of_built_table (pf : ParseFloat)
    (hpf : ∀ w : Rat, 0 < w → pf (fmt4 w) = some (.fin (round4Rat w)))
    {defs : List RouteDef} (h : newTable env defs = .ok t)
    (htext : ∀ hst, ∀ r ∈ t.get hst, ∀ tg ∈ r.targets, C05Text.TextOK r tg)
    (hk : ∀ kv ∈ t, ∀ r ∈ kv.2, (r.targets.map C05Rebuild.dupKey).Nodup)
    (hu : ∀ kv ∈ t, ∀ r ∈ kv.2, ∀ tg ∈ r.targets, tg.url ≠ [] ∧ env.normURL tg.url = some tg.url) :
    ∃ t2, loadTable env pf (render t) = .ok t2 ∧ Good env t2 ∧
      abs t2 = (fun h p => weigh ((abs t h p).map norm4)) ∧ render t2 = render (C05Fix.normTable t) := by
  have hg := good_newTable h
  have ho := built_table_rebuild_ok h hk hu
  obtain ⟨t2, hl, hg2, ha⟩ := render_parse_roundtrip pf hpf hg htext ho
  obtain ⟨t2', hl', hr⟩ := rendered_text_is_fixpoint pf hpf hg (C05Fix.newTable_sorted h) htext ho
  rw [hl] at hl'
  injection hl' with hl'
  subst hl'
  exact ⟨t2, hl, hg2, ha, hr⟩

/-- **round_trip_of_wellformed_commands**: the property's last sentence, end to end, for its own quantifier — "every
finite sequence of well-formed route commands … and every table such sequences produce". For every list of well-formed
commands (`DefOK`) that builds a table `t`: if no route of `t` holds two targets with the same service, URL, tags and
four-decimal weight (`hk`, the property's "whenever"), then `NewTable(t.String())` succeeds and rebuilds, per host and
path, the same targets in order with the same service, URL, tags and options and the weight to four decimals, and
its own `String()` is the normalised text of `t`. What is assumed beyond the property's hypothesis is about libraries
only: `url.Parse(dst).String()` is non-empty, free of white space and a fixpoint of `url.Parse ∘ String` (`hu`), the
lines are shorter than `bufio.MaxScanTokenSize` (`hshort`), `strconv.ParseFloat` reads the printed weights (`hpf`) -/
theorem round_trip_of_wellformed_commands (pf : ParseFloat)
    (hpf : ∀ w : Rat, 0 < w → pf (fmt4 w) = some (.fin (round4Rat w)))
    (cs : List (Str × RouteDef)) (hcs : ∀ x ∈ cs, C05Lang.DefOK pf x.1 x.2)
    (ht : newTable env (cs.map (·.2)) = .ok t)
    (hk : ∀ kv ∈ t, ∀ r ∈ kv.2, (r.targets.map C05Rebuild.dupKey).Nodup)
    (hu : ∀ kv ∈ t, ∀ r ∈ kv.2, ∀ tg ∈ r.targets,
      tg.url ≠ [] ∧ env.normURL tg.url = some tg.url ∧ ∀ c ∈ tg.url, isUniSpace c = false)
    (hshort : ∀ hst, ∀ r ∈ t.get hst, ∀ tg ∈ r.targets, byteLen (renderTarget r tg) < maxToken) :
    ∃ t2, loadTable env pf (render t) = .ok t2 ∧ Good env t2 ∧
      abs t2 = (fun h p => weigh ((abs t h p).map norm4)) ∧ render t2 = render (C05Fix.normTable t) := by
  have hg := good_newTable ht
  have htext := C05From.textOK_of_wellformed cs hcs ht
    (fun hst r hr tg htg =>
      have h0 := (C05Fix.of_mem_get hg.inv.wf hr).1
      ⟨(hu _ h0 r hr tg htg).1, (hu _ h0 r hr tg htg).2.2⟩) hshort
  exact round_trip_of_built_table pf hpf ht htext hk
    (fun kv hkv r hr tg htg => ⟨(hu kv hkv r hr tg htg).1, (hu kv hkv r hr tg htg).2.1⟩)

/-- evaluated: a table built by commands (two hosts in different letter case, a weight command, a del), its text read
back and rendered again -/
example : (match newTable envB [addB "s" "Foo.com/a" "http://a:1/" (1/4), addB "t" "foo.COM/a" "http://b:1/" (3/4),
      addB "u" "/" "http://c:1/" 0, { cmd := .del, service := "u".toList }] with
    | .ok t => (match loadTable envB pfB (render t) with
        | .ok t2 => render t2 == render (C05Fix.normTable t) && (abs t2 "foo.com".toList "/a".toList).length == 2
        | .error _ => false)
    | .error _ => false) = true := by decide +kernel

/-! ### the forced hypotheses are necessary (witnesses; the same inputs are replayed on the real code from
`corpus/c05.roundtrip.jsonl`, where they are recorded findings) -/

section witnesses

def envW : Env := { normURL := fun s => some s, globOK := fun _ => true }

/-- `strconv.ParseFloat` on the few weight strings the witnesses print or contain -/
def pfW : ParseFloat := fun s =>
  if s == "1.0000".toList || s == "1".toList then some (.fin 1)
  else if s == "0.5000".toList || s == "0.5".toList then some (.fin (1/2))
  else if s == "0.2500".toList then some (.fin (1/4))
  else if s == "0.7500".toList then some (.fin (3/4))
  else none

/-- build a table from definitions, render it, load the text: the targets at (h,p) before and after -/
def roundTrip (defs : List RouteDef) (h p : Str) : Option (List Target × List Target) :=
  match newTable envW defs with
  | .error _ => none
  | .ok t =>
    match loadTable envW pfW (render t) with
    | .error _ => none
    | .ok t2 => some (abs t h p, abs t2 h p)

def countsOf (x : Option (List Target × List Target)) : Option (Nat × Nat) := x.map (fun ab => (ab.1.length, ab.2.length))

def addW (svc dst : String) (w : Rat := 0) (tags : List Str := []) (opts : List (Str × Str) := []) : RouteDef :=
  { cmd := .add, service := svc.toList, src := "/p".toList, dst := dst.toList, weight := w, tags, opts }

/-- a target without traffic share (a dynamic target next to a fixed share of 100 %) is written by `String()`
and comes back (2 targets → 2): before the repair of `Route.config` it was omitted and lost (2 → 1), and the
round-trip theorem needed the hypothesis "every target has a positive share" -/
theorem round_trip_keeps_zero_share_targets :
    countsOf (roundTrip [addW "s" "http://a:1/" 1, addW "s" "http://b:1/"] [] "/p".toList) = some (2, 2) ∧
    ((roundTrip [addW "s" "http://a:1/" 1, addW "s" "http://b:1/"] [] "/p".toList).map
      (fun ab => ab.1.map (·.weight))) = some [1, 0] := by
  decide +kernel

/-- `RebuildOK.keys` is necessary beyond "differ only in weight": two targets that differ only in their
*options* (weights equalised by `route weight`) are written as two lines, and the second is de-duplicated
away when the text is read (2 targets → 1) -/
theorem round_trip_needs_distinct_keys :
    countsOf (roundTrip [addW "s" "http://a:1/" 0 [] [("strip".toList, "/p".toList)], addW "s" "http://a:1/" (1/2),
      { cmd := .weight, service := "s".toList, src := "/p".toList, weight := 1/2 }] [] "/p".toList) = some (2, 1) := by
  decide +kernel

/-- `TextOK.tags_ne` is necessary: the single empty tag is written as `tags ""` and read back as no tag -/
theorem round_trip_needs_nonempty_tag_text :
    (roundTrip [addW "s" "http://a:1/" 0 [[]]] [] "/p".toList).map (fun ab => (ab.1.map (·.tags), ab.2.map (·.tags)))
      = some ([[[]]], [[]]) := by
  decide +kernel

/-- the round trip on a table inside the hypotheses, evaluated: two hosts, tags, unsorted options, weights
1/4 and 3/4 — every (host,path) comes back as `weigh (targets.map norm4)` -/
theorem round_trip_instance :
    (match loadTable envW pfW (render C05Rebuild.tab0) with
     | .ok t2 => [("h".toList, "/".toList), ("g".toList, "/p".toList), ("x".toList, "/".toList)].all
         (fun k => abs t2 k.1 k.2 == weigh ((abs C05Rebuild.tab0 k.1 k.2).map norm4))
     | .error _ => false) = true := by
  decide +kernel

/-- `rendered_text_is_fixpoint` evaluated on the same table: the rebuilt table's text is the normalised text -/
example : (match loadTable envW pfW (render C05Rebuild.tab0) with
    | .ok t2 => render t2 == render (C05Fix.normTable C05Rebuild.tab0) && !(render t2).isEmpty
    | .error _ => false) = true := by decide +kernel

/-- `rendered_text_is_fixpoint_exact` evaluated: a table built by commands (weights 1/4 and 3/4, a tag, two options),
rendered, read, rendered again — the very same text -/
example : (match newTable envW [addW "s" "http://a:1/" (1/4) [['x']] [("a".toList, "1".toList), ("b".toList, "2=3".toList)],
      addW "t" "http://b:1/" (3/4)] with
    | .ok t => (match loadTable envW pfW (render t) with
        | .ok t2 => render t2 == render t && !(render t).isEmpty
        | .error _ => false)
    | .error _ => false) = true := by decide +kernel

end witnesses

/-! ### non-vacuity -/

section examples
open C05Del

/-- `route del a H/p` on `h: / ↦ [a ½, b ½], /p ↦ [a 1]` removes route `/p` entirely (upper-case host) -/
example : delRoute env0 tab0 dSrc = .ok tab2 := del_src
example : Good env0 tab0 := ⟨inv_tab0, fun _ _ => rfl⟩
example : NoEmpty tab2 := del_leaves_no_empty inv_tab0.noEmpty del_src
example : abs tab2 ['h'] ['/', 'p'] = [] ∧ abs tab0 ['h'] ['/', 'p'] ≠ [] := by decide +kernel
/-- del by service removes `a` everywhere and leaves `b` with the whole share -/
example : abs tab1 ['h'] ['/'] = dropSel (fun x => x.service == ['a']) (abs tab0 ['h'] ['/']) :=
  del_removes_exactly_svc (d := dSvc) ⟨inv_tab0, fun _ _ => rfl⟩ rfl rfl rfl del_svc ['h'] ['/']
/-- weight: `route weight a H/ weight 1/4` changes `a` only -/
example : weighRoute C05Weight.tab0 C05Weight.dW = .ok C05Weight.tabW := C05Weight.weigh_tab0
/-- case-insensitivity is not vacuous: the two sources differ -/
example : addRoute env0 tab0 { cmd := .add, service := ['s'], dst := ['u'], src := "FOO.com".toList ++ "/x".toList }
        = addRoute env0 tab0 { cmd := .add, service := ['s'], dst := ['u'], src := "foo.COM".toList ++ "/x".toList } :=
  host_case_insensitive_add (d := { cmd := .add, service := ['s'], dst := ['u'] }) _ _ _ (by decide) (by decide) (by decide)
    (Or.inr ⟨['x'], rfl⟩)
/-- the final sort really reorders, also paths that differ only in case -/
example : sortRoutes C05Weight.rs0 = C05Weight.rs1 ∧ C05Weight.rs0 ≠ C05Weight.rs1 := by decide
/-- an add that appends a second target (upper-case host), and applying it again changes nothing -/
example : addRoute C05Add.env0 C05Add.tab0 C05Add.dB = .ok C05Add.tab1 ∧
    addRoute C05Add.env0 C05Add.tab1 C05Add.dB = .ok C05Add.tab1 ∧ C05Add.tab1 ≠ C05Add.tab0 :=
  ⟨C05Add.add_B, add_idempotent ⟨C05Add.inv_tab0, fun _ _ => rfl⟩ C05Add.add_B, by decide +kernel⟩
/-- the round trip's hypotheses are satisfiable on a table with tags, options and a weight -/
example : C05Text.TextOK C05Text.exRoute C05Text.exTarget := C05Text.exTextOK

/-! round 3 -/
def pfG : ParseFloat := fun s =>
  if s == "nan".toList then some .nan else if s == "0.5".toList then some (.fin (1/2)) else none

/-- CRLF, a comment, a `del`, an option without value -/
def textG : Str :=
  "route add s h/ http://a:1/ opts \"register=foo strip=/x\"\r\n# c\nroute del x\nroute add t h/ http://b:1/ weight 0.5 opts \"register\"\n".toList

/-- `aliases_agree_with_parse` is not vacuous: three definitions, two names (the second one empty) -/
example : (match parse pfG textG with | .ok ds => ds.length == 3 | _ => false) = true := by decide +kernel
example : (match parseAliases pfG textG with | .ok ns => ns == ["foo".toList, []] | _ => false) = true := by
  decide +kernel

def textN : Str := "route add s h/ http://a:1/\nroute weight s h/ weight nan\nroute del s".toList

/-- a non-finite weight: `Parse` (model over ℚ) stops at line 2, the total model answers `invalid weight`, and
`ParseAliases` reads the text without complaint -/
example : (match parse pfG textN with | .error (.nonFinite 2 .nan) => true | _ => false) = true := by decide +kernel
example : (match loadTableW envW pfG textN with | .error (.cmd .invalidWeight) => true | _ => false) = true := by
  decide +kernel
example : (match parseAliases pfG textN with | .ok [] => true | _ => false) = true := by decide +kernel
/-- … and the earlier failing command wins: a `weight` without match before the non-finite one -/
example : (match loadTableW envW pfG ("route weight s h/ weight 0.5\n".toList ++ textN) with
    | .error (.cmd (.table .noMatch)) => true | _ => false) = true := by decide +kernel

/-- derived fields: `+301` is a redirect code, `200` and `3x1` are not; sorting the options keeps them -/
example : (derive [("redirect".toList, "+301".toList), ("host".toList, "dst".toList)]).redirect = 301 ∧
    (derive [("redirect".toList, "200".toList)]).redirect = 0 ∧ (derive [("redirect".toList, "3x1".toList)]).redirect = 0 ∧
    (derive [("tlsskipverify".toList, "true".toList)]).tlsSkip = true ∧ (derive [("tlsskipverify".toList, "TRUE".toList)]).tlsSkip = false ∧
    derive (sortOpts [("strip".toList, "/a".toList), ("auth".toList, "b".toList)]) =
      derive [("strip".toList, "/a".toList), ("auth".toList, "b".toList)] := by decide +kernel

/-- the admin listing of a two-host table: three targets, hosts ascending; `?raw` reloads like `String()` -/
example : (apiRoutes C05Rebuild.tab0).length = 3 ∧ ((apiRoutes C05Rebuild.tab0).map (·.host)).head? = some "g".toList := by
  decide +kernel
example : ((apiRoutes C05Rebuild.tab0).filter (fun a => a.host == "h".toList && a.path == "/".toList)).length = 2 := by
  decide +kernel
example : (match loadTable envW pfW (apiRaw C05Rebuild.tab0), loadTable envW pfW (render C05Rebuild.tab0) with
    | .ok a, .ok b => a == b && !a.isEmpty | _, _ => false) = true := by decide +kernel
/-- `text_refines_spec_total` is not vacuous: `parseW` reads the text with the `nan` weight as three commands, one of
them flagged, and the spec machine refuses it like `NewTable` does -/
example : (match parseW pfG textN with | .ok xs => xs.length == 3 && xs.any (·.bad) | _ => false) = true := by
  decide +kernel
example : (match parseW pfG textN with
    | .ok xs => (match specRunW envW xs with | .error .invalidWeight => true | _ => false)
    | _ => false) = true := by decide +kernel
end examples

end Fabio.Props.C05
