import Fabio.Generated.C01
import Fabio.Model.C01
/-!
Obligations over the facts regenerated from `/repo` on every run (C01): what the model of
`passingServices` / `checksWithTagPrefix` / `makeConfig` / `watchBackend` silently depends on.
-/
namespace Fabio.Props.C01Facts
open Fabio Fabio.Model.C01

/-! ### `passing.go` -/

/-- the check ids and the status the loop compares with are the model's constants -/
theorem passing_literals :
    Generated.C01.innerLiterals.map String.toList = [serf, critical, nodeMaint, svcMaintPfx, critical] := by
  repeat' apply And.intro
  all_goals first | rfl | decide

/-- the inner loop: guarded by node equality; counting branch first, then the three `continue CHECKS`
tests in the model's order (serf ∧ critical, node maintenance with any status, service maintenance of
*this* service id ∧ critical) -/
theorem inner_loop_shape :
    Generated.C01.innerGuard = "svc.Node == c.Node" ∧
    Generated.C01.innerConds =
      ["svc.ServiceID == c.ServiceID",
       "c.CheckID == \"serfHealth\" && c.Status == \"critical\"",
       "c.CheckID == \"_node_maintenance\"",
       "c.CheckID == \"_service_maintenance:\"+svc.ServiceID && c.Status == \"critical\""] ∧
    Generated.C01.innerActions = ["count", "continue-outer", "continue-outer", "continue-outer"] ∧
    Generated.C01.countBranch = ["total++", "if hasStatus(c, status) { passing++ }"] := by
  repeat' apply And.intro
  all_goals first | rfl | decide

/-- the outer loop: skip non-service checks, run the inner loop over the *same* list, then the
`passing == 0` test, then the strict test, then append -/
theorem outer_loop_shape :
    Generated.C01.outerRange = "_,svc := range checks" ∧
    Generated.C01.outerShape =
      ["if !isServiceCheck(svc) continue", "var total, passing int", "range checks",
       "if passing == 0 continue", "if strict && total != passing continue", "p = append(p, svc)"] := by
  repeat' apply And.intro
  all_goals first | rfl | decide

theorem is_service_check_pinned :
    Generated.C01.isServiceCheckLiterals.map String.toList = [[], serf, nodeMaint, svcMaintPfx] ∧
    Generated.C01.isServiceCheckExpr =
      "c.ServiceID != \"\" && c.CheckID != \"serfHealth\" && c.CheckID != \"_node_maintenance\" && !strings.HasPrefix(c.CheckID, \"_service_maintenance:\")" ∧
    Generated.C01.hasStatusConds = ["c.Status == s"] := by
  repeat' apply And.intro
  all_goals first | rfl | decide

/-! ### `service.go` -/

/-- `checksWithTagPrefix` keeps serf / node-maintenance / `_service_maintenance…` checks unconditionally and
any check with a tag that has the prefix -/
theorem filter_pinned :
    Generated.C01.filterKeepLiterals.map String.toList = [serf, nodeMaint, svcMaintNoColon] ∧
    Generated.C01.filterKeepCond =
      "c.CheckID == \"serfHealth\" || c.CheckID == \"_node_maintenance\" || strings.HasPrefix(c.CheckID, \"_service_maintenance\")" ∧
    Generated.C01.filterKeepContinues = true ∧
    Generated.C01.filterTagRange = "c.ServiceTags" ∧
    Generated.C01.filterTagConds = ["strings.HasPrefix(t, prefix)"] := by
  repeat' apply And.intro
  all_goals first | rfl | decide

/-- `Watch`: health state → filter → passing (of the filtered list, configured statuses, strict flag) →
makeConfig → send; strict means `checksRequired == "all"` -/
theorem watch_pipeline_order :
    Generated.C01.watchOrder =
      ["w.client.Health().State(\"any\", q)",
       "prefixedChecks = checksWithTagPrefix(w.config.TagPrefix, checks)",
       "passing = passingServices(prefixedChecks, w.config.ServiceStatus, w.strict)",
       "send updates <- w.makeConfig(passing)"] ∧
    Generated.C01.strictExpr = "config.ChecksRequired == \"all\"" := by
  repeat' apply And.intro
  all_goals first | rfl | decide

/-- the join key is built the same way where the passing set is filled (`makeConfig`) and where it is
looked up (`serviceConfig`), and it is the (node, service id) pair — a struct of two strings, compared field
by field (the model's `keyPair`); the set is per service name; entries missing from it are skipped -/
theorem join_key_same_on_both_sides :
    Generated.C01.keyMake = Generated.C01.keyLookup ∧
    Generated.C01.keyMake = "instanceID{X.Node, X.ServiceID}" ∧
    Generated.C01.keyTypeFields = ["string", "string"] ∧
    Generated.C01.keyMakeName = "X.ServiceName" ∧
    Generated.C01.keyStore = "m[name][id] = true" ∧
    Generated.C01.serviceConfigCalls = ["w.serviceConfig(name, passing)"] ∧
    Generated.C01.catalogQueryArg = ["name"] ∧
    Generated.C01.keyLookupSkipsMissing = true ∧
    Generated.C01.makeConfigSorts = ["sort.Sort(sort.Reverse(sort.StringSlice(config)))"] := by
  repeat' apply And.intro
  all_goals first | rfl | decide

/-! ### faults and index anomalies -/

/-- `serviceConfig` gives nothing for a service whose catalog lookup fails (`return nil` right after the lookup),
and its only other results are the early `nil` and the commands built in this call (model: `joinedF`) -/
theorem service_config_nil_on_lookup_error :
    Generated.C01.serviceConfigOnLookupError = ["log", "return nil"] ∧
    Generated.C01.serviceConfigReturns = ["return nil", "return nil", "return config"] := by
  repeat' apply And.intro
  all_goals first | rfl | decide

/-- `ServiceMonitor` keeps no state between rounds: its fields are the client, the configuration, the datacenter
and the strict flag, no method assigns to a field, and the package has no package-level variable — each emitted
text is a function of the round's own answers (model: `watchOnceF` has no state argument) -/
theorem service_monitor_stateless :
    Generated.C01.serviceMonitorFields = ["client", "config", "dc", "strict"] ∧
    Generated.C01.serviceMonitorFieldWrites = [] ∧
    Generated.C01.consulPackageVars = [] := by
  repeat' apply And.intro
  all_goals first | rfl | decide

/-- `watchKV`: the only tests are the error test and the change test `value != lastValue || index != lastIndex`
(no ordering comparison on the index: an index that goes backwards is a change like any other); what is remembered
is written only together with the send. `Watch`: the index is only stored, never compared. -/
theorem watchers_only_test_for_change :
    Generated.C01.watchKVConds = ["err != nil", "value != lastValue || index != lastIndex"] ∧
    Generated.C01.watchKVWrites = ["lastValue, lastIndex = value, index"] ∧
    Generated.C01.watchKVSends = ["config <- value"] ∧
    Generated.C01.watchConds = ["w.config.PollInterval != 0", "err != nil"] ∧
    Generated.C01.watchWrites = ["lastIndex = meta.LastIndex"] ∧
    Generated.C01.watchSends = ["updates <- w.makeConfig(passing)"] := by
  repeat' apply And.intro
  all_goals first | rfl | decide

/-! ### `main.go` -/

/-- `watchBackend`: receive one event; service text, "\n", manual text; skip when equal to the remembered
text; `NewTable`; on error `continue` *before* `SetTable`; `lastTable = nextTable` only after `SetTable`. -/
theorem watch_backend_loop_shape :
    Generated.C01.watchBackendLoop =
      ["select svccfg = <-svc | mancfg = <-man", "reset", "write svccfg", "write \"\\n\"", "write mancfg",
       "skip-if-unchanged", "newtable t, err := route.NewTable(tableBuffer)", "on-error-continue",
       "settable t", "remember"] := by
  repeat' apply And.intro
  all_goals first | rfl | decide

/-- no other statement of the function writes the loop's locals or installs a table -/
theorem watch_backend_writes :
    Generated.C01.watchBackendWrites =
      ["svccfg = <-svc", "mancfg = <-man", "nextTable = tableBuffer.String()", "route.SetTable(t)",
       "lastTable = nextTable"] := by
  repeat' apply And.intro
  all_goals first | rfl | decide

end Fabio.Props.C01Facts
