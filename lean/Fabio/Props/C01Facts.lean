import Fabio.Generated.C01
import Fabio.Model.C01
/-!
Obligations over the facts regenerated from `/repo` on every run (C01): what the model of
`passingServices` / `checksWithTagPrefix` / `makeConfig` / `watchBackend` silently depends on.

The facts pin MEANING, not spelling (see the header of `tools/factgen/c01.go`): every function is a list of guarded
actions `c1 & c2 & … => action` with the conditions in a normal form (De Morgan, `!=` as the negation of `==`,
operands of `==` sorted, disjunctions as else-if alternatives, guard clauses folded into the conditions of what
follows, unlabelled `continue` not an action), identifiers canonicalised by role (`recv`, `p<i>`, `r<i>`,
`<callee>#<i>` for a local assigned once from a call, `v<k>` otherwise, `L<k>` labels, `helper<k>` for unexported
helpers no hook names, `$KEY` for the join-key type), package constants inlined, switches turned into if-chains,
and `makeConfig` followed into unexported helpers. `>` marks the loop nesting depth.
-/
namespace Fabio.Props.C01Facts
open Fabio Fabio.Model.C01

/-! ### `passing.go` -/

/-- the check ids and the status the loops compare with are the model's constants -/
theorem passing_literals :
    Generated.C01.passingServicesLiterals.map String.toList = [nodeMaint, svcMaintPfx, critical, serf] ∧
    Generated.C01.passingHelper0Literals.map String.toList = [[], nodeMaint, svcMaintPfx, serf] ∧
    Generated.C01.checksWithTagPrefixLiterals.map String.toList = [nodeMaint, svcMaintNoColon, serf] := by
  repeat' apply And.intro
  all_goals first | rfl | decide

/-! ### `service.go` -/

/-- `Watch`: health state → filter (configured prefix) → passing (of the *filter's result*, configured statuses,
strict flag = the field `f3` of the monitor) → makeConfig (of the passing result) → send; `f3` is initialised with
`checksRequired == "all"` (fields of the receiver are written by position: f0 client, f1 config, f2 dc, f3 strict) -/
theorem watch_pipeline_order :
    Generated.C01.watchFlow = ["State",
       "checksWithTagPrefix(recv.f1.TagPrefix, State#0)",
       "passingServices(checksWithTagPrefix#0, recv.f1.ServiceStatus, recv.f3)",
       "makeConfig(passingServices#0)",
       "send p0 <- makeConfig#0"] ∧
    Generated.C01.strictInit = ["f3 = p1.ChecksRequired == \"all\""] := by
  repeat' apply And.intro
  all_goals first | rfl | decide

/-- the join key is built the same way where the passing set is filled (`makeConfig`, followed into its helpers)
and where it is looked up (the function that queries `Catalog().Service`), and it is the (node, service id) pair — a
struct of two strings, compared field by field (the model's `keyPair`); the set is per service name; entries missing
from it are skipped; the order of events in `makeConfig`: fill the set, one goroutine per service, catalog lookup,
`routecmd.build`, reverse sort, join with newlines -/
theorem join_key_same_on_both_sides :
    Generated.C01.keyMake = Generated.C01.keyLookup ∧
    Generated.C01.keyMake = "$KEY{X.Node, X.ServiceID}" ∧
    Generated.C01.keyTypeFields = ["string", "string"] ∧
    Generated.C01.keyMakeName = "X.ServiceName" ∧
    Generated.C01.keyLookupSkipsMissing = true ∧
    Generated.C01.makeConfigEvents = ["store set[name][key]",
       "go",
       "Catalog.Service",
       "build",
       "sort.Sort",
       "sort.Reverse",
       "sort.StringSlice",
       "strings.Join \"\\n\""] := by
  repeat' apply And.intro
  all_goals first | rfl | decide

/-! ### faults and index anomalies -/

/-- `ServiceMonitor` keeps no state between rounds: its fields are a client, the configuration, a string and a bool
(whatever they are called), no method assigns to a field of the receiver, and the package has no package-level
variable — each emitted text is a function of the round's own answers (model: `watchOnceF` has no state argument) -/
theorem service_monitor_stateless :
    Generated.C01.serviceMonitorFieldTypes = ["*api.Client", "*config.Consul", "bool", "string"] ∧
    Generated.C01.serviceMonitorFieldWrites = 0 ∧
    Generated.C01.consulPackageVarCount = 0 := by
  repeat' apply And.intro
  all_goals first | rfl | decide

/-! ### `main.go` -/

/-- `SetTable` is called at exactly one place of `watchBackend` (the step machine has one installing transition) -/
theorem set_table_called_once : Generated.C01.watchBackendSetTableCalls = 1 := by decide

/-- the alias registration sits between the change test and `NewTable`, is called with the aliases parsed from the
new text, and its result is discarded (an expression statement): the model's `stepOutReg`, whose table part is
`stepOut` for every registration outcome (`register_outcome_irrelevant`). Stated over meaning, not spelling: the one
call of a method `Register` in the loop is an expression statement — its result cannot reach a condition — and it
stands before the `NewTable` call of the same statement list. -/
theorem register_result_discarded :
    Generated.C01.watchBackendRegisterCalls = 1 ∧
    Generated.C01.watchBackendRegisterDiscarded = 1 ∧
    Generated.C01.watchBackendRegisterBeforeNewTable = true := by
  repeat' apply And.intro
  all_goals first | rfl | decide

/-! ### the hand-over from the watchers to the table loop -/

/-- Every text a watcher computes reaches the table loop: no channel send in package `registry/consul` is the
communication of a `select` clause (a send that could be skipped or lose a race — `select { case ch <- v: default: }`),
and the channel `WatchServices` / `WatchManual` return is the one the watcher goroutine was started with. This is what
makes the event sequence of the table loop a `Merge` of the two watchers' sequences (`Props/C01Sys.lean`:
`system_quiescent`; the negation for the other design: `nonblocking_handover_loses_final_state`). An order of effects
between goroutines — no sampling of runs establishes it. -/
theorem watchers_hand_over_every_text :
    Generated.C01.consulSelectSends = 0 ∧
    Generated.C01.handOverWatchServicesSameChannel = true ∧
    Generated.C01.handOverWatchManualSameChannel = true := by
  repeat' apply And.intro
  all_goals first | rfl | decide

end Fabio.Props.C01Facts
