import Fabio.Generated.C01
import Fabio.Model.C01
/-!
Obligations over the facts regenerated from `/repo` on every run (C01): what the model of
`passingServices` / `checksWithTagPrefix` / `makeConfig` / `watchBackend` silently depends on.

The facts pin MEANING, not spelling (see the header of `tools/factgen/c01.go`): every function is a list of guarded
actions `c1 & c2 & … => action` with the conditions in a normal form (De Morgan, `!=` as the negation of `==`,
operands of `==` sorted, disjunctions as else-if alternatives, guard clauses folded into the conditions of what
follows, unlabelled `continue` not an action), identifiers canonicalised by role (`recv`, `p<i>`, `r<i>`,
`<callee>#<i>` for a local assigned once from a call, `v<k>` otherwise, `L<k>` labels, `helper<k>` for unexported
helpers no hook names, `$KEY` for the join-key type), package constants inlined, switches turned into if-chains,
and `makeConfig` followed into unexported helpers. `>` marks the loop nesting depth.
-/
namespace Fabio.Props.C01Facts
open Fabio Fabio.Model.C01

/-! ### `passing.go` -/

/-- the check ids and the status the loops compare with are the model's constants -/
theorem passing_literals :
    Generated.C01.passingServicesLiterals.map String.toList = [nodeMaint, svcMaintPfx, critical, serf] ∧
    Generated.C01.passingHelper0Literals.map String.toList = [[], nodeMaint, svcMaintPfx, serf] ∧
    Generated.C01.checksWithTagPrefixLiterals.map String.toList = [nodeMaint, svcMaintNoColon, serf] := by
  repeat' apply And.intro
  all_goals first | rfl | decide

/-- `passingServices` (v0 result, v1 outer element, v2 total, v3 passing, v4 inner element; p0 checks, p1 statuses,
p2 strict; helper0 = isServiceCheck, helper1 = hasStatus): only service checks are considered; the inner loop runs
over the *same* list; on the same node: a check of the same service id counts (and counts as passing when its
status is accepted); then, in this order, critical serfHealth / `_node_maintenance` with any status / critical
`_service_maintenance:<id of the outer element>` leave the outer iteration; the element is appended iff
`passing != 0` and (not strict or total == passing). This is the model's `inner` / `keep`. -/
theorem passing_services_shape :
    Generated.C01.passingServicesActions =
      ["range p0",
       "> helper0(v1) => range p0",
       ">> v1.Node == v4.Node & v1.ServiceID == v4.ServiceID => v2++",
       ">> v1.Node == v4.Node & v1.ServiceID == v4.ServiceID & helper1(v4, p1) => v3++",
       ">> v1.Node == v4.Node & \"serfHealth\" == v4.CheckID & \"critical\" == v4.Status => continue L0",
       ">> v1.Node == v4.Node & \"serfHealth\" != v4.CheckID & \"_node_maintenance\" == v4.CheckID => continue L0",
       ">> v1.Node == v4.Node & \"serfHealth\" == v4.CheckID & \"critical\" != v4.Status & \"_node_maintenance\" == v4.CheckID => continue L0",
       ">> v1.Node == v4.Node & \"serfHealth\" != v4.CheckID & \"_node_maintenance\" != v4.CheckID & \"_service_maintenance:\" + v1.ServiceID == v4.CheckID & \"critical\" == v4.Status => continue L0",
       "> helper0(v1) & 0 != v3 & !p2 => v0 = append(v0, v1)",
       "> helper0(v1) & 0 != v3 & p2 & v2 == v3 => v0 = append(v0, v1)",
       "return v0"] := by
  repeat' apply And.intro
  all_goals first | rfl | decide

/-- `isServiceCheck` (helper0) and `hasStatus` (helper1) -/
theorem passing_helpers_shape :
    Generated.C01.passingHelperCount = 2 ∧
    Generated.C01.passingHelper0Actions =
      ["return \"\" != p0.ServiceID & \"serfHealth\" != p0.CheckID & \"_node_maintenance\" != p0.CheckID & !(strings.HasPrefix(p0.CheckID, \"_service_maintenance:\"))"] ∧
    Generated.C01.passingHelper1Actions = ["range p1",
       "> p0.Status == v0 => return true",
       "return false"] := by
  repeat' apply And.intro
  all_goals first | rfl | decide

/-! ### `service.go` -/

/-- `checksWithTagPrefix` (p0 prefix, p1 checks, v0 result, v1 element, v2 tag): serf / node-maintenance /
`_service_maintenance…` checks are appended unconditionally, any other check once if one of its tags, trimmed as
`routecmd.build` trims it (repair of D27), has the prefix -/
theorem filter_shape :
    Generated.C01.checksWithTagPrefixActions =
      ["range p1",
       "> \"serfHealth\" == v1.CheckID => v0 = append(v0, v1)",
       "> \"serfHealth\" != v1.CheckID & \"_node_maintenance\" == v1.CheckID => v0 = append(v0, v1)",
       "> \"serfHealth\" != v1.CheckID & \"_node_maintenance\" != v1.CheckID & strings.HasPrefix(v1.CheckID, \"_service_maintenance\") => v0 = append(v0, v1)",
       "> \"serfHealth\" != v1.CheckID & \"_node_maintenance\" != v1.CheckID & !(strings.HasPrefix(v1.CheckID, \"_service_maintenance\")) => range v1.ServiceTags",
       ">> strings.HasPrefix(strings.TrimSpace(v2), p0) => v0 = append(v0, v1)",
       ">> strings.HasPrefix(strings.TrimSpace(v2), p0) => break",
       "return v0"] := by
  repeat' apply And.intro
  all_goals first | rfl | decide

/-- `Watch`: health state → filter (configured prefix) → passing (of the *filter's result*, configured statuses,
strict flag = the field `f3` of the monitor) → makeConfig (of the passing result) → send; `f3` is initialised with
`checksRequired == "all"` (fields of the receiver are written by position: f0 client, f1 config, f2 dc, f3 strict) -/
theorem watch_pipeline_order :
    Generated.C01.watchFlow = ["State",
       "checksWithTagPrefix(recv.f1.TagPrefix, State#0)",
       "passingServices(checksWithTagPrefix#0, recv.f1.ServiceStatus, recv.f3)",
       "makeConfig(passingServices#0)",
       "send p0 <- makeConfig#0"] ∧
    Generated.C01.strictInit = ["f3 = p1.ChecksRequired == \"all\""] := by
  repeat' apply And.intro
  all_goals first | rfl | decide

/-- the join key is built the same way where the passing set is filled (`makeConfig`, followed into its helpers)
and where it is looked up (the function that queries `Catalog().Service`), and it is the (node, service id) pair — a
struct of two strings, compared field by field (the model's `keyPair`); the set is per service name; entries missing
from it are skipped; the order of events in `makeConfig`: fill the set, one goroutine per service, catalog lookup,
`routecmd.build`, reverse sort, join with newlines -/
theorem join_key_same_on_both_sides :
    Generated.C01.keyMake = Generated.C01.keyLookup ∧
    Generated.C01.keyMake = "$KEY{X.Node, X.ServiceID}" ∧
    Generated.C01.keyTypeFields = ["string", "string"] ∧
    Generated.C01.keyMakeName = "X.ServiceName" ∧
    Generated.C01.keyLookupSkipsMissing = true ∧
    Generated.C01.makeConfigEvents = ["store set[name][key]",
       "go",
       "Catalog.Service",
       "build",
       "sort.Sort",
       "sort.Reverse",
       "sort.StringSlice",
       "strings.Join \"\\n\""] := by
  repeat' apply And.intro
  all_goals first | rfl | decide

/-! ### faults and index anomalies -/

/-- the lookup function (`serviceConfig`; p0 service name, p1 passing set, r0 result): nothing for the empty name or
an empty set; the catalog is asked for *that name*; **on a lookup error it returns nil**; otherwise the commands built
in this call for the entries whose key is in the set (model: `joinedF`) -/
theorem service_config_nil_on_lookup_error :
    Generated.C01.lookupActions =
      ["\"\" == p0 => return nil",
       "\"\" != p0 & 0 == len(p1) => return nil",
       "\"\" != p0 & 0 != len(p1) => Service#0, _, Service#2 := recv.f0.Catalog().Service(p0, \"\", v0)",
       "\"\" != p0 & 0 != len(p1) & Service#2 != nil => return nil",
       "\"\" != p0 & 0 != len(p1) & Service#2 == nil => range Service#0",
       "> v3 => r0 = append(r0, build#0...)",
       "\"\" != p0 & 0 != len(p1) & Service#2 == nil => return r0"] := by
  repeat' apply And.intro
  all_goals first | rfl | decide

/-- `ServiceMonitor` keeps no state between rounds: its fields are a client, the configuration, a string and a bool
(whatever they are called), no method assigns to a field of the receiver, and the package has no package-level
variable — each emitted text is a function of the round's own answers (model: `watchOnceF` has no state argument) -/
theorem service_monitor_stateless :
    Generated.C01.serviceMonitorFieldTypes = ["*api.Client", "*config.Consul", "bool", "string"] ∧
    Generated.C01.serviceMonitorFieldWrites = 0 ∧
    Generated.C01.consulPackageVarCount = 0 := by
  repeat' apply And.intro
  all_goals first | rfl | decide

/-- `watchKV` (p2 channel, v0 remembered index, v1 remembered value, helper0 = listKV called with the remembered
index as wait index): on an error pause; otherwise publish and remember iff the value or the index differs — a
*change* test, no ordering comparison on the index (an index that goes backwards is a change like any other).
`Watch` only stores the index, it never compares it. -/
theorem watchers_only_test_for_change :
    Generated.C01.watchKVActions =
      ["for",
       "> helper0#0, helper0#1, helper0#2 := helper0(p0, p1, v0, p3, p4, p5)",
       "> helper0#2 != nil => call time.Sleep(time.Second)",
       "> helper0#2 == nil & helper0#0 != v1 => send p2 <- helper0#0",
       "> helper0#2 == nil & helper0#0 == v1 & helper0#1 != v0 => send p2 <- helper0#0",
       "> helper0#2 == nil & helper0#0 != v1 => v1, v0 = helper0#0, helper0#1",
       "> helper0#2 == nil & helper0#0 == v1 & helper0#1 != v0 => v1, v0 = helper0#0, helper0#1"] ∧
    Generated.C01.watchIndexWrites = ["v0 = State#1.LastIndex"] ∧
    Generated.C01.watchIndexConds = [] := by
  repeat' apply And.intro
  all_goals first | rfl | decide

/-! ### `main.go` -/

/-- `watchBackend` (v0 nextTable, v1 lastTable, v2 svccfg, v3 mancfg, v6 the buffer): receive one event; service
text, "\n", manual text; skip when equal to the remembered text; `NewTable`; only if it succeeded `SetTable` and
then `lastTable = nextTable`; `SetTable` is called nowhere else in the function. -/
theorem watch_backend_loop_shape :
    Generated.C01.watchBackendLoop =
      ["select v2 = <-v7 | v3 = <-WatchManual#0",
       "call v6.Reset()",
       "call v6.WriteString(v2)",
       "call v6.WriteString(\"\\n\")",
       "call v6.WriteString(v3)",
       "v0 = v6.String()",
       "v0 != v1 => NewTable#0, v8 := route.NewTable(v6)",
       "v0 != v1 & nil == v8 => call route.SetTable(NewTable#0)",
       "v0 != v1 & nil == v8 => v1 = v0"] ∧
    Generated.C01.watchBackendSetTableCalls = 1 := by
  repeat' apply And.intro
  all_goals first | rfl | decide

/-- the alias registration sits between the change test and `NewTable`, is called with the aliases parsed from the
new text, and its result is discarded (an expression statement): the model's `stepOutReg`, whose table part is
`stepOut` for every registration outcome (`register_outcome_irrelevant`); `NewTable`'s only guard is the change test
(`watch_backend_loop_shape`). -/
theorem register_result_discarded :
    Generated.C01.watchBackendRegister = ["v0 != v1 => call registry.Default.Register(ParseAliases#0)"] := by
  decide

/-! ### the hand-over from the watchers to the table loop -/

/-- Every text a watcher computes reaches the table loop: no channel send in package `registry/consul` is the
communication of a `select` clause (a send that could be skipped or lose a race — `select { case ch <- v: default: }`),
and the channel `WatchServices` / `WatchManual` return is the one the watcher goroutine was started with. This is what
makes the event sequence of the table loop a `Merge` of the two watchers' sequences (`Props/C01Sys.lean`:
`system_quiescent`; the negation for the other design: `nonblocking_handover_loses_final_state`). An order of effects
between goroutines — no sampling of runs establishes it. -/
theorem watchers_hand_over_every_text :
    Generated.C01.consulSelectSends = 0 ∧
    Generated.C01.handOverWatchServicesSameChannel = true ∧
    Generated.C01.handOverWatchManualSameChannel = true := by
  repeat' apply And.intro
  all_goals first | rfl | decide

end Fabio.Props.C01Facts
