import Fabio.Generated.C17
import Fabio.Model.C17
/-!
Obligations over the facts regenerated from `/repo` on every run: what the model of
`proxy/gzip/gzip_handler.go` silently assumes about the source.

The facts are canonical, ordered, guarded event lists ("traces") of the exported entry points, produced by
`tools/factgen/c17.go` (read its header): constants inlined, unexported helpers inlined with their arguments
substituted (`@k` = a helper inlined inside an expression, bodies in `inlinedDefs`), identifiers printed by
role (`recv`, `p0`…, `c0`… for the handler closure's parameters, `F[type]` for an unexported field,
`V[type]`/initialiser for an unexported package variable, a local = the value it was assigned), early returns
read as if/else, negative conditions swapped, `len(e) > 0` read as `e != ""`. Renaming, extracting/inlining
helpers, if/else ↔ switch ↔ early return and these expression forms leave them unchanged; a change of what is
called, stored or returned, in which order and under which condition, does not.
-/
namespace Fabio.Props.C17Facts
open Fabio Fabio.Model.C17
open Fabio.Generated.C17

/-- the header names, encodings and separators the model uses occur as literals … -/
theorem literals_present :
    [hVary, hAccept, hAcceptEncoding, hContentEncoding, hContentType, hContentLength, encGzip,
     ",", ";", "=", "q", "Q", "text/event-stream"].all (fun l => stringLiterals.contains l) = true := by decide

/-- … and every header-name literal is already canonical, so the direct map index `Header()["Content-Type"]`
in `Write` and `Header().Get/Set/Del` talk about the same key. -/
theorem literals_canonical :
    (stringLiterals.filter (fun l => isPrefix "Accept".toList l.toList || isPrefix "Content-".toList l.toList ||
        l == "Vary")).all
      (fun k => canonKey k == k) = true := by decide

/-- The handler: add `Vary`; wrap — one writer, one deferred `Close`, then the wrapped handler — exactly when
`acceptsGzip` (= `@2`) holds and the method is not HEAD; otherwise call the handler on the bare writer. -/
theorem handler_trace_pinned :
    handlerTrace = ["c0.Header().Add(\"Vary\", \"Accept-Encoding\")",
      "@2 && c1.Method != http.MethodHead => defer NewGzipResponseWriter(c0, p1).Close()",
      "@2 && c1.Method != http.MethodHead => p0.ServeHTTP(NewGzipResponseWriter(c0, p1), c1)",
      "(!@2 || c1.Method == http.MethodHead) => p0.ServeHTTP(c0, c1)"] := by rfl

/-- `acceptsGzip` (`@2`, with `zeroWeight` = `@1`), `bodyAllowedForStatus` (`@3`) and `isCompressable` (`@4`) as
inlined: Accept searched for the blacklisted types by substring; Accept-Encoding split at commas, each element
cut at the first semicolon, the trimmed coding compared with `gzip`, the first hit decides by its weight; the
first parameter named q/Q decides the weight; 204/304 have no body; an encoded response is not compressable,
otherwise the expression decides on the Content-Type. -/
theorem helpers_pinned :
    inlinedDefs = ["@1 = {range strings.Split(strings.Cut(elem(strings.Split(c1.Header.Get(\"Accept-Encoding\"), \",\")), \";\")#1, \";\") => strings.TrimSpace(strings.Cut(elem(strings.Split(strings.Cut(elem(strings.Split(c1.Header.Get(\"Accept-Encoding\"), \",\")), \";\")#1, \";\")), \"=\")#0); range strings.Split(strings.Cut(elem(strings.Split(c1.Header.Get(\"Accept-Encoding\"), \",\")), \";\")#1, \";\") && (strings.TrimSpace(strings.Cut(elem(strings.Split(strings.Cut(elem(strings.Split(c1.Header.Get(\"Accept-Encoding\"), \",\")), \";\")#1, \";\")), \"=\")#0) == \"q\" || strings.TrimSpace(strings.Cut(elem(strings.Split(strings.Cut(elem(strings.Split(c1.Header.Get(\"Accept-Encoding\"), \",\")), \";\")#1, \";\")), \"=\")#0) == \"Q\") => return strconv.ParseFloat(strings.TrimSpace(strings.Cut(elem(strings.Split(strings.Cut(elem(strings.Split(c1.Header.Get(\"Accept-Encoding\"), \",\")), \";\")#1, \";\")), \"=\")#1), 64)#1 == nil && strconv.ParseFloat(strings.TrimSpace(strings.Cut(elem(strings.Split(strings.Cut(elem(strings.Split(c1.Header.Get(\"Accept-Encoding\"), \",\")), \";\")#1, \";\")), \"=\")#1), 64)#0 == 0; return false}",
      "@2 = {range []string{\"text/event-stream\"} && strings.Contains(c1.Header.Get(\"Accept\"), elem([]string{\"text/event-stream\"})) => return false; range strings.Split(c1.Header.Get(\"Accept-Encoding\"), \",\") && strings.TrimSpace(strings.Cut(elem(strings.Split(c1.Header.Get(\"Accept-Encoding\"), \",\")), \";\")#0) == \"gzip\" => return !@1; return false}",
      "@3 = {return p0 != http.StatusNoContent && p0 != http.StatusNotModified}",
      "@4 = {recv.Header().Get(\"Content-Encoding\") == \"\" => return recv.F[*regexp.Regexp].MatchString(recv.Header().Get(\"Content-Type\")); recv.Header().Get(\"Content-Encoding\") != \"\" => return false}"] := by rfl

/-- `WriteHeader`: a 1xx status is passed on and nothing else happens; otherwise, only while undecided
(`F[io.Writer] == nil`): if the status allows a body and the response is compressable — delete Content-Length,
set Content-Encoding: gzip, take a writer from the pool, reset it onto the response, select it — else select the
response itself; finally forward the status. In this order. -/
theorem writeHeader_trace_pinned :
    writeHeaderTrace = ["p0 >= 100 && p0 <= 199 => recv.ResponseWriter.WriteHeader(p0)",
      "(p0 < 100 || p0 > 199) && recv.F[io.Writer] == nil && @3 && @4 => recv.Header().Del(\"Content-Length\")",
      "(p0 < 100 || p0 > 199) && recv.F[io.Writer] == nil && @3 && @4 => recv.Header().Set(\"Content-Encoding\", \"gzip\")",
      "(p0 < 100 || p0 > 199) && recv.F[io.Writer] == nil && @3 && @4 => recv.F[*gzip.Writer] = V[sync.Pool].Get().(*gzip.Writer)",
      "(p0 < 100 || p0 > 199) && recv.F[io.Writer] == nil && @3 && @4 => recv.F[*gzip.Writer].Reset(recv.ResponseWriter)",
      "(p0 < 100 || p0 > 199) && recv.F[io.Writer] == nil && @3 && @4 => recv.F[io.Writer] = recv.F[*gzip.Writer]",
      "(p0 < 100 || p0 > 199) && recv.F[io.Writer] == nil && (!@3 || !@4) => recv.F[io.Writer] = recv.ResponseWriter",
      "(p0 < 100 || p0 > 199) => recv.ResponseWriter.WriteHeader(p0)"] := by rfl

/-- `Write`: while undecided, fill in a sniffed Content-Type when the map has none, then `WriteHeader(200)`;
then write to whatever was selected. -/
theorem write_trace_pinned :
    writeTrace = ["recv.F[io.Writer] == nil && !recv.Header()[\"Content-Type\"]#1 => recv.Header().Set(\"Content-Type\", http.DetectContentType(p0))",
      "recv.F[io.Writer] == nil => recv.WriteHeader(http.StatusOK)",
      "return recv.F[io.Writer].Write(p0)"] := by rfl

/-- `Close` closes the gzip writer (which flushes it to the response) and only then puts it back. -/
theorem close_then_put :
    closeTrace = ["recv.F[*gzip.Writer] != nil => recv.F[*gzip.Writer].Close()",
      "recv.F[*gzip.Writer] != nil => V[sync.Pool].Put(recv.F[*gzip.Writer])"] := by rfl

/-- the pool is touched from exactly two entry points (`Get` under `WriteHeader`, `Put` under `Close`), and the
writer's fields are stored to under `WriteHeader` only: the decision is taken in one place. -/
theorem pool_and_decision_sites :
    poolGetIn = ["WriteHeader"] ∧ poolPutIn = ["Close"] ∧
    fieldStores = ["WriteHeader: F[*gzip.Writer]",
      "WriteHeader: F[io.Writer]",
      "WriteHeader: F[io.Writer]"] := by decide

/-- The method set of `*GzipResponseWriter` that matters for interface satisfaction: the exported declared
methods plus what the embedded *interface* `http.ResponseWriter` promotes (`Header`, `Write`, `WriteHeader`).
In particular no `Flush`, `ReadFrom`, `Push`, `Unwrap`: a handler's assertion to `http.Flusher` fails, which is
what the model's `fl` step says. Any new exported method or embedded field changes the machine and has to be
modelled first. (Field names and unexported helper methods are free.) -/
theorem writer_method_set :
    writerMethods = ["Close", "Hijack", "Write", "WriteHeader"] ∧
    writerEmbedded = ["http.ResponseWriter"] ∧
    writerFieldTypes = ["*gzip.Writer", "*regexp.Regexp", "io.Writer"] := by decide

/-- the proxy installs the handler exactly when an expression is configured, with that expression. -/
theorem proxy_wraps_when_configured :
    proxyWrap = ["recv.Config.GZIPContentTypes != nil => gzip.NewGzipHandler(_, recv.Config.GZIPContentTypes)"] := by rfl

/-- the expression the streams use most is the documented one; the built-in default is "off". -/
theorem doc_pattern_pinned :
    docPattern = "^(text/.*|application/(javascript|json|font-woff|xml)|.*\\+(json|xml))(;.*)?$" ∧
    defaultSetsGzipPattern = false := by decide

end Fabio.Props.C17Facts
