import Fabio.Generated.C17
import Fabio.Model.C17
/-!
OBLIGATIONS over the facts regenerated from `/repo` on every run: what the proof chain for
`proxy/gzip/gzip_handler.go` needs and no correspondence stream can establish by running the code — the state the
responses of one process share, who may touch the request, the program order of a handler on the writer pool (the
hypothesis of `writer_exclusively_owned`), the optional interfaces the writer offers to ANY handler, and the
wiring in `main.go` that no harness executes. The shape of the sequential code (event lists of the handler,
`WriteHeader`, `Write`, the helpers, literals) is pinned in `C17Pins.lean` as change detectors: its input/output
behaviour is compared with the model by the streams on every run.

The facts are canonical, ordered, guarded events `guard && guard => what` of the exported entry points, produced
by `tools/factgen/c17.go` (read its header): unexported helpers inlined with their arguments substituted,
identifiers printed by role (`recv`, `p0`…, `c0`/`c1` = the handler closure's writer/request, `F[type]` = an
unexported field, `V[type]` = an unexported package variable). The statements below are relations between events
(membership, order, count, same guards), not equalities with spelled-out lists.
-/
namespace Fabio.Props.C17Facts
open Fabio Fabio.Model.C17
open Fabio.Generated.C17
set_option maxRecDepth 20000

/-! ### reading events

`tools/factgen/c17.go` also ships every event read back into its parts
`(guards, kind, recv, name, args)`: kind `defer`/`call` with receiver, method and canonical arguments; `store` with
`recv` = left-hand side and `args` = [right-hand side]; `return` with `args` = results. -/

structure Ev where
  guards : List String
  kind : String
  recv : String
  name : String
  args : List String
deriving DecidableEq

def Ev.of (t : List String × String × String × String × List String) : Ev :=
  { guards := t.1, kind := t.2.1, recv := t.2.2.1, name := t.2.2.2.1, args := t.2.2.2.2 }

def handlerEvs : List Ev := handlerEvents.map Ev.of
def writeHeaderEvs : List Ev := writeHeaderEvents.map Ev.of
def closeEvs : List Ev := closeEvents.map Ev.of

/-- `a` occurs, `b` occurs, and the first `a` is before the first `b`. -/
def before (l : List Ev) (a b : Ev → Bool) : Bool :=
  match l.findIdx? a, l.findIdx? b with
  | some i, some j => decide (i < j)
  | _, _ => false

/-! ### shared state -/

/-- The package has two package-level variables: the `[]string` of refused Accept types and the writer pool.
No function stores to (or takes the address of) either, the only methods called on them are the pool's
`Get`/`Put`, and the handler closure stores to no variable of the enclosing `NewGzipHandler`. So the pool is the
only thing two responses of one process share — the premise of `history_independent`. A realistic change that no
sampled history needs to expose: memoising the regexp outcome per media type in a package-level map. -/
theorem package_state_is_the_pool :
    pkgVarTypes = ["[]string", "sync.Pool"] ∧ pkgVarStores = [] ∧
    pkgVarCalls = ["V[sync.Pool].Get", "V[sync.Pool].Put"] ∧ handlerSharedStores = [] := by decide

/-- The handler only READS the request — its method and `Header.Get` — and hands it on: no store through it,
no other method on it or its header map (`Del`, `Set`, `Clone`, `WithContext` …). The reverse proxy and the
transport therefore see the client's own `Accept-Encoding`; without it the transport would ask for gzip itself and
decode encoded upstream responses behind the writer's back (`request_forwarded_unchanged`). The stream
`c17.proxy` shows the effect for the headers it generates; the statement is about every header. -/
theorem request_read_only :
    requestStores = [] ∧
    requestUses.all (fun u => ["c1", "c1.Method", "c1.Header.Get(", "c1.Header.Values("].contains u) = true := by
  decide

/-! ### program order of one handler on the pool (hypothesis of `writer_exclusively_owned`) -/

/-- the deferred calls of the handler closure -/
def deferred : List Ev := handlerEvs.filter (fun e => e.kind == "defer")

/-- `Close` is deferred exactly once per request, on a writer that wraps the incoming one, BEFORE the wrapped
handler runs on that same writer and under the same condition; every other call of the wrapped handler gets the
bare writer. (So a handler `Put`s at most once, after everything it wrote — also when the wrapped handler panics.) -/
theorem close_deferred_once_before_serving :
    (match deferred with
     | [d] =>
       d.name == "Close" && d.args == [] &&
       isPrefix "NewGzipResponseWriter(c0,".toList d.recv.toList &&
       before handlerEvs (· == d)
         (fun e => e.guards == d.guards && e.kind == "call" && e.name == "ServeHTTP" && e.args == [d.recv, "c1"]) &&
       (handlerEvs.filter (fun e => e.name == "ServeHTTP")).all
         (fun e => e.kind == "call" && ((e.guards == d.guards && e.args == [d.recv, "c1"]) || e.args == ["c0", "c1"]))
     | _ => false) = true := by decide

def isGet (e : Ev) : Bool :=
  e.args == ["V[sync.Pool].Get().(*gzip.Writer)"] || (e.recv == "V[sync.Pool]" && e.name == "Get")

/-- `Get` is reachable from `WriteHeader` only and `Put` from `Close` only, one call site each; inside
`WriteHeader` the `Get` is guarded by "no writer selected yet", its result goes into the writer's gzip field, and
later under the same guards that field is selected as the writer — so a handler that holds a pooled writer never
takes a second one. -/
theorem get_only_when_undecided :
    poolGetIn = ["WriteHeader"] ∧ poolPutIn = ["Close"] ∧
    (match writeHeaderEvs.filter isGet with
     | [g] =>
       g.guards.contains "recv.F[io.Writer] == nil" && g.kind == "store" && g.recv == "recv.F[*gzip.Writer]" &&
       before writeHeaderEvs (· == g)
         (fun e => e.guards == g.guards && e.kind == "store" && e.recv == "recv.F[io.Writer]" && e.args == [g.recv])
     | _ => false) = true := by decide

/-- `Close` closes the gzip writer (which flushes it to the response) and only THEN puts it back, once, and what
it puts back is the field the `Get` went into: a writer in the pool is never still being written by the response
that returned it. After the `Put` the field is cleared, under the same guard that all of `Close` runs under ("the
field is set"): `Close` is exported, and a second call — by the wrapped handler, or by whoever uses
`NewGzipResponseWriter` directly with a `defer` and an explicit call — must not `Put` the writer a second time
(`served_trace` says one `Put` per response; before the repair b9247b5 a second `Close` put it in twice and two
responses in flight shared it). -/
theorem close_then_put :
    (before closeEvs
       (fun e => e.kind == "call" && e.recv == "V[sync.Pool]" && e.name == "Put" && e.args == ["recv.F[*gzip.Writer]"])
       (fun e => e.kind == "store" && e.recv == "recv.F[*gzip.Writer]" && e.args == ["nil"]) &&
     (closeEvs.filter (fun e => e.kind == "store")).all (fun e => e.recv == "recv.F[*gzip.Writer]" && e.args == ["nil"])) = true ∧
    (before closeEvs
       (fun e => e.kind == "call" && e.recv == "recv.F[*gzip.Writer]" && e.name == "Close")
       (fun e => e.kind == "call" && e.recv == "V[sync.Pool]" && e.name == "Put" && e.args == ["recv.F[*gzip.Writer]"]) &&
     (closeEvs.filter (fun e => e.name == "Put")).length == 1 &&
     closeEvs.all (fun e => e.guards == ["recv.F[*gzip.Writer] != nil"])) = true := by decide

/-! ### what the writer offers to a handler -/

/-- The method set of `*GzipResponseWriter` that matters for interface satisfaction: the exported declared methods
plus what the embedded *interface* `http.ResponseWriter` promotes (`Header`, `Write`, `WriteHeader`). In particular
no `Flush`, `FlushError`, `Unwrap`, `ReadFrom`, `Push`: a handler's assertion to `http.Flusher` fails and
`http.NewResponseController(w).Flush()` reports "not supported", which is what the model's `fl` step says; any of
these methods would reach the underlying writer without the decision having been taken. The streams ask the
`Flusher`/`ResponseController` questions; no stream can ask for every optional interface a handler might. -/
theorem writer_method_set :
    writerMethods = ["Close", "Hijack", "Write", "WriteHeader"] ∧
    writerEmbedded = ["http.ResponseWriter"] := by decide

/-! ### wiring no harness executes -/

/-- `main.go` builds the proxy with the `Proxy` part of the loaded configuration (so `proxy.gzip.contenttype`
arrives at `HTTPProxy.ServeHTTP`) and with `transport.NewTransport(nil)` — the transport the stream `c17.proxy`
builds the same way. -/
theorem main_wires_config_and_transport :
    mainProxyConfig = ["param[*config.Config].Proxy"] ∧
    mainProxyTransport = ["transport.NewTransport(nil)"] := by decide

/-- nothing above is vacuous: the events exist -/
example : deferred.length = 1 ∧ (writeHeaderEvs.filter isGet).length = 1 ∧ closeEvs.length = 3 := by decide

end Fabio.Props.C17Facts
