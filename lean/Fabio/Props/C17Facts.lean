import Fabio.Generated.C17
import Fabio.Model.C17
/-!
Obligations over the facts regenerated from `/repo` on every run: what the model of
`proxy/gzip/gzip_handler.go` silently assumes about the source (literals, guards, order of calls, who touches
the pool, how the proxy installs the handler).
-/
namespace Fabio.Props.C17Facts
open Fabio Fabio.Model.C17
open Fabio.Generated.C17

/-- the header-name literals are the ones the model uses … -/
theorem literals_pinned :
    headerVary = hVary ∧ headerAccept = hAccept ∧ headerAcceptEncoding = hAcceptEncoding ∧
    headerContentEncoding = hContentEncoding ∧ headerContentType = hContentType ∧
    headerContentLength = hContentLength ∧ encodingGzip = encGzip := by decide

/-- … and they are already canonical, so the direct map index `Header()[headerContentType]` in `Write` and
`Header().Get/Set/Del` talk about the same key. -/
theorem literals_canonical :
    [headerVary, headerAccept, headerAcceptEncoding, headerContentEncoding, headerContentType,
     headerContentLength].all (fun k => canonKey k == k) = true := by decide

theorem blacklist_pinned : Generated.C17.blacklistedAccept = Model.C17.blacklistedAccept := by decide

/-- `WriteHeader` passes a 1xx status on and returns; otherwise it decides only while `grw.writer == nil`, compresses only when the status allows a body and
`isCompressable` holds, and always ends by forwarding the status. -/
theorem writeHeader_shape :
    writeHeaderStmts = ["if code >= 100 && code <= 199", "if grw.writer == nil", "grw.ResponseWriter.WriteHeader(code)"] ∧
    informationalBranch = ["grw.ResponseWriter.WriteHeader(code)", "return"] ∧
    writeHeaderGuard = "grw.writer == nil" ∧
    compressCond = "bodyAllowedForStatus(code) && isCompressable(grw.Header(), grw.contentTypes)" := by decide

/-- the compress branch deletes Content-Length, sets Content-Encoding: gzip, takes a writer from the pool and
resets it onto the response, in this order; the other branch writes straight through. -/
theorem compress_branch_pinned :
    compressBranch = ["grw.Header().Del(headerContentLength)", "grw.Header().Set(headerContentEncoding, encodingGzip)",
      "gzipWriterPool.Get().(*gzip.Writer)", "grw.gzipWriter.Reset(grw.ResponseWriter)", "grw.gzipWriter"] ∧
    plainBranch = ["grw.ResponseWriter"] := by decide

/-- The method set of `*GzipResponseWriter`: the four declared methods plus what the embedded *interface*
`http.ResponseWriter` promotes (`Header`, `Write`, `WriteHeader` — the latter two shadowed). In particular no
`Flush`, `ReadFrom`, `Push`, `Unwrap`: a handler's assertion to `http.Flusher` fails, which is what the model's
`fl` step says. Any new method or embedded field changes the machine and has to be modelled first. -/
theorem writer_method_set :
    writerMethods = ["Close", "Hijack", "Write", "WriteHeader"] ∧
    writerEmbedded = ["http.ResponseWriter"] ∧
    writerFields = ["writer io.Writer", "gzipWriter *gzip.Writer", "contentTypes *regexp.Regexp"] := by decide

/-- the decision is taken in `WriteHeader` and nowhere else. -/
theorem decision_single_site :
    writerAssignments = ["WriteHeader: grw.gzipWriter = gzipWriterPool.Get().(*gzip.Writer)",
      "WriteHeader: grw.writer = grw.gzipWriter", "WriteHeader: grw.writer = grw.ResponseWriter"] := by decide

/-- `Write`: while undecided, fill in a sniffed Content-Type when the map has none, then `WriteHeader(200)`;
then write to whatever was decided. -/
theorem write_shape :
    writeStmts = ["if grw.writer == nil", "return grw.writer.Write(b)"] ∧
    writeUndecided = ["if !ok", "grw.WriteHeader(http.StatusOK)"] ∧
    sniffGuard = "_, ok := grw.Header()[headerContentType]; !ok" ∧
    sniffBranch = ["grw.Header().Set(headerContentType, http.DetectContentType(b))"] := by decide

/-- `Close` closes the gzip writer (which flushes it to the response) and only then puts it back. -/
theorem close_then_put :
    closeStmts = ["if grw.gzipWriter != nil"] ∧
    closeBranch = ["grw.gzipWriter.Close()", "gzipWriterPool.Put(grw.gzipWriter)"] := by decide

/-- the pool is touched in exactly two places: `Get` in `WriteHeader`, `Put` in `Close`. -/
theorem pool_sites : poolGetIn = ["WriteHeader"] ∧ poolPutIn = ["Close"] := by decide

/-- the handler adds `Vary`, wraps only for accepting non-HEAD requests, and defers exactly one `Close`. -/
theorem handler_shape :
    handlerStmts = ["w.Header().Add(headerVary, headerAcceptEncoding)", "if acceptsGzip(r) && r.Method != http.MethodHead"] ∧
    handlerGzipBranch = ["NewGzipResponseWriter(w, contentTypes)", "defer gzWriter.Close()", "h.ServeHTTP(gzWriter, r)"] ∧
    handlerPlainBranch = ["h.ServeHTTP(w, r)"] ∧ handlerCloseCalls = 1 := by decide

theorem isCompressable_shape :
    isCompressableStmts = ["if header.Get(headerContentEncoding) != \"\"", "return contentTypes.MatchString(header.Get(headerContentType))"] ∧
    isCompressableBranch = ["return false"] ∧
    bodyAllowedForStatusStmts = ["return code != http.StatusNoContent && code != http.StatusNotModified"] := by decide

/-- `acceptsGzip`: Accept is searched for the blacklisted types by substring; Accept-Encoding is split at
commas, each element cut at the first semicolon, the trimmed coding compared with `gzip`, the first hit decides
by its weight; `zeroWeight` takes the first parameter named q/Q. -/
theorem acceptsGzip_shape :
    acceptsGzipCalls = ["r.Header.Get(headerAccept)", "strings.Contains(accept, contentType)",
      "strings.Split(r.Header.Get(headerAcceptEncoding), \",\")", "r.Header.Get(headerAcceptEncoding)",
      "strings.Cut(enc, \";\")", "strings.TrimSpace(coding)", "zeroWeight(params)"] ∧
    acceptsGzipReturns = ["false", "!zeroWeight(params)", "false"] ∧
    acceptsGzipConds = ["strings.Contains(accept, contentType)", "strings.TrimSpace(coding) == encodingGzip"] ∧
    zeroWeightCalls = ["strings.Split(params, \";\")", "strings.Cut(p, \"=\")", "strings.TrimSpace(name)",
      "strconv.ParseFloat(strings.TrimSpace(value), 64)", "strings.TrimSpace(value)"] ∧
    zeroWeightReturns = ["err == nil && q == 0", "false"] ∧
    zeroWeightConds = ["name = strings.TrimSpace(name); name == \"q\" || name == \"Q\""] := by decide

/-- the proxy installs the handler exactly when an expression is configured, with that expression. -/
theorem proxy_wraps_when_configured :
    proxyWrapCond = "p.Config.GZIPContentTypes != nil" ∧
    proxyWrapBranch = ["gzip.NewGzipHandler(h, p.Config.GZIPContentTypes)"] := by decide

/-- the expression the streams use most is the documented one; the built-in default is "off". -/
theorem doc_pattern_pinned :
    docPattern = "^(text/.*|application/(javascript|json|font-woff|xml)|.*\\+(json|xml))(;.*)?$" ∧
    defaultSetsGzipPattern = false := by decide

end Fabio.Props.C17Facts
