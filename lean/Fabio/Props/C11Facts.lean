import Fabio.Generated.C11
import Fabio.Model.C11
/-!
Obligations over the facts regenerated from `/repo/cert` on every run.

The facts are extracted by role and by event, not by spelling (`tools/factgen/c11.go`): variables are named by
what they are (i-th parameter, "assigned from the loader call", "the value sent on the channel"), helper calls
are followed, package constants are resolved and `switch` is normalised to `if`. A behaviour-preserving
refactoring (renaming locals, extracting a helper, a named constant for `time.Second`, switch ↔ if) leaves
them unchanged; a change of the loop's shape does not.
-/
namespace Fabio.Props.C11Facts
open Fabio Fabio.Generated.C11

/-- One iteration of `watch` is exactly `Model.C11.step` with `sleepOnMakeErr = true`: one loader call on the
path; on a loader error sleep(refresh) and retry; on material equal (`reflect.DeepEqual`) to the last published
one sleep(refresh) and retry; one `loadCertificates` call on the loaded material; on its error
**sleep(refresh)** and retry (the repair of D15); otherwise one send of the made certificates on the channel,
then `last = next`, then return iff `once`. Nothing is sent and `last` is not touched on any retry path. -/
theorem watch_loop_is_the_step_machine :
    watchLoopEvents =
      ["load", "if load-error: sleep continue", "if unchanged: sleep continue", "make:loadCertificates",
       "if make-error: sleep continue", "send", "remember", "if once: return"] := by decide

/-- `refresh` is raised to `time.Second` before the loop (`Model.C11.effRefresh`); `once` is `refresh <= 0`
evaluated before the floor is applied (`Model.C11.once`). -/
theorem sleeps_are_floored :
    refreshFloor = "time.Second" ∧ onceExpr = "refresh <= 0" ∧ onceBeforeFloor = true := by decide

/-- A handshake performs exactly one atomic load (counting through `Store.certstore` and every helper it
calls) and one call of `getCertificate`, which receives the loaded value by value and touches no shared state
itself (`Op.hsLoad` / `Op.hsAnswer`). -/
theorem handshake_loads_store_once :
    handshakeAtomicLoads = 1 ∧ handshakeDecisionCalls = 1 ∧ getCertificateSharedAccesses = 0 ∧
    getCertificateTakesLoadedValue = true := by decide

/-- `SetCertificates` builds the index first and then performs the single atomic store, and writes nothing
afterwards (`Op.publish` stores a complete `mkPublished cs`); `TLSConfig` applies updates at one place, inside
the range over the source's channel (sets are applied in the order they are published). -/
theorem index_built_before_store :
    setCertificatesOrder = ["build-index", "atomic-store"] ∧ tlsConfigApplySites = 1 ∧
    tlsConfigApplySitesInRangeOverSource = 1 := by decide

/-- The requested `ServerName` passes through `strings.ToLower` exactly once and every key written into the
name index does (`Model.C11.normName`, `Model.C11.keyOf`; D15b). -/
theorem names_lowered_on_both_sides :
    requestLowered = ["field:ServerName"] ∧ indexKeyWrites = 2 ∧ indexKeyWritesLowered = indexKeyWrites := by decide

/-- `loadCertificates` sorts the certificate file names once and builds its result by ranging over that sorted
slice; the three suffixes are tested in the modelled order (`Model.C11.classify`). -/
theorem load_sorted_by_file_name :
    loadCertificatesSortCalls = 1 ∧ resultBuiltFromSortedFileNames = true ∧
    loadCertificatesSuffixes = ["-cert.pem", "-key.pem", ".pem"] := by decide

end Fabio.Props.C11Facts
