import Fabio.Generated.C11
import Fabio.Model.C11
/-! Obligations over the facts regenerated from `/repo/cert` on every run. -/
namespace Fabio.Props.C11Facts
open Fabio Fabio.Generated.C11

/-- `watch` has exactly the three `continue` sites the step machine models (loader error, unchanged material,
unusable material) and **each of them is preceded by a `time.Sleep` in its block** — the model's
`sleepOnMakeErr = true`, the hypothesis of `watch_no_spin`. -/
theorem every_continue_sleeps :
    continueConds = ["err != nil", "reflect.DeepEqual(next, last)", "err != nil"] ∧
    continueSleeps = [true, true, true] := by decide

/-- Every sleep is for `refresh`, which was raised to one second before the loop; `once` is `refresh <= 0`
evaluated before the floor is applied (`Model.C11.effRefresh`, `Model.C11.once`). -/
theorem sleeps_are_floored :
    sleepArgs.all (· == "refresh") = true ∧ refreshFloorCond = "refresh < time.Second" ∧
    refreshFloorAssign = "refresh = time.Second" ∧ onceExpr = "refresh <= 0" := by decide

/-- One loader call, one `loadCertificates` call and one channel send per iteration (`Model.C11.step`). -/
theorem one_load_one_send_per_iteration :
    watchLoaderCalls = 1 ∧ watchMakeCalls = 1 ∧ watchSends = 1 := by decide

/-- A handshake loads the store exactly once and hands that value to `getCertificate`, which reads no shared
state itself (`Op.hsLoad` / `Op.hsAnswer`). -/
theorem handshake_loads_store_once :
    handshakeStoreLoads = 1 ∧ handshakeGetCertificateCalls = 1 ∧ handshakeGetCertificateArg0 = "store.certstore()" ∧
    certstoreLoads = 1 ∧ getCertificateSharedReads = 0 ∧ getCertificateParam0Type = "certstore" := by decide

/-- `SetCertificates` builds the index first and then performs the single atomic store (`Op.publish` stores a
complete `mkPublished cs`); `TLSConfig` has one place that applies updates. -/
theorem index_built_before_store :
    setCertificatesOrder = ["cs.BuildNameToCertificate", "s.cs.Store"] ∧ tlsConfigSetCertificatesCalls = 1 := by decide

/-- The requested name and every index key are lower-cased (`Model.C11.normName`, `Model.C11.keyOf`). -/
theorem names_lowered_on_both_sides :
    requestLowered = ["clientHello.ServerName"] ∧ indexKeysLowered = true ∧ indexKeys.length = 2 := by decide

/-- `loadCertificates` sorts the certificate file names and distinguishes the three suffixes in the modelled
order (`Model.C11.classify`). -/
theorem load_sorted_by_file_name :
    loadCertificatesSorts = ["n"] ∧ loadCertificatesSuffixes = ["-cert.pem", "-key.pem", ".pem"] := by decide

end Fabio.Props.C11Facts
