import Fabio.Generated.C11
import Fabio.Model.C11
/-!
OBLIGATIONS over the facts regenerated from `/repo/cert` on every run (`tools/factgen/c11.go`): statements the
proof chain needs and that no correspondence stream can establish by running the code — they are about what
other goroutines can observe between two steps, not about the input/output behaviour of sequential code. Each
names the breaking change it is there to exclude and is stated over the weakest syntactic observation that still
excludes it (a count, a membership, "is the last event"), not over a spelled-out statement list.
Pins of sequential code whose behaviour a stream compares with the model on every run live in `C11Pins.lean`
(change detectors). Facts are extracted by role and event, not by spelling (see the extractor). Core only, `decide`.
-/
namespace Fabio.Props.C11Facts
open Fabio Fabio.Generated.C11

/-- `Op.hsLoad` / `Op.hsAnswer`: a handshake performs exactly one atomic load of the store (counted through
`Store.certstore` and every helper) and one call of `getCertificate`, which receives the loaded value *by value* and
touches no shared state itself. Excludes: a second load inside the decision (index from one set, default
certificate from another — a mixture only a replacement landing between the two loads exposes; `c11.race` can
miss the window), or passing the store instead of the snapshot. -/
theorem handshake_loads_store_once :
    handshakeAtomicLoads = 1 ∧ handshakeDecisionCalls = 1 ∧ getCertificateSharedAccesses = 0 ∧
    getCertificateTakesLoadedValue = true := by decide

/-- `Op.publish` stores a complete `mkPublished cs` in one step: in `SetCertificates` there is exactly one atomic
store, it is the last thing that happens, and the index is built before it (nothing is written to a value
handshakes can already see). Excludes: storing first and indexing afterwards, a second store of a half-built
value (seeded m2), updating the published map in place (M11) — all invisible to sequential runs. -/
theorem index_built_before_the_single_store :
    setCertificatesOrder.filter (· == "atomic-store") = ["atomic-store"] ∧
    setCertificatesOrder.getLast? = some "atomic-store" ∧
    setCertificatesOrder.contains "build-index" = true ∧
    setCertificatesOrder.all (fun e => e == "atomic-store" || e == "build-index") = true := by decide

/-- `applyOuts`: sets are applied in the order the watcher sends them — one place in `TLSConfig` applies a set,
and it is inside the loop that receives from the source's channel (`for v := range src.Certificates()` or the
explicit `v, ok := <-ch` form of the same loop: one consumer goroutine). Excludes: a second applier
(e.g. an eager `SetCertificates` from another goroutine), which could apply an older set after a newer one. -/
theorem one_applier_in_channel_order :
    tlsConfigApplySites = 1 ∧ tlsConfigApplySitesInReceiveLoopOverSource = 1 := by decide

/-- `Out.publish`: a publication leaves `watch` through one plain, blocking send on the channel it was given;
`watch` starts no goroutine of its own (counted over `watch` with its unexported helpers followed). Excludes: a
`select { case ch <- certs: default: }` (a publication silently dropped whenever the consumer has not yet taken the
previous one — the streams' consumers are always fast enough), a second send, a send on another channel, a
publication from a goroutine racing with the loop. *What* is sent (the certificates made from the material just
loaded) is input/output behaviour that `c11.watch` compares on every run: pinned in `C11Pins`. -/
theorem publication_is_one_blocking_send :
    watchSends = 1 ∧ watchSendsInSelect = 0 ∧ watchSendsOnChannelParam = true ∧ watchGoStmts = 0 := by decide

end Fabio.Props.C11Facts
