import Fabio.Model.C08
import Fabio.Lemmas.C08
/-!
C08 — forwarding headers tell the upstream the truth about the client: property theorems.

`entries k h` is everything stored under the (canonical) name `k`, i.e. exactly the header lines the upstream
receives under that name; `= [(k, [v])]` therefore says "present once, with the single value `v`" — whatever
the client sent under that name in any casing or repetition, because `ofWire` files every line under its
canonical name before `addHeaders` runs (`wire_*` corollaries).

Hypotheses of the form `KeyFree … k` exclude configurations in which an operator gave two jobs to one header
name (TLS header called `X-Forwarded-For`, client-IP header called `Forwarded`, …): then two sentences of
the property contradict each other and the later statement of `addHeaders` wins; the correspondence streams
run those configurations for model agreement only (class `config-collision`).
-/
namespace Fabio.Props.C08
open Fabio Fabio.Model.C08

/-! ### header map algebra -/

theorem entries_del (k k' : Str) (h : Headers) :
    entries k (del k' h) = if k = k' then [] else entries k h := by
  induction h with
  | nil => simp [entries, del]
  | cons e t ih =>
    simp only [entries, del] at ih ⊢
    by_cases h1 : e.1 = k' <;> by_cases h2 : e.1 = k <;> by_cases h3 : k = k' <;>
      simp_all

theorem entries_put (k k' : Str) (vs : List Str) (h : Headers) :
    entries k (put k' vs h) = if k = k' then [(k', vs)] else entries k h := by
  unfold put
  by_cases hk : k = k'
  · subst hk
    have := entries_del k k h
    simp only [if_true] at this
    simp [entries] at this ⊢
    exact this
  · have h1 := entries_del k k' h
    simp only [hk, if_false] at h1
    have hne : ¬ (k' = k) := fun e => hk e.symm
    simp [entries, hne, hk] at h1 ⊢
    exact h1

theorem entries_put_self (k : Str) (vs : List Str) (h : Headers) : entries k (put k vs h) = [(k, vs)] := by
  simp [entries_put]

theorem entries_put_ne {k k' : Str} (hne : k ≠ k') (vs : List Str) (h : Headers) :
    entries k (put k' vs h) = entries k h := by simp [entries_put, hne]

theorem entries_del_self (k : Str) (h : Headers) : entries k (del k h) = [] := by simp [entries_del]

theorem entries_del_ne {k k' : Str} (hne : k ≠ k') (h : Headers) : entries k (del k' h) = entries k h := by
  simp [entries_del, hne]

theorem entries_setIf_ne {k k' : Str} (hne : k ≠ k') (c : Bool) (v : Str) (h : Headers) :
    entries k (setIf c k' v h) = entries k h := by
  unfold setIf; split
  · exact entries_put_ne hne _ _
  · rfl

/-- `h[k]` is determined by the entries under `k`. -/
theorem vals_eq (k : Str) (h : Headers) : vals k h = ((entries k h).head?).map (·.2) := by
  induction h with
  | nil => rfl
  | cons e t ih =>
    obtain ⟨k', vs⟩ := e
    by_cases hk : k' = k
    · simp [vals, entries, hk]
    · simp only [entries] at ih
      simp [vals, entries, hk, ih]

theorem vals_congr {k : Str} {h h' : Headers} (e : entries k h = entries k h') : vals k h = vals k h' := by
  rw [vals_eq, vals_eq, e]

theorem get1_congr {k : Str} {h h' : Headers} (e : entries k h = entries k h') : get1 k h = get1 k h' := by
  unfold get1; rw [vals_congr e]

theorem get1_setIf_ne {k k' : Str} (hne : k ≠ k') (c : Bool) (v : Str) (h : Headers) :
    get1 k (setIf c k' v h) = get1 k h := get1_congr (entries_setIf_ne hne c v h)

theorem vals_of_entries_single {k : Str} {h : Headers} {vs : List Str} (e : entries k h = [(k, vs)]) :
    vals k h = some vs := by rw [vals_eq, e]; rfl

theorem vals_of_entries_nil {k : Str} {h : Headers} (e : entries k h = []) : vals k h = none := by
  rw [vals_eq, e]; rfl

/-! ### which names each statement of `addHeaders` can touch -/

/-- The configured name for one job does not coincide with header `k` (or the job is switched off). -/
def ClientIPKeyFree (cfg : Cfg) (k : Str) : Prop := clientIPApplies cfg = false ∨ canonicalKey cfg.clientIPHeader ≠ k
def TLSKeyFree (cfg : Cfg) (k : Str) : Prop := cfg.tlsHeader = [] ∨ canonicalKey cfg.tlsHeader ≠ k
def RequestIDKeyFree (cfg : Cfg) (k : Str) : Prop := cfg.requestID = [] ∨ canonicalKey cfg.requestID ≠ k

theorem stepClientIP_other {cfg : Cfg} {k : Str} (hk : ClientIPKeyFree cfg k) (ip : Str) (h : Headers) :
    entries k (stepClientIP cfg ip h) = entries k h := by
  unfold stepClientIP
  rcases hk with hk | hk
  · simp [setIf, hk]
  · exact entries_setIf_ne (fun e => hk e.symm) _ _ _

theorem stepRealIp_other {k : Str} (hk : k ≠ xRealIp) (ip : Str) (h : Headers) :
    entries k (stepRealIp ip h) = entries k h := entries_setIf_ne hk _ _ _

theorem xffAppend_other {k : Str} (hk : k ≠ xForwardedFor) (ip : Str) (h : Headers) :
    entries k (xffAppend ip h) = entries k h := by
  unfold xffAppend
  split <;> first | rfl | exact entries_put_ne hk _ _

theorem stepWS_other {k : Str} (hk : k ≠ xForwardedFor) (ip : Str) (h : Headers) :
    entries k (stepWS ip h) = entries k h := by
  unfold stepWS; split
  · exact xffAppend_other hk _ _
  · rfl

theorem stepForward_other {k : Str} (h1 : k ≠ xForwardedProto) (h2 : k ≠ xForwardedPort)
    (h3 : k ≠ xForwardedHost) (h4 : k ≠ xForwardedPrefix) (h5 : k ≠ forwarded)
    (cfg : Cfg) (strip : Str) (r : Req) (ip : Str) (h : Headers) :
    entries k (stepForward cfg strip r ip h) = entries k h := by
  unfold stepForward
  simp only [entries_put_ne h5, entries_setIf_ne h4, entries_setIf_ne h3, entries_setIf_ne h2, entries_setIf_ne h1]

theorem stepTLS_other {cfg : Cfg} {k : Str} (hk : TLSKeyFree cfg k) (tls : Bool) (h : Headers) :
    entries k (stepTLS cfg tls h) = entries k h := by
  unfold stepTLS
  rcases hk with hk | hk
  · simp [hk]
  · have hne : k ≠ canonicalKey cfg.tlsHeader := fun e => hk e.symm
    split
    · rfl
    · split
      · exact entries_put_ne hne _ _
      · exact entries_del_ne hne _

theorem stepConnection_other {k : Str} (hk : k ≠ connection) (cfg : Cfg) (h : Headers) :
    entries k (stepConnection cfg h) = entries k h := by
  unfold stepConnection
  cases vals connection h with
  | none => rfl
  | some conn =>
    simp only
    split
    · exact entries_del_ne hk _
    · exact entries_put_ne hk _ _

/-- The final `protectManagedHeaders` step only touches the `Connection` header. -/
theorem addHeadersIP_entries {k : Str} (hk : k ≠ connection) (cfg : Cfg) (strip : Str) (r : Req) (ip : Str) :
    entries k (addHeadersIP cfg strip r ip) = entries k (addHeadersCore cfg strip r ip) := by
  unfold addHeadersIP; exact stepConnection_other hk _ _

/-! ### the sentences of the property -/

/-- **The configured client-IP header is overwritten with the peer address.** For a configured name other
than the two with dedicated rules, the upstream receives it exactly once with the peer's IP as its only
value — for every header map the client's lines produced. -/
theorem clientip_overwritten (cfg : Cfg) (strip : Str) (r : Req) (ip : Str)
    (hne : cfg.clientIPHeader ≠ []) (hx : cfg.clientIPHeader ≠ xForwardedFor) (hr : cfg.clientIPHeader ≠ xRealIp)
    (hk : canonicalKey cfg.clientIPHeader ∉
      [xRealIp, xForwardedFor, xForwardedProto, xForwardedPort, xForwardedHost, xForwardedPrefix, forwarded, connection])
    (ht : TLSKeyFree cfg (canonicalKey cfg.clientIPHeader)) :
    entries (canonicalKey cfg.clientIPHeader) (addHeadersIP cfg strip r ip)
      = [(canonicalKey cfg.clientIPHeader, [ip])] := by
  simp only [List.mem_cons, List.not_mem_nil, or_false, not_or] at hk
  obtain ⟨k1, k2, k3, k4, k5, k6, k7, k8⟩ := hk
  rw [addHeadersIP_entries k8]
  unfold addHeadersCore
  rw [stepTLS_other ht, stepForward_other k3 k4 k5 k6 k7, stepWS_other k2, stepRealIp_other k1]
  have happ : clientIPApplies cfg = true := by
    simp [clientIPApplies, hne, hx, hr]
  simp [stepClientIP, setIf, happ, entries_put_self]

/-- … whatever the client sent: the same statement for the map built from arbitrary header lines. -/
theorem wire_clientip_overwritten (cfg : Cfg) (strip : Str) (r : Req) (ip : Str)
    (wire : List (Str × Option Str))
    (hne : cfg.clientIPHeader ≠ []) (hx : cfg.clientIPHeader ≠ xForwardedFor) (hr : cfg.clientIPHeader ≠ xRealIp)
    (hk : canonicalKey cfg.clientIPHeader ∉
      [xRealIp, xForwardedFor, xForwardedProto, xForwardedPort, xForwardedHost, xForwardedPrefix, forwarded, connection])
    (ht : TLSKeyFree cfg (canonicalKey cfg.clientIPHeader)) :
    entries (canonicalKey cfg.clientIPHeader) (addHeadersIP cfg strip { r with headers := ofWire wire } ip)
      = [(canonicalKey cfg.clientIPHeader, [ip])] :=
  clientip_overwritten cfg strip _ ip hne hx hr hk ht

/-- Header names that differ only in the casing of ASCII letters are filed under one key: a forged
`x-client-ip` / `X-CLIENT-IP` / `x-ClIeNt-Ip` line cannot survive next to the entry `addHeaders` writes. -/
theorem canonicalKey_casing (a b : Str) (ht : a.all isTokenChar = true) (h : lowerL a = lowerL b) :
    canonicalKey a = canonicalKey b := Fabio.Lemmas.C08.canonicalKey_casing a b ht h

/-- … so under *every* spelling `name` of the configured client-IP header the upstream finds the peer address
and nothing else, whatever lines (`wire`) the client sent. -/
theorem clientip_overwritten_any_casing (cfg : Cfg) (strip : Str) (r : Req) (ip : Str)
    (wire : List (Str × Option Str)) (name : Str)
    (htok : name.all isTokenChar = true) (hcase : lowerL name = lowerL cfg.clientIPHeader)
    (hne : cfg.clientIPHeader ≠ []) (hx : cfg.clientIPHeader ≠ xForwardedFor) (hr : cfg.clientIPHeader ≠ xRealIp)
    (hk : canonicalKey cfg.clientIPHeader ∉
      [xRealIp, xForwardedFor, xForwardedProto, xForwardedPort, xForwardedHost, xForwardedPrefix, forwarded, connection])
    (ht : TLSKeyFree cfg (canonicalKey cfg.clientIPHeader)) :
    entries (canonicalKey name) (addHeadersIP cfg strip { r with headers := ofWire wire } ip)
      = [(canonicalKey cfg.clientIPHeader, [ip])] := by
  rw [canonicalKey_casing name cfg.clientIPHeader htok hcase]
  exact clientip_overwritten cfg strip _ ip hne hx hr hk ht

/-! #### X-Forwarded-For -/

theorem takeWhile_append_all {α} (p : α → Bool) (l m : List α) (h : ∀ x ∈ l, p x = true) :
    (l ++ m).takeWhile p = l ++ m.takeWhile p := by
  induction l with
  | nil => rfl
  | cons a t ih =>
    have ha : p a = true := h a (by simp)
    simp [ha, ih (fun x hx => h x (by simp [hx]))]

/-- An address without a comma that does not start with a blank is the last element of the list it was
appended to. -/
theorem lastElem_append (pre ip : Str) (hc : ',' ∉ ip) (hs : ip.head? ≠ some ' ') :
    lastElem (pre ++ ", ".toList ++ ip) = ip := by
  have hall : ∀ x ∈ ip.reverse ++ [' '], (fun c => !(c == ',')) x = true := by
    intro x hx
    simp only [List.mem_append, List.mem_reverse, List.mem_singleton] at hx
    rcases hx with hx | hx
    · have : x ≠ ',' := fun e => hc (e ▸ hx)
      simp [this]
    · subst hx; decide
  have hrev : (pre ++ ", ".toList ++ ip).reverse = (ip.reverse ++ [' ']) ++ (',' :: pre.reverse) := by
    simp [show ", ".toList = [',', ' '] from rfl]
  unfold lastElem
  rw [hrev, takeWhile_append_all _ _ _ hall]
  simp only [List.takeWhile_cons, beq_self_eq_true, Bool.not_true, Bool.false_eq_true, if_false,
    List.append_nil, List.reverse_append, List.reverse_reverse, List.reverse_cons, List.reverse_nil,
    List.nil_append, List.singleton_append]
  cases ip with
  | nil => simp [List.dropWhile]
  | cons a t =>
    have hb : (a == ' ') = false := by
      have : a ≠ ' ' := by simpa using hs
      simp [this]
    simp [List.dropWhile, hb]

theorem lastElem_self (ip : Str) (hc : ',' ∉ ip) (hs : ip.head? ≠ some ' ') : lastElem ip = ip := by
  have hall : ∀ x ∈ ip.reverse, (fun c => !(c == ',')) x = true := by
    intro x hx
    have : x ≠ ',' := fun e => hc (e ▸ (List.mem_reverse.mp hx))
    simp [this]
  unfold lastElem
  have := takeWhile_append_all (fun c => !(c == ',')) ip.reverse [] hall
  simp only [List.append_nil, List.takeWhile_nil] at this
  rw [this, List.reverse_reverse]
  cases ip with
  | nil => rfl
  | cons a t =>
    have hb : (a == ' ') = false := by
      have : a ≠ ' ' := by simpa using hs
      simp [this]
    simp [List.dropWhile, hb]

/-- The X-Forwarded-For block (`addHeaders`' websocket branch and, by assumption, `httputil.ReverseProxy`):
unless the value slice was explicitly nil, the header is present once and the peer is its last element. -/
theorem xffAppend_last_is_peer (ip : Str) (h : Headers) (hnil : vals xForwardedFor h ≠ some [])
    (hc : ',' ∉ ip) (hs : ip.head? ≠ some ' ') :
    ∃ v, entries xForwardedFor (xffAppend ip h) = [(xForwardedFor, [v])] ∧ lastElem v = ip := by
  unfold xffAppend
  split
  · rename_i heq; exact absurd heq hnil
  · exact ⟨_, entries_put_self _ _ _, lastElem_append _ _ hc hs⟩
  · exact ⟨_, entries_put_self _ _ _, lastElem_self _ hc hs⟩

/-- **The peer is appended as the last element of X-Forwarded-For** — websocket upgrades (any casing of the
`websocket` token), where `addHeaders` itself does it. The prior chain the client sent is kept in front. -/
theorem xff_last_is_peer (cfg : Cfg) (strip : Str) (r : Req) (ip : Str)
    (hws : isWebsocket r.headers = true)
    (hcu : ClientIPKeyFree cfg upgrade) (hcx : ClientIPKeyFree cfg xForwardedFor) (ht : TLSKeyFree cfg xForwardedFor)
    (hnil : vals xForwardedFor r.headers ≠ some [])
    (hc : ',' ∉ ip) (hs : ip.head? ≠ some ' ') :
    ∃ v, entries xForwardedFor (addHeadersIP cfg strip r ip) = [(xForwardedFor, [v])] ∧ lastElem v = ip := by
  rw [addHeadersIP_entries (by decide)]
  unfold addHeadersCore
  rw [stepTLS_other ht, stepForward_other (by decide) (by decide) (by decide) (by decide) (by decide)]
  have e2u : entries upgrade (stepRealIp ip (stepClientIP cfg ip r.headers)) = entries upgrade r.headers := by
    rw [stepRealIp_other (by decide), stepClientIP_other hcu]
  have e2x : entries xForwardedFor (stepRealIp ip (stepClientIP cfg ip r.headers)) = entries xForwardedFor r.headers := by
    rw [stepRealIp_other (by decide), stepClientIP_other hcx]
  have hws2 : isWebsocket (stepRealIp ip (stepClientIP cfg ip r.headers)) = true := by
    unfold isWebsocket at hws ⊢; rw [get1_congr e2u]; exact hws
  have hnil2 : vals xForwardedFor (stepRealIp ip (stepClientIP cfg ip r.headers)) ≠ some [] := by
    rw [vals_congr e2x]; exact hnil
  unfold stepWS
  rw [if_pos hws2]
  exact xffAppend_last_is_peer ip _ hnil2 hc hs

/-- … and every other request: `ServeHTTP` hands it to `httputil.ReverseProxy`, which is **assumed**
(`Model.C08.reverseProxyXFF`, Go 1.24 `ReverseProxy.ServeHTTP` with a `Director`) to run the same block on the
headers `addHeaders` produced; `addHeaders` itself leaves X-Forwarded-For as the client sent it. -/
theorem xff_last_is_peer_reverseProxy (cfg : Cfg) (strip : Str) (r : Req) (ip : Str)
    (hws : isWebsocket r.headers = false)
    (hcu : ClientIPKeyFree cfg upgrade) (hcx : ClientIPKeyFree cfg xForwardedFor) (ht : TLSKeyFree cfg xForwardedFor)
    (hnil : vals xForwardedFor r.headers ≠ some [])
    (hc : ',' ∉ ip) (hs : ip.head? ≠ some ' ') :
    ∃ v, entries xForwardedFor (reverseProxyXFF ip (addHeadersIP cfg strip r ip)) = [(xForwardedFor, [v])]
      ∧ lastElem v = ip := by
  have e2u : entries upgrade (stepRealIp ip (stepClientIP cfg ip r.headers)) = entries upgrade r.headers := by
    rw [stepRealIp_other (by decide), stepClientIP_other hcu]
  have hws2 : isWebsocket (stepRealIp ip (stepClientIP cfg ip r.headers)) = false := by
    unfold isWebsocket at hws ⊢; rw [get1_congr e2u]; exact hws
  have ex : entries xForwardedFor (addHeadersIP cfg strip r ip) = entries xForwardedFor r.headers := by
    rw [addHeadersIP_entries (by decide)]
    unfold addHeadersCore
    rw [stepTLS_other ht, stepForward_other (by decide) (by decide) (by decide) (by decide) (by decide)]
    unfold stepWS
    rw [hws2]
    simp only [Bool.false_eq_true, if_false]
    rw [stepRealIp_other (by decide), stepClientIP_other hcx]
  unfold reverseProxyXFF
  exact xffAppend_last_is_peer ip _ (by rw [vals_congr ex]; exact hnil) hc hs

/-! #### X-Real-Ip -/

/-- **X-Real-Ip carries the peer unless the client already sent one**: absent or empty ⇒ exactly the peer;
a non-empty first value ⇒ the client's lines are passed on unchanged. -/
theorem xrealip_unless_sent (cfg : Cfg) (strip : Str) (r : Req) (ip : Str)
    (hc : ClientIPKeyFree cfg xRealIp) (ht : TLSKeyFree cfg xRealIp) :
    (get1 xRealIp r.headers = [] → entries xRealIp (addHeadersIP cfg strip r ip) = [(xRealIp, [ip])]) ∧
    (get1 xRealIp r.headers ≠ [] → entries xRealIp (addHeadersIP cfg strip r ip) = entries xRealIp r.headers) := by
  have e1 : entries xRealIp (stepClientIP cfg ip r.headers) = entries xRealIp r.headers := stepClientIP_other hc _ _
  have hrest : entries xRealIp (addHeadersIP cfg strip r ip)
      = entries xRealIp (stepRealIp ip (stepClientIP cfg ip r.headers)) := by
    rw [addHeadersIP_entries (by decide)]
    unfold addHeadersCore
    rw [stepTLS_other ht, stepForward_other (by decide) (by decide) (by decide) (by decide) (by decide),
      stepWS_other (by decide)]
  rw [hrest]
  constructor
  · intro h0
    have : get1 xRealIp (stepClientIP cfg ip r.headers) = [] := by rw [get1_congr e1]; exact h0
    simp [stepRealIp, setIf, this, entries_put_self]
  · intro h0
    have : get1 xRealIp (stepClientIP cfg ip r.headers) ≠ [] := by rw [get1_congr e1]; exact h0
    simp [stepRealIp, setIf, this, e1]

/-! #### the TLS header -/

/-- **The configured TLS header is present with the configured value exactly when the client connection
used TLS, whatever the client sent**: on TLS it is there once with the configured value; on a plain
connection every copy (forged by the client in any casing) is gone. Only side condition: the TLS header is
not called `Connection` (the one header the last statement of `addHeaders` edits). -/
theorem tls_header_iff_tls (cfg : Cfg) (strip : Str) (r : Req) (ip : Str) (hne : cfg.tlsHeader ≠ [])
    (hcn : canonicalKey cfg.tlsHeader ≠ connection) :
    (r.tls.isSome = true →
      entries (canonicalKey cfg.tlsHeader) (addHeadersIP cfg strip r ip) = [(canonicalKey cfg.tlsHeader, [cfg.tlsHeaderValue])]) ∧
    (r.tls.isSome = false → entries (canonicalKey cfg.tlsHeader) (addHeadersIP cfg strip r ip) = []) := by
  rw [addHeadersIP_entries hcn]
  unfold addHeadersCore stepTLS
  have : cfg.tlsHeader.isEmpty = false := by
    cases h : cfg.tlsHeader with
    | nil => exact absurd h hne
    | cons _ _ => rfl
  constructor
  · intro ht; simp [this, ht, entries_put_self]
  · intro ht; simp [this, ht, entries_del_self]

/-! #### scheme, X-Forwarded-Proto, Forwarded -/

/-- **With neither X-Forwarded-Proto nor Forwarded on the request the scheme is read off the connection.** -/
theorem scheme_from_connection_when_no_headers (h : Headers) (tls : Bool)
    (hp : get1 xForwardedProto h = []) (hf : get1 forwarded h = []) :
    scheme h tls = connScheme (isWebsocket h) tls := by
  simp [scheme, hp, hf]

theorem xfpOf_connScheme (ws tls : Bool) :
    xfpOf (connScheme ws tls) = (if tls then "https".toList else "http".toList) := by
  cases ws <;> cases tls <;> decide

/-- **X-Forwarded-Proto and Forwarded are supplied when absent and describe the client's actual
connection** (fabio as first hop: the client sent neither): `Forwarded: for=<peer>; proto=<http|https|ws|wss
of the connection>` followed only by fabio's own `by/httpproto/tlsver/tlscipher` parameters, and
`X-Forwarded-Proto: http|https` by TLS. -/
theorem forwarded_supplied_when_absent (cfg : Cfg) (strip : Str) (r : Req) (ip : Str)
    (hp : get1 xForwardedProto r.headers = []) (hf : get1 forwarded r.headers = [])
    (hcp : ClientIPKeyFree cfg xForwardedProto) (hcf : ClientIPKeyFree cfg forwarded) (hcu : ClientIPKeyFree cfg upgrade)
    (htp : TLSKeyFree cfg xForwardedProto) (htf : TLSKeyFree cfg forwarded) :
    entries forwarded (addHeadersIP cfg strip r ip) =
      [(forwarded, ["for=".toList ++ ip ++ "; proto=".toList ++ connScheme (isWebsocket r.headers) r.tls.isSome
                     ++ forwardedTail cfg r.proto r.tls])] ∧
    entries xForwardedProto (addHeadersIP cfg strip r ip) =
      [(xForwardedProto, [if r.tls.isSome then "https".toList else "http".toList])] := by
  -- what the first three statements leave untouched
  have pres : ∀ k, ClientIPKeyFree cfg k → k ≠ xRealIp → k ≠ xForwardedFor →
      entries k (stepWS ip (stepRealIp ip (stepClientIP cfg ip r.headers))) = entries k r.headers := by
    intro k h1 h2 h3
    rw [stepWS_other h3, stepRealIp_other h2, stepClientIP_other h1]
  let h3 := stepWS ip (stepRealIp ip (stepClientIP cfg ip r.headers))
  have ep : get1 xForwardedProto h3 = [] := by rw [get1_congr (pres _ hcp (by decide) (by decide))]; exact hp
  have ef : get1 forwarded h3 = [] := by rw [get1_congr (pres _ hcf (by decide) (by decide))]; exact hf
  have eu : isWebsocket h3 = isWebsocket r.headers := by
    unfold isWebsocket; rw [get1_congr (pres _ hcu (by decide) (by decide))]
  have hs : scheme h3 r.tls.isSome = connScheme (isWebsocket r.headers) r.tls.isSome := by
    rw [scheme_from_connection_when_no_headers h3 _ ep ef, eu]
  rw [addHeadersIP_entries (by decide), addHeadersIP_entries (by decide)]
  unfold addHeadersCore
  constructor
  · rw [stepTLS_other htf]
    show entries forwarded (stepForward cfg strip r ip h3) = _
    unfold stepForward
    rw [entries_put_self]
    -- the Forwarded value read back just before the final Set is still the (empty) client value
    have g1 : ∀ c v h, get1 forwarded (setIf c xForwardedPrefix v h) = get1 forwarded h :=
      fun c v h => get1_setIf_ne (by decide) c v h
    have g2 : ∀ c v h, get1 forwarded (setIf c xForwardedHost v h) = get1 forwarded h :=
      fun c v h => get1_setIf_ne (by decide) c v h
    have g3 : ∀ c v h, get1 forwarded (setIf c xForwardedPort v h) = get1 forwarded h :=
      fun c v h => get1_setIf_ne (by decide) c v h
    have g4 : ∀ c v h, get1 forwarded (setIf c xForwardedProto v h) = get1 forwarded h :=
      fun c v h => get1_setIf_ne (by decide) c v h
    simp only [g1, g2, g3, g4, ef, hs, List.isEmpty_nil, if_true]
  · rw [stepTLS_other htp]
    show entries xForwardedProto (stepForward cfg strip r ip h3) = _
    unfold stepForward
    rw [entries_put_ne (by decide), entries_setIf_ne (by decide), entries_setIf_ne (by decide),
      entries_setIf_ne (by decide)]
    simp only [ep, hs, List.isEmpty_nil, setIf, if_true, entries_put_self, xfpOf_connScheme]

/-! #### X-Forwarded-Host / X-Forwarded-Port, through `ServeHTTP` with a `host=` route option -/

theorem stepForward_xfhost (cfg : Cfg) (strip : Str) (r : Req) (ip : Str) (h3 : Headers)
    (hx : get1 xForwardedHost h3 = []) (hh : r.host ≠ []) :
    entries xForwardedHost (stepForward cfg strip r ip h3) = [(xForwardedHost, [r.host])] := by
  unfold stepForward
  rw [entries_put_ne (by decide), entries_setIf_ne (by decide)]
  have hhe : r.host.isEmpty = false := by
    cases h : r.host with
    | nil => exact absurd h hh
    | cons _ _ => rfl
  have g1 : ∀ c v h, get1 xForwardedHost (setIf c xForwardedPort v h) = get1 xForwardedHost h :=
    fun c v h => get1_setIf_ne (by decide) c v h
  have g2 : ∀ c v h, get1 xForwardedHost (setIf c xForwardedProto v h) = get1 xForwardedHost h :=
    fun c v h => get1_setIf_ne (by decide) c v h
  rw [g1, g2, hx]
  simp [setIf, hhe, entries_put_self]

theorem stepForward_xfport (cfg : Cfg) (strip : Str) (r : Req) (ip : Str) (h3 : Headers)
    (hx : get1 xForwardedPort h3 = []) :
    entries xForwardedPort (stepForward cfg strip r ip h3) = [(xForwardedPort, [localPort r.host r.tls.isSome])] := by
  unfold stepForward
  rw [entries_put_ne (by decide), entries_setIf_ne (by decide), entries_setIf_ne (by decide)]
  have g2 : ∀ c v h, get1 xForwardedPort (setIf c xForwardedProto v h) = get1 xForwardedPort h :=
    fun c v h => get1_setIf_ne (by decide) c v h
  rw [g2, hx]
  simp [setIf, entries_put_self]

/-- what `serve` leaves untouched under name `k` before `stepForward` runs -/
theorem serve_prefix_other (cfg : Cfg) (uuid : Str) (ip : Str) (r : Req) {k : Str}
    (hq : RequestIDKeyFree cfg k) (hc : ClientIPKeyFree cfg k) (h2 : k ≠ xRealIp) (h3 : k ≠ xForwardedFor) :
    entries k (stepWS ip (stepRealIp ip (stepClientIP cfg ip
      (if cfg.requestID.isEmpty then r.headers else set cfg.requestID uuid r.headers)))) = entries k r.headers := by
  rw [stepWS_other h3, stepRealIp_other h2, stepClientIP_other hc]
  split
  · rfl
  · rename_i hne
    rcases hq with hq | hq
    · simp [hq] at hne
    · exact entries_put_ne (fun e => hq e.symm) _ _

/-- **X-Forwarded-Host is the host the client asked for, even when the route rewrites Host** (D12): for
every `host=` option (none, `dst`, a literal) the upstream is told the client's Host, while the request it
receives carries the overridden one. -/
theorem xfhost_is_client_host (cfg : Cfg) (uuid hostOpt targetHost strip : Str) (r : Req) (ip port : Str)
    (hsplit : splitHostPort r.remoteAddr = some (ip, port))
    (hx : get1 xForwardedHost r.headers = []) (hh : r.host ≠ [])
    (hq : RequestIDKeyFree cfg xForwardedHost) (hc : ClientIPKeyFree cfg xForwardedHost) (ht : TLSKeyFree cfg xForwardedHost) :
    ∃ u, serve cfg uuid hostOpt targetHost strip r = some u ∧
      entries xForwardedHost u.headers = [(xForwardedHost, [r.host])] ∧
      u.host = overrideHost hostOpt targetHost r.host := by
  refine ⟨_, by simp only [serve, addHeaders, hsplit]; rfl, ?_, rfl⟩
  show entries xForwardedHost (addHeadersIP cfg strip { r with headers := _ } ip) = _
  rw [addHeadersIP_entries (by decide)]
  unfold addHeadersCore
  rw [stepTLS_other ht]
  exact stepForward_xfhost cfg strip _ ip _
    (by rw [get1_congr (serve_prefix_other cfg uuid ip r hq hc (by decide) (by decide))]; exact hx) hh

/-- **X-Forwarded-Port is derived from the host the client asked for (else 443/80 by TLS), even when the
route rewrites Host** (D12). -/
theorem xfport_from_client_host (cfg : Cfg) (uuid hostOpt targetHost strip : Str) (r : Req) (ip port : Str)
    (hsplit : splitHostPort r.remoteAddr = some (ip, port))
    (hx : get1 xForwardedPort r.headers = [])
    (hq : RequestIDKeyFree cfg xForwardedPort) (hc : ClientIPKeyFree cfg xForwardedPort) (ht : TLSKeyFree cfg xForwardedPort) :
    ∃ u, serve cfg uuid hostOpt targetHost strip r = some u ∧
      entries xForwardedPort u.headers = [(xForwardedPort, [localPort r.host r.tls.isSome])] ∧
      u.host = overrideHost hostOpt targetHost r.host := by
  refine ⟨_, by simp only [serve, addHeaders, hsplit]; rfl, ?_, rfl⟩
  show entries xForwardedPort (addHeadersIP cfg strip { r with headers := _ } ip) = _
  rw [addHeadersIP_entries (by decide)]
  unfold addHeadersCore
  rw [stepTLS_other ht]
  exact stepForward_xfport cfg strip _ ip _
    (by rw [get1_congr (serve_prefix_other cfg uuid ip r hq hc (by decide) (by decide))]; exact hx)

/-! what `localPort` reads out of the client's Host -/

theorem indexOf_go_append (c : Char) (a b : Str) (i : Nat) (h : c ∉ a) :
    indexOf.go c i (a ++ c :: b) = some (i + a.length) := by
  induction a generalizing i with
  | nil => simp [indexOf.go]
  | cons x xs ih =>
    have hx : (x == c) = false := by
      have : x ≠ c := fun e => h (by simp [e])
      simp [this]
    have hxs : c ∉ xs := fun m => h (by simp [m])
    simp only [List.cons_append, indexOf.go, hx, Bool.false_eq_true, if_false, ih (i + 1) hxs, List.length_cons]
    congr 1; omega

theorem indexOf_go_none (c : Char) (s : Str) (i : Nat) (h : c ∉ s) : indexOf.go c i s = none := by
  induction s generalizing i with
  | nil => rfl
  | cons x xs ih =>
    have hx : (x == c) = false := by
      have : x ≠ c := fun e => h (by simp [e])
      simp [this]
    simp only [indexOf.go, hx, Bool.false_eq_true, if_false]
    exact ih (i + 1) (fun m => h (by simp [m]))

theorem lastIndexOf_go_none (c : Char) (s : Str) (i : Nat) (h : c ∉ s) : lastIndexOf.go c i none s = none := by
  induction s generalizing i with
  | nil => rfl
  | cons x xs ih =>
    have hx : (x == c) = false := by
      have : x ≠ c := fun e => h (by simp [e])
      simp [this]
    simp only [lastIndexOf.go, hx, Bool.false_eq_true, if_false]
    exact ih (i + 1) (fun m => h (by simp [m]))

/-- `name:port` (no IPv6 literal): the forwarded port is the port the client wrote. -/
theorem localPort_name_port (name port : Str) (tls : Bool) (hn : name ≠ []) (hp : port ≠ [])
    (hc : ':' ∉ name) (hb : ']' ∉ name ++ ':' :: port) :
    localPort (name ++ ':' :: port) tls = port := by
  unfold localPort
  have h1 : lastIndexOf ']' (name ++ ':' :: port) = none := lastIndexOf_go_none _ _ 0 hb
  have h2 : indexOf ':' (name ++ ':' :: port) = some name.length := by
    have := indexOf_go_append ':' name port 0 hc
    simpa [indexOf] using this
  have hnl : 0 < name.length := List.length_pos_iff.mpr hn
  have hpl : 0 < port.length := List.length_pos_iff.mpr hp
  simp only [h1, h2]
  have hcond : (decide (0 < name.length) && decide (name.length + 1 < (name ++ ':' :: port).length)) = true := by
    simp only [List.length_append, List.length_cons, Bool.and_eq_true, decide_eq_true_eq]
    omega
  rw [if_pos hcond]
  simp

/-- A Host without a port: 443 on TLS, 80 otherwise. -/
theorem localPort_no_port (host : Str) (tls : Bool) (hc : ':' ∉ host) :
    localPort host tls = if tls then "443".toList else "80".toList := by
  unfold localPort
  cases h : lastIndexOf ']' host with
  | none => simp [indexOf, indexOf_go_none ':' host 0 hc]
  | some n =>
    have : ':' ∉ host.drop n := fun m => hc (List.mem_of_mem_drop m)
    simp [indexOf, indexOf_go_none ':' (host.drop n) 0 this]

/-- An unparsable `RemoteAddr` is an error (500 to the client), never a request forwarded without the
peer address. -/
theorem no_peer_no_forward (cfg : Cfg) (uuid hostOpt targetHost strip : Str) (r : Req)
    (h : splitHostPort r.remoteAddr = none) : serve cfg uuid hostOpt targetHost strip r = none := by
  simp [serve, addHeaders, h]

/-- The request-id header is overwritten with the generated id, whatever the client sent. -/
theorem requestid_overwritten (cfg : Cfg) (uuid hostOpt targetHost strip : Str) (r : Req) (ip port : Str)
    (hsplit : splitHostPort r.remoteAddr = some (ip, port)) (hne : cfg.requestID ≠ [])
    (hc : ClientIPKeyFree cfg (canonicalKey cfg.requestID)) (ht : TLSKeyFree cfg (canonicalKey cfg.requestID))
    (hk : canonicalKey cfg.requestID ∉
      [xRealIp, xForwardedFor, xForwardedProto, xForwardedPort, xForwardedHost, xForwardedPrefix, forwarded, connection]) :
    ∃ u, serve cfg uuid hostOpt targetHost strip r = some u ∧
      entries (canonicalKey cfg.requestID) u.headers = [(canonicalKey cfg.requestID, [uuid])] := by
  simp only [List.mem_cons, List.not_mem_nil, or_false, not_or] at hk
  obtain ⟨k1, k2, k3, k4, k5, k6, k7, k8⟩ := hk
  refine ⟨_, by simp only [serve, addHeaders, hsplit]; rfl, ?_⟩
  show entries _ (addHeadersIP cfg strip { r with headers := _ } ip) = _
  rw [addHeadersIP_entries k8]
  unfold addHeadersCore
  rw [stepTLS_other ht, stepForward_other k3 k4 k5 k6 k7, stepWS_other k2, stepRealIp_other k1,
    stepClientIP_other hc]
  have : cfg.requestID.isEmpty = false := by
    cases h : cfg.requestID with
    | nil => exact absurd h hne
    | cons _ _ => rfl
  simp only [this, Bool.false_eq_true, if_false]
  exact entries_put_self _ _ _

/-! #### through `httputil.ReverseProxy`: the client's `Connection` header (D12d, repaired) -/

theorem foldl_del_other (k : Str) (ks : List Str) (h : Headers) (hk : k ∉ ks) :
    entries k (ks.foldl (fun acc k' => del k' acc) h) = entries k h := by
  induction ks generalizing h with
  | nil => rfl
  | cons a t ih =>
    simp only [List.mem_cons, not_or] at hk
    simp only [List.foldl_cons]
    rw [ih _ hk.2, entries_del_ne hk.1]

theorem entries_removeHopByHop (k : Str) (h : Headers) (hk : k ∉ hopByHopNames h) (hf : k ∉ fixedHopByHop) :
    entries k (removeHopByHop h) = entries k h := by
  unfold removeHopByHop
  rw [foldl_del_other k _ _ hf, foldl_del_other k _ h hk]

/-- the `Connection: Upgrade` / `Upgrade: <type>` pair the reverse proxy puts back touches no other name -/
theorem entries_upgrade_readd (k : Str) (up : Str) (h : Headers) (h1 : k ≠ upgrade) (h2 : k ≠ connection) :
    entries k (if up.isEmpty then h else put upgrade [up] (put connection ["Upgrade".toList] h)) = entries k h := by
  split
  · rfl
  · rw [entries_put_ne h1, entries_put_ne h2]

theorem not_fixed_ne {k : Str} (hf : k ∉ fixedHopByHop) : k ≠ upgrade ∧ k ≠ connection := by
  constructor
  · intro e; apply hf; rw [e]; decide
  · intro e; apply hf; rw [e]; decide

/-- A header reaches the upstream through the reverse proxy as `addHeaders` left it provided the
`Connection` header handed to the reverse proxy does not name it and it is not one of the fixed hop-by-hop
headers of `net/http/httputil`. -/
theorem reverseProxy_keeps_unnamed (ip : Str) (h : Headers) (k : Str)
    (hx : k ≠ xForwardedFor) (hk : k ∉ hopByHopNames h) (hf : k ∉ fixedHopByHop) :
    entries k (reverseProxy ip h) = entries k h := by
  unfold reverseProxy
  simp only
  rw [xffAppend_other hx, entries_upgrade_readd k _ _ (not_fixed_ne hf).1 (not_fixed_ne hf).2,
    entries_removeHopByHop k h hk hf]

/-- X-Forwarded-For ends with the peer after the reverse proxy in every case. -/
theorem xff_last_is_peer_after_reverseProxy (ip : Str) (h : Headers)
    (hnil : vals xForwardedFor (removeHopByHop h) ≠ some []) (hc : ',' ∉ ip) (hs : ip.head? ≠ some ' ') :
    ∃ v, entries xForwardedFor (reverseProxy ip h) = [(xForwardedFor, [v])] ∧ lastElem v = ip := by
  unfold reverseProxy
  simp only
  apply xffAppend_last_is_peer ip _ _ hc hs
  rw [vals_congr (entries_upgrade_readd xForwardedFor _ _ (by decide) (by decide))]
  exact hnil

/-! `strings.Split` / `strings.Join` on commas -/

theorem splitComma_cons (c : Char) (cs : Str) :
    ∃ t ts, splitComma cs = t :: ts ∧
      splitComma (c :: cs) = if c == ',' then [] :: t :: ts else (c :: t) :: ts := by
  induction cs generalizing c with
  | nil => exact ⟨[], [], rfl, by simp [splitComma]⟩
  | cons d ds ih =>
    obtain ⟨t, ts, h1, h2⟩ := ih d
    have hne : ∃ t' ts', splitComma (d :: ds) = t' :: ts' := by
      rw [h2]; split <;> exact ⟨_, _, rfl⟩
    obtain ⟨t', ts', h3⟩ := hne
    refine ⟨t', ts', h3, ?_⟩
    conv => lhs; unfold splitComma
    simp only [h3]

theorem splitComma_no_comma (t : Str) (h : ',' ∉ t) : splitComma t = [t] := by
  induction t with
  | nil => rfl
  | cons c cs ih =>
    obtain ⟨t', ts', h1, h2⟩ := splitComma_cons c cs
    have hc : (c == ',') = false := by
      have : c ≠ ',' := fun e => h (by simp [e])
      simp [this]
    rw [ih (fun m => h (by simp [m]))] at h1
    cases h1
    rw [h2, hc]; rfl

theorem splitComma_append (t rest : Str) (h : ',' ∉ t) :
    splitComma (t ++ ',' :: rest) = t :: splitComma rest := by
  induction t with
  | nil =>
    obtain ⟨t', ts', h1, h2⟩ := splitComma_cons ',' rest
    simp only [List.nil_append, h2, h1]; rfl
  | cons c cs ih =>
    obtain ⟨t', ts', h1, h2⟩ := splitComma_cons c (cs ++ ',' :: rest)
    have hc : (c == ',') = false := by
      have : c ≠ ',' := fun e => h (by simp [e])
      simp [this]
    rw [ih (fun m => h (by simp [m]))] at h1
    cases h1
    simp only [List.cons_append, h2, hc]; rfl

theorem splitComma_comma_free (s t : Str) (ht : t ∈ splitComma s) : ',' ∉ t := by
  induction s generalizing t with
  | nil => simp [splitComma] at ht; subst ht; simp
  | cons c cs ih =>
    obtain ⟨t', ts', h1, h2⟩ := splitComma_cons c cs
    rw [h2] at ht
    by_cases hc : c = ','
    · simp only [hc, beq_self_eq_true, if_true, List.mem_cons] at ht
      rcases ht with e | e | e
      · subst e; simp
      · exact ih t (by rw [h1]; simp [e])
      · exact ih t (by rw [h1]; simp [e])
    · have hb : (c == ',') = false := by simp [hc]
      simp only [hb, Bool.false_eq_true, if_false, List.mem_cons] at ht
      rcases ht with e | e
      · subst e
        have := ih t' (by rw [h1]; simp)
        intro m
        simp only [List.mem_cons] at m
        rcases m with m | m
        · exact hc m.symm
        · exact this m
      · exact ih t (by rw [h1]; simp [e])

theorem splitComma_joinComma (toks : List Str) (hne : toks ≠ []) (hcf : ∀ t ∈ toks, ',' ∉ t) :
    splitComma (joinComma toks) = toks := by
  induction toks with
  | nil => exact absurd rfl hne
  | cons x rest ih =>
    cases rest with
    | nil => exact splitComma_no_comma x (hcf x (by simp))
    | cons y t =>
      show splitComma (x ++ ',' :: joinComma (y :: t)) = _
      rw [splitComma_append _ _ (hcf x (by simp)), ih (by simp) (fun u hu => hcf u (by simp [hu]))]

/-- What `protectManagedHeaders` keeps of one `Connection` value names no managed header. -/
theorem keepTokens_spec {cfg : Cfg} {v v' : Str} (h : keepTokens cfg v = some v') :
    ∀ t ∈ splitComma v', tokenKey t ∉ managedKeys cfg := by
  unfold keepTokens at h
  simp only at h
  split at h
  · cases h
  · rename_i hne
    cases h
    have hne' : (splitComma v).filter (fun t => !(managedKeys cfg).contains (tokenKey t)) ≠ [] := by
      intro e; apply hne; rw [e]; rfl
    have hcf : ∀ t ∈ (splitComma v).filter (fun t => !(managedKeys cfg).contains (tokenKey t)), ',' ∉ t :=
      fun t ht => splitComma_comma_free _ _ (List.mem_filter.mp ht).1
    rw [splitComma_joinComma _ hne' hcf]
    intro t ht
    have := (List.mem_filter.mp ht).2
    simpa using this

/-- After `addHeaders` the `Connection` header names none of the headers fabio maintains — for every
`Connection` header (any number of lines, any casing, any spacing) the client sent. -/
theorem connection_names_no_managed (cfg : Cfg) (h : Headers) (k : Str)
    (hk : k ∈ hopByHopNames (stepConnection cfg h)) : k ∉ managedKeys cfg := by
  unfold hopByHopNames at hk
  cases hc : vals connection h with
  | none =>
    have : stepConnection cfg h = h := by simp [stepConnection, hc]
    rw [this, hc] at hk
    simp at hk
  | some conn =>
    by_cases hke : (conn.filterMap (keepTokens cfg)).isEmpty = true
    · have : stepConnection cfg h = del connection h := by simp [stepConnection, hc, hke]
      rw [this, vals_of_entries_nil (entries_del_self connection h)] at hk
      simp at hk
    · have : stepConnection cfg h = put connection (conn.filterMap (keepTokens cfg)) h := by
        simp [stepConnection, hc, hke]
      rw [this, vals_of_entries_single (entries_put_self connection _ h)] at hk
      simp only [Option.getD_some, List.mem_flatMap, List.mem_filterMap] at hk
      obtain ⟨v, ⟨v0, _, hv0⟩, t, ht, hkt⟩ := hk
      split at hkt
      · cases hkt
      · cases hkt
        exact keepTokens_spec hv0 t ht

/-- **For every `Connection` header the client sends, the headers fabio maintains reach the upstream**
(D12d): what `httputil.ReverseProxy` forwards under a managed name is exactly what `addHeaders` left there.
Assumption (as everywhere): the reverse proxy deletes precisely the headers named by the `Connection`
tokens (`hopByHopNames`) and its fixed hop-by-hop list, puts `Connection`/`Upgrade` back for a protocol switch
and appends to X-Forwarded-For. Forced hypothesis: the header is not itself one of the fixed hop-by-hop names
(an operator who calls the client-IP header `Keep-Alive` loses it). Compose with any sentence above. -/
theorem managed_headers_survive_connection_tokens (cfg : Cfg) (strip : Str) (r : Req) (ip : Str) (k : Str)
    (hk : k ∈ managedKeys cfg) (hx : k ≠ xForwardedFor) (hf : k ∉ fixedHopByHop) :
    entries k (reverseProxy ip (addHeadersIP cfg strip r ip)) = entries k (addHeadersIP cfg strip r ip) := by
  apply reverseProxy_keeps_unnamed ip _ k hx _ hf
  intro hmem
  exact connection_names_no_managed cfg _ k hmem hk

/-- … including the chain in X-Forwarded-For, to which the reverse proxy then appends the peer. -/
theorem xff_chain_survives_connection_tokens (cfg : Cfg) (strip : Str) (r : Req) (ip : Str) :
    entries xForwardedFor (removeHopByHop (addHeadersIP cfg strip r ip))
      = entries xForwardedFor (addHeadersIP cfg strip r ip) := by
  apply entries_removeHopByHop _ _ _ (by decide)
  intro hmem
  exact connection_names_no_managed cfg _ _ hmem (by simp [managedKeys])

/-- Headline corollary: on a TLS connection the upstream receives the configured TLS header with the
configured value whatever the client put into `Connection` (and into that header itself). -/
theorem tls_header_reaches_upstream (cfg : Cfg) (strip : Str) (r : Req) (ip : Str)
    (hne : cfg.tlsHeader ≠ []) (hcn : canonicalKey cfg.tlsHeader ≠ connection)
    (hx : canonicalKey cfg.tlsHeader ≠ xForwardedFor) (hf : canonicalKey cfg.tlsHeader ∉ fixedHopByHop)
    (htls : r.tls.isSome = true) :
    entries (canonicalKey cfg.tlsHeader) (reverseProxy ip (addHeadersIP cfg strip r ip))
      = [(canonicalKey cfg.tlsHeader, [cfg.tlsHeaderValue])] := by
  have hmem : canonicalKey cfg.tlsHeader ∈ managedKeys cfg := by
    have : cfg.tlsHeader.isEmpty = false := by
      cases h : cfg.tlsHeader with
      | nil => exact absurd h hne
      | cons _ _ => rfl
    unfold managedKeys
    exact List.mem_append_right _ (List.mem_map.mpr ⟨cfg.tlsHeader, by simp [this], rfl⟩)
  rw [managed_headers_survive_connection_tokens cfg strip r ip _ hmem hx hf]
  exact (tls_header_iff_tls cfg strip r ip hne hcn).1 htls

/-- What the repair closed, kept as a witness about the code *without* its last statement
(`addHeadersCore`): on TLS with `X-Tls: on` and `X-Client-Ip` configured, `Connection: X-Tls, x-client-ip`
made the reverse proxy drop both. With the last statement the same input keeps both (examples below). -/
theorem connection_header_could_remove_managed :
    ∃ (cfg : Cfg) (r : Req) (ip : Str), cfg.tlsHeader ≠ [] ∧ r.tls.isSome = true ∧
      entries (canonicalKey cfg.tlsHeader) (reverseProxy ip (addHeadersCore cfg [] r ip)) = [] ∧
      entries (canonicalKey cfg.clientIPHeader) (reverseProxy ip (addHeadersCore cfg [] r ip)) = [] :=
  ⟨{ clientIPHeader := "X-Client-Ip".toList, tlsHeader := "X-Tls".toList, tlsHeaderValue := "on".toList },
   { headers := ofWire [("connection".toList, some "X-Tls, x-client-ip".toList)], host := "foo.com".toList,
     remoteAddr := "1.2.3.4:5".toList, tls := some ⟨0x0303, 0xc02f⟩, proto := "HTTP/1.1".toList },
   "1.2.3.4".toList, by decide, by decide, by decide, by decide⟩

/-! #### Strict-Transport-Security -/

/-- **Strict-Transport-Security is added to responses only on TLS connections**: on a plain connection
`addResponseHeaders` changes nothing; on TLS with a positive max-age the header is set once. -/
theorem sts_only_on_tls (cfg : Cfg) (w : Headers) :
    addResponseHeaders cfg false w = w ∧
    (cfg.stsMaxAge > 0 → entries stsName (addResponseHeaders cfg true w) = [(stsName, [stsValue cfg])]) ∧
    (cfg.stsMaxAge ≤ 0 → addResponseHeaders cfg true w = w) := by
  refine ⟨by simp [addResponseHeaders], ?_, ?_⟩
  · intro h; simp [addResponseHeaders, h, entries_put_self]
  · intro h
    have : ¬ (cfg.stsMaxAge > 0) := by omega
    simp [addResponseHeaders, this]

/-- The max-age the client reads is the configured one, capped at the largest 32 bit value — never a wrapped
(negative or small) number (repair `e4a57ff`; `i32toa` formats an `int32`). -/
theorem sts_max_age_is_configured (cfg : Cfg) (hpos : cfg.stsMaxAge > 0) :
    wrap32 (clampMaxAge cfg.stsMaxAge) = (if cfg.stsMaxAge ≤ 2147483647 then cfg.stsMaxAge else 2147483647) ∧
    wrap32 (clampMaxAge cfg.stsMaxAge) > 0 := by
  unfold clampMaxAge wrap32
  by_cases h : cfg.stsMaxAge > 2147483647
  · have h' : ¬ cfg.stsMaxAge ≤ 2147483647 := by omega
    simp only [h, if_true, h', if_false]
    decide
  · have h' : cfg.stsMaxAge ≤ 2147483647 := by omega
    simp only [h, if_false, h', if_true]
    have hm : cfg.stsMaxAge % 4294967296 = cfg.stsMaxAge := Int.emod_eq_of_lt (by omega) (by omega)
    simp only [hm]
    have : ¬ cfg.stsMaxAge ≥ 2147483648 := by omega
    simp only [this, if_false]
    exact ⟨trivial, hpos⟩

theorem sts_absent_on_plain (cfg : Cfg) (uuid hostOpt targetHost strip : Str) (r : Req) (u : Upstream)
    (htls : r.tls = none) (hs : serve cfg uuid hostOpt targetHost strip r = some u) : u.resp = [] := by
  simp only [serve] at hs
  split at hs <;> cases hs <;> simp [addResponseHeaders, htls]

/-! ### non-vacuity: the hypotheses are satisfiable on forged, differently-cased, repeated input -/

def exCfg : Cfg := { clientIPHeader := "X-Client-Ip".toList, tlsHeader := "x-tls".toList, tlsHeaderValue := "on".toList,
                     localIP := "5.6.7.8".toList, stsMaxAge := 31536000, stsSubdomains := true, requestID := "X-Request-Id".toList }
def exWire : List (Str × Option Str) :=
  [("x-client-ip".toList, some "6.6.6.6".toList), ("X-CLIENT-IP".toList, some "7.7.7.7".toList),
   ("X-TLS".toList, some "on".toList), ("x-Tls".toList, some "on".toList),
   ("x-forwarded-for".toList, some "9.9.9.9".toList), ("UPGRADE".toList, some "WebSocket".toList)]
def exReq (tls : Option TLS) : Req :=
  { headers := ofWire exWire, host := "client.example:8080".toList, remoteAddr := "1.2.3.4:5555".toList,
    tls := tls, proto := "HTTP/1.1".toList }

-- both casings of the forged client-IP header collapse into one entry before addHeaders runs …
example : vals "X-Client-Ip".toList (ofWire exWire) = some ["6.6.6.6".toList, "7.7.7.7".toList] := by decide
-- … and the upstream gets the peer only; the forged TLS header is gone on a plain connection
example : entries "X-Client-Ip".toList (addHeadersIP exCfg [] (exReq none) "1.2.3.4".toList)
    = [("X-Client-Ip".toList, ["1.2.3.4".toList])] := by decide
example : entries "X-Tls".toList (addHeadersIP exCfg [] (exReq none) "1.2.3.4".toList) = [] := by decide
example : entries "X-Tls".toList (addHeadersIP exCfg [] (exReq (some ⟨0x0303, 0xc02f⟩)) "1.2.3.4".toList)
    = [("X-Tls".toList, ["on".toList])] := by decide
-- the hypotheses of `clientip_overwritten` hold for this configuration
example : canonicalKey exCfg.clientIPHeader ∉
    [xRealIp, xForwardedFor, xForwardedProto, xForwardedPort, xForwardedHost, xForwardedPrefix, forwarded, connection] := by decide
example : TLSKeyFree exCfg (canonicalKey exCfg.clientIPHeader) := Or.inr (by decide)
-- mixed-case websocket upgrade: X-Forwarded-For keeps the chain and ends with the peer (D12b)
example : isWebsocket (exReq none).headers = true := by decide
example : vals xForwardedFor (addHeadersIP exCfg [] (exReq none) "1.2.3.4".toList) = some ["9.9.9.9, 1.2.3.4".toList] := by decide
example : lastElem "9.9.9.9, 1.2.3.4".toList = "1.2.3.4".toList := by decide
example : vals forwarded (addHeadersIP exCfg [] (exReq none) "1.2.3.4".toList)
    = some ["for=1.2.3.4; proto=ws; by=5.6.7.8; httpproto=http/1.1".toList] := by decide
-- D12: route option host=up.example — the upstream sees Host up.example and is told the client's host/port
example : (serve exCfg "id".toList "up.example".toList "10.0.0.1:9000".toList [] (exReq none)).map
    (fun u => (u.host, vals xForwardedHost u.headers, vals xForwardedPort u.headers))
    = some ("up.example".toList, some ["client.example:8080".toList], some ["8080".toList]) := by decide
-- D12d: Connection names the TLS and client-IP headers next to harmless tokens; both survive, the tokens stay
def exConnReq : Req :=
  { headers := ofWire [("connection".toList, some "keep-alive, X-TLS ,x-client-ip, X-Other".toList),
                       ("Connection".toList, some "x-real-ip".toList)],
    host := "foo.com".toList, remoteAddr := "1.2.3.4:5".toList, tls := some ⟨0x0303, 0xc02f⟩, proto := "HTTP/1.1".toList }
example : vals connection (addHeadersIP exCfg [] exConnReq "1.2.3.4".toList) = some ["keep-alive, X-Other".toList] := by decide
example : entries "X-Tls".toList (reverseProxy "1.2.3.4".toList (addHeadersIP exCfg [] exConnReq "1.2.3.4".toList))
    = [("X-Tls".toList, ["on".toList])] := by decide
example : entries "X-Client-Ip".toList (reverseProxy "1.2.3.4".toList (addHeadersIP exCfg [] exConnReq "1.2.3.4".toList))
    = [("X-Client-Ip".toList, ["1.2.3.4".toList])] := by decide
example : canonicalKey exCfg.tlsHeader ∈ managedKeys exCfg := by decide
example : localPort ("client.example".toList ++ ':' :: "8080".toList) true = "8080".toList :=
  localPort_name_port _ _ _ (by decide) (by decide) (by decide) (by decide)
example : localPort "[::1]:8080".toList false = "8080".toList := by decide
example : localPort "[::1]".toList true = "443".toList := by decide
example : splitHostPort "[::1]:80".toList = some ("::1".toList, "80".toList) := by decide
example : splitHostPort "1.2.3.4".toList = none := by decide
example : stsValue exCfg = "max-age=31536000; includeSubdomains".toList := by decide
example : stsValue { exCfg with stsMaxAge := 3000000000 } = "max-age=2147483647; includeSubdomains".toList := by decide
example : scheme (ofWire [("forwarded".toList, some "for=1.1.1.1;proto=https;by=2.2.2.2".toList)]) false = "https".toList := by decide
example : canonicalKey "x-cLIENT-ip".toList = "X-Client-Ip".toList := by decide
example : canonicalKey "bad name".toList = "bad name".toList := by decide

end Fabio.Props.C08
