import Fabio.Model.Route
import Fabio.Model.C04
import Fabio.Model.C04Spec
import Fabio.Lemmas.C04Ring
import Fabio.Lemmas.C04Weights
import Fabio.Lemmas.C04Slots
import Fabio.Lemmas.C04Pick
import Fabio.Lemmas.C04Table
import Mathlib.Data.List.Perm.Subperm
/-!
C04 — traffic is split by the configured weights: property theorems (over ℚ; the gap to float64 is bounded
per case by the correspondence, see `checks/C04.json`). Helper lemmas live in `Fabio/Lemmas/C04*.lean`.

Reading of the statement (DESIGN.md §7 C04 "I"): "to within the resolution of 10,000 slots" = per target
|slots − 10⁴·weight| < 1, total slots within #targets of 10⁴, and *exact* equality with the weights when no
target has a fixed weight (the ring is bypassed: every target once per cycle).
-/
namespace Fabio.Props.C04
open Fabio Fabio.Model.Route Fabio.Model.C04 Fabio.Lemmas.C04

/-! ## effective weights (`weighTargets`, first half) -/

/-- Every effective weight is non-negative. -/
theorem weights_nonneg (ts : List Target) : ∀ t ∈ weigh ts, 0 ≤ t.weight := by
  intro t ht
  rw [weigh_eq] at ht
  obtain ⟨t0, _, rfl⟩ := List.mem_map.mp ht
  exact eff_nonneg ts t0

/-- The effective weights of a non-empty route sum to one — in all four cases (no fixed weight; fixed sum
> 1, with or without dynamic targets; every target fixed and sum < 1; fixed + dynamic with sum ≤ 1). -/
theorem weights_sum_one (ts : List Target) (h : ts ≠ []) : ((weigh ts).map (·.weight)).sum = 1 := by
  rw [weights_map]; exact eff_sum_one ts h

/-- `weighTargets` changes nothing but the effective weight. -/
theorem weigh_keeps_fields (ts : List Target) (i : Nat) (t : Target) (h : ts[i]? = some t) :
    ∃ w, (weigh ts)[i]? = some { t with weight := w } := by
  rw [weigh_getElem?, h]; exact ⟨_, rfl⟩

/-- Fixed weights are honoured as given when they do not exceed 100 % and either some target is dynamic or
they sum to exactly 100 %. -/
theorem fixed_honoured (ts : List Target) (i : Nat) (t : Target) (h : ts[i]? = some t)
    (hf : 0 < t.fixedWeight) (hs : sumFixed ts ≤ 1) (hd : nFixed ts < ts.length ∨ sumFixed ts = 1) :
    (weigh ts)[i]? = some { t with weight := t.fixedWeight } := by
  rw [weigh_getElem?, h]
  have hmem : t ∈ ts := List.mem_of_getElem? h
  have hn : nFixed ts ≠ 0 := by
    rw [nFixed_def]
    have : t ∈ ts.filter isFixed := List.mem_filter.mpr ⟨hmem, by simp [isFixed, hf]⟩
    intro h0
    rw [List.eq_nil_of_length_eq_zero h0] at this; cases this
  have hsc : scaleOf ts = 1 := by
    unfold scaleOf
    have h1 : ¬ 1 < sumFixed ts := not_lt.mpr hs
    rcases hd with hd | hd
    · have : nFixed ts ≠ ts.length := by omega
      simp [h1, this]
    · simp [hd]
  simp [eff, hn, hf, hsc]

/-- Fixed weights exceeding 100 % are scaled down proportionally (each divided by their sum) and the
dynamic targets get nothing. -/
theorem scaled_down_proportionally (ts : List Target) (i : Nat) (t : Target) (h : ts[i]? = some t)
    (hs : 1 < sumFixed ts) :
    (weigh ts)[i]? = some { t with weight := if 0 < t.fixedWeight then t.fixedWeight / sumFixed ts else 0 } := by
  rw [weigh_getElem?, h]
  have hn : nFixed ts ≠ 0 := by
    intro h0; rw [sumFixed_zero ts h0] at hs; exact absurd hs (by norm_num)
  have hsc : scaleOf ts = 1 / sumFixed ts := by simp [scaleOf, hs]
  have hdy : dynOf ts = 0 := by
    unfold dynOf
    simp only
    by_cases hk : ts.length - nFixed ts = 0
    · rw [hk]; simp
    · have hkQ : (0 : Rat) < ((ts.length - nFixed ts : Nat) : Rat) := by exact_mod_cast Nat.pos_of_ne_zero hk
      have : (1 - sumFixed ts) / ((ts.length - nFixed ts : Nat) : Rat) < 0 :=
        div_neg_of_neg_of_pos' (by linarith) hkQ
      simp [this]
  by_cases hf : 0 < t.fixedWeight
  · simp [eff, hn, hf, hsc, div_eq_mul_inv]
  · simp [eff, hn, hf, hdy]

/-- If every target has a fixed weight and they sum to less than 100 % they are scaled up (each divided by
their sum). -/
theorem scaled_up_when_all_fixed (ts : List Target) (i : Nat) (t : Target) (h : ts[i]? = some t)
    (hall : nFixed ts = ts.length) (hs : sumFixed ts < 1) :
    (weigh ts)[i]? = some { t with weight := t.fixedWeight / sumFixed ts } := by
  rw [weigh_getElem?, h]
  have hmem : t ∈ ts := List.mem_of_getElem? h
  have hlen : 0 < ts.length := List.length_pos_of_mem hmem
  have hn : nFixed ts ≠ 0 := by omega
  have hf : 0 < t.fixedWeight := by
    have hfl : ts.filter isFixed = ts := by
      apply List.filter_eq_self.mpr
      have := List.length_filter_eq_length_iff.mp (by rw [← nFixed_def]; exact hall)
      exact this
    have : t ∈ ts.filter isFixed := by rw [hfl]; exact hmem
    simpa [isFixed] using (List.mem_filter.mp this).2
  have hsc : scaleOf ts = 1 / sumFixed ts := by simp [scaleOf, hall, hs]
  simp [eff, hn, hf, hsc, div_eq_mul_inv]

/-- The targets without a fixed weight share what the fixed weights leave over equally (this includes the
case of no fixed weight at all: `1 / n`). -/
theorem dynamic_share_equal (ts : List Target) (i : Nat) (t : Target) (h : ts[i]? = some t)
    (hf : ¬ 0 < t.fixedWeight) (hs : sumFixed ts ≤ 1) :
    (weigh ts)[i]? = some { t with weight := (1 - sumFixed ts) / ((ts.length - nFixed ts : Nat) : Rat) } := by
  rw [weigh_getElem?, h]
  by_cases hn : nFixed ts = 0
  · simp [eff, hn, sumFixed_zero ts hn]
  · have hdn : ¬ (1 - sumFixed ts) / ((ts.length - nFixed ts : Nat) : Rat) < 0 := by
      apply not_lt.mpr
      apply div_nonneg
      · linarith
      · exact Nat.cast_nonneg _
    simp [eff, hn, hf, dynOf, hdn]

/-- `route weight`: each of the `n` matching targets is given the requested weight `w / n`, every other
target keeps its requested weight, no other field changes, and `n` is reported. -/
theorem setWeight_spreads (r : Route) (service : Str) (w : Rat) (tags : List Str) :
    let n := (r.targets.filter (matchesWeight service tags)).length
    (r.setWeight service w tags).2 = n ∧
    (n = 0 → (r.setWeight service w tags).1 = r) ∧
    (n ≠ 0 → ∀ (i : Nat) (t : Target), r.targets[i]? = some t →
      ∃ w', (r.setWeight service w tags).1.targets[i]? =
        some { t with fixedWeight := if matchesWeight service tags t then w / (n : Rat) else t.fixedWeight,
                      weight := w' }) := by
  intro n
  by_cases h0 : n = 0
  · have h0' : (r.targets.filter (matchesWeight service tags)).length = 0 := h0
    simp [Route.setWeight, h0', h0]
  · have h0' : ¬ (r.targets.filter (matchesWeight service tags)).length = 0 := h0
    refine ⟨by simp [Route.setWeight, h0', n], fun h => absurd h h0, fun _ i t ht => ?_⟩
    simp only [Route.setWeight, h0', if_false, weigh_getElem?, List.getElem?_map, ht, Option.map_some]
    by_cases hm : matchesWeight service tags t <;> simp [hm, n]

/-- `addTarget` clamps a negative requested weight to 0, i.e. the target is dynamic. -/
theorem addTarget_clamps_negative (r : Route) (service url : Str) (fw : Rat) (tags : List Str)
    (opts : List (Str × Str)) (h : fw < 0) :
    r.addTarget service url fw tags opts = r.addTarget service url 0 tags opts := by
  unfold Route.addTarget
  simp [h]

/-! ## slots -/

/-- Each target's slot count is within one slot of `10⁴ · weight`. -/
theorem slot_error_lt_one (w : Rat) (hw : 0 ≤ w) : |(slotCount w : Rat) - 10000 * w| < 1 := by
  have := slotCount_abs w hw
  simpa [maxSlots] using this

/-- The ring of a non-empty route has between `10⁴ − n` and `10⁴ + n` slots (`n` targets). -/
theorem slots_total_near (ts : List Target) (h : ts ≠ []) :
    |((sumInt (slotCounts (weigh ts)) : Int) : Rat) - 10000| ≤ (ts.length : Rat) := by
  have hs := slots_sum_near ((weigh ts).map (·.weight)) (by
    intro w hw
    obtain ⟨t, ht, rfl⟩ := List.mem_map.mp hw
    exact weights_nonneg ts t ht)
  rw [weights_sum_one ts h] at hs
  simp only [List.length_map, weigh_length, List.map_map] at hs
  rw [sumInt_eq]
  simpa [slotCounts, maxSlots, Function.comp_def] using hs

/-- at least one slot for a positive weight, none for weight zero -/
theorem slot_positive_iff (w : Rat) : (0 < w → 1 ≤ slotCount w) ∧ (w = 0 → slotCount w = 0) :=
  ⟨slotCount_pos w, fun h => by rw [h]; exact slotCount_zero⟩

/-! ## ring fill -/

/-- The scan `for targets[next] != nil { next = (next+1) % usedSlots }` terminates within `usedSlots` steps
on a free slot whenever fewer than `usedSlots` slots are filled. -/
theorem ring_fill_terminates (ring : Ring) (next : Nat) (hn : next < ring.length)
    (hfree : 0 < ring.count none) :
    ∃ k, findFree ring next ring.length = some k ∧ k < ring.length ∧ ring[k]? = some none :=
  findFree_of_free ring next hn hfree

/-- For every vector of non-negative slot counts and **every** placement order (any permutation of the
entries — sortedness is not even needed) the fill neither panics nor loops, the ring has `Σ nᵢ` slots, no
slot is left empty, and target `i` occupies exactly `nᵢ` slots. -/
theorem ring_counts (ns : List Int) (hpos : ∀ n ∈ ns, 0 ≤ n) (pl : List (Int × Nat))
    (hperm : pl.Perm (entries ns)) :
    ∃ ring, fillRing ns pl = .ok ring ∧ ring.length = (sumInt ns).toNat ∧ (∀ s ∈ ring, s ≠ none) ∧
      ∀ i (h : i < ns.length), ring.count (some i) = (ns[i]).toNat := by
  obtain ⟨hsum, hnn⟩ := toNat_sum ns hpos
  have hused : ¬ sumInt ns < 0 := by rw [sumInt_eq]; omega
  have hnd : (pl.map (·.2)).Nodup := by
    have : (pl.map (·.2)).Perm ((entries ns).map (·.2)) := hperm.map _
    rw [this.nodup_iff, entries, entries_map_snd]
    exact List.nodup_range'
  have hps : posSum pl = (sumInt ns).toNat := by
    rw [posSum_perm hperm, posSum_entries, hsum, sumInt_eq]
  obtain ⟨ring, h1, h2, h3, h4, _⟩ := fill_spec (sumInt ns).toNat pl (List.replicate (sumInt ns).toNat none) hnd
    (by simp [hps]) (by
      by_cases hz : (sumInt ns).toNat = 0
      · left; rw [hps, hz]
      · right; simp; omega)
  refine ⟨ring, by simp only [fillRing, hused, if_false]; exact h1, by simpa using h2, ?_, ?_⟩
  · have : ring.count none = 0 := by
      rw [hps] at h3; simp at h3; omega
    intro s hs hnone
    rw [hnone] at hs
    exact absurd (List.count_pos_iff.mpr hs) (by omega)
  · intro i hi
    have hmem : (ns[i], i) ∈ pl := by
      apply hperm.mem_iff.mpr
      rw [entries, List.mem_zipIdx_iff_getElem?]
      simp [hi]
    have := h4 (ns[i], i) hmem
    have hz : (List.replicate (sumInt ns).toNat (none : Option Nat)).count (some i) = 0 := by
      rw [List.count_replicate]; simp
    rw [hz] at this
    simpa using this

/-- the driver's executable check of a placement order implies the hypothesis of `ring_counts` -/
theorem validPlacement_sound (ns : List Int) (pl : List (Int × Nat)) (h : validPlacement ns pl = true) :
    pl.Perm (entries ns) := by
  simp only [validPlacement, Bool.and_eq_true, beq_iff_eq, List.all_eq_true, List.mem_range] at h
  obtain ⟨⟨_, hlen⟩, hall⟩ := h
  have hnd : (entries ns).Nodup := by
    have : ((entries ns).map (·.2)).Nodup := by rw [entries, entries_map_snd]; exact List.nodup_range'
    exact List.Nodup.of_map _ this
  have hsub : entries ns ⊆ pl := by
    intro e he
    rw [entries, List.mem_zipIdx_iff_getElem?] at he
    have hi : e.2 < ns.length := by
      by_cases hlt : e.2 < ns.length
      · exact hlt
      · rw [List.getElem?_eq_none (by omega)] at he; cases he
    have := hall e.2 hi
    rw [List.contains_iff_mem] at this
    have hgd : ns.getD e.2 0 = e.1 := by
      rw [List.getD_eq_getElem?_getD, he]; rfl
    rw [hgd] at this
    exact this
  have hsp : (entries ns).Subperm pl := List.subperm_of_subset hnd hsub
  exact (hsp.perm_of_length_le (by rw [hlen, entries, List.length_zipIdx])).symm

/-- The ring of a non-empty weighed route, for every placement order: no panic, not empty, no nil slot,
every slot a target of the route, and target `i` occupies exactly `slotCount wᵢ` slots — or exactly one slot
each when no target has a fixed weight (the bypass `r.wTargets = r.Targets`). -/
theorem ring_of_route (ts : List Target) (hne : ts ≠ []) (pl : List (Int × Nat))
    (hperm : pl.Perm (entries (slotCounts (weigh ts)))) :
    ∃ ring, ringOf (weigh ts) pl = .ok ring ∧ ring ≠ [] ∧ (∀ s ∈ ring, s ≠ none) ∧
      ∀ i t, (weigh ts)[i]? = some t →
        ring.count (some i) = if nFixed ts = 0 then 1 else (slotCount t.weight).toNat := by
  have hlen : 0 < ts.length := List.length_pos_iff.mpr hne
  unfold ringOf
  rw [weigh_nFixed]
  by_cases hn : nFixed ts = 0
  · simp only [hn, if_true, weigh_length]
    refine ⟨_, rfl, ?_, ?_, ?_⟩
    · intro h
      have := congrArg List.length h
      simp at this
      rw [this] at hlen; exact absurd hlen (by decide)
    · intro s hs; obtain ⟨_, _, rfl⟩ := List.mem_map.mp hs; simp
    · intro i t hi
      have hil : i < ts.length := by
        by_cases hlt : i < ts.length
        · exact hlt
        · rw [List.getElem?_eq_none (by rw [weigh_length]; omega)] at hi; cases hi
      rw [List.count_eq_countP, List.countP_map]
      have : (List.range ts.length).countP ((fun x => x == some i) ∘ some) = (List.range ts.length).count i := by
        rw [List.count_eq_countP]; congr 1
      rw [this]
      exact List.count_eq_one_of_mem List.nodup_range (List.mem_range.mpr hil)
  · simp only [hn, if_false]
    have hpos : ∀ n ∈ slotCounts (weigh ts), 0 ≤ n := by
      intro n hnm
      obtain ⟨t, ht, rfl⟩ := List.mem_map.mp hnm
      exact slotCount_nonneg _ (weights_nonneg ts t ht)
    obtain ⟨ring, h1, h2, h3, h4⟩ := ring_counts _ hpos pl hperm
    refine ⟨ring, h1, ?_, h3, ?_⟩
    · -- not empty: the weights sum to one, so some weight is positive and gets a slot
      intro hnil
      have htot := slots_total_near ts hne
      rw [hnil] at h2
      have hz : sumInt (slotCounts (weigh ts)) = 0 := by
        have := (toNat_sum _ hpos).2
        rw [← sumInt_eq] at this
        simp at h2; omega
      rw [hz] at htot
      -- |0 - 10000| ≤ n would need n ≥ 10000; instead use: a positive weight exists
      have hsum := weights_sum_one ts hne
      have hex : ∃ t ∈ weigh ts, 0 < t.weight := by
        by_contra hno
        have hall : ∀ w ∈ (weigh ts).map (·.weight), w = 0 := by
          intro w hw
          obtain ⟨t, ht, rfl⟩ := List.mem_map.mp hw
          have h0 := weights_nonneg ts t ht
          have : ¬ 0 < t.weight := fun hp => hno ⟨t, ht, hp⟩
          exact le_antisymm (not_lt.mp this) h0
        have : ((weigh ts).map (·.weight)).sum = 0 := List.sum_eq_zero hall
        rw [this] at hsum; exact absurd hsum (by norm_num)
      obtain ⟨t, ht, hp⟩ := hex
      obtain ⟨i, hi, hti⟩ := List.getElem_of_mem ht
      have hi' : i < (slotCounts (weigh ts)).length := by simpa [slotCounts] using hi
      have hc := h4 i hi'
      rw [hnil] at hc
      have : (slotCounts (weigh ts))[i] = slotCount t.weight := by simp [slotCounts, hti]
      rw [this] at hc
      have := slotCount_pos _ hp
      simp at hc; omega
    · intro i t hi
      have hil : i < (weigh ts).length := by
        by_cases hlt : i < (weigh ts).length
        · exact hlt
        · rw [List.getElem?_eq_none (by omega)] at hi; cases hi
      have hi' : i < (slotCounts (weigh ts)).length := by simpa [slotCounts] using hil
      rw [h4 i hi']
      have hti : (weigh ts)[i] = t := by
        rw [List.getElem?_eq_getElem hil] at hi; exact Option.some.inj hi
      simp [slotCounts, hti]

/-- A target with positive effective weight is on the ring, whatever the placement order. -/
theorem positive_weight_never_starved (ts : List Target) (hne : ts ≠ []) (pl : List (Int × Nat))
    (hperm : pl.Perm (entries (slotCounts (weigh ts)))) (i : Nat) (t : Target)
    (hi : (weigh ts)[i]? = some t) (hw : 0 < t.weight) :
    ∃ ring, ringOf (weigh ts) pl = .ok ring ∧ some i ∈ ring := by
  obtain ⟨ring, h1, _, _, h4⟩ := ring_of_route ts hne pl hperm
  refine ⟨ring, h1, List.count_pos_iff.mp ?_⟩
  rw [h4 i t hi]
  split
  · exact Nat.one_pos
  · have := slotCount_pos _ hw; omega

/-- A target with effective weight zero is not on the ring, hence no picker can return it: `rrPicker` and
`rndPicker` only ever return ring slots. (Without any fixed weight every weight is `1/n > 0`.) -/
theorem zero_weight_never_picked (ts : List Target) (hne : ts ≠ []) (pl : List (Int × Nat))
    (hperm : pl.Perm (entries (slotCounts (weigh ts)))) (i : Nat) (t : Target)
    (hi : (weigh ts)[i]? = some t) (hw : t.weight = 0) :
    ∃ ring, ringOf (weigh ts) pl = .ok ring ∧ some i ∉ ring ∧
      (∀ total s total', rrPick ring total = .ok (s, total') → s ≠ some i) ∧
      (∀ rnd s, rndPick ring rnd = .ok s → s ≠ some i) := by
  obtain ⟨ring, h1, _, _, h4⟩ := ring_of_route ts hne pl hperm
  have hn : nFixed ts ≠ 0 := by
    intro h0
    -- all weights are 1/n > 0
    have hil : i < ts.length := by
      by_cases hlt : i < ts.length
      · exact hlt
      · rw [List.getElem?_eq_none (by rw [weigh_length]; omega)] at hi; cases hi
    rw [weigh_getElem?, List.getElem?_eq_getElem hil] at hi
    have : t.weight = 1 / (ts.length : Rat) := by
      have := Option.some.inj hi
      rw [← this]; simp [eff, h0]
    rw [this] at hw
    have hpos : (0 : Rat) < (ts.length : Rat) := by exact_mod_cast (List.length_pos_iff.mpr hne)
    have : (0 : Rat) < 1 / (ts.length : Rat) := one_div_pos.mpr hpos
    linarith
  have hc : ring.count (some i) = 0 := by
    rw [h4 i t hi]; simp [hn, hw, slotCount_zero]
  have hnot : some i ∉ ring := fun hm => absurd (List.count_pos_iff.mpr hm) (by omega)
  refine ⟨ring, h1, hnot, ?_, ?_⟩
  · intro total s total' hp hs
    unfold rrPick at hp
    split at hp
    · cases hp
    · split at hp
      · rename_i s' hs'
        cases hp
        exact hnot (hs ▸ List.mem_of_getElem? hs')
      · cases hp
  · intro rnd s hp hs
    unfold rndPick at hp
    simp only at hp
    split at hp
    · cases hp
    · split at hp
      · rename_i s' hs'
        cases hp
        exact hnot (hs ▸ List.mem_of_getElem? hs')
      · cases hp

/-! ## pickers -/

/-- Any window of `N = len(ring)` consecutive sequential `rrPicker` calls (not crossing the wrap-around of
the uint64 cursor) returns every slot content exactly as often as it occurs on the ring. -/
theorem rr_cycle_exact (ring : Ring) (h : 0 < ring.length) (total : Nat)
    (hw : total + ring.length ≤ uint64Size) :
    ∃ out, rrRun ring ring.length total = .ok out ∧ ∀ s, out.count s = ring.count s := by
  refine ⟨ring.rotate total, rrRun_cycle ring h total hw, fun s => ?_⟩
  exact (List.rotate_perm ring total).count_eq s

/-- closed form of `k` sequential `rrPicker` calls (what the driver evaluates) -/
theorem rrRun_eq (ring : Ring) (h : 0 < ring.length) (k total : Nat) (ht : total < uint64Size) :
    ∃ out, rrRun ring k total = .ok out ∧ out.length = k ∧
      ∀ j, j < k → out[j]? = ring[((total + j) % uint64Size) % ring.length]? :=
  rrRun_spec ring h k total ht

/-- End to end: on a non-empty route, for every placement order and every cursor position, a full cycle of
round-robin lookups sends target `i` exactly `nᵢ` requests where `|nᵢ − 10⁴·wᵢ| < 1` (and exactly one of
`n` when no weight is fixed, i.e. the share `wᵢ = 1/n` exactly). -/
theorem rr_share (ts : List Target) (hne : ts ≠ []) (pl : List (Int × Nat))
    (hperm : pl.Perm (entries (slotCounts (weigh ts)))) (total : Nat) :
    ∃ ring, ringOf (weigh ts) pl = .ok ring ∧ 0 < ring.length ∧
      (total + ring.length ≤ uint64Size →
        ∃ out, rrRun ring ring.length total = .ok out ∧
          ∀ i t, (weigh ts)[i]? = some t →
            (nFixed ts = 0 → out.count (some i) = 1 ∧ t.weight = 1 / (ts.length : Rat)) ∧
            (nFixed ts ≠ 0 → |((out.count (some i) : Nat) : Rat) - 10000 * t.weight| < 1)) := by
  obtain ⟨ring, h1, h2, _, h4⟩ := ring_of_route ts hne pl hperm
  have hl : 0 < ring.length := List.length_pos_iff.mpr h2
  refine ⟨ring, h1, hl, fun hw => ?_⟩
  obtain ⟨out, ho, hc⟩ := rr_cycle_exact ring hl total hw
  refine ⟨out, ho, fun i t hi => ⟨fun h0 => ?_, fun hn => ?_⟩⟩
  · refine ⟨by rw [hc, h4 i t hi]; simp [h0], ?_⟩
    have hil : i < ts.length := by
      by_cases hlt : i < ts.length
      · exact hlt
      · rw [List.getElem?_eq_none (by rw [weigh_length]; omega)] at hi; cases hi
    rw [weigh_getElem?, List.getElem?_eq_getElem hil] at hi
    have := Option.some.inj hi
    rw [← this]; simp [eff, h0]
  · rw [hc, h4 i t hi]
    simp only [hn, if_false]
    have hwn : 0 ≤ t.weight := weights_nonneg ts t (List.mem_of_getElem? hi)
    have h0 := slotCount_nonneg _ hwn
    have : (((slotCount t.weight).toNat : Nat) : Rat) = ((slotCount t.weight : Int) : Rat) := by
      have : (((slotCount t.weight).toNat : Nat) : Int) = slotCount t.weight := Int.toNat_of_nonneg h0
      exact_mod_cast congrArg (fun z : Int => (z : Rat)) this
    rw [this]
    exact slot_error_lt_one _ hwn

/-- `rndPicker` with an RNG honouring its contract (`0 ≤ randIntn n < n`) returns a ring slot; on the ring
of a route that is a target with positive weight. -/
theorem rnd_picks_ring_slot (ring : Ring) (rnd : Nat → Int)
    (hr : 0 ≤ rnd ring.length ∧ rnd ring.length < ring.length) :
    ∃ s, rndPick ring rnd = .ok s ∧ s ∈ ring := by
  have hk : (rnd ring.length).toNat < ring.length := by omega
  refine ⟨ring[(rnd ring.length).toNat], ?_, List.getElem_mem hk⟩
  unfold rndPick
  have : ¬ rnd ring.length < 0 := by omega
  simp [this, List.getElem?_eq_getElem hk]

/-- `Table.lookup`: a route with a single target always answers with that target, a route without targets
with nil; neither consults the picker. -/
theorem lookup_shortcuts (pick : Outcome (Option Nat)) :
    lookupPick 0 pick = .ok none ∧ lookupPick 1 pick = .ok (some 0) ∧
    ∀ n, 2 ≤ n → lookupPick n pick = pick := by
  refine ⟨rfl, rfl, fun n hn => ?_⟩
  unfold lookupPick
  have h0 : n ≠ 0 := by omega
  have h1 : n ≠ 1 := by omega
  simp [h0, h1]

/-! ## every route of every table

The statements above are about `weigh ts`. The route commands (`route add` / `route del` / `route weight`,
any script, through `NewTable` or `NewTableCustom`) only ever store targets that came out of `weigh`, and
never leave an empty route behind — so they hold for every route of every table. -/

theorem every_route_weights (env : Env) (defs : List RouteDef) (t : Table) (h : newTable env defs = .ok t) :
    ∀ kv ∈ t, ∀ r ∈ kv.2,
      r.targets ≠ [] ∧ (∀ tg ∈ r.targets, 0 ≤ tg.weight) ∧ (r.targets.map (·.weight)).sum = 1 := by
  intro kv hkv r hr
  obtain ⟨hne, ts, hts⟩ := newTable_ok env defs t h kv hkv r hr
  have htsne : ts ≠ [] := by
    intro h0; apply hne; rw [hts, h0]; rfl
  refine ⟨hne, ?_, ?_⟩
  · rw [hts]; exact weights_nonneg ts
  · rw [hts]; exact weights_sum_one ts htsne

theorem every_route_ring (env : Env) (defs : List RouteDef) (t : Table) (h : newTable env defs = .ok t) :
    ∀ kv ∈ t, ∀ r ∈ kv.2, ∀ pl : List (Int × Nat), pl.Perm (entries (slotCounts r.targets)) →
      ∃ ring, ringOf r.targets pl = .ok ring ∧ ring ≠ [] ∧ (∀ s ∈ ring, s ≠ none) ∧
        ∀ i tg, r.targets[i]? = some tg →
          ring.count (some i) = (if nFixed r.targets = 0 then 1 else (slotCount tg.weight).toNat) ∧
          (0 < tg.weight → some i ∈ ring) ∧ (tg.weight = 0 → some i ∉ ring) := by
  intro kv hkv r hr pl hperm
  obtain ⟨hne, ts, hts⟩ := newTable_ok env defs t h kv hkv r hr
  have htsne : ts ≠ [] := by
    intro h0; apply hne; rw [hts, h0]; rfl
  rw [hts] at hperm ⊢
  obtain ⟨ring, h1, h2, h3, h4⟩ := ring_of_route ts htsne pl hperm
  refine ⟨ring, h1, h2, h3, fun i tg hi => ?_⟩
  have hc := h4 i tg hi
  rw [weigh_nFixed]
  refine ⟨hc, fun hp => ?_, fun hz => ?_⟩
  · obtain ⟨ring', hr', hm⟩ := positive_weight_never_starved ts htsne pl hperm i tg hi hp
    rw [h1] at hr'; cases hr'; exact hm
  · obtain ⟨ring', hr', hm, _⟩ := zero_weight_never_picked ts htsne pl hperm i tg hi hz
    rw [h1] at hr'; cases hr'; exact hm

/-! ## the driver's fast ring fill is the model's -/

theorem fillA_refines (ns : List Int) (pl : List (Int × Nat)) :
    (fillRingA ns pl).map Array.toList = fillRing ns pl := by
  unfold fillRingA fillRing
  simp only
  split
  · rfl
  · rw [fillA_eq]; simp

/-! ## non-finite weights (D02 repaired): refused, never weighed -/

theorem nonfinite_weight_rejected (env : Env) (t : Table) (d : RouteDef)
    (hc : d.cmd = .add ∨ d.cmd = .weight) : ∃ e, applyDefW env t d false = .error e := by
  unfold applyDefW
  rcases hc with hc | hc <;> simp only [hc, Bool.false_eq_true, if_false]
  · split
    · exact ⟨_, rfl⟩
    · split <;> exact ⟨_, rfl⟩
  · split <;> exact ⟨_, rfl⟩

/-! ## non-vacuity: the hypotheses above are satisfiable on non-trivial values -/

def tg (fw : Rat) : Target := { service := ['s'], tags := [], opts := [], url := ['u'], fixedWeight := fw }

-- fixed + dynamic, sum ≤ 1: 0.25 honoured, the two dynamic targets share 0.75
example : (weigh [tg (1/4), tg 0, tg 0]).map (·.weight) = [1/4, 3/8, 3/8] := by decide +kernel
-- fixed sum > 1 with a dynamic target: scaled down to 2/5, 3/5, dynamic gets 0
example : (weigh [tg 2, tg 3, tg 0]).map (·.weight) = [2/5, 3/5, 0] := by decide +kernel
-- all fixed, sum < 1: scaled up
example : (weigh [tg (1/5), tg (3/10)]).map (·.weight) = [2/5, 3/5] := by decide +kernel
-- no fixed weight
example : (weigh [tg 0, tg 0, tg 0]).map (·.weight) = [1/3, 1/3, 1/3] := by decide +kernel
example : nFixed [tg (1/4), tg 0, tg 0] < [tg (1/4), tg 0, tg 0].length ∧ sumFixed [tg (1/4), tg 0, tg 0] ≤ 1 := by decide +kernel
example : 1 < sumFixed [tg 2, tg 3, tg 0] := by decide +kernel
example : nFixed [tg (1/5), tg (3/10)] = 2 ∧ sumFixed [tg (1/5), tg (3/10)] < 1 := by decide +kernel
-- slots: a tiny positive weight gets its guaranteed slot; 1/3 gets 3333
example : slotCount (1/30000) = 1 ∧ slotCount (1/3) = 3333 ∧ slotCount 0 = 0 := by decide +kernel
-- ring: two tie orders of the same slot vector, both legal, both with the right counts
example : validPlacement [2, 1, 1] [(1, 1), (1, 2), (2, 0)] = true ∧ validPlacement [2, 1, 1] [(1, 2), (1, 1), (2, 0)] = true := by decide +kernel
example : fillRing [2, 1, 1] [(1, 1), (1, 2), (2, 0)] = .ok [some 1, some 2, some 0, some 0] := by decide +kernel
example : fillRing [2, 1, 1] [(1, 2), (1, 1), (2, 0)] = .ok [some 2, some 1, some 0, some 0] := by decide +kernel
-- the scan really probes: 3 and 3 on a ring of 6, second entry collides on every slot
example : fillRing [3, 3] [(3, 0), (3, 1)] = .ok [some 0, some 1, some 0, some 1, some 0, some 1] := by decide +kernel
-- round robin: a window of N calls starting anywhere
example : rrRun [some 0, some 1, some 0] 3 7 = .ok [some 1, some 0, some 0] := by decide +kernel
-- an empty ring is a crash (what D02 produced before the repair)
example : (rrPick [] 0).isPanic = true := by decide +kernel
-- non-finite weight: refused
example : applyDefW ⟨fun _ => none, fun _ => true⟩ [] { cmd := .add, src := ['/'], dst := ['x'] } false = .error none := by decide +kernel

end Fabio.Props.C04
