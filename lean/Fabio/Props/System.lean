import Fabio.Props.ServeHTTP
import Fabio.Props.C01Compose
import Fabio.Props.C03Compose
/-!
System-level composition (round 4): the registry pipeline (C01 ∘ C14 ∘ C05: health rule, join, `routecmd.build`,
`route.Parse`, `route.NewTable`), the update loop (`watchBackend`, C01/C02) and the request path
(`HTTPProxy.ServeHTTP`, the unified model of C03/C12/C13/C07/C08) as ONE statement:

  *a request is forwarded only to a destination that a healthy, registered instance advertises.*

* `selected_target_in_abs`                — the (key, route, target) a lookup selects on a built table is a member of the
                                            table's abstraction `abs t key route.path` (the map C01/C05 reason about);
* `forwarded_only_to_eligible_instance`   — service table of registry state R, any request: a `forward` outcome names an
                                            instance that is `Eligible` in R (registered under its name, has a service
                                            check, `HealthyAt` under the configured rule over the unfiltered checks) and
                                            one of its routing tags, whose `route add` the forwarded target *is* (service,
                                            URL, fixed weight, tags, options), stored under that tag's (host, path);
                                            the upstream contacted is the host of that URL;
* `unhealthy_instance_never_contacted`    — contrapositive on URLs: if no eligible instance advertises URL `u`, no
                                            request is forwarded to a target with URL `u`;
* `forwarded_after_history`               — the same for the table left by ANY finite history of service/manual events
                                            whose last service text is that of R and whose last manual text is empty or
                                            comments: whatever failed to load in between, the request path only reaches
                                            eligible instances of R.

Hypotheses are those of the component theorems: `WellFormed` registry (C01Compose), `PickOK` picker (C03; proved for
both real pickers in C02Compose.pickFn_ok).
-/
namespace Fabio.Props.System
open Fabio Fabio.Model Fabio.Model.ServeHTTP
open Fabio.Model.Route (Env RouteDef Table Target Route findRoute)
open Fabio.Model.C05Spec (abs key newTarget targetsAt Inv)
open Fabio.Model.C01 Fabio.Model.C01Compose Fabio.Props.C01Compose
open Fabio.Model.C14 (Intent intents wantDef)
open Fabio.Model.Parse (loadTable ParseFloat parse)
open Fabio.Lemmas.C14 (core)

/-! ### a selected target is a member of the abstraction -/

theorem find_of_nodup_paths : ∀ (rs : List Route) (ro : Route), (rs.map (·.path)).Nodup → ro ∈ rs →
    findRoute rs ro.path = some ro := by
  intro rs
  induction rs with
  | nil => intro ro _ h; cases h
  | cons x xs ih =>
    intro ro hn hm
    simp only [List.map_cons, List.nodup_cons] at hn
    unfold findRoute
    rw [List.find?_cons]
    rcases List.mem_cons.1 hm with he | hm'
    · subst he; simp
    · have hne : (x.path == ro.path) = false := by
        apply beq_false_of_ne
        intro e
        exact hn.1 (e ▸ List.mem_map.mpr ⟨ro, hm', rfl⟩)
      rw [hne]
      exact ih ro hn.2 hm'

theorem selected_target_in_abs {t : Table} (hi : Inv t) {k : List Char} {ro : Route} {tg : Target}
    (hro : ro ∈ t.get k) (htg : tg ∈ ro.targets) : tg ∈ abs t k ro.path := by
  have hnd : ((t.get k).map (·.path)).Nodup := by
    rcases Fabio.Lemmas.C05Add.get_mem_or_nil t k with h0 | hm
    · rw [h0]; exact List.nodup_nil
    · exact hi.wf.paths _ hm
  unfold abs targetsAt Table.route
  rw [find_of_nodup_paths _ ro hnd hro]
  exact htg

theorem inv_of_loadTable {env : Env} {pf : ParseFloat} {text : List Char} {t : Table}
    (h : loadTable env pf text = .ok t) : Inv t := by
  obtain ⟨defs, hd⟩ := Fabio.Props.C03Compose.newTable_of_loadTable (env := env) h
  exact (Fabio.Props.C05.newTable_good hd).inv

section
variable (env : Env) (pf : ParseFloat) (ccfg : Fabio.Model.C14.Cfg) (st : List (List Char)) (strict : Bool)
variable (checks : List Check) (catalog : List Char → List Instance)

/-- **forwarded_only_to_eligible_instance.** On the service table of registry state R (`checks`, `catalog`), for
every proxy configuration and every request: if `ServeHTTP` forwards, the selected target is the `route add` of a
routing tag of an instance that is eligible (healthy) in R. -/
theorem forwarded_only_to_eligible_instance (wf : WellFormed ccfg checks catalog) (t : Table)
    (hload : loadTable env pf (svcText env pf ccfg st strict checks catalog) = .ok t)
    (pcfg : ServeHTTP.Cfg) (hpick : Props.C03.PickOK pcfg.lookup.pick) (r : Request) {f : Forward}
    (hf : serveHTTP pcfg t r = .forward f) :
    ∃ h ro tg, select pcfg t r = some (h, ro, tg) ∧ f.upstream = targetHost pcfg tg ∧
      ∃ i, Eligible st strict checks catalog i ∧
        ∃ it ∈ intents ccfg (regOf i), ∃ d u, wantDef pf it = some d ∧ env.normURL d.dst = some u ∧
          key d.src = (lowerL h, ro.path) ∧ core tg = core (newTarget d u) := by
  obtain ⟨h, ro, tg, hsel, ⟨_, hro, _, htg, _⟩, _⟩ := Props.ServeHTTP.upstream_contacted_only_if pcfg t r hpick hf
  obtain ⟨h', ro', tg', hsel', hup, _⟩ := Props.ServeHTTP.forward_fields pcfg t r hf
  rw [hsel] at hsel'
  cases hsel'
  have hin := selected_target_in_abs (inv_of_loadTable hload) hro htg
  obtain ⟨i, he, it, hit, d, u, hw, hu, hk, hc⟩ :=
    table_sound env pf ccfg st strict checks catalog wf t hload (lowerL h) ro.path tg hin
  exact ⟨h, ro, tg, hsel, hup, i, he, it, hit, d, u, hw, hu, hk, hc⟩

/-- **unhealthy_instance_never_contacted.** If no instance that is eligible in R advertises destination URL `u`
(through any of its routing tags), then on the service table of R no request whatsoever is forwarded to a target
with URL `u` — in particular not to an instance that has become unhealthy, is in maintenance, sits on a dead
node, or was never registered. -/
theorem unhealthy_instance_never_contacted (wf : WellFormed ccfg checks catalog) (t : Table)
    (hload : loadTable env pf (svcText env pf ccfg st strict checks catalog) = .ok t)
    (pcfg : ServeHTTP.Cfg) (hpick : Props.C03.PickOK pcfg.lookup.pick) (u : List Char)
    (hnone : ∀ i, Eligible st strict checks catalog i → ∀ it ∈ intents ccfg (regOf i), ∀ d,
      wantDef pf it = some d → env.normURL d.dst ≠ some u)
    (r : Request) {f : Forward} (hf : serveHTTP pcfg t r = .forward f) :
    ∀ h ro tg, select pcfg t r = some (h, ro, tg) → tg.url ≠ u := by
  intro h ro tg hsel hurl
  obtain ⟨h', ro', tg', hsel', _, i, he, it, hit, d, u', hw, hu, _, hc⟩ :=
    forwarded_only_to_eligible_instance env pf ccfg st strict checks catalog wf t hload pcfg hpick r hf
  rw [hsel] at hsel'
  cases hsel'
  have : tg.url = u' := by
    have := congrArg Target.url hc
    simpa [core, newTarget] using this
  exact hnone i he it hit d hw (by rw [hu, ← this, hurl])

/-- **forwarded_after_history.** The same on the table that the update loop serves after ANY finite history of
service and manual events (texts that failed to load included), provided the last service text is that of registry
state R and the last manual text holds no commands: every forwarded request goes to the `route add` of a routing
tag of an instance eligible in R. -/
theorem forwarded_after_history (wf : WellFormed ccfg checks catalog)
    (es : List Event) (M : List Char) (hne : es ≠ [])
    (hsvc : (lastSvc es).getD [] = svcText env pf ccfg st strict checks catalog)
    (hman : (lastMan es).getD [] = M) (hM : parse pf M = .ok [])
    (pcfg : ServeHTTP.Cfg) (hpick : Props.C03.PickOK pcfg.lookup.pick) (r : Request) {f : Forward}
    (hf : serveHTTP pcfg (run (loadOpt env pf) (init ([] : Table)) es).active r = .forward f) :
    ∃ h ro tg, select pcfg (run (loadOpt env pf) (init ([] : Table)) es).active r = some (h, ro, tg) ∧
      f.upstream = targetHost pcfg tg ∧
      ∃ i, Eligible st strict checks catalog i ∧
        ∃ it ∈ intents ccfg (regOf i), ∃ d u, wantDef pf it = some d ∧ env.normURL d.dst = some u ∧
          key d.src = (lowerL h, ro.path) ∧ Fabio.Props.C01Compose.SameTarget tg (newTarget d u) := by
  -- the active table is a loaded table whose abstraction is that of the service table of R
  obtain ⟨tS, hS⟩ := svcText_loads env pf ccfg st strict checks catalog wf.byName
  obtain ⟨ta, hta, habs⟩ := operator_on_top_loads env pf _ M tS hS [] (abs tS) hM rfl
  have hact := Fabio.Props.C01.quiescent_table (loadOpt env pf) (init ([] : Table)) es _ M ta
    (Fabio.Props.C01.init_inv _ _) hne hsvc hman ((loadOpt_some env pf _ ta).2 hta)
  rw [hact] at hf ⊢
  obtain ⟨h, ro, tg, hsel, ⟨_, hro, _, htg, _⟩, _⟩ := Props.ServeHTTP.upstream_contacted_only_if pcfg ta r hpick hf
  obtain ⟨h', ro', tg', hsel', hup, _⟩ := Props.ServeHTTP.forward_fields pcfg ta r hf
  rw [hsel] at hsel'
  cases hsel'
  have hin := selected_target_in_abs (inv_of_loadTable hta) hro htg
  rw [habs] at hin
  obtain ⟨i, he, it, hit, d, u, hw, hu, hk, hc⟩ :=
    table_sound env pf ccfg st strict checks catalog wf tS hS (lowerL h) ro.path tg hin
  exact ⟨h, ro, tg, hsel, hup, i, he, it, hit, d, u, hw, hu, hk, sameTarget_of_core hc⟩

end

/-! ### non-vacuity: the two-node registry of `C01Compose` behind the demo proxy configuration of `ServeHTTP`

`web` runs on n1 (passing) and n2 (critical), both tagged `urlprefix-foo.com/`. The service table holds n1's route
only; a request for `foo.com/x` is forwarded to `10.0.0.1:8000`, and the hypotheses of the three theorems hold. -/
namespace Demo
open Fabio.Props.C14 (envW pfW cfgW)
open Fabio.Props.C01Compose (checksW catalogW stW wellFormedW)

def pcfgW : ServeHTTP.Cfg :=
  { Props.ServeHTTP.Demo.cfg with
    parseURL := fun _ => { scheme := C13.lit "http", host := C13.lit "10.0.0.1:8000", path := C13.lit "/" } }

theorem pickW : Props.C03.PickOK pcfgW.lookup.pick := by
  intro r hr
  show (match r.targets with | x :: _ => x | [] => _) ∈ r.targets
  cases h : r.targets with
  | nil => exact absurd h hr
  | cons x xs => simp

def tableW : Table :=
  match loadTable envW pfW (svcText envW pfW cfgW stW false checksW catalogW) with
  | .ok t => t
  | .error _ => []

theorem tableW_loads : loadTable envW pfW (svcText envW pfW cfgW stW false checksW catalogW) = .ok tableW := by
  have h : (loadTable envW pfW (svcText envW pfW cfgW stW false checksW catalogW)).toOption.isSome = true := by
    decide +kernel
  unfold tableW
  cases hl : loadTable envW pfW (svcText envW pfW cfgW stW false checksW catalogW) with
  | ok t => rfl
  | error e => rw [hl] at h; cases h

def reqW : Request := Props.ServeHTTP.Demo.req "FOO.com" "/x"

/-- the request is forwarded, to the healthy instance -/
theorem forwardsW : (match serveHTTP pcfgW tableW reqW with
    | .forward f => decide (f.upstream = "10.0.0.1:8000".toList) | _ => false) = true := by decide +kernel

/-- the theorem applied: the witness it returns is the instance on n1 -/
example : ∀ f, serveHTTP pcfgW tableW reqW = .forward f →
    ∃ h ro tg, select pcfgW tableW reqW = some (h, ro, tg) ∧ f.upstream = targetHost pcfgW tg ∧
      ∃ i, Eligible stW false checksW catalogW i ∧
        ∃ it ∈ intents cfgW (regOf i), ∃ d u, wantDef pfW it = some d ∧ envW.normURL d.dst = some u ∧
          key d.src = (lowerL h, ro.path) ∧ core tg = core (newTarget d u) :=
  fun _ hf => forwarded_only_to_eligible_instance envW pfW cfgW stW false checksW catalogW wellFormedW tableW
    tableW_loads pcfgW pickW reqW hf

/-- the history version on a history with a stale service text and a manual text that does not parse -/
example : (match serveHTTP pcfgW (run (loadOpt envW pfW) (init ([] : Table))
      [.svc "route add old /old http://1.1.1.1:1/".toList, .man "rubbish".toList,
       .svc (svcText envW pfW cfgW stW false checksW catalogW), .man []]).active reqW with
    | .forward f => decide (f.upstream = "10.0.0.1:8000".toList) | _ => false) = true := by decide +kernel

end Demo

end Fabio.Props.System
