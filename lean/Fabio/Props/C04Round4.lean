import Fabio.Model.C04F64
import Fabio.Props.C04
import Fabio.Lemmas.C04TableG
import Fabio.Lemmas.C04Round
/-!
C04, round 4 — theorems about the arithmetic-parametrised model (`Model/C04F64.lean`), the random picker
under a uniform source, and the forced hypothesis of `rr_cycle_exact` (the uint64 wrap of the cursor).

* `weighA_exact`, `newTableA_exact`, `newTableWA_exact`: the statement-by-statement model of `weighTargets`
  / `setWeight` / the route commands, instantiated with exact arithmetic, **is** the ℚ model all C04 theorems
  are about. The float64 instance `newTableA Arith.f64` of the very same definitions is what the driver
  compares with the Go code bit for bit; the float64-vs-ℚ gap is therefore exactly the gap between two
  instances of one definition.
* `weighA_nonneg` / `weighF64_nonneg`, `weighA_keeps_fields`: what survives rounding for *every* monotone-at-0
  arithmetic, float64 included: effective weights are never negative, only `weight` is written.
* `fixed_honoured_as_coded`, `dynamic_share_equal_as_coded`: sentence 1 where it holds without any rounding error.
* `slotCountA_pos/zero/nonneg`, `ring_as_coded`, `ring_f64`, `every_route_as_coded`, `every_route_f64`: slots and
  ring for the code as coded, carried through the route commands to every route of every float64 table.
* `roundF64_error`, `slot_error_f64`, `rr_share_f64`: half-ulp bound of the float64 rounding, the slot resolution
  in float64, and the round-robin share sentence end to end for the float64 table.
* `rnd_uniform_share`, `rnd_share`: the random picker.
* `rr_cycle_not_exact_across_wrap`: the excluded point of `rr_cycle_exact`.
-/
namespace Fabio.Props.C04
open Fabio Fabio.Model.Route Fabio.Model.C04 Fabio.Lemmas.C04

/-! ## exact arithmetic gives back the ℚ model -/

theorem sumLoop_exact_aux (fx : List Rat) : ∀ acc : Rat,
    fx.foldl (fun acc f =>
      match acc with
      | none => none
      | some s => let r := Arith.exact.rnd (s + f); if Arith.exact.ovf r then none else some r) (some acc)
    = some (fx.foldl (· + ·) acc) := by
  induction fx with
  | nil => intro acc; rfl
  | cons f fx ih => intro acc; simp only [List.foldl_cons]; exact ih (acc + f)

theorem sumLoop_exact (fx : List Rat) : sumLoop Arith.exact fx = some (fx.foldl (· + ·) 0) :=
  sumLoop_exact_aux fx 0

theorem sumFixed_eq_loop (ts : List Target) :
    ((ts.filter (fun t => decide (0 < t.fixedWeight))).map (·.fixedWeight)).foldl (· + ·) 0 = sumFixed ts := by
  unfold sumFixed
  rw [List.foldl_map]

/-- `weighTargets` as coded (summation loop, `unit`, `norm`, `FixedWeight / unit / norm`), evaluated without
rounding, equals the ℚ model `weigh` (which multiplies with the reciprocal of the sum). -/
theorem weighA_exact (ts : List Target) : weighA Arith.exact ts = weigh ts := by
  unfold weighA unitSum weighWith weigh
  simp only [sumLoop_exact, sumFixed_eq_loop]
  by_cases h0 : nFixed ts = 0
  · simp only [h0, if_true]; rfl
  · simp only [h0, if_false]
    apply List.map_congr_left
    intro t _
    by_cases hf : 0 < t.fixedWeight
    · simp only [hf, if_true]
      by_cases hc : 1 < sumFixed ts ∨ (nFixed ts = ts.length ∧ sumFixed ts < 1)
      · simp only [hc, if_true, Arith.exact]
        congr 1
        rw [div_one, mul_one_div]
      · simp only [hc, if_false, Arith.exact]
        congr 1
        rw [div_one, div_one, mul_one]
    · simp only [hf, if_false]; rfl

theorem ops_exact : Ops.of Arith.exact = Ops.rat := by
  unfold Ops.of Ops.rat
  congr 1
  funext ts
  exact weighA_exact ts

/-- the parametrised route commands with `weigh` and `w / n` plugged in are, literally, the shared model -/
theorem newTableG_rat (env : Env) (defs : List RouteDef) : newTableG Ops.rat env defs = newTable env defs := rfl
theorem newTableWG_rat (env : Env) (defs : List (RouteDef × Bool)) :
    newTableWG Ops.rat env defs = newTableW env defs := rfl

/-- The table built by the as-coded model in exact arithmetic is the table of the ℚ model — for every script. -/
theorem newTableA_exact (env : Env) (defs : List RouteDef) : newTableA Arith.exact env defs = newTable env defs := by
  unfold newTableA; rw [ops_exact]; rfl

theorem newTableWA_exact (env : Env) (defs : List (RouteDef × Bool)) :
    newTableWA Arith.exact env defs = newTableW env defs := by
  unfold newTableWA; rw [ops_exact]; rfl

/-- hence everything proved about `newTable` holds for the as-coded model in exact arithmetic, e.g.: -/
theorem every_route_weights_as_coded (env : Env) (defs : List RouteDef) (t : Table)
    (h : newTableA Arith.exact env defs = .ok t) :
    ∀ kv ∈ t, ∀ r ∈ kv.2,
      r.targets ≠ [] ∧ (∀ tg ∈ r.targets, 0 ≤ tg.weight) ∧ (r.targets.map (·.weight)).sum = 1 :=
  every_route_weights env defs t (by rw [← newTableA_exact]; exact h)

/-! ## what holds in every arithmetic that rounds non-negative numbers to non-negative numbers -/

theorem sumLoop_nonneg (A : Arith) (hA : ∀ q, 0 ≤ q → 0 ≤ A.rnd q) (fx : List Rat) (hfx : ∀ f ∈ fx, 0 ≤ f) :
    ∀ acc s, 0 ≤ acc →
      fx.foldl (fun acc f =>
        match acc with
        | none => none
        | some s => let r := A.rnd (s + f); if A.ovf r then none else some r) (some acc) = some s → 0 ≤ s := by
  induction fx with
  | nil => intro acc s ha h; simp only [List.foldl_nil] at h; cases h; exact ha
  | cons f fx ih =>
    intro acc s ha h
    simp only [List.foldl_cons] at h
    have hf : 0 ≤ f := hfx f (List.mem_cons_self)
    have hr : 0 ≤ A.rnd (acc + f) := hA _ (add_nonneg ha hf)
    by_cases ho : A.ovf (A.rnd (acc + f)) = true
    · simp only [ho, if_true] at h
      -- `none` is absorbing
      have : ∀ l : List Rat, l.foldl (fun (acc : Option Rat) f =>
          match acc with
          | none => none
          | some s => let r := A.rnd (s + f); if A.ovf r then none else some r) none = none := by
        intro l; induction l with
        | nil => rfl
        | cons _ _ ih' => simpa only [List.foldl_cons] using ih'
      rw [this] at h; cases h
    · simp only [ho] at h
      exact ih (fun g hg => hfx g (List.mem_cons_of_mem _ hg)) _ s hr h

theorem maxLoop_nonneg (fx : List Rat) : ∀ m, 0 ≤ m → 0 ≤ fx.foldl (fun m f => if m < f then f else m) m := by
  induction fx with
  | nil => intro m hm; exact hm
  | cons f fx ih =>
    intro m hm
    simp only [List.foldl_cons]
    apply ih
    split
    · rename_i h; exact le_trans hm (le_of_lt h)
    · exact hm

theorem relSumLoop_nonneg (A : Arith) (hA : ∀ q, 0 ≤ q → 0 ≤ A.rnd q) (u : Rat) (hu : 0 ≤ u) (fx : List Rat)
    (hfx : ∀ f ∈ fx, 0 ≤ f) : ∀ s, 0 ≤ s → 0 ≤ fx.foldl (fun s f => A.rnd (s + A.rnd (f / u))) s := by
  induction fx with
  | nil => intro s hs; exact hs
  | cons f fx ih =>
    intro s hs
    simp only [List.foldl_cons]
    apply ih (fun g hg => hfx g (List.mem_cons_of_mem _ hg))
    exact hA _ (add_nonneg hs (hA _ (div_nonneg (hfx f List.mem_cons_self) hu)))

/-- **Effective weights are never negative — in float64 as in ℚ.** For every arithmetic whose rounding maps
non-negative numbers to non-negative numbers, every weight `weighTargets` (as coded) assigns is `≥ 0`. -/
theorem unitSum_nonneg (A : Arith) (hA : ∀ q, 0 ≤ q → 0 ≤ A.rnd q) (fx : List Rat) (hfx : ∀ f ∈ fx, 0 ≤ f) :
    0 ≤ (unitSum A fx).1 ∧ 0 ≤ (unitSum A fx).2 := by
  unfold unitSum
  cases hs : sumLoop A fx with
  | some s => exact ⟨by norm_num, sumLoop_nonneg A hA _ hfx 0 s (le_refl _) hs⟩
  | none =>
    have hm := maxLoop_nonneg fx 0 (le_refl _)
    exact ⟨hm, relSumLoop_nonneg A hA _ hm _ hfx 0 (le_refl _)⟩

theorem weighWith_nonneg (A : Arith) (hA : ∀ q, 0 ≤ q → 0 ≤ A.rnd q) (ts : List Target) (us : Rat × Rat)
    (hu1 : 0 ≤ us.1) (hu2 : 0 ≤ us.2) : ∀ t ∈ weighWith A ts us, 0 ≤ t.weight := by
  intro t ht
  unfold weighWith at ht
  simp only at ht
  split at ht
  · obtain ⟨x, _, rfl⟩ := List.mem_map.mp ht
    exact hA _ (div_nonneg (by norm_num) (by exact_mod_cast Nat.zero_le _))
  · obtain ⟨x, _, rfl⟩ := List.mem_map.mp ht
    split
    · rename_i hf
      apply hA
      apply div_nonneg (hA _ (div_nonneg (le_of_lt hf) hu1))
      split
      · exact hu2
      · norm_num
    · show 0 ≤ (if _ < (0 : Rat) then (0 : Rat) else _)
      split
      · exact le_refl _
      · rename_i h; exact not_lt.mp h

/-- **Effective weights are never negative — in float64 as in ℚ.** For every arithmetic whose rounding maps
non-negative numbers to non-negative numbers, every weight `weighTargets` (as coded) assigns is `≥ 0`. -/
theorem weighA_nonneg (A : Arith) (hA : ∀ q, 0 ≤ q → 0 ≤ A.rnd q) (ts : List Target) :
    ∀ t ∈ weighA A ts, 0 ≤ t.weight := by
  have hfx : ∀ f ∈ (ts.filter (fun t => decide (0 < t.fixedWeight))).map (·.fixedWeight), 0 ≤ f := by
    intro f hf
    obtain ⟨x, hx, rfl⟩ := List.mem_map.mp hf
    have := (List.mem_filter.mp hx).2
    exact le_of_lt (by simpa using this)
  obtain ⟨h1, h2⟩ := unitSum_nonneg A hA _ hfx
  exact weighWith_nonneg A hA ts _ h1 h2

/-- `weighTargets` writes `Weight` and nothing else — in every arithmetic. -/
theorem weighA_keeps_fields (A : Arith) (ts : List Target) :
    (weighA A ts).map (fun t => { t with weight := 0 }) = ts.map (fun t => { t with weight := 0 }) := by
  unfold weighA weighWith
  simp only
  split
  · rw [List.map_map]; rfl
  · rw [List.map_map]
    apply List.map_congr_left
    intro t _
    simp only [Function.comp]
    split <;> rfl

theorem pow2_pos (e : Int) : 0 < pow2 e := by
  unfold pow2
  split
  · exact_mod_cast Nat.pos_of_ne_zero (by positivity)
  · apply div_pos (by norm_num); exact_mod_cast Nat.pos_of_ne_zero (by positivity)

theorem rne_nonneg (r : Int) (hr : 0 ≤ r) (frac half : Rat) :
    0 ≤ (if half < frac then r + 1 else if frac = half then (if r % 2 = 0 then r else r + 1) else r) := by
  split_ifs <;> omega

theorem roundF64_nonneg (q : Rat) : 0 ≤ roundF64 q := by
  unfold roundF64
  split
  · exact le_refl _
  · rename_i hq
    have hq : 0 < q := not_le.mp hq
    simp only
    refine mul_nonneg ?_ (le_of_lt (pow2_pos _))
    have h := rne_nonneg _ (floor_nonneg_of_nonneg _ (div_nonneg (le_of_lt hq) (le_of_lt (pow2_pos
      (if (if pow2 ((Nat.log2 q.num.toNat : Int) - (Nat.log2 q.den : Int)) ≤ q
        then (Nat.log2 q.num.toNat : Int) - (Nat.log2 q.den : Int)
        else (Nat.log2 q.num.toNat : Int) - (Nat.log2 q.den : Int) - 1) - 52 < -1074 then -1074
        else (if pow2 ((Nat.log2 q.num.toNat : Int) - (Nat.log2 q.den : Int)) ≤ q
        then (Nat.log2 q.num.toNat : Int) - (Nat.log2 q.den : Int)
        else (Nat.log2 q.num.toNat : Int) - (Nat.log2 q.den : Int) - 1) - 52)))))
    exact_mod_cast h _ _

theorem f64_rounds_nonneg : ∀ q, 0 ≤ q → 0 ≤ Arith.f64.rnd q := by
  intro q hq
  show 0 ≤ roundF64S q
  unfold roundF64S
  rw [if_neg (not_lt.mpr hq)]
  exact roundF64_nonneg q

/-- the float64 weights of `weighTargets` are never negative -/
theorem weighF64_nonneg (ts : List Target) : ∀ t ∈ weighA Arith.f64 ts, 0 ≤ t.weight :=
  weighA_nonneg Arith.f64 f64_rounds_nonneg ts

/-! ## sentence 1 for the code as coded, in every arithmetic -/

/-- **"Fixed weights are honoured as given" — exactly, in every arithmetic, float64 included:** when the sum
the code computed does not trigger a normalisation (it did not overflow, is not above 1, and is not below 1
with every target fixed), a target whose requested weight is a value of the arithmetic (`rnd fw = fw`: a
float64 for `Arith.f64`) receives exactly that weight — `fw / 1.0 / 1.0`, no rounding error at all. -/
theorem fixed_honoured_as_coded (A : Arith) (ts : List Target) (s : Rat)
    (hs : sumLoop A ((ts.filter (fun t => decide (0 < t.fixedWeight))).map (·.fixedWeight)) = some s)
    (hno : ¬ (1 < s ∨ (nFixed ts = ts.length ∧ s < 1)))
    (t : Target) (ht : t ∈ weighA A ts) (hf : 0 < t.fixedWeight) (hrep : A.rnd t.fixedWeight = t.fixedWeight) :
    t.weight = t.fixedWeight := by
  unfold weighA unitSum weighWith at ht
  rw [hs] at ht
  simp only at ht
  split at ht
  · rename_i h0
    -- no fixed weight at all contradicts `0 < t.fixedWeight`
    obtain ⟨x, hx, rfl⟩ := List.mem_map.mp ht
    have : x ∈ ts.filter (fun t => decide (0 < t.fixedWeight)) := List.mem_filter.mpr ⟨hx, by simpa using hf⟩
    have hl : 0 < (ts.filter (fun t => decide (0 < t.fixedWeight))).length := List.length_pos_of_mem this
    unfold nFixed at h0
    omega
  · obtain ⟨x, _, rfl⟩ := List.mem_map.mp ht
    have hfx : 0 < x.fixedWeight := by
      by_cases h : 0 < x.fixedWeight
      · exact h
      · simp only [h, if_false] at hf
    simp only [hfx, if_true] at hrep ⊢
    simp only [div_one, hrep]

/-- **"The remaining targets share the remainder equally" — exactly, in every arithmetic:** all targets without
a fixed weight receive the same weight (one value `dynamic` is computed and stored in each). -/
theorem dynamic_share_equal_as_coded (A : Arith) (ts : List Target) (t u : Target)
    (ht : t ∈ weighA A ts) (hu : u ∈ weighA A ts) (hft : ¬ 0 < t.fixedWeight) (hfu : ¬ 0 < u.fixedWeight) :
    t.weight = u.weight := by
  unfold weighA weighWith at ht hu
  simp only at ht hu
  split at ht
  · rename_i h0
    rw [if_pos h0] at hu
    obtain ⟨x, _, rfl⟩ := List.mem_map.mp ht
    obtain ⟨y, _, rfl⟩ := List.mem_map.mp hu
    rfl
  · rename_i h0
    rw [if_neg h0] at hu
    obtain ⟨x, _, rfl⟩ := List.mem_map.mp ht
    obtain ⟨y, _, rfl⟩ := List.mem_map.mp hu
    have hx : ¬ 0 < x.fixedWeight := by
      intro h; apply hft; simp only [h, if_true]
    have hy : ¬ 0 < y.fixedWeight := by
      intro h; apply hfu; simp only [h, if_true]
    simp only [hx, hy, if_false]

/-! ## slots and ring in every arithmetic: never starved, never picked — also in float64 -/

theorem slotCountA_exact (w : Rat) : slotCountA Arith.exact w = slotCount w := rfl

/-- the driver's `slotCountF64` is the float64 instance -/
theorem slotCountF64_eq (w : Rat) (hw : 0 ≤ w) : slotCountF64 w = slotCountA Arith.f64 w := by
  unfold slotCountF64 slotCountA
  have : Arith.f64.rnd ((maxSlots : Rat) * w) = roundF64 ((maxSlots : Rat) * w) := by
    show roundF64S _ = _
    unfold roundF64S
    rw [if_neg (not_lt.mpr (mul_nonneg (by simp [maxSlots]) hw))]
  rw [this]

theorem slotCountA_nonneg (A : Arith) (hA : ∀ q, 0 ≤ q → 0 ≤ A.rnd q) (w : Rat) (hw : 0 ≤ w) :
    0 ≤ slotCountA A w := by
  unfold slotCountA
  have hr : 0 ≤ A.rnd ((maxSlots : Rat) * w) := hA _ (mul_nonneg (by simp [maxSlots]) hw)
  have ht : 0 ≤ truncZ (A.rnd ((maxSlots : Rat) * w)) := by
    rw [truncZ_of_nonneg _ hr]; exact floor_nonneg_of_nonneg _ hr
  simp only
  split
  · decide
  · exact ht

/-- "we guarantee that every target with a weight > 0 gets at least one slot" — whatever the rounding -/
theorem slotCountA_pos (A : Arith) (hA : ∀ q, 0 ≤ q → 0 ≤ A.rnd q) (w : Rat) (hw : 0 < w) :
    1 ≤ slotCountA A w := by
  unfold slotCountA
  have hr : 0 ≤ A.rnd ((maxSlots : Rat) * w) := hA _ (mul_nonneg (by simp [maxSlots]) (le_of_lt hw))
  have ht : 0 ≤ truncZ (A.rnd ((maxSlots : Rat) * w)) := by
    rw [truncZ_of_nonneg _ hr]; exact floor_nonneg_of_nonneg _ hr
  simp only
  split
  · decide
  · rename_i h
    have : truncZ (A.rnd ((maxSlots : Rat) * w)) ≠ 0 := fun h0 => h ⟨h0, hw⟩
    omega

theorem slotCountA_zero (A : Arith) (h0 : A.rnd 0 = 0) : slotCountA A 0 = 0 := by
  unfold slotCountA
  simp only [mul_zero, h0]
  have : truncZ 0 = 0 := by
    rw [truncZ_of_nonneg _ (le_refl _)]
    have := Rat.floor_intCast 0
    simpa using this
  rw [this]
  simp

/-! ### rounding error of float64 and the slot resolution -/

/-- `roundF64` (the rounding of `Arith.f64`) is within half a unit in the last place: the error is at most
`2⁻¹⁰⁷⁵` (denormal results) or `2⁻⁵³` times the argument. -/
theorem roundF64_error (q : Rat) (hq : 0 < q) :
    |roundF64 q - q| ≤ pow2 (-1075) ∨ |roundF64 q - q| ≤ q * pow2 (-53) :=
  roundF64_err q hq

/-- **"To within the resolution of 10,000 slots" for the float64 code:** the slot count computed with the
float64 product differs from `10⁴·w` by less than `1 + 10⁻⁶` for every weight `0 ≤ w ≤ 2` — the tolerance of
the specification clause `count-off` evaluated on the implementation (over ℚ: `< 1`, `slot_error_lt_one`). -/
theorem slot_error_f64 (w : Rat) (h0 : 0 ≤ w) (h1 : w ≤ 2) :
    |(slotCountA Arith.f64 w : Rat) - 10000 * w| < 1 + 1 / 1000000 :=
  Fabio.Lemmas.C04.slot_error_f64 w h0 h1

/-- **The ring of the code as coded, in every arithmetic with `rnd 0 = 0` that rounds non-negative numbers to
non-negative numbers — float64 in particular — and for every tie order of the sort:** the fill neither panics
nor loops, no slot is nil, target `i` occupies exactly `slotCountA A wᵢ` slots (`wᵢ` the weight computed in
`A`; exactly one slot each without fixed weights), a target with positive weight is on the ring and a target
with weight zero is not. Sentences 3 and 4 of the property therefore do not depend on the ℚ idealisation. -/
theorem ring_as_coded (A : Arith) (hA : ∀ q, 0 ≤ q → 0 ≤ A.rnd q) (h0 : A.rnd 0 = 0) (ts : List Target)
    (pl : List (Int × Nat))
    (hperm : pl.Perm (entries ((weighA A ts).map (fun t => slotCountA A t.weight)))) :
    ∃ ring, ringAsCoded A ts pl = .ok ring ∧ (∀ s ∈ ring, s ≠ none) ∧
      ∀ i t, (weighA A ts)[i]? = some t →
        ring.count (some i) = (if nFixed ts = 0 then 1 else (slotCountA A t.weight).toNat) ∧
        (0 < t.weight → some i ∈ ring) ∧ (t.weight = 0 → nFixed ts ≠ 0 → some i ∉ ring) := by
  have hlenA : (weighA A ts).length = ts.length := by
    have := congrArg List.length (weighA_keeps_fields A ts)
    simpa using this
  unfold ringAsCoded
  by_cases hn : nFixed ts = 0
  · simp only [hn, if_true]
    refine ⟨_, rfl, ?_, ?_⟩
    · intro s hs; obtain ⟨_, _, rfl⟩ := List.mem_map.mp hs; simp
    · intro i t hi
      have hil : i < ts.length := by
        by_cases hlt : i < ts.length
        · exact hlt
        · rw [List.getElem?_eq_none (by rw [hlenA]; omega)] at hi; cases hi
      have hc : ((List.range ts.length).map some).count (some i) = 1 := by
        rw [List.count_eq_countP, List.countP_map]
        have : (List.range ts.length).countP ((fun x => x == some i) ∘ some) = (List.range ts.length).count i := by
          rw [List.count_eq_countP]; congr 1
        rw [this]
        exact List.count_eq_one_of_mem List.nodup_range (List.mem_range.mpr hil)
      refine ⟨hc, fun _ => List.count_pos_iff.mp (by omega), fun _ h => absurd rfl h⟩
  · simp only [hn, if_false]
    have hpos : ∀ n ∈ (weighA A ts).map (fun t => slotCountA A t.weight), 0 ≤ n := by
      intro n hnm
      obtain ⟨t, ht, rfl⟩ := List.mem_map.mp hnm
      exact slotCountA_nonneg A hA _ (weighA_nonneg A hA ts t ht)
    obtain ⟨ring, h1, _, h3, h4⟩ := ring_counts _ hpos pl hperm
    refine ⟨ring, h1, h3, fun i t hi => ?_⟩
    have hil : i < (weighA A ts).length := by
      by_cases hlt : i < (weighA A ts).length
      · exact hlt
      · rw [List.getElem?_eq_none (by omega)] at hi; cases hi
    have hti : (weighA A ts)[i] = t := by
      rw [List.getElem?_eq_getElem hil] at hi; exact Option.some.inj hi
    have hc : ring.count (some i) = (slotCountA A t.weight).toNat := by
      rw [h4 i (by simpa using hil)]
      simp [hti]
    refine ⟨hc, fun hp => List.count_pos_iff.mp ?_, fun hz _ hm => ?_⟩
    · rw [hc]; have := slotCountA_pos A hA _ hp; omega
    · have := List.count_pos_iff.mpr hm
      rw [hc, hz, slotCountA_zero A h0] at this
      exact absurd this (by decide)

theorem f64_rounds_zero : Arith.f64.rnd 0 = 0 := by decide +kernel

/-- float64: what the Go code does -/
theorem ring_f64 (ts : List Target) (pl : List (Int × Nat))
    (hperm : pl.Perm (entries ((weighA Arith.f64 ts).map (fun t => slotCountA Arith.f64 t.weight)))) :
    ∃ ring, ringAsCoded Arith.f64 ts pl = .ok ring ∧ (∀ s ∈ ring, s ≠ none) ∧
      ∀ i t, (weighA Arith.f64 ts)[i]? = some t →
        ring.count (some i) = (if nFixed ts = 0 then 1 else (slotCountA Arith.f64 t.weight).toNat) ∧
        (0 < t.weight → some i ∈ ring) ∧ (t.weight = 0 → nFixed ts ≠ 0 → some i ∉ ring) :=
  ring_as_coded Arith.f64 f64_rounds_nonneg f64_rounds_zero ts pl hperm

/-- exact arithmetic: `ringAsCoded` is `ringOf ∘ weigh` of the ℚ model -/
theorem ringAsCoded_exact (ts : List Target) (pl : List (Int × Nat)) :
    ringAsCoded Arith.exact ts pl = ringOf (weigh ts) pl := by
  unfold ringAsCoded ringOf
  rw [weigh_nFixed, weighA_exact, weigh_length]
  rfl

/-! ## every route of every table, as coded, in float64 -/

theorem weighA_ne_nil (A : Arith) (ts : List Target) (h : ts ≠ []) : weighA A ts ≠ [] := by
  intro h0
  have hl : (weighA A ts).length = ts.length := by
    have := congrArg List.length (weighA_keeps_fields A ts)
    simpa using this
  rw [h0] at hl
  exact h (List.eq_nil_of_length_eq_zero hl.symm)

/-- **End to end for the code as coded, in every arithmetic with `rnd 0 = 0` that rounds non-negative numbers
to non-negative numbers:** for every command script (`route add` / `route del` / `route weight`, any order,
through `NewTable` or `NewTableCustom`) and every route of the resulting table: the route is not empty, every
effective weight is `≥ 0`, and the ring `weighTargets` built for it — for every tie order of the sort — has no
nil slot, holds target `i` exactly `slotCountA A wᵢ` times (once each without fixed weights), holds every
target with positive weight and no target with weight zero. -/
theorem every_route_as_coded (A : Arith) (hA : ∀ q, 0 ≤ q → 0 ≤ A.rnd q) (h0 : A.rnd 0 = 0)
    (env : Env) (defs : List RouteDef) (t : Table) (h : newTableA A env defs = .ok t) :
    ∀ kv ∈ t, ∀ r ∈ kv.2,
      r.targets ≠ [] ∧ (∀ tg ∈ r.targets, 0 ≤ tg.weight) ∧
      ∃ ts, r.targets = weighA A ts ∧
        ∀ pl : List (Int × Nat), pl.Perm (entries (r.targets.map (fun t => slotCountA A t.weight))) →
          ∃ ring, ringAsCoded A ts pl = .ok ring ∧ (∀ s ∈ ring, s ≠ none) ∧
            ∀ i tg, r.targets[i]? = some tg →
              ring.count (some i) = (if nFixed ts = 0 then 1 else (slotCountA A tg.weight).toNat) ∧
              (0 < tg.weight → some i ∈ ring) ∧ (tg.weight = 0 → nFixed ts ≠ 0 → some i ∉ ring) := by
  intro kv hkv r hr
  obtain ⟨hne, ts, hts⟩ := newTable_okG (Ops.of A) (weighA_ne_nil A) env defs t h kv hkv r hr
  have hts' : r.targets = weighA A ts := hts
  refine ⟨hne, ?_, ts, hts', ?_⟩
  · rw [hts']; exact weighA_nonneg A hA ts
  · intro pl hperm
    rw [hts'] at hperm ⊢
    exact ring_as_coded A hA h0 ts pl hperm

/-- float64 — the instance the Go code is compared with bit for bit -/
theorem every_route_f64 (env : Env) (defs : List RouteDef) (t : Table)
    (h : newTableA Arith.f64 env defs = .ok t) :
    ∀ kv ∈ t, ∀ r ∈ kv.2,
      r.targets ≠ [] ∧ (∀ tg ∈ r.targets, 0 ≤ tg.weight) ∧
      ∃ ts, r.targets = weighA Arith.f64 ts ∧
        ∀ pl : List (Int × Nat), pl.Perm (entries (r.targets.map (fun t => slotCountA Arith.f64 t.weight))) →
          ∃ ring, ringAsCoded Arith.f64 ts pl = .ok ring ∧ (∀ s ∈ ring, s ≠ none) ∧
            ∀ i tg, r.targets[i]? = some tg →
              ring.count (some i) = (if nFixed ts = 0 then 1 else (slotCountA Arith.f64 tg.weight).toNat) ∧
              (0 < tg.weight → some i ∈ ring) ∧ (tg.weight = 0 → nFixed ts ≠ 0 → some i ∉ ring) :=
  every_route_as_coded Arith.f64 f64_rounds_nonneg f64_rounds_zero env defs t h

/-- **Sentence 2–4 of the property for the float64 code as coded, end to end:** for every command script, every
route of the float64 table, every tie order of the sort and every cursor position whose window does not cross
the uint64 wrap, a full round-robin cycle over the (non-empty) ring sends target `i` exactly `nᵢ` requests,
where `nᵢ = 1` without fixed weights and otherwise `|nᵢ − 10⁴·wᵢ| < 1 + 10⁻⁶` (for `wᵢ ≤ 2`; `wᵢ` the float64
weight), `nᵢ ≥ 1` for a positive weight and `nᵢ = 0` for weight zero. -/
theorem rr_share_f64 (env : Env) (defs : List RouteDef) (t : Table)
    (h : newTableA Arith.f64 env defs = .ok t) :
    ∀ kv ∈ t, ∀ r ∈ kv.2, ∃ ts, r.targets = weighA Arith.f64 ts ∧
      ∀ pl : List (Int × Nat), pl.Perm (entries (r.targets.map (fun t => slotCountA Arith.f64 t.weight))) →
        ∃ ring, ringAsCoded Arith.f64 ts pl = .ok ring ∧
          ∀ total, 0 < ring.length → total + ring.length ≤ uint64Size →
            ∃ out, rrRun ring ring.length total = .ok out ∧
              ∀ i tg, r.targets[i]? = some tg →
                (nFixed ts = 0 → out.count (some i) = 1) ∧
                (nFixed ts ≠ 0 → tg.weight ≤ 2 →
                  |((out.count (some i) : Nat) : Rat) - 10000 * tg.weight| < 1 + 1 / 1000000) ∧
                (0 < tg.weight → 0 < out.count (some i)) ∧
                (tg.weight = 0 → nFixed ts ≠ 0 → out.count (some i) = 0) := by
  intro kv hkv r hr
  obtain ⟨_, hnn, ts, hts, hring⟩ := every_route_f64 env defs t h kv hkv r hr
  refine ⟨ts, hts, fun pl hperm => ?_⟩
  obtain ⟨ring, h1, _, h3⟩ := hring pl hperm
  refine ⟨ring, h1, fun total hl hw => ?_⟩
  obtain ⟨out, ho, hc⟩ := rr_cycle_exact ring hl total hw
  refine ⟨out, ho, fun i tg hi => ?_⟩
  obtain ⟨c1, c2, c3⟩ := h3 i tg hi
  have hwn : 0 ≤ tg.weight := hnn tg (List.mem_of_getElem? hi)
  refine ⟨fun h0 => by rw [hc, c1]; simp [h0], fun hn h2 => ?_, fun hp => ?_, fun hz hn => ?_⟩
  · rw [hc, c1]
    simp only [hn, if_false]
    have h0 := slotCountA_nonneg Arith.f64 f64_rounds_nonneg _ hwn
    have : (((slotCountA Arith.f64 tg.weight).toNat : Nat) : Rat) = ((slotCountA Arith.f64 tg.weight : Int) : Rat) := by
      have : (((slotCountA Arith.f64 tg.weight).toNat : Nat) : Int) = slotCountA Arith.f64 tg.weight := Int.toNat_of_nonneg h0
      exact_mod_cast congrArg (fun z : Int => (z : Rat)) this
    rw [this]
    exact slot_error_f64 _ hwn h2
  · rw [hc]; exact List.count_pos_iff.mpr (c2 hp)
  · rw [hc]
    have := c3 hz hn
    exact List.count_eq_zero_of_not_mem this

/-! ## the random picker under a uniform source -/

theorem count_eq_countP_range (l : Ring) (a : Option Nat) :
    l.count a = (List.range l.length).countP (fun k => decide (l[k]? = some a)) := by
  induction l with
  | nil => rfl
  | cons x xs ih =>
    rw [List.length_cons, List.range_succ_eq_map, List.countP_cons, List.countP_map, List.count_cons, ih]
    have : (List.range xs.length).countP ((fun k => decide ((x :: xs)[k]? = some a)) ∘ Nat.succ)
        = (List.range xs.length).countP (fun k => decide (xs[k]? = some a)) := by
      congr 1
    rw [this]
    congr 1
    simp only [List.getElem?_cons_zero, Option.some.injEq, beq_iff_eq]
    by_cases h : x = a <;> simp [h]

theorem rndPick_const (ring : Ring) (k : Nat) (hk : k < ring.length) :
    rndPick ring (fun _ => (k : Int)) = .ok ring[k] := by
  unfold rndPick
  simp [List.getElem?_eq_getElem hk]

/-- the driver's array version of `rndPick` is the model's -/
theorem rndPickA_refines (ring : Array (Option Nat)) (rnd : Nat → Int) :
    rndPickA ring rnd = rndPick ring.toList rnd := by
  unfold rndPickA rndPick
  simp only [Array.length_toList, Array.getElem?_toList]
  split
  · rfl
  · cases ring[(rnd ring.size).toNat]? <;> rfl

/-- **`rndPicker` draws every ring slot for exactly one value of the RNG.** Over the `N` possible results
`0 … N−1` of `randIntn(N)` the picker returns target `i` for exactly as many values as `i` has slots on the
ring; with a uniform source the probability of `i` is therefore `count(i) / N` — the same share a full
round-robin cycle gives it (`rr_cycle_exact`). -/
theorem rnd_uniform_share (ring : Ring) (s : Option Nat) :
    (List.range ring.length).countP (fun (k : Nat) => decide (rndPick ring (fun _ => (k : Int)) = .ok s)) = ring.count s := by
  rw [count_eq_countP_range]
  apply List.countP_congr
  intro k hk
  have hk := List.mem_range.mp hk
  rw [rndPick_const ring k hk, List.getElem?_eq_getElem hk]
  simp only [decide_eq_true_eq]
  constructor
  · intro h; cases h; rfl
  · intro h; cases h; rfl

/-- End to end for the random picker: on a non-empty route, for every placement order, the number of RNG
values (out of the `N` equally likely ones) that select target `i` is `nᵢ` with `|nᵢ − 10⁴·wᵢ| < 1`, and
`|N − 10⁴| ≤ #targets`; without fixed weights it is exactly one value out of `N = n` (probability `1/n = wᵢ`
exactly). -/
theorem rnd_share (ts : List Target) (hne : ts ≠ []) (pl : List (Int × Nat))
    (hperm : pl.Perm (entries (slotCounts (weigh ts)))) :
    ∃ ring, ringOf (weigh ts) pl = .ok ring ∧ 0 < ring.length ∧
      (nFixed ts = 0 → ring.length = ts.length) ∧
      (nFixed ts ≠ 0 → |((ring.length : Nat) : Rat) - 10000| ≤ (ts.length : Rat)) ∧
      ∀ i t, (weigh ts)[i]? = some t →
        let c := (List.range ring.length).countP (fun (k : Nat) => decide (rndPick ring (fun _ => (k : Int)) = .ok (some i)))
        (nFixed ts = 0 → c = 1 ∧ t.weight = 1 / (ts.length : Rat)) ∧
        (nFixed ts ≠ 0 → |((c : Nat) : Rat) - 10000 * t.weight| < 1) := by
  obtain ⟨ring, h1, h2, _, h4⟩ := ring_of_route ts hne pl hperm
  have hl : 0 < ring.length := List.length_pos_iff.mpr h2
  refine ⟨ring, h1, hl, ?_, ?_, ?_⟩
  · intro h0
    have e := h1
    unfold ringOf at e
    rw [weigh_nFixed] at e
    simp only [h0, if_true] at e
    cases e
    simp [weigh_length]
  · intro hn
    have e := h1
    unfold ringOf at e
    rw [weigh_nFixed] at e
    simp only [hn, if_false] at e
    have hpos : ∀ n ∈ slotCounts (weigh ts), 0 ≤ n := by
      intro n hnm
      obtain ⟨t, ht, rfl⟩ := List.mem_map.mp hnm
      exact slotCount_nonneg _ (weights_nonneg ts t ht)
    obtain ⟨ring', e1, e2, _, _⟩ := ring_counts _ hpos pl hperm
    rw [e] at e1; cases e1
    rw [e2]
    have htot := slots_total_near ts hne
    have h0 : 0 ≤ sumInt (slotCounts (weigh ts)) := by rw [sumInt_eq]; exact (toNat_sum _ hpos).2
    have hc : (((sumInt (slotCounts (weigh ts))).toNat : Nat) : Rat) = ((sumInt (slotCounts (weigh ts)) : Int) : Rat) := by
      have : (((sumInt (slotCounts (weigh ts))).toNat : Nat) : Int) = sumInt (slotCounts (weigh ts)) := Int.toNat_of_nonneg h0
      exact_mod_cast congrArg (fun z : Int => (z : Rat)) this
    rw [hc]; exact htot
  · intro i t hi
    simp only
    rw [rnd_uniform_share]
    refine ⟨fun h0 => ⟨by rw [h4 i t hi]; simp [h0], ?_⟩, fun hn => ?_⟩
    · have hil : i < ts.length := by
        by_cases hlt : i < ts.length
        · exact hlt
        · rw [List.getElem?_eq_none (by rw [weigh_length]; omega)] at hi; cases hi
      rw [weigh_getElem?, List.getElem?_eq_getElem hil] at hi
      have := Option.some.inj hi
      rw [← this]; simp [eff, h0]
    · rw [h4 i t hi]
      simp only [hn, if_false]
      have hwn : 0 ≤ t.weight := weights_nonneg ts t (List.mem_of_getElem? hi)
      have h0 := slotCount_nonneg _ hwn
      have : (((slotCount t.weight).toNat : Nat) : Rat) = ((slotCount t.weight : Int) : Rat) := by
        have : (((slotCount t.weight).toNat : Nat) : Int) = slotCount t.weight := Int.toNat_of_nonneg h0
        exact_mod_cast congrArg (fun z : Int => (z : Rat)) this
      rw [this]
      exact slot_error_lt_one _ hwn

/-! ## the forced hypothesis of `rr_cycle_exact`: the wrap-around of the uint64 cursor

Full statement that the code cannot satisfy: *every* window of `N` sequential `rrPicker` calls returns every
slot content exactly as often as it occurs on the ring. `rr_cycle_exact` proves it for windows with
`total + N ≤ 2⁶⁴`. The hypothesis is forced: across the wrap the cursor jumps from `2⁶⁴ − 1` to `0`, and unless
`N` divides `2⁶⁴` the cycle is cut short — three targets without fixed weights, cursor `2⁶⁴ − 1`: the next three
requests go to targets 0, 0, 1 (target 2 is skipped once). `corpus/c04.rr.jsonl` replays this input on the real
`Table.Lookup`/`rrPicker` (same picks). It takes 2⁶⁴ requests on one route to get there. -/
theorem rr_cycle_not_exact_across_wrap :
    ∃ (ring : Ring) (total : Nat), 0 < ring.length ∧ total < uint64Size ∧
      ∃ out, rrRun ring ring.length total = .ok out ∧ ∃ s, out.count s ≠ ring.count s :=
  ⟨[some 0, some 1, some 2], 2^64 - 1, by decide, by decide +kernel,
   [some 0, some 0, some 1], by decide +kernel, some 2, by decide⟩

/-! ## non-vacuity -/

/-- 0.1, 0.3 and two dynamic targets in float64: the float weights are the nearest doubles of 1/10, 3/10 and
of (1 − (0.1 + 0.3)) / 2, not the rationals — and in exact arithmetic the same definition gives 1/10, 3/10,
3/10, 3/10 -/
example : weighW Arith.exact [1/10, 3/10, 0, 0] = [1/10, 3/10, 3/10, 3/10] := by decide +kernel
example : weighW Arith.f64 [roundF64 (1/10), roundF64 (3/10), 0, 0] =
    [roundF64 (1/10), roundF64 (3/10), roundF64 (3/10), roundF64 (3/10)] := by decide +kernel
/-- three times 1e308: the sum overflows, the weights are summed relative to the largest: a third each -/
example : weighW Arith.f64 [roundF64 (10^308), roundF64 (10^308), roundF64 (10^308)] =
    [roundF64 (1/3), roundF64 (1/3), roundF64 (1/3)] := by decide +kernel
/-- a share of 5e-324 (the smallest denormal) over two targets underflows to 0: both become dynamic -/
example : spreadW Arith.f64 (pow2 (-1074)) 2 = 0 := by decide +kernel
/-- float64 identity: 0.0001 / 10 and 0.00001 are the same double, their exact quotients differ -/
example : spreadW Arith.f64 (roundF64 (1/10000)) 10 = roundF64 (1/100000) ∧
    spreadW Arith.exact (roundF64 (1/10000)) 10 ≠ roundF64 (1/100000) := by decide +kernel
/-- 0.9 and 0.00001 in float64: the small target still gets its guaranteed slot -/
example : (weighA Arith.f64 [tg (roundF64 (9/10)), tg (roundF64 (1/100000))]).map (fun t => slotCountA Arith.f64 t.weight)
    = [9999, 1] := by decide +kernel
/-- a float64 table that exists: one route, two targets -/
example : (match newTableA Arith.f64 ⟨fun s => some s, fun _ => true⟩
    [{ cmd := .add, src := ['/'], dst := ['a'], weight := roundF64 (1/10) }, { cmd := .add, src := ['/'], dst := ['b'] }] with
    | .ok t => t.map (fun kv => kv.2.map (fun r => r.targets.map (·.weight)))
    | .error _ => []) = [[[roundF64 (1/10), roundF64 (1 - roundF64 (1/10))]]] := by decide +kernel
/-- the hypotheses of `fixed_honoured_as_coded` hold for 0.1 + 0.3 next to two dynamic targets in float64: the
float sum is below 1, not every target is fixed, and the requested weights are float64 values -/
example : (match sumLoop Arith.f64 [roundF64 (1/10), roundF64 (3/10)] with
    | some s => decide (¬ (1 < s ∨ ((2 : Nat) = 4 ∧ s < 1)))
    | none => false) = true ∧
    Arith.f64.rnd (roundF64 (1/10)) = roundF64 (1/10) := by decide +kernel
/-- 1/3 in float64: 3333 slots, within 1 + 10⁻⁶ of 3333.33… -/
example : slotCountA Arith.f64 (roundF64 (1/3)) = 3333 ∧ (0 : Rat) ≤ roundF64 (1/3) ∧ roundF64 (1/3) ≤ 2 := by decide +kernel
example : f64_rounds_nonneg (1/3) (by decide +kernel) = f64_rounds_nonneg (1/3) (by decide +kernel) := rfl
/-- ring 0 1 0 (two slots for target 0): two of the three RNG values select target 0 -/
example : (List.range 3).countP (fun (k : Nat) => decide (rndPick [some 0, some 1, some 0] (fun _ => (k : Int)) = .ok (some 0))) = 2 := by
  decide +kernel

end Fabio.Props.C04
