import Fabio.Model.C20
/-!
C20 — access logging is accurate and can never disturb a request: property theorems.
(Helper lemmas live in `Fabio/Lemmas`; nothing here is weakened to make a proof pass.)
-/
namespace Fabio.Props.C20
open Fabio Fabio.Model.C20

theorem lastIndexOf_go_lt (c : Char) (s : List Char) (i : Nat) (b : Option Nat) (n : Nat)
    (hb : ∀ m, b = some m → m < i) (h : lastIndexOf.go c i b s = some n) : n < i + s.length := by
  induction s generalizing i b with
  | nil => simp [lastIndexOf.go] at h; have := hb n h; simpa using this
  | cons x xs ih =>
    simp only [lastIndexOf.go] at h
    have := ih (i+1) _ (by
      intro m hm; split at hm
      · cases hm; omega
      · have := hb m hm; omega) h
    simp only [List.length_cons]; omega

/-- `hostport` never panics, whatever the address looks like (D24 repaired). -/
theorem hostport_total (s : List Char) : (hostport s).isPanic = false := by
  unfold hostport
  split
  · rfl
  · split
    · rfl
    · rename_i n h
      have : n < 0 + s.length := lastIndexOf_go_lt ':' s 0 none n (by simp) h
      have h2 : n + 1 ≤ s.length := by omega
      simp [h2, Outcome.isPanic]

example : hostport "backend".toList = .ok ("backend".toList, []) := by decide
example : hostport "h:80".toList = .ok ("h".toList, "80".toList) := by decide

end Fabio.Props.C20
