import Fabio.Lemmas.C20Num
import Fabio.Lemmas.C20Lex
import Fabio.Lemmas.C20Log
import Fabio.Lemmas.C20Capture
import Fabio.Lemmas.C20Line
/-!
C20 — access logging is accurate and can never disturb a request: the property theorems.

Model: `Fabio/Model/C20.lean` (every buffer index and slice of the Go code is a checked operation);
reference renderings ("what the standard library prints"): `Fabio/Model/C20Spec.lean`, built on
`Nat.toDigits` / `Nat.repr`, not on the loops of the code. Proofs: `Fabio/Lemmas/C20*.lean`.
Nothing here is weakened to make a proof pass; where the code cannot satisfy a statement the full
statement is kept in a comment next to the `_partial` theorem and its refutation.
-/
namespace Fabio.Props.C20
open Fabio Fabio.Model.C20

abbrev EventInRange := Lemmas.C20.EventInRange
abbrev EventCalendar := Lemmas.C20.EventCalendar

/-! ## number formatters -/

/-- `atoi` prints the sign and the zero-padded decimal digits (`Nat.toDigits 10`) of `|i|`, for every
int64 except MinInt64 and every pad that fits the 128-byte scratch array. -/
theorem atoi_eq_decimal (i : Int) (pad : Nat) (hlo : -2^63 < i) (hhi : i < 2^63) (hpad : pad ≤ 127) :
    atoi i pad = .ok (Spec.decimal i pad) := Lemmas.C20.atoi_eq_decimal i pad hlo hhi hpad

/-- … and its rendering read as text is `Nat.repr |i|`, i.e. what `toString` prints (pad 0). -/
theorem atoi_eq_repr (i : Int) (hlo : -2^63 < i) (hhi : i < 2^63) :
    atoi i 0 = .ok ((if i < 0 then ['-'] else []) ++ (Nat.repr i.natAbs).toList) := by
  rw [atoi_eq_decimal i 0 hlo hhi (by omega)]
  simp [Spec.decimal, Spec.zpad]

/-- MinInt64: `-i` wraps, the digit loop is skipped: a bare sign (and the padding). No log field can take
this value (sizes and status codes are non-negative, durations are divided first). -/
theorem atoi_minInt64 (pad : Nat) (hpad : pad ≤ 127) :
    atoi minInt64 pad = .ok ('-' :: List.replicate pad '0') := Lemmas.C20.atoi_minInt64 pad hpad

/-- `atoi` never panics on an int64 with the pads the package uses (fact `atoi_pads_pinned`: ≤ 9). -/
theorem atoi_total (i : Int) (pad : Nat) (hlo : -2^63 ≤ i) (hhi : i < 2^63) (hpad : pad ≤ 127) :
    (atoi i pad).isPanic = false := Lemmas.C20.atoi_total i pad hlo hhi hpad

/-- The bound on `pad` is forced: one more and the write before the array starts panics. -/
theorem atoi_pad_bound_forced : (atoi 7 129).isPanic = true ∧ (atoi (-7) 128).isPanic = true := by decide

/-- `i32toa` equals `strconv.Itoa` on every int32, MinInt32 included. -/
theorem i32toa_eq_decimal (n : Int) (hlo : -2^31 ≤ n) (hhi : n < 2^31) :
    i32toa n = .ok (Spec.itoa n) := Lemmas.C20.i32toa_eq_decimal n hlo hhi

/-- `uint16base16` equals `"0x" ++` the four lower-case hex digits, most significant first
(`Nat.toDigits 16` zero-padded to width 4), on every uint16. -/
theorem uint16base16_eq_hex4 (n : Nat) (h : n < 65536) :
    uint16base16 n = .ok (Spec.hex4 n) := Lemmas.C20.uint16base16_eq_hex4 n h

/-! ## uuid.ToString -/

/-- The text is the 8-4-4-4-12 lower-hex rendering of the first 16 of the 24 bytes, in order; no index
of the position table leaves the 36-byte buffer. -/
theorem uuid_format (u : List UInt8) (h : u.length = 24) :
    uuidToString u = .ok (Spec.uuidText u) := Lemmas.C20.uuid_format u h

/-- length 36, dashes at 8/13/18/23, lower-case hex digits everywhere else -/
theorem uuid_shape (u : List UInt8) (h : u.length = 24) :
    (Spec.uuidText u).length = 36 ∧
    (∀ i, i ∈ [8, 13, 18, 23] → (Spec.uuidText u)[i]? = some '-') ∧
    (∀ i, i < 36 → i ∉ [8, 13, 18, 23] → ∃ c, (Spec.uuidText u)[i]? = some c ∧ Lemmas.C20.isLowerHex c = true) :=
  Lemmas.C20.uuid_shape u h

/-! ## hostport -/

/-- `hostport` never panics, whatever the address looks like (D24 repaired). -/
theorem hostport_total (s : List Char) : (hostport s).isPanic = false := Lemmas.C20.hostport_total s

/-- With a colon, `host:port` is the address and the port has no colon; without one the address is the
host and the port is empty. -/
theorem hostport_spec (s : List Char) :
    ∃ h p, hostport s = .ok (h, p) ∧ Spec.hostportOk s h p = true := Lemmas.C20.hostport_spec s

/-! ## lex / parse -/

/-- `lex` consumes at least one rune of a non-empty input and never more than there is: the loop of
`parse` terminates and its slice expressions are in range. -/
theorem lex_progress (s : List Char) (h : s ≠ []) : 1 ≤ (lex s).2 ∧ (lex s).2 ≤ s.length :=
  Lemmas.C20.lex_progress s h

/-- `parse` never panics and never spins (fuel `len + 1` suffices), for every format and field table. -/
theorem parse_total (known : List Char → Bool) (format : List Char) :
    (parseWith known format).isPanic = false := Lemmas.C20.parse_total known format

/-- A successful parse contains known fields only: an unknown field is an error of `logger.New`. -/
theorem parse_known (known : List Char → Bool) (format : List Char) (p : List Item)
    (h : parseWith known format = .ok (.ok p)) : ∀ n, Item.field n ∈ p → known n = true :=
  Lemmas.C20.parse_known known format p h

/-- A successful parse splits the format: nothing is dropped or invented. -/
theorem parse_concat (known : List Char → Bool) (format : List Char) (p : List Item)
    (h : parseWith known format = .ok (.ok p)) : p.flatMap Lemmas.C20.itemSrc = format :=
  Lemmas.C20.parse_concat known format p h

/-! ## rendering an event -/

/-- `$response_time_{ms,us,ns}` for End ≥ Start: seconds, a dot, the truncated fraction zero-padded. -/
theorem durations (e : Event) (h0 : 0 ≤ e.durNs) (h1 : e.durNs < 2^63) :
    responseTime e 1000000 3 = .ok (Spec.refSeconds e.durNs 3) ∧
    responseTime e 1000 6 = .ok (Spec.refSeconds e.durNs 6) ∧
    responseTime e 1 9 = .ok (Spec.refSeconds e.durNs 9) := Lemmas.C20.durations e h0 h1

/-
Full statement (every int64 the event can carry):
  theorem fields_eq_reference (e) (hr : EventInRange e) (hc : EventCalendar e) (hd : 0 ≤ e.durNs) … :
      ∃ r, Spec.refField e name = some r ∧ f e = .ok r
It is false at MinInt64 (`fields_eq_reference_fails_at_minInt64`): the extra hypothesis `hmin` below is
forced by `atoi_minInt64`. The four `hostport` fields are covered by `hostport_spec`.
-/
/-- Every field of the table (other than the four that go through `hostport`) renders what the reference
does — `Nat.repr` for the numbers; for the time fields the calendar fields *of End in UTC*, in
RFC 3339 / common-log layout with `Z` / `+0000` (D25 repaired: facts `time_fields_use_utc`). -/
theorem fields_eq_reference_partial (e : Event) (hr : EventInRange e) (hc : EventCalendar e) (hd : 0 ≤ e.durNs)
    (hmin : -2^63 < e.status ∧ -2^63 < e.contentLength ∧ -2^63 < e.unixNano)
    (name : String) (f : Event → Outcome (List Char)) (hf : fieldTable.lookup name = some f)
    (hn : name ∉ ["$remote_host", "$remote_port", "$upstream_host", "$upstream_port"]) :
    ∃ r, Spec.refField e name = some r ∧ f e = .ok r :=
  Lemmas.C20.fields_eq_reference_partial e hr hc hd hmin name f hf hn

theorem fields_eq_reference_fails_at_minInt64 :
    ¬ (∀ (e : Event) (_ : EventInRange e) (_ : EventCalendar e) (_ : 0 ≤ e.durNs)
        (name : String) (f : Event → Outcome (List Char)) (_ : fieldTable.lookup name = some f)
        (_ : name ∉ ["$remote_host", "$remote_port", "$upstream_host", "$upstream_port"]),
        ∃ r, Spec.refField e name = some r ∧ f e = .ok r) :=
  Lemmas.C20.fields_eq_reference_counterexample

/-- The time fields spelled out: with the UTC calendar fields of the instant as inputs, `$time_rfc3339` is
`YYYY-MM-DDTHH:MM:SSZ` and `$time_common` is `DD/Mon/YYYY:HH:MM:SS +0000`. -/
theorem time_fields_utc (e : Event) (hr : EventInRange e) (hc : EventCalendar e) (hd : 0 ≤ e.durNs)
    (hmin : -2^63 < e.status ∧ -2^63 < e.contentLength ∧ -2^63 < e.unixNano)
    (f g : Event → Outcome (List Char))
    (hf : fieldTable.lookup "$time_rfc3339" = some f) (hg : fieldTable.lookup "$time_common" = some g) :
    f e = .ok (Spec.refRfc3339 e ++ ['Z']) ∧
    ∃ r, Spec.refField e "$time_common" = some r ∧ g e = .ok r := by
  constructor
  · obtain ⟨r, h1, h2⟩ := fields_eq_reference_partial e hr hc hd hmin _ f hf (by decide)
    have : r = Spec.refRfc3339 e ++ ['Z'] := by
      have : Spec.refField e "$time_rfc3339" = some (Spec.refRfc3339 e ++ ['Z']) := rfl
      rw [this] at h1; exact (Option.some.inj h1).symm
    rw [h2, this]
  · exact fields_eq_reference_partial e hr hc hd hmin _ g hg (by decide)

/-- No field function panics and neither does `write`: logging cannot take the request handler down,
whatever the addresses, header values, sizes and times are. -/
theorem write_total (p : List Item) (e : Event) (hp : ∀ n, Item.field n ∈ p → knownField n = true)
    (he : EventInRange e) : (write p e).isPanic = false := Lemmas.C20.write_total p e hp he

/-- … in particular for every pattern `parse` accepts. -/
theorem log_total (format : List Char) (e : Event) (he : EventInRange e) :
    (newAndLog format e).isPanic = false := by
  unfold newAndLog
  have ht := parse_total knownField format
  cases hp : parse format with
  | panic w => unfold parse at hp; rw [hp] at ht; simp [Outcome.isPanic] at ht
  | ok r =>
    simp only [Outcome.bind]
    cases r with
    | error n => rfl
    | ok p =>
      cases p with
      | nil => rfl
      | cons it rest =>
        have hk := parse_known knownField format (it :: rest) hp
        have := write_total (it :: rest) e hk he
        simp only [Lemmas.C20.isPanic_map]
        exact this

/-
Full statement of the property sentence "writes exactly one line":
  ∀ p e b, p ≠ [] → render p e = .ok b → write p e = .ok (b ++ ['\n'])
It is false (`exactly_one_line_fails_on_empty_rendering`, D26): `pattern.write` returns before appending
the newline when the buffer is empty. The hypothesis `b ≠ []` is forced.
-/
/-- A non-empty rendering is followed by exactly one `'\n'`. -/
theorem exactly_one_line_partial (p : List Item) (e : Event) (b : List Char) (h : render p e = .ok b) (hne : b ≠ []) :
    write p e = .ok (b ++ ['\n']) := by
  unfold write
  rw [h]
  cases b with
  | nil => exact absurd rfl hne
  | cons c cs => rfl

/-- … and if no value carries a newline of its own, the output is one line: one `'\n'`, at the end. -/
theorem one_newline (b : List Char) (h : '\n' ∉ b) : (b ++ ['\n']).count '\n' = 1 := by
  simp [List.count_append, List.count_eq_zero.mpr h]

/-- An empty rendering writes nothing at all — not even the newline (D26). -/
theorem empty_rendering_writes_nothing (p : List Item) (e : Event) (h : render p e = .ok []) :
    write p e = .ok [] := by
  unfold write; rw [h]; rfl

/-- Witness: the valid format `$header.Referer` and a request without that header. -/
theorem exactly_one_line_fails_on_empty_rendering :
    ∃ (p : List Item) (e : Event), p ≠ [] ∧ parse "$header.Referer".toList = .ok (.ok p) ∧
      render p e = .ok [] ∧ write p e = .ok [] :=
  ⟨[.header "Referer".toList], {}, by decide, by rfl, by decide, by decide⟩

/-! ## the whole line against the reference -/

/-- `hostport` computes exactly the reference's split at the last colon (`Spec.splitLastColon`, written with
`reverse`/`takeWhile`): host and port of `$remote_*` / `$upstream_*` are what the reference prints, for every
address — empty, without a port, IPv6 in brackets, several colons. -/
theorem hostport_eq_reference (s : List Char) : hostport s = .ok (Spec.splitLastColon s) :=
  Lemmas.C20.hostport_eq_split s

/-- `fields_eq_reference_partial` without the exclusion: all 31 fields of the table, the four that go through
`hostport` included, equal the reference rendering (forced hypothesis: no MinInt64, as above). -/
theorem all_fields_eq_reference_partial (e : Event) (hr : EventInRange e) (hc : EventCalendar e) (hd : 0 ≤ e.durNs)
    (hmin : -2^63 < e.status ∧ -2^63 < e.contentLength ∧ -2^63 < e.unixNano)
    (name : String) (f : Event → Outcome (List Char)) (hf : fieldTable.lookup name = some f) :
    ∃ r, Spec.refField e name = some r ∧ f e = .ok r :=
  Lemmas.C20.fields_eq_reference_all e hr hc hd hmin name f hf

/-
Full statement of the property's first sentence at the level of the model:
  ∀ format p e, parse format = ok p → p ≠ [] → EventInRange e → EventCalendar e → 0 ≤ e.durNs →
     newAndLog format e = ok (written (Spec.refLine p e ++ ['\n']))
It is false twice: at MinInt64 (`fields_eq_reference_fails_at_minInt64`) and for an empty rendering
(`exactly_one_line_fails_on_empty_rendering`, D26). Both hypotheses below are forced.
-/
/-- **The first sentence of the property, end to end**: for every format `logger.New` accepts and every event,
`Log` writes exactly the reference line — text items as they are, header items by `Header.Get`, every field as
`Nat.repr` / the UTC calendar fields / the last-colon split render it — followed by exactly one newline; the parser,
the 31 field functions, `hostport`, `atoi` and `write` composed. -/
theorem log_line_eq_reference_partial (format : List Char) (p : List Item) (e : Event)
    (hp : parse format = .ok (.ok p)) (hr : EventInRange e) (hc : EventCalendar e) (hd : 0 ≤ e.durNs)
    (hmin : -2^63 < e.status ∧ -2^63 < e.contentLength ∧ -2^63 < e.unixNano) (hline : Spec.refLine p e ≠ []) :
    newAndLog format e = .ok (.written (Spec.refLine p e ++ ['\n'])) := by
  have hk := parse_known knownField format p hp
  have hrd := Lemmas.C20.render_eq_reference p e hk hr hc hd hmin
  have hw := exactly_one_line_partial p e _ hrd hline
  unfold newAndLog
  rw [hp]
  cases p with
  | nil => exact absurd rfl hline
  | cons it rest => simp [Outcome.bind, hw, Outcome.map]

/-- … and the line is one line: if no text item, header value or address carries a newline of its own, the bytes
written contain exactly one `'\n'`, at the end. -/
theorem log_line_is_one_line (p : List Item) (e : Event) (h : '\n' ∉ Spec.refLine p e) :
    (Spec.refLine p e ++ ['\n']).count '\n' = 1 := one_newline _ h

example : ∃ p, parse "$remote_host:$remote_port $response_status".toList = .ok (.ok p) ∧
    Spec.refLine p { remoteAddr := "[::1]:5000".toList, status := 204 } = "[::1]:5000 204".toList := ⟨_, rfl, by decide⟩

/-! ## concurrent requests through one logger (`Model/C20Log.lean`) -/

/-- `Log` as micro-steps get; render; lock; write; unlock; put over a pool of shared buffers: for every
schedule of any number of request threads, every choice `sync.Pool` makes, every assignment of events and
every renderer, each line that reaches the sink is the rendering of the event whose `Log` call wrote it.
The pooled buffer is exclusively owned from `get` to `put`, and `put` comes after the write (the order is
pinned by the regenerated fact `log_call_order_pinned`). -/
theorem log_lines_intact_any_schedule {Ev : Type} (render : Ev → List Char) (evs : List (List Ev))
    (sched : List (Nat × Nat)) :
    Model.C20Log.SinkIntact render (Model.C20Log.run Model.C20Log.goodProg render sched (Model.C20Log.init evs)) :=
  Lemmas.C20Log.log_lines_intact_any_schedule render evs sched

/-- The order matters: with `put` before `lock` (the buffer handed back while the bytes are still to be
written) there is a schedule of two requests in which the first request's line is replaced by the second's. -/
theorem early_put_loses_a_line :
    ¬ Model.C20Log.SinkIntact Lemmas.C20Log.r1
      (Model.C20Log.run Model.C20Log.earlyPutProg Lemmas.C20Log.r1 [(0,0),(0,0),(0,0),(1,0),(1,0),(0,0),(0,0)]
        (Model.C20Log.init [['A'],['B']])) := Lemmas.C20Log.early_put_loses_a_line

/-- a schedule in which both requests overlap (both hold a buffer at once) and both lines arrive intact -/
example : (Model.C20Log.run Model.C20Log.goodProg Lemmas.C20Log.r1
      [(0,0),(0,0),(1,0),(1,0),(0,0),(0,0),(0,0),(0,0),(0,0),(1,0),(1,0),(1,0),(1,0),(1,0)]
      (Model.C20Log.init [['A'],['B']])).sink = [(['A'], 'A'), (['B'], 'B')] := by decide

/-! ## the status/size capturing responseWriter (`Model/C20Capture.lean`) -/

/-- The wrapper `ServeHTTP` puts around the client connection for the access log is transparent — the
connection receives every call of the handler, in order (a `Flush` only if it can flush), in particular an
informational 1xx header AND the final status after it — and what the log gets is the status of the last
`WriteHeader` and the number of bytes the connection accepted. -/
theorem capture_transparent (flusher : Bool) (ops : List Model.C20Capture.RWOp) :
    (Model.C20Capture.captureRun flusher ops).forwarded = Model.C20Capture.visible flusher ops ∧
    (Model.C20Capture.captureRun flusher ops).size = Model.C20Capture.accepted ops ∧
    (Model.C20Capture.captureRun flusher ops).code = ((Model.C20Capture.statuses ops).getLast?).getD 0 := by
  have := Lemmas.C20Capture.foldl_spec flusher ops {}
  simpa [Model.C20Capture.captureRun] using this

example : (Model.C20Capture.captureRun true [.header 103, .header 404, .write 9 9]).code = 404 ∧
    (Model.C20Capture.captureRun true [.header 103, .header 404, .write 9 9]).forwarded = [.header 103, .header 404, .write 9 9] := by
  decide

/-! ## non-vacuity -/

example : atoi (-42) 4 = .ok "-0042".toList := by decide
example : atoi 9223372036854775807 0 = .ok "9223372036854775807".toList := by decide
example : -2^63 < (-9223372036854775807 : Int) ∧ (-9223372036854775807 : Int) < 2^63 := by decide
example : i32toa (-2147483648) = .ok "-2147483648".toList := by decide
example : uint16base16 0x0301 = .ok "0x0301".toList := by decide
example : uuidToString ((List.range 24).map UInt8.ofNat) = .ok "00010203-0405-0607-0809-0a0b0c0d0e0f".toList := by decide
example : hostport "backend".toList = .ok ("backend".toList, []) := by decide
example : hostport "[::1]:80".toList = .ok ("[::1]".toList, "80".toList) := by decide
example : lex "$header.X-Y z".toList = (.header, 11) := by decide
example : lex "$header.".toList = (.field, 7) := by decide
example : parse "$remote_host [$time_common] $nope".toList = .ok (.error "$nope".toList) := by rfl
example : ∃ e : Event, EventInRange e ∧ EventCalendar e ∧ 0 ≤ e.durNs :=
  ⟨{ year := 2020, month := 2, day := 29, hour := 23, minute := 59, second := 59, nanos := 999999999, durNs := 1500000 },
   ⟨by decide, by decide, by decide, by decide, by decide, by decide, by decide, by decide, by decide, by decide, by decide⟩,
   ⟨by decide, by decide, by decide, by decide, by decide, by decide, by decide⟩, by decide⟩
example : newAndLog "$time_rfc3339_ms $response_time_ms|$header.x-y".toList
    { year := 2020, month := 2, day := 29, hour := 23, minute := 59, second := 59, nanos := 999999999, durNs := 1500000,
      header := some [("X-Y".toList, ["v".toList])] }
    = .ok (.written "2020-02-29T23:59:59.999Z 0.001|v\n".toList) := by decide

end Fabio.Props.C20
