import Fabio.Props.C02
import Fabio.Props.C02Ring
import Fabio.Props.C03
import Fabio.Props.C04
import Fabio.Model.C02Compose
/-!
C02, phase 2 — composition: the parameters of the concurrency and history theorems of `Props/C02.lean` are
instantiated with the concrete models of the other properties,

* `build`      := `Parse.loadTable` (C05's model of `route.NewTable`), `buildDefs := Route.newTable`
  (`route.NewTableCustom`),
* `lookupPure` := `Model.C03.Lookup` with C04's `rrPicker`/`rndPicker` on the ring of the matched route,

and the end-to-end corollaries are stated. Definitions: `Model/C02Compose.lean`.

The update loop and the cell are connected through `WB.installs`: the list of tables the loop passes to
`route.SetTable` over a history is the program of the one writer thread of the cell machine (the
`watchBackend` goroutine); readers are the request goroutines.
-/
namespace Fabio.Props.C02Compose
open Fabio Fabio.Model.Route Fabio.Model.Parse Fabio.Model.C02 Fabio.Model.C02Compose Fabio.Lemmas.C02
open Fabio.Model.C04 (ringOf entries slotCounts rrPick rndPick uint64Size)

/-! ## vocabulary -/

/-- `T` is a configuration the loop can have installed during the history `es`: the initial empty table or
the table `NewTable` builds from the concatenated text after one of the events -/
def Installed (env : Env) (pf : ParseFloat) (es : List Ev) (T : Table) : Prop :=
  T = [] ∨ ∃ text ∈ texts es, loadTable env pf text = .ok T

/-- the system: request goroutines `rs` (readers that have not started) and the update loop as the one writer,
programmed with the `SetTable` calls the history `es` produces -/
def system (env : Env) (pf : ParseFloat) (es : List Ev)
    (rs : List (Thread Table Model.C03.Req (Option (Str × Route × Target)))) :
    Sys Table Model.C03.Req (Option (Str × Route × Target)) :=
  Sys.start [] (rs ++ [.writer ((WB.installs (build env pf) (WB.init []) es).map some)])

def Readers (rs : List (Thread Table Model.C03.Req (Option (Str × Route × Target)))) : Prop :=
  ∀ th ∈ rs, ∃ todo, th = .reader todo none []

/-- what the picker's environment must satisfy for a route: the placement is a possible result of Go's sort of
the slot entries, and the RNG honours `0 ≤ randIntn n < n` -/
def PickValid (pe : PickEnv) (r : Route) : Prop :=
  (pe.placement r).Perm (entries (slotCounts r.targets)) ∧
  ∀ n, 0 < n → 0 ≤ pe.randIntn r n ∧ pe.randIntn r n < n

/-! ## helper facts -/

theorem build_some_iff (env : Env) (pf : ParseFloat) (text : Text) (t : Table) :
    build env pf text = some t ↔ loadTable env pf text = .ok t := by
  unfold build
  cases loadTable env pf text <;> simp [Except.toOption]

/-- `pickFn` always returns one of the route's targets (hypothesis `PickOK` of C03's `lookup_sound`) -/
theorem pickFn_ok (pe : PickEnv) : C03.PickOK (pickFn pe) := by
  intro r hne
  have hhead : r.targets.headD noTarget ∈ r.targets := by
    cases h : r.targets with
    | nil => exact absurd h hne
    | cons x xs => simp
  unfold pickFn
  split
  · rename_i i _
    cases hi : r.targets[i]? with
    | none => simpa using hhead
    | some t => simpa using List.mem_of_getElem? hi
  · exact hhead

theorem fresh_system (env : Env) (pf : ParseFloat) (es : List Ev)
    (rs : List (Thread Table Model.C03.Req (Option (Str × Route × Target)))) (hr : Readers rs) :
    ∀ th ∈ (system env pf es rs).threads, th.fresh = true := by
  intro th hth
  simp only [system, Sys.start, List.mem_append, List.mem_singleton] at hth
  rcases hth with h | rfl
  · obtain ⟨todo, rfl⟩ := hr th h; rfl
  · rfl

theorem stores_system (env : Env) (pf : ParseFloat) (es : List Ev)
    (rs : List (Thread Table Model.C03.Req (Option (Str × Route × Target)))) (hr : Readers rs) (t : Table)
    (ht : t ∈ (system env pf es rs).threads.flatMap Thread.stores) :
    t ∈ WB.installs (build env pf) (WB.init []) es := by
  simp only [system, Sys.start, List.flatMap_append, List.mem_append, List.mem_flatMap] at ht
  rcases ht with ⟨th, hth, hm⟩ | ⟨th, hth, hm⟩
  · obtain ⟨todo, rfl⟩ := hr th hth
    simp [Thread.stores] at hm
  · simp only [List.mem_singleton] at hth
    subst hth
    simpa [Thread.stores] using hm

theorem installed_of_mem (env : Env) (pf : ParseFloat) (es : List Ev) (t : Table)
    (h : t = [] ∨ t ∈ WB.installs (build env pf) (WB.init []) es) : Installed env pf es t := by
  rcases h with h | h
  · exact Or.inl h
  · obtain ⟨text, hm, hb⟩ := installs_mem (build env pf) es (WB.init []) t h
    exact Or.inr ⟨text, hm, (build_some_iff env pf text t).1 hb⟩

/-! ## 1. the serving table is the last good configuration -/

/-- **End to end, history + concurrency.** Take any history `es` of service/manual updates, any number of
request goroutines serving any requests, and any interleaving of them with the update loop. Then
(a) every lookup is answered as `Model.C03.Lookup` on ONE table of the cell's history, and that table is the initial
empty table or `loadTable` of the concatenated text after one of the events (a complete configuration that
loaded — never a mixture, never a text that failed to load);
(b) once the update loop has processed the whole history, the cell holds `loadTable` of the LAST concatenated
text that loads (the empty table if none does), so every later lookup is answered from it
(`lookup_after_last_update_uses_last_good_config`). -/
theorem serving_table_is_last_good_config (env : Env) (pf : ParseFloat) (le : LookupEnv) (k : Model.C03.Req → Nat)
    (es : List Ev) (rs : List (Thread Table Model.C03.Req (Option (Str × Route × Target)))) (hr : Readers rs)
    (sch : List Nat) :
    (∀ th ∈ (Sys.run (lk le k) sch (system env pf es rs)).threads, ∀ r ∈ th.results,
      ∃ T, (Sys.run (lk le k) sch (system env pf es rs)).cell.hist[r.idx]? = some T ∧ Installed env pf es T ∧
        r.ans = Model.C03.Lookup (le.cfg r.req) T r.req) ∧
    ((∃ th, (Sys.run (lk le k) sch (system env pf es rs)).threads[rs.length]? = some th ∧ th.finished = true) →
      (Sys.run (lk le k) sch (system env pf es rs)).cell.val = lastGood (build env pf) [] (texts es)) := by
  have inv : Inv (lk le k) [] ((system env pf es rs).threads.flatMap Thread.stores)
      (Sys.run (lk le k) sch (system env pf es rs)) :=
    (Inv.run (lk := lk le k) sch (Inv.start (lk le k) [] _ (fresh_system env pf es rs hr))).1
  constructor
  · intro th hth r hrr
    have ok := inv.thr th hth
    cases th with
    | writer todo => simp [Thread.results] at hrr
    | reader todo cur done =>
      obtain ⟨T, hT, ha⟩ := ok.2.1 r hrr
      refine ⟨T, hT, installed_of_mem env pf es T ?_, ha⟩
      rcases inv.mem T (List.mem_of_getElem? hT) with h | h
      · exact Or.inl h
      · exact Or.inr (stores_system env pf es rs hr T h)
  · rintro ⟨th, hth, hfin⟩
    have ow := OneWriter.run (lk le k) sch
      (OneWriter.start ([] : Table) (WB.installs (build env pf) (WB.init []) es) rs
        (fun th h => by obtain ⟨todo, rfl⟩ := hr th h; exact ⟨_, _, _, rfl⟩))
    obtain ⟨done, pending, hh, hw, hdp, _⟩ := ow
    change (Sys.run (lk le k) sch (system env pf es rs)).threads[rs.length]? = _ at hw
    rw [hth] at hw
    cases hw
    have hp : pending = [] := by
      cases pending with
      | nil => rfl
      | cons x xs => simp [Thread.finished] at hfin
    subst hp
    simp only [List.append_nil] at hdp
    have hc := inv.cell
    unfold CellOk at hc
    change (Sys.run (lk le k) sch (system env pf es rs)).cell.hist = _ at hh
    rw [hh, hdp] at hc
    rw [← Fabio.Props.C02.keeps_last_good, ← installs_last (build env pf) es (WB.init [])]
    have hl : ([] :: WB.installs (build env pf) (WB.init []) es : List Table).getLast? =
        some ((WB.installs (build env pf) (WB.init []) es).getLast?.getD (WB.init ([] : Table)).active) := by
      cases WB.installs (build env pf) (WB.init []) es with
      | nil => rfl
      | cons x xs =>
        have hx : (x :: xs).getLast? = some ((x :: xs).getLast (by simp)) := List.getLast?_eq_some_getLast (by simp)
        rw [List.getLast?_cons_cons, hx]; rfl
    rw [List.getLast?_eq_getElem?] at hl
    rw [hl] at hc
    exact (Option.some.inj hc).symm

/-- (b) spelled out for a request: when the update loop is done, a request goroutine that loads the table now
gets — whatever runs afterwards — the answer `Model.C03.Lookup` gives on the last good configuration. -/
theorem lookup_after_last_update_uses_last_good_config (env : Env) (pf : ParseFloat) (le : LookupEnv)
    (k : Model.C03.Req → Nat) (es : List Ev) (rs : List (Thread Table Model.C03.Req (Option (Str × Route × Target))))
    (hr : Readers rs) (pre : List Nat) (i : Nat) (req : Model.C03.Req) (todo : List Model.C03.Req)
    (done : List (Result Model.C03.Req (Option (Str × Route × Target))))
    (hfin : ∃ th, (Sys.run (lk le k) pre (system env pf es rs)).threads[rs.length]? = some th ∧ th.finished = true)
    (hload : (Sys.run (lk le k) pre (system env pf es rs)).threads[i]? = some (.reader (req :: todo) none done))
    (post : List Nat) :
    ∃ th, (Sys.run (lk le k) post ((Sys.run (lk le k) pre (system env pf es rs)).stepAt (lk le k) i)).threads[i]? = some th ∧
      (th.results.length ≤ done.length ∨
       ∃ idx, th.results[done.length]? = some (Result.mk req idx
          (Model.C03.Lookup (le.cfg req) (lastGood (build env pf) [] (texts es)) req))) := by
  obtain ⟨th, hth, h⟩ := Fabio.Props.C02.lookup_answered_from_table_at_load (lk le k) _ i req todo done hload post
  refine ⟨th, hth, ?_⟩
  rcases h with h | h
  · exact Or.inl h
  · right
    rw [(serving_table_is_last_good_config env pf le k es rs hr pre).2 hfin] at h
    exact ⟨_, h⟩

/-! ## 2. every answer is sound for ONE installed configuration -/

/-- **Linearizability + C03 `lookup_sound`.** Every answer `some (h, route, tg)` of every concurrent lookup is
justified by ONE installed configuration `T` (the table the reader loaded): `h` is the empty key or a key of
`T` matching the request host, `route` is a route of `T` under that key whose path matches the request under
the configured matcher, and `tg` is one of that route's targets. Host, route and target all come from the same
`T` — never a mixture of two configurations. -/
theorem every_answer_is_sound_for_some_installed_config (env : Env) (pf : ParseFloat) (le : LookupEnv)
    (k : Model.C03.Req → Nat) (es : List Ev) (rs : List (Thread Table Model.C03.Req (Option (Str × Route × Target))))
    (hr : Readers rs) (sch : List Nat) :
    ∀ th ∈ (Sys.run (lk le k) sch (system env pf es rs)).threads, ∀ r ∈ th.results,
      ∀ h route tg, r.ans = some (h, route, tg) →
      ∃ T, Installed env pf es T ∧ (Sys.run (lk le k) sch (system env pf es rs)).cell.hist[r.idx]? = some T ∧
        (h = [] ∨ C03.HostMatches (le.cfg r.req) T r.req h) ∧ route ∈ T.get (lowerL h) ∧
        (le.cfg r.req).pathMatch r.req.path route.path = true ∧ tg ∈ route.targets := by
  intro th hth r hrr h route tg hans
  obtain ⟨T, hT, hinst, ha⟩ := (serving_table_is_last_good_config env pf le k es rs hr sch).1 th hth r hrr
  rw [ha] at hans
  obtain ⟨h1, h2, h3, h4⟩ := C03.lookup_sound (le.cfg r.req) T r.req (pickFn_ok le.pe) hans
  exact ⟨T, hinst, hT, h1, h2, h3, h4⟩

/-! ## 3. no panic end to end -/

/-- every `some i` stored in the ring of a weighed target list indexes into the list (in Go the ring holds
`*Target` pointers taken from `r.Targets`, so this is true by construction there) -/
theorem ring_slot_valid (ts : List Target) (pl : List (Int × Nat))
    (hperm : pl.Perm (entries (slotCounts (weigh ts)))) (ring : Model.C04.Ring) (h : ringOf (weigh ts) pl = .ok ring) :
    ∀ i, some i ∈ ring → i < (weigh ts).length := by
  unfold ringOf at h
  split at h
  · cases h
    intro i hi
    simpa using hi
  · unfold Model.C04.fillRing at h
    simp only at h
    split at h
    · cases h
    · rename_i hused
      have hpos : ∀ n ∈ slotCounts (weigh ts), 0 ≤ n := by
        intro n hnm
        obtain ⟨t, ht, rfl⟩ := List.mem_map.mp hnm
        exact Fabio.Lemmas.C04.slotCount_nonneg _ (Fabio.Props.C04.weights_nonneg ts t ht)
      obtain ⟨hsum, _⟩ := Fabio.Lemmas.C04.toNat_sum _ hpos
      have hnd : (pl.map (·.2)).Nodup := by
        have : (pl.map (·.2)).Perm ((entries (slotCounts (weigh ts))).map (·.2)) := hperm.map _
        rw [this.nodup_iff, entries, Fabio.Lemmas.C04.entries_map_snd]
        exact List.nodup_range'
      have hps : Fabio.Lemmas.C04.posSum pl = (Model.C04.sumInt (slotCounts (weigh ts))).toNat := by
        rw [Fabio.Lemmas.C04.posSum_perm hperm, Fabio.Lemmas.C04.posSum_entries, hsum, Fabio.Lemmas.C04.sumInt_eq]
      obtain ⟨ring', h1, _, _, _, h5⟩ := Fabio.Lemmas.C04.fill_spec (Model.C04.sumInt (slotCounts (weigh ts))).toNat pl
        (List.replicate (Model.C04.sumInt (slotCounts (weigh ts))).toNat none) hnd (by simp [hps]) (by
          by_cases hz : (Model.C04.sumInt (slotCounts (weigh ts))).toNat = 0
          · left; rw [hps, hz]
          · right; simp; omega)
      rw [h1] at h
      cases h
      intro i hi
      by_contra hge
      have hnot : i ∉ pl.map (·.2) := by
        intro hm
        have : i ∈ (entries (slotCounts (weigh ts))).map (·.2) := (hperm.map _).mem_iff.mp hm
        rw [entries, Fabio.Lemmas.C04.entries_map_snd] at this
        simp [slotCounts] at this
        exact hge this
      have hc := h5 i hnot
      rw [List.count_replicate] at hc
      simp at hc
      exact absurd hi (List.count_eq_zero.mp hc)

/-- **The picker is defined on every route of every table the constructors return**: the ring fill does not
panic, the picked slot is not nil and indexes a target; so `pickFn`'s fallback is never taken there. -/
theorem pick_defined_on_every_route (env : Env) (defs : List RouteDef) (t : Table) (h : newTable env defs = .ok t)
    (pe : PickEnv) : ∀ kv ∈ t, ∀ r ∈ kv.2, PickValid pe r →
      ∃ i tg, pickO pe r = .ok (some i) ∧ r.targets[i]? = some tg ∧ pickFn pe r = tg := by
  intro kv hkv r hr ⟨hpl, hrnd⟩
  obtain ⟨ring, h1, h2, h3, _⟩ := Fabio.Props.C04.every_route_ring env defs t h kv hkv r hr (pe.placement r) hpl
  obtain ⟨_, ts, hts⟩ := Fabio.Lemmas.C04.newTable_ok env defs t h kv hkv r hr
  have hpos : 0 < ring.length := List.length_pos_iff.mpr h2
  have hvalid : ∀ i, some i ∈ ring → i < r.targets.length := by
    rw [hts] at hpl h1 ⊢
    exact ring_slot_valid ts _ hpl ring h1
  -- the slot the picker returns
  have hslot : ∃ s, pickO pe r = .ok s ∧ s ∈ ring := by
    unfold pickO
    rw [h1]
    simp only
    by_cases hrr : pe.rr = true
    · obtain ⟨s, hs, hg⟩ := Fabio.Lemmas.C04.rrPick_ok ring hpos (pe.cursor r)
      exact ⟨s, by simp [hrr, hs, Outcome.map], List.mem_of_getElem? hg⟩
    · obtain ⟨s, hs, hm⟩ := Fabio.Props.C04.rnd_picks_ring_slot ring (pe.randIntn r) (hrnd _ hpos)
      exact ⟨s, by simp [hrr, hs], hm⟩
  obtain ⟨s, hs, hm⟩ := hslot
  cases s with
  | none => exact absurd rfl (h3 none hm)
  | some i =>
    have hi := hvalid i hm
    refine ⟨i, r.targets[i], hs, List.getElem?_eq_getElem hi, ?_⟩
    unfold pickFn
    rw [hs]
    simp [List.getElem?_eq_getElem hi]

/-- **No panic, end to end.** For EVERY configuration text (any characters, any
`ParseFloat`/`url.Parse`/`glob.Compile` behaviour): `loadTable` returns an error or a table (never a panic,
never a partial table), and on every route of that table, for every admissible picker environment, ring
construction, `rrPicker` and `rndPicker` reach no `Outcome.panic` and return a target of the route; `Model.C03.Lookup`
with that picker is then a total function of (table, request), so host matching, path matching and picking
produce an answer for every request.

Which Go panic points this covers, and how:
* **in the model, by theorem** — `weighTargets`: `make([]*Target, usedSlots)` with a negative length, the ring
  scan `for targets[next] != nil` running off the ring or forever, `usedSlots / s.n`, `% usedSlots`
  (`Model.C04.fillRing`/`fill`/`placeK`/`findFree` return `Outcome.panic` there; `ring_no_panic`);
  `rrPicker`: `% uint64(len(wTargets))` with an empty ring and the index; `rndPicker`: the index; a nil slot
  handed to the proxy (`pick_defined_on_every_route`); `NewTable` returning a partial table (`no_partial_table`).
  All over exact rationals: the effective weights are in [0,1] and sum to 1 (`C04.every_route_weights`).
* **in the model, by construction (totality of the Lean functions)** — the scanner loop, the three command
  parsers (`FindStringSubmatch` group indexing is a total tokenizer), `hostpath`'s `SplitN` indexing,
  `Table.lookup`'s `n == 0`/`n == 1` shortcuts, `matchingHosts`/`sortHostsReverseHostPort`, `ReverseHostPort`
  (`net.SplitHostPort` modelled in full), `normalizeHost`'s slicing.
* **only by facts + the no-panic search, NOT by a theorem** — the float64 arithmetic (overflow to ±Inf/NaN,
  `int(float)` of a huge value: facts `panic_points_closed` for the non-finite guard, stream `c02.nopanic` with
  hostile weights, C04's float-vs-ℚ comparison); the third-party calls taken as parameters: `glob.Compile`
  /`Match` (`env.globOK`, `cfg.globMatch`: the D33 guard `globMatch` and the absence of `MustCompile` are
  pinned by `no_recover_is_relied_upon` / `panic_points_closed`), `url.Parse`, `strconv.ParseFloat`, the regexes;
  option parsing of targets (`strip`, `redirect`, `allow`/`deny`: owned by C12/C13 and exercised by
  `c02.nopanic`); `BuildRedirectURL` (C13); the nil definition list of `NewTableCustom` (fact
  `newTableCustom_never_returns_partial_table`, theorem `custom_no_panic_end_to_end` for the repaired model). -/
theorem no_panic_end_to_end (env : Env) (pf : ParseFloat) (text : Text) :
    (∃ e, loadTable env pf text = .error e) ∨
    ∃ t, loadTable env pf text = .ok t ∧
      (∃ defs, parse pf text = .ok defs ∧ newTable env defs = .ok t) ∧
      (∀ pe : PickEnv, ∀ kv ∈ t, ∀ r ∈ kv.2, PickValid pe r →
        ∃ i tg, pickO pe r = .ok (some i) ∧ r.targets[i]? = some tg ∧ pickFn pe r = tg) ∧
      (∀ (le : LookupEnv) (req : Model.C03.Req) h route tg, lookupPure le t req = some (h, route, tg) → tg ∈ route.targets) := by
  rcases Fabio.Props.C02.build_total env pf text with ⟨t, ht⟩ | ⟨e, he⟩
  · right
    obtain ⟨defs, hp, hn⟩ := Fabio.Props.C02.no_partial_table env pf text t ht
    refine ⟨t, ht, ⟨defs, hp, hn⟩, fun pe => pick_defined_on_every_route env defs t hn pe, ?_⟩
    intro le req h route tg hl
    exact (C03.lookup_sound (le.cfg req) t req (pickFn_ok le.pe) hl).2.2.2
  · exact Or.inl ⟨e, he⟩

/-! ## 4. the custom backend (`NewTableCustom` on definitions) -/

/-- the specification of a poll history: the table of the last document that decodes to a definition list and
builds; `a` if none -/
def lastGoodDoc (env : Env) (a : Table) (ps : List (Poll (List RouteDef))) : Table :=
  ps.foldl (fun a p => match p with
    | .defs ds => (buildDefs env ds).getD a
    | _ => a) a

/-- **Custom backend, history.** After any sequence of polls the (repaired) poll loop has not panicked and the
serving table is `newTable` of the last document that builds. -/
theorem custom_serving_table_is_last_good_document (env : Env) (ps : List (Poll (List RouteDef))) :
    ∀ a : Table, customRun (newTableCustom (buildDefs env)) a ps = .ok (lastGoodDoc env a ps) := by
  induction ps with
  | nil => intro a; rfl
  | cons p ps ih =>
    intro a
    cases p with
    | httpError => simpa [customRun, customStep, lastGoodDoc] using ih a
    | decodeError => simpa [customRun, customStep, lastGoodDoc] using ih a
    | null => simpa [customRun, customStep, lastGoodDoc, newTableCustom, Outcome.map, Model.C02.setTable] using ih a
    | defs ds =>
      have := ih ((buildDefs env ds).getD a)
      cases hb : buildDefs env ds with
      | none => simpa [customRun, customStep, lastGoodDoc, newTableCustom, Outcome.map, Model.C02.setTable, hb] using this
      | some t => simpa [customRun, customStep, lastGoodDoc, newTableCustom, Outcome.map, Model.C02.setTable, hb] using this

/-- the serving table of the custom backend is the empty table or `newTable` of one of the polled documents -/
theorem lastGoodDoc_is_built (env : Env) (ps : List (Poll (List RouteDef))) : ∀ a : Table,
    (a = [] ∨ ∃ ds, newTable env ds = .ok a) →
    (lastGoodDoc env a ps = [] ∨ ∃ ds, newTable env ds = .ok (lastGoodDoc env a ps)) := by
  induction ps with
  | nil => intro a h; exact h
  | cons p ps ih =>
    intro a h
    cases p with
    | httpError => exact ih a h
    | decodeError => exact ih a h
    | null => exact ih a h
    | defs ds =>
      simp only [lastGoodDoc, List.foldl_cons]
      apply ih
      unfold buildDefs
      cases hn : newTable env ds with
      | error e => simpa [Except.toOption] using h
      | ok t => exact Or.inr ⟨ds, by simpa [Except.toOption] using hn⟩

/-- **Custom backend, no panic end to end + soundness.** For every poll history (transport errors, decode
errors, `null`, any definition lists): the poll loop returns normally; on every route of the serving table
the picker is defined (no panic, a target of the route); and every answer of a lookup on it is sound for that
one table. -/
theorem custom_no_panic_end_to_end (env : Env) (ps : List (Poll (List RouteDef))) :
    ∃ t, customRun (newTableCustom (buildDefs env)) ([] : Table) ps = .ok t ∧
      (∀ pe : PickEnv, ∀ kv ∈ t, ∀ r ∈ kv.2, PickValid pe r →
        ∃ i tg, pickO pe r = .ok (some i) ∧ r.targets[i]? = some tg ∧ pickFn pe r = tg) ∧
      (∀ (le : LookupEnv) (req : Model.C03.Req) h route tg, lookupPure le t req = some (h, route, tg) →
        (h = [] ∨ C03.HostMatches (le.cfg req) t req h) ∧ route ∈ t.get (lowerL h) ∧
        (le.cfg req).pathMatch req.path route.path = true ∧ tg ∈ route.targets) := by
  refine ⟨_, custom_serving_table_is_last_good_document env ps [], ?_, ?_⟩
  · intro pe kv hkv
    rcases lastGoodDoc_is_built env ps [] (Or.inl rfl) with h | ⟨ds, h⟩
    · rw [h] at hkv; cases hkv
    · exact pick_defined_on_every_route env ds _ h pe kv hkv
  · intro le req h route tg hl
    exact C03.lookup_sound (le.cfg req) _ req (pickFn_ok le.pe) hl

end Fabio.Props.C02Compose

/-! ## non-vacuity -/
namespace Fabio.Props.C02Compose.Ex
open Fabio Fabio.Model.Route Fabio.Model.Parse Fabio.Model.C02 Fabio.Model.C02Compose Fabio.Props.C02Compose

def env : Env := { normURL := some, globOK := fun _ => true }
def pf : ParseFloat := fun s => if s = "0.25".toList then some (.fin (1/4)) else none

def textA : Text := "route add a foo.com/x http://a:1/\nroute add b foo.com/x http://b:1/\nroute add c /w http://c:1/ weight 0.25\nroute add d /w http://d:1/".toList

/-- service text, a manual text that breaks the configuration, a repaired manual text -/
def events : List Ev := [.svc textA, .man "route add".toList, .man "route add d /y http://d:1/".toList]

def pe : PickEnv :=
  { rr := true, placement := fun r => Model.C04.entries (Model.C04.slotCounts r.targets), cursor := fun _ => 7,
    randIntn := fun _ _ => 0 }

def le : LookupEnv :=
  { base := { globMatch := fun p s => p == s, pathMatch := fun uri p => p.isPrefixOf uri, pick := pickFn pe },
    skipOf := fun _ _ => false, pe := pe }

def req : Model.C03.Req := { host := "FOO.com".toList, tls := false, path := "/x/1".toList }

set_option maxRecDepth 100000

/-- the history installs two tables (events 1 and 3), the broken one in between installs nothing -/
example : (WB.installs (build env pf) (WB.init []) events).length = 2 := by decide +kernel

example : (texts events).map (fun t => (build env pf t).isSome) = [true, false, true] := by decide +kernel

/-- `PickValid` holds for this picker environment on EVERY route: the unsorted entries are a permutation of
themselves, and the constant-0 RNG honours its contract -/
example : ∀ r, PickValid pe r := fun r => ⟨List.Perm.refl _, fun n hn => ⟨Int.le_refl 0, by show (0 : Int) < n; omega⟩⟩

/-- an end-to-end lookup on the last good configuration answers from the foo.com route with target b -/
example : (lookupPure le (lastGood (build env pf) [] (texts events)) req).map (fun a => (a.1, a.2.1.path, a.2.2.service)) =
    some ("foo.com".toList, "/x".toList, "b".toList) := by decide +kernel

/-- a reader that loads between the two installs and one after: hypotheses `Readers` and a schedule -/
def readers : List (Thread Table Model.C03.Req (Option (Str × Route × Target))) := [.reader [req, req] none []]
example : Readers readers := by intro th h; simp [readers] at h; exact ⟨_, h⟩

/-- custom backend: a document, `null`, a document that does not build, a new document -/
def doc1 : List RouteDef := [{ cmd := .add, service := "a".toList, src := "/x".toList, dst := "http://a:1/".toList }]
def doc2 : List RouteDef := [{ cmd := .weight, service := "zz".toList, src := "/nomatch".toList, weight := 1/2 }]
def doc3 : List RouteDef := [{ cmd := .add, service := "b".toList, src := "/y".toList, dst := "http://b:1/".toList }]

example : (lastGoodDoc env [] [.defs doc1, .null, .defs doc2, .decodeError]).map (·.1) = [[]] ∧
    (buildDefs env doc2) = none ∧
    ((lastGoodDoc env [] [.defs doc1, .null, .defs doc2, .defs doc3]).get []).map (·.path) = ["/y".toList] := by decide +kernel

end Fabio.Props.C02Compose.Ex
