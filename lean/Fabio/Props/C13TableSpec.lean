import Fabio.Props.C13Table
import Fabio.Props.C13Compose
/-!
C13, round 4 — **the composed model never violates the table specification**: for every dumped table and
request, what `Lookup` (C03's model with C13's skip) selects is judged `ok` by `Model.C13Table.specAnswered`,
the predicate `c13.http` evaluates on the real proxy's answers. In words: the model answers from a host-specific
route whenever one that is surely no self-redirect matches, and whoever answers is the longest-prefix route of a
key that is empty or matches the host as the specification reads it.
-/
namespace Fabio.Props.C13TableSpec
open Fabio Fabio.Model Fabio.Model.C13Table Fabio.Props.C13Table

/-! ### a dump and the table it stands for -/

/-- the route `r` of C03's table stands for the dumped route `dr`: same path, a single target that looks like
`dr.tgt` to the redirect code -/
def RouteRep (view : Route.Target → C13.RTarget) (dr : DRoute) (r : Route.Route) : Prop :=
  r.path = chars dr.path ∧ ∃ tg, r.targets = [tg] ∧ view tg = dr.tgt

/-- position by position (`List.Forall₂` of Mathlib, restated to stay in core Lean) -/
inductive RoutesRep (view : Route.Target → C13.RTarget) : List DRoute → List Route.Route → Prop where
  | nil : RoutesRep view [] []
  | cons {dr r rs routes} : RouteRep view dr r → RoutesRep view rs routes → RoutesRep view (dr :: rs) (r :: routes)

structure Represents (d : DTable) (t : Route.Table) (view : Route.Target → C13.RTarget) : Prop where
  keys : C03.keys t = d.map (fun kv => chars kv.1)
  routes : ∀ kv ∈ d, RoutesRep view kv.2 (t.get (chars kv.1))

/-- the table's own order: longest path first within a key (what `route.Routes` sorting establishes; C03) -/
def LongestFirst (rs : List DRoute) : Prop := rs.Pairwise (fun a b => a.path.length ≥ b.path.length)

def pm : Route.Str → Route.Str → Bool := fun uri p => p.isPrefixOf uri

theorem lookupRoutes_rep (view : Route.Target → C13.RTarget) (pick : Route.Route → Route.Target) (path : C13.Str)
    {rs : List DRoute} {routes : List Route.Route} (h : RoutesRep view rs routes) :
    (C03.lookupRoutes pm pick (chars path) routes).map (fun p => view p.2) =
      (rs.find? (fun r => r.path.isPrefixOf path)).map (·.tgt) := by
  induction h with
  | nil => rfl
  | @cons dr r rs' routes' hr _ ih =>
    obtain ⟨hp, tg, ht, hv⟩ := hr
    simp only [C03.lookupRoutes, List.find?_cons]
    have hm : pm (chars path) r.path = dr.path.isPrefixOf path := by rw [hp]; exact isPrefixOf_chars _ _
    rw [hm]
    by_cases hx : dr.path.isPrefixOf path = true
    · simp [hx, ht, hv]
    · have hx' : dr.path.isPrefixOf path = false := Bool.eq_false_iff.2 hx
      simp only [hx', Bool.false_eq_true, if_false]
      exact ih

theorem longest_of_sorted {l : List DRoute} (h : LongestFirst l) : longest l = l.head? := by
  induction l with
  | nil => rfl
  | cons r rs ih =>
    have hp := List.pairwise_cons.1 h
    have := ih hp.2
    simp only [longest, this, List.head?_cons]
    cases rs with
    | nil => rfl
    | cons b bs =>
      have hb := hp.1 b (by simp)
      simp only [List.head?_cons]
      have : ¬ (b.path.length > r.path.length) := by omega
      simp [this]

theorem specBest_eq_find {rs : List DRoute} (h : LongestFirst rs) (path : C13.Str) :
    specBest rs path = rs.find? (fun r => r.path.isPrefixOf path) := by
  unfold specBest
  rw [longest_of_sorted (List.Pairwise.filter _ h)]
  induction rs with
  | nil => rfl
  | cons r rs ih =>
    have hp := List.pairwise_cons.1 h
    simp only [List.filter_cons, List.find?_cons]
    by_cases hx : r.path.isPrefixOf path = true
    · simp [hx]
    · have hx' : r.path.isPrefixOf path = false := Bool.eq_false_iff.2 hx
      simp only [hx', Bool.false_eq_true, if_false]
      exact ih hp.2

/-! ### the hypotheses about a dump -/

structure WellFormed (d : DTable) : Prop where
  /-- `addRoute` lower-cases the host of a route -/
  lowerKeys : ∀ kv ∈ d, lower kv.1 = kv.1
  /-- a Go map has every key once -/
  nodup : (d.map (fun kv => kv.1)).Nodup
  sorted : ∀ kv ∈ d, LongestFirst kv.2

/-- what `mkReq` establishes between the two views of a request -/
structure ReqOf (q : CReq) (host : C13.Str) (tls : Bool) : Prop where
  host03 : q.r03.host = chars host
  tls03 : q.r03.tls = tls
  path03 : q.r03.path = chars q.url.path
  host13 : q.url.host = host

theorem mkReq_reqOf {host target xfp : C13.Str} {tls : Bool} {q : CReq} (h : mkReq host target xfp tls = some q) :
    ReqOf q host tls := by
  unfold mkReq at h
  cases hp : C13.parseTarget host target with
  | none => rw [hp] at h; cases h
  | some u =>
    rw [hp] at h
    simp only [Option.map_some, Option.some.injEq] at h
    subst h
    refine ⟨rfl, rfl, rfl, ?_⟩
    unfold C13.parseTarget at hp
    simp only [] at hp
    split at hp
    · cases hp
    · simp only [Option.some.injEq] at hp; rw [← hp]

section main
variable {d : DTable} {t : Route.Table} {view : Route.Target → C13.RTarget} {noglob : Bool}
variable {host : C13.Str} {tls : Bool} {q : CReq}

theorem key_mem (hrep : Represents d t view) {kv : C13.Str × List DRoute} (hkv : kv ∈ d) : chars kv.1 ∈ C03.keys t := by
  rw [hrep.keys]; exact List.mem_map.2 ⟨kv, hkv, rfl⟩

theorem key_of_mem (hrep : Represents d t view) {h : Route.Str} (hh : h ∈ C03.keys t) : ∃ kv ∈ d, chars kv.1 = h := by
  rw [hrep.keys] at hh; obtain ⟨kv, hkv, e⟩ := List.mem_map.1 hh; exact ⟨kv, hkv, e⟩

theorem lowerL_key (hwf : WellFormed d) {kv : C13.Str × List DRoute} (hkv : kv ∈ d) : lowerL (chars kv.1) = chars kv.1 := by
  rw [lowerL_chars, hwf.lowerKeys kv hkv]

/-- what `t.lookup` yields for a key of the dump is the specification's candidate of that key -/
theorem look_key (hrep : Represents d t view) (hwf : WellFormed d) (hq : ReqOf q host tls)
    {kv : C13.Str × List DRoute} (hkv : kv ∈ d) :
    (Props.C03.look (cfgOf noglob) t q.r03 (chars kv.1)).map (fun p => view p.2) =
      (specBest kv.2 q.url.path).map (·.tgt) := by
  unfold Props.C03.look C03.lookup
  rw [lowerL_key hwf hkv, hq.path03, specBest_eq_find (hwf.sorted kv hkv)]
  exact lookupRoutes_rep view _ _ (hrep.routes kv hkv)

theorem normalizeHost_nil (tls : Bool) : C03.normalizeHost [] tls = [] := by cases tls <;> decide

theorem globLib_nil (s : Route.Str) : C03.globLib [] s = s.isEmpty := by
  simp [C03.globLib, C03.globFrag, C03.gobwasQuirk]

/-- a key the specification reads as matching is in C03's host list -/
theorem matched_of_spec (hrep : Represents d t view) (hwf : WellFormed d) (hq : ReqOf q host tls)
    {kv : C13.Str × List DRoute} (hkv : kv ∈ d) (hs : specHostOK noglob kv.1 host tls = some true) :
    chars kv.1 ∈ Props.C03.matched (cfgOf noglob) t q.r03 := by
  have hm := specHostOK_is_model noglob kv.1 host tls true hs
  rw [Props.C03.mem_matched_iff]
  unfold Props.C03.HostMatches
  rw [hq.host03, hq.tls03]
  cases noglob with
  | true =>
    simp only [cfgOf, if_true] at hm ⊢
    exact ⟨chars kv.1, key_mem hrep hkv, (lowerL_key hwf hkv).symm, by simpa using hm⟩
  | false =>
    simp only [cfgOf, Bool.false_eq_true, if_false] at hm ⊢
    exact ⟨key_mem hrep hkv, hm⟩

/-- … and every key of C03's host list is a non-empty key the specification reads as matching -/
theorem spec_of_matched (hrep : Represents d t view) (hwf : WellFormed d) (hq : ReqOf q host tls)
    (hu : specUnread d noglob host tls = false) (hne : specNorm host tls ≠ [])
    {h : Route.Str} (hh : h ∈ Props.C03.matched (cfgOf noglob) t q.r03) :
    ∃ kv ∈ d, chars kv.1 = h ∧ kv.1 ≠ [] ∧ specHostOK noglob kv.1 host tls = some true := by
  rw [Props.C03.mem_matched_iff] at hh
  unfold Props.C03.HostMatches at hh
  rw [hq.host03, hq.tls03] at hh
  have hnn : chars (specNorm host tls) ≠ [] := by
    intro e; apply hne; cases hsn : specNorm host tls with
    | nil => rfl
    | cons c cs => rw [hsn] at e; cases e
  -- the key, the model's verdict for it
  have fin : ∀ kv ∈ d, (if noglob then C03.normalizeHost (chars kv.1) tls == C03.normalizeHost (chars host) tls
      else C03.globLib (C03.normalizeHost (chars kv.1) tls) (C03.normalizeHost (chars host) tls)) = true →
      kv.1 ≠ [] ∧ specHostOK noglob kv.1 host tls = some true := by
    intro kv hkv hm
    have hk : kv.1 ≠ [] := by
      intro e
      rw [e] at hm
      have : chars ([] : C13.Str) = [] := rfl
      rw [this, normalizeHost_nil, normalizeHost_chars] at hm
      cases noglob with
      | true =>
        simp only [if_true] at hm
        have e : ([] : Route.Str) = chars (specNorm host tls) := by simpa using hm
        exact hnn e.symm
      | false =>
        simp only [Bool.false_eq_true, if_false, globLib_nil] at hm
        have e : chars (specNorm host tls) = [] := by simpa using hm
        exact hnn e
    refine ⟨hk, ?_⟩
    have hread : (specHostOK noglob kv.1 host tls).isSome = true := by
      have := List.any_eq_false.1 hu kv hkv
      simp only [Bool.and_eq_true, Bool.not_eq_true', not_and] at this
      have hne' : kv.1.isEmpty = false := by
        cases hkk : kv.1 with
        | nil => exact absurd hkk hk
        | cons c cs => rfl
      have := this hne'
      cases hsp : specHostOK noglob kv.1 host tls with
      | none => rw [hsp] at this; simp at this
      | some b => rfl
    cases hsp : specHostOK noglob kv.1 host tls with
    | none => rw [hsp] at hread; cases hread
    | some b =>
      have := specHostOK_is_model noglob kv.1 host tls b hsp
      rw [hm] at this; rw [← this]
  cases hng : noglob with
  | true =>
    subst hng
    simp only [cfgOf, if_true] at hh
    obtain ⟨pat, hpat, rfl, hn⟩ := hh
    obtain ⟨kv, hkv, rfl⟩ := key_of_mem hrep hpat
    have := fin kv hkv (by simp only [if_true]; simpa using hn)
    exact ⟨kv, hkv, (lowerL_key hwf hkv).symm, this.1, this.2⟩
  | false =>
    subst hng
    simp only [cfgOf, Bool.false_eq_true, if_false] at hh
    obtain ⟨kv, hkv, rfl⟩ := key_of_mem hrep hh.1
    have := fin kv hkv (by simp only [Bool.false_eq_true, if_false]; exact hh.2)
    exact ⟨kv, hkv, rfl, this.1, this.2⟩

theorem mem_of_lookup {β : Type} {k : Route.Str} {l : List (Route.Str × β)} {v : β} (h : l.lookup k = some v) :
    (k, v) ∈ l := by
  induction l with
  | nil => cases h
  | cons x xs ih =>
    obtain ⟨k', v'⟩ := x
    simp only [List.lookup] at h
    split at h
    · rename_i heq
      have : k = k' := by simpa using heq
      subst this; cases h; simp
    · exact List.mem_cons_of_mem _ (ih h)

theorem pickOK (noglob : Bool) : Props.C03.PickOK (cfgOf noglob).pick := by
  intro r hr
  cases ht : r.targets with
  | nil => exact absurd ht hr
  | cons a as => simp [cfgOf, ht]

theorem isEmpty_false_iff (k : C13.Str) : k.isEmpty = false ↔ k ≠ [] := by
  cases k <;> simp

theorem mem_specHostCands {dr : DRoute} :
    dr ∈ specHostCands d noglob q host ↔
      ∃ kv ∈ d, kv.1 ≠ [] ∧ specHostOK noglob kv.1 host q.r03.tls = some true ∧ specBest kv.2 q.url.path = some dr := by
  unfold specHostCands
  rw [List.mem_filterMap]
  constructor
  · rintro ⟨kv, hkv, h⟩
    by_cases he : kv.1.isEmpty = true
    · simp [he] at h
    · have he' : kv.1.isEmpty = false := by simpa using he
      simp only [he', Bool.false_eq_true, if_false] at h
      by_cases hs : (specHostOK noglob kv.1 host q.r03.tls == some true) = true
      · simp only [hs, if_true] at h
        exact ⟨kv, hkv, (isEmpty_false_iff _).1 he', by simpa using hs, h⟩
      · simp [hs] at h
  · rintro ⟨kv, hkv, hne, hs, hb⟩
    refine ⟨kv, hkv, ?_⟩
    have he' : kv.1.isEmpty = false := (isEmpty_false_iff _).2 hne
    simp [he', hs, hb]

theorem mem_specHostlessCands {dr : DRoute} :
    dr ∈ specHostlessCands d q ↔ ∃ kv ∈ d, kv.1 = [] ∧ specBest kv.2 q.url.path = some dr := by
  unfold specHostlessCands
  rw [List.mem_filterMap]
  constructor
  · rintro ⟨kv, hkv, h⟩
    by_cases he : kv.1.isEmpty = true
    · simp only [he, if_true] at h
      exact ⟨kv, hkv, by simpa using he, h⟩
    · simp [he] at h
  · rintro ⟨kv, hkv, hne, hb⟩
    exact ⟨kv, hkv, by simp [hne, hb]⟩

/-- from the target `t.lookup` yields to the specification's candidate -/
theorem cand_of_look (hrep : Represents d t view) (hwf : WellFormed d) (hq : ReqOf q host tls)
    {kv : C13.Str × List DRoute} (hkv : kv ∈ d) {r : Route.Route} {tg : Route.Target}
    (hl : Props.C03.look (cfgOf noglob) t q.r03 (chars kv.1) = some (r, tg)) :
    ∃ dr, specBest kv.2 q.url.path = some dr ∧ dr.tgt = view tg := by
  have := look_key (noglob := noglob) hrep hwf hq hkv
  rw [hl] at this
  simp only [Option.map_some] at this
  cases hb : specBest kv.2 q.url.path with
  | none => rw [hb] at this; cases this
  | some dr => rw [hb] at this; exact ⟨dr, rfl, (Option.some.inj this).symm⟩

theorem look_of_cand (hrep : Represents d t view) (hwf : WellFormed d) (hq : ReqOf q host tls)
    {kv : C13.Str × List DRoute} (hkv : kv ∈ d) {dr : DRoute} (hb : specBest kv.2 q.url.path = some dr) :
    ∃ r tg, Props.C03.look (cfgOf noglob) t q.r03 (chars kv.1) = some (r, tg) ∧ view tg = dr.tgt := by
  have := look_key (noglob := noglob) hrep hwf hq hkv
  rw [hb] at this
  cases hl : Props.C03.look (cfgOf noglob) t q.r03 (chars kv.1) with
  | none => rw [hl] at this; cases this
  | some p => rw [hl] at this; exact ⟨p.1, p.2, rfl, Option.some.inj this⟩

/-- a surely live host-specific candidate makes `Lookup` answer from a matching host key -/
theorem live_answers (hrep : Represents d t view) (hwf : WellFormed d) (hq : ReqOf q host tls)
    (hlive : (specHostCands d noglob q host).any (fun r => surelyLive r.tgt (scheme q) host) = true) :
    ∃ h r tg, Lookup (cfgOf noglob) view t q = some (h, r, tg) ∧ h ∈ Props.C03.matched (cfgOf noglob) t q.r03 := by
  obtain ⟨dr, hdr, hsl⟩ := List.any_eq_true.1 hlive
  obtain ⟨kv, hkv, _, hs, hb⟩ := mem_specHostCands.1 hdr
  rw [hq.tls03] at hs
  have hm := matched_of_spec hrep hwf hq hkv hs
  obtain ⟨r, tg, hl, hv⟩ := look_of_cand (noglob := noglob) hrep hwf hq hkv hb
  have hns : skipFor view q tg = false := surelyLive_skipFor view q tg (by rw [hv, hq.host13]; exact hsl)
  obtain ⟨h, r', tg', e, hmem, _, _⟩ := Props.C13Compose.next_matching_host_is_tried (cfgOf noglob) view t q hm hl hns
  exact ⟨h, r', tg', e, hmem⟩

/-- what the model's answer looks like to the specification -/
def observed (view : Route.Target → C13.RTarget) (L : Option (Route.Str × Route.Route × Route.Target)) : Observed :=
  { noRoute := L.isNone,
    explains := fun dr => match L with
      | some (_, _, tg) => view tg == dr.tgt
      | none => false }

/-- **The composed model meets the table specification.** For a dump `d` of a table (`Represents`: same keys, per
key the same routes with single targets that look alike; `WellFormed`: lower-case distinct keys, longest path
first), any request with a non-empty normalised host, with and without host globs: the answer of C03's `Lookup`
run with C13's self-redirect skip is judged `ok` by `specAnswered` — it comes from the longest-prefix route of a
key that is empty or matches the host as the specification reads it, and from a host-specific key whenever one
has a candidate that is surely no self-redirect. -/
theorem model_meets_table_spec (hrep : Represents d t view) (hwf : WellFormed d) (hq : ReqOf q host tls)
    (hne : specNorm host tls ≠ []) :
    specAnswered d noglob q host (observed view (Lookup (cfgOf noglob) view t q)) = .ok := by
  unfold specAnswered
  simp only []
  rw [hq.tls03]
  by_cases hu : specUnread d noglob host tls = true
  · simp [hu]
  have hu' : specUnread d noglob host tls = false := by simpa using hu
  simp only [hu', Bool.false_eq_true, if_false]
  have hnil : ([] : Route.Str) ∉ Props.C03.matched (cfgOf noglob) t q.r03 := by
    intro hmem
    obtain ⟨kv, _, e, hk, _⟩ := spec_of_matched hrep hwf hq hu' hne hmem
    apply hk
    cases hkk : kv.1 with
    | nil => rfl
    | cons c cs => rw [hkk] at e; cases e
  cases hL : Lookup (cfgOf noglob) view t q with
  | none =>
    simp only [observed, Option.isNone_none, if_true]
    by_cases hlive : (specHostCands d noglob q host).any (fun r => surelyLive r.tgt (scheme q) host) = true
    · obtain ⟨h, r, tg, e, _⟩ := live_answers hrep hwf hq hlive
      rw [hL] at e; cases e
    · simp [hlive]
  | some res =>
    obtain ⟨h, r, tg⟩ := res
    simp only [observed, Option.isNone_some, Bool.false_eq_true, if_false]
    -- where the answer came from
    have hsound : h ∈ C03.hostList (cfgFor (cfgOf noglob) view q) t q.r03 ∧
        Props.C03.look (cfgOf noglob) t q.r03 h = some (r, tg) := by
      unfold Lookup C03.Lookup at hL
      rcases Lemmas.C03.lookupHosts_sound hL with h0 | h1
      · cases h0
      · exact h1
    have hlist : C03.hostList (cfgFor (cfgOf noglob) view q) t q.r03 = Props.C03.matched (cfgOf noglob) t q.r03 ++ [[]] :=
      Props.C03.hostList_eq (cfgFor (cfgOf noglob) view q) t q.r03
    rw [hlist, List.mem_append] at hsound
    rcases hsound.1 with hmem | hmem
    · -- a matching host key
      obtain ⟨kv, hkv, e, hk, hs⟩ := spec_of_matched hrep hwf hq hu' hne hmem
      subst e
      obtain ⟨dr, hb, hv⟩ := cand_of_look hrep hwf hq hkv hsound.2
      have : (specHostCands d noglob q host).any (fun dr => view tg == dr.tgt) = true :=
        List.any_eq_true.2 ⟨dr, mem_specHostCands.2 ⟨kv, hkv, hk, by rw [hq.tls03]; exact hs, hb⟩, by simp [hv]⟩
      simp [this]
    · -- the host-less routes
      have hh : h = [] := by simpa using hmem
      subst hh
      by_cases hex : (specHostCands d noglob q host).any (fun dr => view tg == dr.tgt) = true
      · simp [hex]
      · simp only [hex, Bool.false_eq_true, if_false]
        -- the key "" of the dump
        have hkey : ([] : Route.Str) ∈ C03.keys t := by
          have hl := hsound.2
          unfold Props.C03.look C03.lookup at hl
          have hget : t.get (lowerL []) ≠ [] := by
            intro e; rw [e] at hl; simp [C03.lookupRoutes] at hl
          unfold Route.Table.get at hget
          cases hlk : List.lookup (lowerL []) t with
          | none => rw [hlk] at hget; exact absurd rfl hget
          | some rs =>
            have : (lowerL ([] : Route.Str), rs) ∈ t := mem_of_lookup hlk
            exact List.mem_map.2 ⟨_, this, rfl⟩
        obtain ⟨kv, hkv, e⟩ := key_of_mem hrep hkey
        have hk0 : kv.1 = [] := by
          cases hkk : kv.1 with
          | nil => rfl
          | cons c cs => rw [hkk] at e; cases e
        have hl : Props.C03.look (cfgOf noglob) t q.r03 (chars kv.1) = some (r, tg) := by rw [e]; exact hsound.2
        obtain ⟨dr, hb, hv⟩ := cand_of_look hrep hwf hq hkv hl
        have hfc : (specHostlessCands d q).any (fun dr => view tg == dr.tgt) = true :=
          List.any_eq_true.2 ⟨dr, mem_specHostlessCands.2 ⟨kv, hkv, hk0, hb⟩, by simp [hv]⟩
        simp only [hfc, if_true]
        by_cases hlive : (specHostCands d noglob q host).any (fun r => surelyLive r.tgt (scheme q) host) = true
        · obtain ⟨h', r', tg', e', hm'⟩ := live_answers hrep hwf hq hlive
          rw [hL] at e'
          simp only [Option.some.injEq, Prod.mk.injEq] at e'
          rw [← e'.1] at hm'
          exact absurd hm' hnil
        · simp [hlive]

end main

/-! ### non-vacuity: the dump of the documented table (seeded m11's input) -/

namespace Ex

def redirectT : C13.RTarget := { url := { scheme := C13.lit "https", host := C13.lit "example.com$path" }, code := 301 }
def appT (n : String) : C13.RTarget := { url := { scheme := C13.lit "http", host := C13.lit n, path := C13.lit "/" } }

/-- `example.com:80/ → https://example.com$path (301)`, `example.com/ → app`, `/ → other` -/
def D : DTable :=
  [(C13.lit "example.com", [{ path := C13.lit "/", tgt := appT "10.0.0.1:8080", up := some 1 }]),
   (C13.lit "example.com:80", [{ path := C13.lit "/", tgt := redirectT }]),
   ([], [{ path := C13.lit "/", tgt := appT "10.0.0.2:9090", up := some 2 }])]

/-- `GET /app?x=1`, `Host: example.com`, plain connection, `X-Forwarded-Proto: https` -/
def Q : CReq := (mkReq (C13.lit "example.com") (C13.lit "/app?x=1") (C13.lit "https") false).get (by decide)

theorem wf : WellFormed D := by
  refine ⟨?_, by decide, ?_⟩
  · intro kv hkv; simp only [D, List.mem_cons, List.mem_nil_iff, or_false] at hkv
    rcases hkv with rfl | rfl | rfl <;> decide
  · intro kv hkv; simp only [D, List.mem_cons, List.mem_nil_iff, or_false] at hkv
    rcases hkv with rfl | rfl | rfl <;> simp [LongestFirst]

theorem rep : Represents D (toTable D) (viewOf D) := by
  refine ⟨by decide, ?_⟩
  intro kv hkv; simp only [D, List.mem_cons, List.mem_nil_iff, or_false] at hkv
  rcases hkv with rfl | rfl | rfl
  · exact .cons ⟨by decide, _, rfl, by decide⟩ .nil
  · exact .cons ⟨by decide, _, rfl, by decide⟩ .nil
  · exact .cons ⟨by decide, _, rfl, by decide⟩ .nil

theorem reqOf : ReqOf Q (C13.lit "example.com") false := mkReq_reqOf (xfp := C13.lit "https") (target := C13.lit "/app?x=1") (Option.some_get _).symm

/-- the hypotheses of `model_meets_table_spec` hold on the example, with host globs off and on … -/
example (noglob : Bool) : specAnswered D noglob Q (C13.lit "example.com") (observed (viewOf D) (Lookup (cfgOf noglob) (viewOf D) (toTable D) Q)) = .ok :=
  model_meets_table_spec rep wf reqOf (by decide)

/-- … the redirect under `example.com:80` is skipped and `example.com` answers (upstream 1), not the host-less route … -/
example : (selectRoute D true Q).map (·.up) = some (some 1) ∧ (selectRoute D false Q).map (·.up) = some (some 1) := by decide

/-- … and the observation seeded m11 produced (the host-less route's upstream answered) is rejected by the specification -/
example : specAnswered D true Q (C13.lit "example.com")
    { noRoute := false, explains := fun r => r.up == some 2 } = .nextHostNotTried := by decide

end Ex

end Fabio.Props.C13TableSpec
