import Fabio.Props.C20
import Fabio.Lemmas.C20Url
import Fabio.Lemmas.C20Serve
/-!
C20, second module: the URL fields against `net/url`, the event `ServeHTTP` hands to the logger, the two
headers whose value goes through the hand-written formatters, request ids.

Models: `Model/C20Url.lean` (net/url's `String`, `RequestURI`, `EscapedPath`), `Model/C20Serve.lean`
(`ServeHTTP` as far as the access log is concerned), `Model/C20Capture.lean`. Proofs: `Lemmas/C20Url.lean`,
`Lemmas/C20Serve.lean`. Strings are byte strings (`List Nat`, bytes `< 256`: `wellFormed`).
-/
namespace Fabio.Props.C20Serve
open Fabio Fabio.Model.C20Url Fabio.Model.C20Serve Fabio.Model.C20Capture

/-! ## `$request_url`, `$upstream_request_url`, `$upstream_request_uri` -/

/-- Percent-encoding loses nothing: decoding `escape s` gives `s` back, in every mode `String()` uses. -/
theorem escape_roundtrip (mode : Mode) (s : Bytes) (wf : wellFormed s) : unescape (escape s mode) = some s :=
  Lemmas.C20Url.unescape_escape mode s wf

/-- The path that is logged decodes to the `Path` of the URL — whether `EscapedPath` keeps the client's own
encoding (`RawPath`) or encodes `Path` itself. -/
theorem logged_path_decodes (u : URL) (wf : wellFormed u.path) : unescape (escapedPath u) = some u.path :=
  Lemmas.C20Url.escapedPath_decodes u wf

/-- … and consists of unreserved characters, `$ & + , / : ; = @ ! ' ( ) * [ ]` and `%` only … -/
theorem logged_path_alphabet (u : URL) (wf : wellFormed u.path) (wfr : wellFormed u.rawPath) :
    ∀ c ∈ escapedPath u, pathSafe c = true := Lemmas.C20Url.escapedPath_safe u wf wfr

/-- … so no request path can put a blank, a quote, a control byte, a newline, a byte above 126, a `?` or a `#`
into the path part of a URL field: it cannot break the log line or move the start of the query. -/
theorem logged_path_cannot_break_the_line (u : URL) (wf : wellFormed u.path) (wfr : wellFormed u.rawPath) :
    ∀ c ∈ escapedPath u, 33 ≤ c ∧ c ≤ 126 ∧ c ≠ 34 ∧ c ≠ 63 ∧ c ≠ 35 ∧ c ≠ 92 := by
  intro c hc
  exact Lemmas.C20Url.pathSafe_printable c (logged_path_alphabet u wf wfr c hc)

/-- `RequestURI()` of a URL without an opaque part: the escaped path (`/` for the empty one), then `?query`
if there is a query or the client sent an empty one. -/
theorem request_uri_shape (u : URL) (h : u.opaq = []) :
    requestURI u = (if escapedPath u = [] then [47] else escapedPath u) ++ queryPart u :=
  Lemmas.C20Url.requestURI_noOpaque u h

/-- For the URLs the proxy logs (scheme, host, absolute path, query) `$upstream_request_url` is
`scheme://` + the escaped host + `$upstream_request_uri`. -/
theorem url_is_authority_plus_request_uri (u : URL) (h : Lemmas.C20Url.ProxyForm u) :
    urlString u = u.scheme ++ [58, 47, 47] ++ escape u.host .host ++ requestURI u :=
  Lemmas.C20Url.urlString_proxyForm u h

example : urlString { scheme := b "http", host := b "foo.com", path := b "/docs/annual report.pdf", rawQuery := b "q=1" }
    = b "http://foo.com/docs/annual%20report.pdf?q=1" := by decide +kernel
example : escapedPath { path := b "/a/b c", rawPath := b "/a%2Fb%20c" } = b "/a%2Fb%20c" := by decide +kernel
example : escapedPath { path := b "/a/b", rawPath := b "/x" } = b "/a/b" := by decide +kernel      -- RawPath of another path: ignored
example : requestURI { path := b "/foo", forceQuery := true } = b "/foo?" := by decide +kernel
example : unescape (b "/caf%C3%A9") = some (b "/caf" ++ [195, 169]) := by decide +kernel
example : Lemmas.C20Url.ProxyForm { scheme := b "http", host := b "h", path := b "/x y" } :=
  ⟨by decide +kernel, by decide +kernel, rfl, rfl, rfl, by decide +kernel⟩

/-! ## the event `ServeHTTP` builds -/

/-- An event is built exactly when the request was handed to the upstream handler — a route was found, it is
neither denied, unauthorized nor a redirect, the remote address has a port — and that handler wrote a status. -/
theorem event_iff_handled (cfg : Cfg) (r : Req) (t : Target) (id : Bytes) (ops : List RWOp) :
    (∃ e, serveOps cfg r (some t) id ops = .logged e) ↔
      (t.denied = false ∧ t.authorized = true ∧ t.redirect = false ∧ splitHostPortOk r.remoteAddr = true ∧
        ((statuses ops).getLast?).getD 0 ≠ 0) :=
  Lemmas.C20Serve.logged_iff cfg r t id ops

theorem no_route_no_event (cfg : Cfg) (r : Req) (id : Bytes) (ops : List RWOp) :
    serveOps cfg r none id ops = .noRoute := by simp [serveOps]

/-- What the event says about the response is what the client connection got: the status of the last
`WriteHeader` the handler made (every one of them was passed on) and the bytes the connection accepted. -/
theorem event_status_and_size (cfg : Cfg) (r : Req) (t : Target) (id : Bytes) (ops : List RWOp) (e : LogEvent)
    (h : serveOps cfg r (some t) id ops = .logged e) :
    e.status = ((statuses ops).getLast?).getD 0 ∧ e.size = accepted ops ∧
    (captureRun true ops).forwarded = visible true ops :=
  Lemmas.C20Serve.logged_status_size cfg r t id ops e h

/-- Through the reverse proxy: the upstream's final status (not an informational one before it) and the length
of its body; after a transport error the error handler's status and no body. -/
theorem event_of_upstream_response (cfg : Cfg) (r : Req) (t : Target) (id : Bytes) (info : List Nat) (st : Nat)
    (chunks : List Nat) (e : LogEvent) (h : serve cfg r (some t) id (.response info st chunks) = .logged e) :
    e.status = st ∧ e.size = chunks.sum :=
  Lemmas.C20Serve.logged_response cfg r t id info st chunks e h

theorem event_of_upstream_error (cfg : Cfg) (r : Req) (t : Target) (id : Bytes) (err : UpErr) (e : LogEvent)
    (h : serve cfg r (some t) id (.error err) = .logged e) : e.status = errStatus err ∧ e.size = 0 :=
  Lemmas.C20Serve.logged_error cfg r t id err e h

/-- The request URL of the event is the client's: host, path, the client's encoding of the path, query and
"empty query" as they arrived; the upstream address is the host of the very URL logged as upstream URL. -/
theorem event_urls (cfg : Cfg) (r : Req) (t : Target) (id : Bytes) (ops : List RWOp) (e : LogEvent)
    (h : serveOps cfg r (some t) id ops = .logged e) :
    e.requestURL.host = r.host ∧ e.requestURL.path = r.url.path ∧ e.requestURL.rawPath = r.url.rawPath ∧
    e.requestURL.forceQuery = r.url.forceQuery ∧ e.requestURL.rawQuery = r.url.rawQuery ∧
    e.upstreamAddr = e.upstreamURL.host ∧ e.upstreamURL.host = t.host ∧ e.upstreamURL.scheme = t.scheme ∧
    e.upstreamService = t.service :=
  Lemmas.C20Serve.logged_urls cfg r t id ops e h

/-- With a request id header configured the event's request carries the id that was generated for it. -/
theorem event_request_id (cfg : Cfg) (r : Req) (t : Target) (id : Bytes) (ops : List RWOp) (e : LogEvent)
    (hid : cfg.requestID ≠ []) (h : serveOps cfg r (some t) id ops = .logged e) :
    hget e.header (canonKey true cfg.requestID) = id :=
  Lemmas.C20Serve.logged_request_id cfg r t id ops e hid h

example : ∃ e, serve {} { remoteAddr := b "1.2.3.4:5", host := b "foo.com", url := { path := b "/a/b", rawPath := b "/a%2Fb" } }
    (some { scheme := b "http", host := b "backend" }) [] (.response [103] 404 [13]) = .logged e ∧
    e.status = 404 ∧ e.size = 13 ∧ e.upstreamAddr = b "backend" ∧ urlString e.requestURL = b "http://foo.com/a%2Fb" ∧
    requestURI e.upstreamURL = b "/a%2Fb" := ⟨_, rfl, by decide +kernel, by decide +kernel, by decide +kernel, by decide +kernel, by decide +kernel⟩
example : serve {} { remoteAddr := b "1.2.3.4" } (some {}) [] (.response [] 200 []) = .badRemote := by decide +kernel
/-! ## an upstream that breaks in the middle of the response body

"Logging never … alters the response" includes how the response ENDS. When the upstream connection breaks after the
header and part of the body have been relayed, `httputil.ReverseProxy` gives up with `panic(http.ErrAbortHandler)`;
net/http then tears the client connection down, which is the only way the client can tell a cut body from a whole
one (a chunked body would otherwise be closed with a regular last chunk). The timing / metrics / logging code that
`ServeHTTP` runs around the handler must let that abort through. -/

/-- A request that reaches the handler and whose upstream breaks mid-body ends aborted — never as a completed
request, whatever the logger and the format are — and a request that is answered by the proxy itself is answered
exactly as with any other upstream behaviour. -/
theorem cut_upstream_aborts (cfg : Cfg) (r : Req) (t : Option Target) (id : Bytes) (info : List Nat) (st : Nat) (chunks : List Nat) :
    (reachedHandler (serveOps cfg r t id (upstreamOps (.cut info st chunks))) = true →
      serve cfg r t id (.cut info st chunks) = .aborted) ∧
    (reachedHandler (serveOps cfg r t id (upstreamOps (.cut info st chunks))) = false →
      serve cfg r t id (.cut info st chunks) = serve cfg r t id (.response info st chunks)) := by
  constructor
  · intro h; simp [serve, h]
  · intro h
    have e : upstreamOps (.cut info st chunks) = upstreamOps (.response info st chunks) := rfl
    simp only [serve, h]
    simp [e]

/-- No event (hence no line claiming a completed request) is ever built for a cut response. -/
theorem cut_upstream_never_logged (cfg : Cfg) (r : Req) (t : Option Target) (id : Bytes) (info : List Nat) (st : Nat)
    (chunks : List Nat) (e : LogEvent) : serve cfg r t id (.cut info st chunks) ≠ .logged e := by
  simp only [serve]
  generalize serveOps cfg r t id (upstreamOps (.cut info st chunks)) = x
  cases x <;> simp [reachedHandler]

example : serve {} { remoteAddr := b "1.2.3.4:5", host := b "foo.com", url := { path := b "/a" } }
    (some { scheme := b "http", host := b "backend" }) [] (.cut [] 200 [13]) = .aborted := by decide +kernel
example : serve {} { remoteAddr := b "1.2.3.4:5" } none [] (.cut [] 200 [13]) = .noRoute := by decide +kernel

example : splitHostPortOk (b "[::1]:80") = true ∧ splitHostPortOk (b "::1") = false ∧ splitHostPortOk (b "a:b:c") = false := by decide +kernel

/-! ## header values that go through `i32toa` / `uint16base16` -/

/-- `Strict-Transport-Security`: `max-age=` + the decimal digits (`Nat.repr`) of the configured max-age — of the
largest int32 when the configured `int` is larger —, then the directives. Never a sign, never a wrapped number. -/
theorem sts_value (cfg : Cfg) (h : 0 < cfg.stsMaxAge) :
    stsHeader true cfg = some (.ok ("max-age=".toList ++ (Nat.repr (min cfg.stsMaxAge 2147483647).toNat).toList ++
      (if cfg.stsSubdomains then "; includeSubdomains".toList else []) ++ (if cfg.stsPreload then "; preload".toList else []))) :=
  Lemmas.C20Serve.sts_value cfg h

/-- Before the repair (e4a57ff) the value went through `int32(maxAge)`: the statement above without the `min`
is false for the code as it was, e.g. 3000000000 ↦ `max-age=-1294967296`. Kept as the replayed corpus case of
`c20.serve`. -/
example : stsHeader true { stsMaxAge := 3000000000, stsSubdomains := true } = some (.ok "max-age=2147483647; includeSubdomains".toList) := by
  decide
example : stsHeader true { stsMaxAge := 31536000 } = some (.ok "max-age=31536000".toList) := by decide +kernel
example : stsHeader false { stsMaxAge := 31536000 } = none := by decide +kernel

/-- the TLS parameters of `Forwarded`: a name from the table for SSL 3.0 … TLS 1.2, otherwise `0x` + four hex
digits (`Nat.toDigits 16`), for every uint16 version and cipher suite -/
theorem forwarded_tls_value (t : TLSState) (hv : t.version < 65536) (hc : t.cipher < 65536) :
    forwardedTLS t = .ok (
      (if t.version > 0 then "; tlsver=".toList ++ (match tlsverName t.version with
          | some n => n | none => Model.C20.Spec.hex4 t.version) else []) ++
      (if t.cipher ≠ 0 then "; tlscipher=".toList ++ Model.C20.Spec.hex4 t.cipher else [])) :=
  Lemmas.C20Serve.forwarded_tls_value t hv hc

example : forwardedTLS { version := 0x0304, cipher := 0x1301 } = .ok "; tlsver=0x0304; tlscipher=0x1301".toList := by decide +kernel
example : forwardedTLS { version := 0x0303, cipher := 0 } = .ok "; tlsver=tls12".toList := by decide +kernel

/-! ## request ids -/

/-- `uuid.ToString` is injective on the 16 bytes it prints: two generator values that differ there give two
different request ids (`uuid.NewUUID` = `ToString(generator.Next())`; fastuuid changes the first 8 bytes from
one call to the next). -/
theorem uuid_text_injective (u v : List UInt8) (hu : u.length = 24) (hv : v.length = 24)
    (h : Model.C20.uuidToString u = Model.C20.uuidToString v) : u.take 16 = v.take 16 :=
  Lemmas.C20Serve.uuid_injective u v hu hv h

example : Model.C20.uuidToString ((List.range 24).map UInt8.ofNat) ≠ Model.C20.uuidToString (1 :: (List.range 23).map fun k => UInt8.ofNat (k + 1)) := by
  decide

/-- Request ids never repeat within 2^64 requests: `uuid.NewUUID` renders the generator's counter (first eight
bytes, little endian) and the constant rest of its seed, and two different counter values give two different
texts. -/
theorem request_ids_distinct (seed : List UInt8) (hs : seed.length = 24) (x y : Nat)
    (hx : x < 18446744073709551616) (hy : y < 18446744073709551616) (hne : x ≠ y) :
    newUUID seed x ≠ newUUID seed y := Lemmas.C20Serve.newUUID_distinct seed hs x y hx hy hne

example : newUUID ((List.range 24).map UInt8.ofNat) 0x0807060504030201 = .ok "01020304-0506-0708-0809-0a0b0c0d0e0f".toList := by
  decide +kernel

end Fabio.Props.C20Serve
