import Fabio.Lemmas.C09Compose
import Fabio.Props.C10
/-!
C09 ∘ C10 — the tcp+sni sentence of C09 end to end.

`Model.C09.sniServe` leaves the size function and the name extraction abstract (own `helloSize`, parameter
`routed`). Here they are C10's `clientHelloBufferSize` and `readServerName` (`Model/C09Compose.lean`), and the
statement is about C10's abstract `Hello`, its wire form `record`, and *every* script (= segmentation and
ending) carrying `record h ++ s`.
-/
namespace Fabio.Props.C09Compose
open Fabio Fabio.Model.C09 Fabio.Model.C09Compose Fabio.Lemmas.C09Compose
open Fabio.Model.C10 (clientHelloBufferSize readServerName unmarshal sniRoute Hello WellFormed FitsRecord record encode sniOf)

/-- The size function of the tunnel model *is* C10's `clientHelloBufferSize` (projected to an option), on
every byte string. -/
theorem size_agrees (d : Bytes) : helloSize d = sizeC10 d := by
  unfold sizeC10
  match d with
  | [] | [_] | [_, _] | [_, _, _] | [_, _, _, _] | [_, _, _, _, _] | [_, _, _, _, _, _]
  | [_, _, _, _, _, _, _] | [_, _, _, _, _, _, _, _] =>
    simp [helloSize, clientHelloBufferSize, Fabio.Model.C10.peekLen]
  | t :: a :: b :: l1 :: l2 :: ht :: h1 :: h2 :: h3 :: r =>
    simp only [helloSize, clientHelloBufferSize, Fabio.Model.C10.peekLen, Fabio.Model.C10.idx,
      Fabio.Model.C10.recTypeHandshake, Fabio.Model.C10.maxRecordLen, Fabio.Model.C10.hsTypeClientHello,
      Fabio.Model.C10.hsHdrLen, Fabio.Lemmas.C10.be16_eq, Fabio.Lemmas.C10.be24_eq]
    simp
    rw [if_neg (show ¬ (r.length + 1 + 1 + 1 + 1 + 1 + 1 + 1 + 1 + 1 < 9) by omega)]
    by_cases c1 : t = 22
    · simp only [c1, if_true]
      by_cases c2 : l1.toNat * 256 = 0 ∧ l2.toNat = 0 ∨ 16384 < l1.toNat * 256 + l2.toNat
      · simp only [c2, if_true]
      · simp only [c2, if_false]
        by_cases c3 : ht = 1
        · simp only [c3, if_true]
          by_cases c4 : (h1.toNat * 65536 = 0 ∧ h2.toNat * 256 = 0) ∧ h3.toNat = 0 ∨
              l1.toNat * 256 + l2.toNat < h1.toNat * 65536 + h2.toNat * 256 + h3.toNat + 4
          · have c4' : (h1.toNat * 65536 = 0 ∧ h2.toNat * 256 = 0) ∧ h3.toNat = 0 ∨
                (l1.toNat : Int) * 256 + (l2.toNat : Int) - 4 < (h1.toNat : Int) * 65536 + (h2.toNat : Int) * 256 + (h3.toNat : Int) := by
              rcases c4 with h | h
              · exact Or.inl h
              · exact Or.inr (by omega)
            simp only [c4, c4', if_true]
          · have c4' : ¬ ((h1.toNat * 65536 = 0 ∧ h2.toNat * 256 = 0) ∧ h3.toNat = 0 ∨
                (l1.toNat : Int) * 256 + (l2.toNat : Int) - 4 < (h1.toNat : Int) * 65536 + (h2.toNat : Int) * 256 + (h3.toNat : Int)) := by
              intro h
              apply c4
              rcases h with h | h
              · exact Or.inl h
              · exact Or.inr (by omega)
            simp only [c4, c4', if_false]
        · simp only [c3, if_false]
    · simp only [c1, if_false]

/-- C10's `sniRoute` (its abstraction of the start of `ServeTCP` on the whole stream), once 9 bytes and the
announced size are there: `unmarshal` of the announced bytes minus the record header. -/
theorem sniRoute_of_size (st : Bytes) (want : Nat) (h9 : 9 ≤ st.length)
    (hs : clientHelloBufferSize (st.take 9) = .ok want) (hw : want ≤ st.length) :
    sniRoute st = unmarshal ((st.take want).drop 5) := by
  have h10 : 10 ≤ want := (Fabio.Props.C10.bufsize_le_record _ _ hs).2.2.1
  unfold sniRoute
  simp only [Fabio.Model.C10.peekLen, Fabio.Model.C10.recHdrLen]
  rw [if_neg (by omega), Fabio.Lemmas.C10.sliceTo_ok h9, Fabio.Lemmas.C10.ok_bind, hs,
    Fabio.Lemmas.C10.ok_bind, if_neg (by omega), Fabio.Lemmas.C10.sliceTo_ok hw, Fabio.Lemmas.C10.ok_bind,
    Fabio.Lemmas.C10.sliceFrom_ok (by rw [List.length_take]; omega), Fabio.Lemmas.C10.ok_bind]

/-- **Refinement.** For every script (every segmentation, every ending) and every route table, the proxy
reaches the tunnel stage exactly when C10's `sniRoute` of the client's stream yields a non-empty name that
the table routes; in every other case — fewer than 9 bytes, a header C10 rejects, fewer bytes than
announced, a hello C10's parser rejects, no server name, no route — no upstream is dialled and nothing is
forwarded. -/
theorem proxy_refines_sniRoute (src : CopySrc) (table : Bytes → Bool) (line : Bytes) (script : Script) :
    let r := sniProxy src table line script
    (r.stage = .tunnel ↔ ∃ nm, sniRoute (streamOf script) = .ok nm ∧ nm ≠ [] ∧ table nm = true) ∧
    (r.stage ≠ .tunnel → r.upstream = []) := by
  simp only
  have hprobe := sniServe_char src true line script
  simp only at hprobe
  unfold sniProxy
  generalize hrouted : routedBy table (sniServe src true line script).hello = routed
  have hc := sniServe_char src routed line script
  simp only at hc
  by_cases h9 : (streamOf script).length < 9
  · have := hc.1 h9
    refine ⟨⟨fun h => (by rw [this.1] at h; cases h), ?_⟩, fun _ => this.2⟩
    rintro ⟨nm, hnm, _⟩
    unfold sniRoute at hnm
    rw [if_pos (by simpa [Fabio.Model.C10.peekLen] using h9)] at hnm; cases hnm
  · have h9' : 9 ≤ (streamOf script).length := Nat.le_of_not_lt h9
    cases hsz : helloSize ((streamOf script).take 9) with
    | none =>
      have := hc.2.1 h9' hsz
      refine ⟨⟨fun h => (by rw [this.1] at h; cases h), ?_⟩, fun _ => this.2⟩
      rintro ⟨nm, hnm, _⟩
      rw [size_agrees] at hsz
      unfold sizeC10 at hsz
      unfold sniRoute at hnm
      simp only [Fabio.Model.C10.peekLen] at hnm
      rw [if_neg (by omega), Fabio.Lemmas.C10.sliceTo_ok h9', Fabio.Lemmas.C10.ok_bind] at hnm
      cases hb : clientHelloBufferSize ((streamOf script).take 9) with
      | ok n => rw [hb] at hsz; cases hsz
      | reject s => rw [hb] at hnm; cases hnm
      | panic s => rw [hb] at hnm; cases hnm
    | some want =>
      have hsz' : clientHelloBufferSize ((streamOf script).take 9) = .ok want := by
        rw [size_agrees] at hsz
        unfold sizeC10 at hsz
        cases hb : clientHelloBufferSize ((streamOf script).take 9) with
        | ok n => rw [hb] at hsz; cases hsz; rfl
        | reject s => rw [hb] at hsz; cases hsz
        | panic s => rw [hb] at hsz; cases hsz
      have hcw := hc.2.2 h9' want hsz
      by_cases hlt : (streamOf script).length < want
      · have := hcw.1 hlt
        refine ⟨⟨fun h => (by rw [this.1] at h; cases h), ?_⟩, fun _ => this.2⟩
        rintro ⟨nm, hnm, _⟩
        unfold sniRoute at hnm
        simp only [Fabio.Model.C10.peekLen] at hnm
        rw [if_neg (by omega), Fabio.Lemmas.C10.sliceTo_ok h9', Fabio.Lemmas.C10.ok_bind, hsz',
          Fabio.Lemmas.C10.ok_bind, if_pos hlt] at hnm
        cases hnm
      · have hle : want ≤ (streamOf script).length := Nat.le_of_not_lt hlt
        have hfull := hcw.2 hle
        have hdata : (sniServe src true line script).hello = (streamOf script).take want :=
          ((hprobe.2.2 h9' want hsz).2 hle).1
        have hroute := sniRoute_of_size (streamOf script) want h9' hsz' hle
        rw [hdata] at hrouted
        unfold routedBy lookedUp readServerName at hrouted
        rw [← hroute] at hrouted
        cases routed with
        | true =>
          refine ⟨⟨fun _ => ?_, fun _ => hfull.2.2 rfl⟩, fun h => absurd (hfull.2.2 rfl) h⟩
          cases hr : sniRoute (streamOf script) with
          | ok nm =>
            rw [hr] at hrouted
            simp only at hrouted
            by_cases hnm : nm = []
            · rw [if_pos hnm] at hrouted; cases hrouted
            · rw [if_neg hnm] at hrouted; exact ⟨nm, rfl, hnm, hrouted⟩
          | reject s => rw [hr] at hrouted; cases hrouted
          | panic s => rw [hr] at hrouted; cases hrouted
        | false =>
          have := hfull.2.1 rfl
          refine ⟨⟨fun h => (by rw [this.1] at h; cases h), ?_⟩, fun _ => this.2⟩
          rintro ⟨nm, hnm, hne, ht⟩
          rw [hnm] at hrouted
          simp only [if_neg hne] at hrouted
          rw [ht] at hrouted; cases hrouted

/-- **The tcp+sni sentence, end to end.** For every well-formed ClientHello `h` that fits a record and names a
routed host, every continuation `s`, and EVERY script carrying `record h ++ s` — the hello split across
segments, the hello plus trailing bytes in one segment, 1-byte segments, any ending — with or without a PROXY
line: the proxy consumes exactly the record through the buffered reader, looks up exactly `sniOf h`, and the
upstream receives `line ++ record h ++ s`: every byte once, in order, from the first byte. -/
theorem sni_end_to_end (vMaj vMin : UInt8) (h : Hello) (hw : WellFormed h) (hf : FitsRecord h)
    (table : Bytes → Bool) (hne : sniOf h ≠ []) (ht : table (sniOf h) = true)
    (line s : Bytes) (script : Script) (hs : streamOf script = record vMaj vMin h ++ s) :
    let r := sniProxy codeCopySrc table line script
    r.stage = .tunnel ∧
    r.hello = record vMaj vMin h ∧
    lookedUp r.hello = some (sniOf h) ∧
    sniLookup script = some (sniOf h) ∧
    r.upstream = line ++ record vMaj vMin h ++ s := by
  have hrl := Fabio.Lemmas.C10.record_length vMaj vMin h
  have h9 : 9 ≤ (streamOf script).length := by rw [hs, List.length_append]; omega
  have hsz : helloSize ((streamOf script).take 9) = some (record vMaj vMin h).length := by
    rw [size_agrees, hs]; unfold sizeC10
    rw [Fabio.Props.C10.bufsize_exact vMaj vMin h hf s]
  have hle : (record vMaj vMin h).length ≤ (streamOf script).length := by rw [hs, List.length_append]; omega
  have htake : (streamOf script).take (record vMaj vMin h).length = record vMaj vMin h := by
    rw [hs, List.take_append_of_le_length (Nat.le_refl _), List.take_length]
  have hlook : lookedUp (record vMaj vMin h) = some (sniOf h) := by
    unfold lookedUp
    rw [Fabio.Lemmas.C10.record_drop5, Fabio.Props.C10.parse_encode h hw]
    simp [hne]
  have hdata : ∀ src routed, (sniServe src routed line script).hello = record vMaj vMin h := by
    intro src routed
    have := ((sniServe_char src routed line script).2.2 h9 _ hsz).2 hle
    rw [this.1, htake]
  have hdata0 : (sniServe .buffered true [] script).hello = record vMaj vMin h := by
    have := (((sniServe_char .buffered true [] script).2.2 h9 _ hsz).2 hle).1
    rw [this, htake]
  have hstage0 : (sniServe .buffered true [] script).stage = .tunnel :=
    (((sniServe_char .buffered true [] script).2.2 h9 _ hsz).2 hle).2.2 rfl
  have hprox : sniProxy codeCopySrc table line script = sniServe codeCopySrc true line script := by
    unfold sniProxy routedBy
    simp only [hdata, hlook, ht]
  simp only
  rw [hprox]
  have hstage : (sniServe codeCopySrc true line script).stage = .tunnel :=
    (((sniServe_char codeCopySrc true line script).2.2 h9 _ hsz).2 hle).2.2 rfl
  refine ⟨hstage, hdata _ _, by rw [hdata]; exact hlook, ?_, ?_⟩
  · unfold sniLookup
    simp only [hstage0, if_true, hdata0, hlook]
  · rw [Fabio.Props.C09.upstream_prefix_sni_code line script true hstage, hs, List.append_assoc]

/-- A hello without a server name is not tunnelled (`host == ""`: the proxy returns before dialling). -/
theorem sni_no_name_dropped (vMaj vMin : UInt8) (h : Hello) (hw : WellFormed h) (hf : FitsRecord h)
    (hempty : sniOf h = []) (src : CopySrc) (table : Bytes → Bool) (line s : Bytes) (script : Script)
    (hs : streamOf script = record vMaj vMin h ++ s) :
    (sniProxy src table line script).stage ≠ .tunnel ∧ (sniProxy src table line script).upstream = [] := by
  have hp := proxy_refines_sniRoute src table line script
  simp only at hp
  have hne : (sniProxy src table line script).stage ≠ .tunnel := by
    intro hst
    obtain ⟨nm, hnm, hnon, _⟩ := hp.1.mp hst
    rw [hs, Fabio.Props.C10.route_encode vMaj vMin h hw hf s] at hnm
    cases hnm; exact hnon hempty
  exact ⟨hne, hp.2 hne⟩

/-- **Rejection side, truncation.** For every strict prefix of the record followed by EOF (or an error),
however segmented: no upstream is dialled and nothing is forwarded. -/
theorem sni_truncated_dropped (vMaj vMin : UInt8) (h : Hello) (hf : FitsRecord h) (k : Nat)
    (hk : k < (record vMaj vMin h).length) (src : CopySrc) (table : Bytes → Bool) (line : Bytes)
    (script : Script) (hs : streamOf script = (record vMaj vMin h).take k) :
    (sniProxy src table line script).stage ≠ .tunnel ∧ (sniProxy src table line script).upstream = [] := by
  have hp := proxy_refines_sniRoute src table line script
  simp only at hp
  have hne : (sniProxy src table line script).stage ≠ .tunnel := by
    intro hst
    obtain ⟨nm, hnm, _, _⟩ := hp.1.mp hst
    have := Fabio.Props.C10.truncation_rejected vMaj vMin h hf k hk
    rw [← hs, hnm] at this
    cases this
  exact ⟨hne, hp.2 hne⟩

/-- **Rejection side, in general.** Every byte string C10 does not route (`sniRoute` rejects: short, not a
handshake record, bad lengths, fragmented, a hello the parser rejects): no upstream, nothing forwarded. -/
theorem sni_rejected_dropped (src : CopySrc) (table : Bytes → Bool) (line : Bytes) (script : Script)
    (hr : (sniRoute (streamOf script)).isOk = false) :
    (sniProxy src table line script).stage ≠ .tunnel ∧ (sniProxy src table line script).upstream = [] := by
  have hp := proxy_refines_sniRoute src table line script
  simp only at hp
  have hne : (sniProxy src table line script).stage ≠ .tunnel := by
    intro hst
    obtain ⟨nm, hnm, _, _⟩ := hp.1.mp hst
    rw [hnm] at hr; cases hr
  exact ⟨hne, hp.2 hne⟩

/-- 1-byte segments carry the stream they are cut from. -/
theorem one_byte_segments (bs : Bytes) : streamOf (bs.map (fun b => ReadEv.chunk [b])) = bs := by
  induction bs with
  | nil => rfl
  | cons b t ih => simp [streamOf, ih]

/-! ### Non-vacuity, with C10's `exHello` ("example.com", extensions on both sides of `server_name`) -/

open Fabio.Props.C10 (exHello exName)

def exTable : Bytes → Bool := fun nm => nm == exName

/-- hello split across two segments, its tail travelling with trailing bytes, a third segment, then EOF -/
example :
    let rec_ := record 3 1 exHello
    let script : Script := [.chunk (rec_.take 40), .chunk (rec_.drop 40 ++ [0xAA, 0xBB]), .chunk [0xCC], .eof]
    (sniProxy codeCopySrc exTable [0x50] script).upstream = [0x50] ++ rec_ ++ [0xAA, 0xBB, 0xCC] ∧
    sniLookup script = some exName := by
  have hname : sniOf exHello = exName := by decide +kernel
  have := sni_end_to_end 3 1 exHello (by decide +kernel) (by decide +kernel) exTable
    (by rw [hname]; decide) (by rw [hname]; decide) [0x50] [0xAA, 0xBB, 0xCC]
    [.chunk ((record 3 1 exHello).take 40), .chunk ((record 3 1 exHello).drop 40 ++ [0xAA, 0xBB]), .chunk [0xCC], .eof]
    (by simp only [streamOf, List.append_nil, List.append_assoc]
        rw [← List.append_assoc, List.take_append_drop]; rfl)
  simp only at this ⊢
  exact ⟨this.2.2.2.2, by rw [this.2.2.2.1, hname]⟩

/-- 1-byte segments -/
example : (sniProxy codeCopySrc exTable [] ((record 3 1 exHello ++ [1, 2, 3]).map (fun b => .chunk [b]))).upstream
    = record 3 1 exHello ++ [1, 2, 3] := by
  have hname : sniOf exHello = exName := by decide +kernel
  have := sni_end_to_end 3 1 exHello (by decide +kernel) (by decide +kernel) exTable
    (by rw [hname]; decide) (by rw [hname]; decide) [] [1, 2, 3] _ (one_byte_segments _)
  simpa using this.2.2.2.2

/-- the model itself computes it (hello + trailing bytes in one segment) -/
example : (sniProxy codeCopySrc exTable [] [.chunk (record 3 1 exHello ++ [7, 8]), .chunk [9]]).upstream
    = record 3 1 exHello ++ [7, 8, 9] := by decide +kernel

/-- a truncated hello, then EOF: dropped -/
example : (sniProxy codeCopySrc exTable [] [.chunk ((record 3 1 exHello).take 100), .eof]).upstream = [] :=
  (sni_truncated_dropped 3 1 exHello (by decide +kernel) 100 (by decide +kernel) _ _ _ _
    (by simp [streamOf])).2

/-- not a handshake record: dropped -/
example : (sniProxy codeCopySrc exTable [] [.chunk [0x17, 3, 3, 0, 5, 1, 0, 0, 1, 0]]).stage ≠ .tunnel :=
  (sni_rejected_dropped _ _ _ _ (by decide +kernel)).1

/-- a host the table does not route: dropped -/
example : (sniProxy codeCopySrc (fun _ => false) [] [.chunk (record 3 1 exHello)]).upstream = [] := by
  decide +kernel

end Fabio.Props.C09Compose
