import Fabio.Model.C18System
import Fabio.Lemmas.C18
import Fabio.Props.C18
import Fabio.Props.C18Exit
/-! C18 — the property's sentences for the process as a whole (model: `Fabio.Model.C18System`). -/
namespace Fabio.Props.C18System
open Fabio.Model.C18 Fabio.Model.C18Exit Fabio.Model.C18System Fabio.Lemmas.C18

theorem handler_runs (n : Nat) (last : Ev) (h : last ≠ .hup) :
    (run .reselects (initial 1) (history n last)).listeners.all handlerRan = true := by
  have := Props.C18Exit.shutdown_begins 1 n last h
  simp only [calledWith, List.all_eq_true, decide_eq_true_eq] at this ⊢
  intro l hl
  rw [this l hl]; rfl

/-- **C18, end to end.** For every number of earlier SIGHUPs, every way of telling the process to stop (SIGINT,
SIGTERM, `exit.Exit`/`Fatal`/`Fatalf`) at any tick `s`, every grace period and wait, every set of servers with every
amount of open work (endless streams, tunnels and websocket sessions included), with the contracts of the current
tree (`reselects`, `waitedFor`, a deadline-bounded gRPC contract):
1. from `s + grace` on — when `proxy.Shutdown` begins — no listener that was up accepts;
2. every piece of in-flight work that ends within the wait completes before the process ends;
3. the process ends no later than `s + grace + wait`. -/
theorem c18_end_to_end {g : GrpcContract} (hb : Props.C18.DeadlineBounded g) (n : Nat) (last : Ev) (h : last ≠ .hup)
    (s grace wait : Nat) (srvs : List Server) :
    (∀ t, s + grace ≤ t → listenerAccepts .reselects n last s grace t = false) ∧
    (∀ sv ∈ srvs, ∀ l ∈ sv.leaves, ∀ e ∈ l.allWork, tle e (some (s + grace + wait)) = true →
        processFate (processEnd .reselects .waitedFor g n last s grace wait srvs) e = .completed) ∧
    tle (processEnd .reselects .waitedFor g n last s grace wait srvs) (some (s + grace + wait)) = true := by
  have hr := handler_runs n last h
  refine ⟨?_, ?_, ?_⟩
  · intro t ht
    simp only [listenerAccepts, hr, if_true, accepts]
    exact decide_eq_false (Nat.not_lt.mpr ht)
  · intro sv hs l hl e he hle
    simp only [processEnd, hr, if_true]
    exact Props.C18.process_completes_inflight_work g s grace wait srvs sv l e hs hl he hle
  · simp only [processEnd, hr, if_true]
    exact Props.C18.process_exit_bounded .waitedFor hb s grace wait srvs

/-- **The same statement fails for each shipped/seeded contract**, each with its witness:
(a) `signalsOnly` (a listener that stops watching `quit` after a SIGHUP): one SIGHUP, then `exit.Exit` — the process
never ends and the listeners accept for ever; (b) `notWaitedFor` (D31): a websocket session on an http-only
configuration is cut; (c) `ignoresDeadline` (D22): an endless gRPC stream keeps the process for ever. -/
theorem c18_end_to_end_needs_each_contract :
    (processEnd .signalsOnly .waitedFor .stopsAtDeadline 1 .exitCall 0 300 600 [] = none ∧
      ∀ t, listenerAccepts .signalsOnly 1 .exitCall 0 300 t = true) ∧
    processFate (processEnd .reselects .notWaitedFor .stopsAtDeadline 0 (.sig .term) 0 300 600
      [.single { kind := .http, work := [], hijacked := [some 400] }]) (some 400) = .cut ∧
    processEnd .reselects .waitedFor .ignoresDeadline 0 (.sig .term) 0 300 600
      [.single { kind := .grpc, work := [none] }] = none := by
  refine ⟨⟨by decide, ?_⟩, by decide, by decide⟩
  intro t
  have : (run .signalsOnly (initial 1) (history 1 .exitCall)).listeners.all handlerRan = false := by decide
  simp [listenerAccepts, this]

-- non-vacuity: three SIGHUPs, then exit.Fatal at tick 1000; grace 300, wait 600; a mixed registry with a websocket
example : processEnd .reselects .waitedFor .stopsAtDeadline 3 .exitCall 1000 300 600
    (.single { kind := .http, work := [some 1400], hijacked := [some 1500, none] } :: Props.C18.exampleServers) = some 1900 := by decide
example : listenerAccepts .reselects 3 .exitCall 1000 300 1299 = true ∧
          listenerAccepts .reselects 3 .exitCall 1000 300 1300 = false := by decide

end Fabio.Props.C18System
