import Fabio.Model.C13Glue
import Fabio.Lemmas.C13
import Fabio.Props.C13
/-!
C13, round 3 — the glue around the redirect core: property theorems (core Lean only).

* `ServeHTTP` as a decision (`Model.C13.serve`/`handle`): a redirect target that passes the two gates is
  answered with its status and Location *whatever* the `Upgrade` / `Accept` headers say, and no upstream handler
  is constructed; an upstream is contacted only for a target without a redirect code.
* the `urlprefix-` tag option loop of `registry/consul/routecmd.go` (`Model.C13.tagCmd`): every option of the tag
  is passed on to the route command wherever it stands relative to `redirect=<code>,<url>`, the destination is
  the URL of the last field that selects one, and `parseOpts` reads a passed-on `key=value` back as that value.
-/
namespace Fabio.Props.C13Glue
open Fabio Fabio.Model.C13

/-! ### `ServeHTTP` -/

/-- **A redirect target that passes the gates is answered by the redirect — the request headers that choose
between the websocket, the SSE and the plain upstream handler are not consulted.** -/
theorem redirect_answered_whatever_the_headers (t : RTarget) (u : URL) (upgrade accept : Str) (hc : t.code ≠ 0) :
    serve (some (t, some u)) false true upgrade accept = .redirect t.code (hexEscapeNonASCII (urlString u)) := by
  simp [serve, hc]

/-- **No upstream is contacted for a redirect target**, admitted or not, whatever the headers. -/
theorem redirect_target_contacts_no_upstream (t : RTarget) (u : URL) (denied authorized : Bool) (upgrade accept : Str)
    (hc : t.code ≠ 0) :
    (serve (some (t, some u)) denied authorized upgrade accept).contactsUpstream = false := by
  cases denied <;> cases authorized <;> simp [serve, hc, Served.contactsUpstream]

/-- what `Lookup` hands over: a redirect URL exactly for the targets with a redirect code, built for this request -/
theorem lookupLoop_shape (scheme : Str) (req : URL) (cands : List (Option RTarget)) (t : RTarget) (ru : Option URL)
    (h : lookupLoop scheme req cands = some (t, ru)) :
    (t.code = 0 ∧ ru = none) ∨ (t.code ≠ 0 ∧ ru = some (buildRedirectURL t req) ∧ selfRedirect (buildRedirectURL t req) scheme req = false) := by
  induction cands with
  | nil => simp [lookupLoop] at h
  | cons c rest ih =>
    cases c with
    | none => simp only [lookupLoop] at h; exact ih h
    | some t' =>
      simp only [lookupLoop] at h
      by_cases hc : t'.code = 0
      · simp only [hc, ne_eq, not_true_eq_false, if_false] at h
        cases h; exact Or.inl ⟨hc, rfl⟩
      · simp only [ne_eq, hc, not_false_eq_true, if_true] at h
        by_cases hs : selfRedirect (buildRedirectURL t' req) scheme req = true
        · simp only [hs, if_true] at h; exact ih h
        · simp only [hs, Bool.false_eq_true, if_false] at h
          cases h; exact Or.inr ⟨hc, rfl, by simpa using hs⟩

/-- **An upstream is contacted only on behalf of a target without a redirect code** — `Lookup` and `ServeHTTP`
composed, for every candidate list, every verdict of the gates and every header combination. -/
theorem upstream_only_for_plain_targets (scheme : Str) (req : URL) (cands : List (Option RTarget))
    (gate : RTarget → Bool × Bool) (upgrade accept : Str) (v : Via)
    (h : handle scheme req cands gate upgrade accept = .upstream v) :
    ∃ t, lookup scheme req cands = some (t, none) ∧ t.code = 0 := by
  unfold handle at h
  cases hl : lookup scheme req cands with
  | none => simp [hl, serve] at h
  | some p =>
    obtain ⟨t, ru⟩ := p
    rcases lookupLoop_shape scheme req cands t ru hl with ⟨h0, rfl⟩ | ⟨hc, rfl, _⟩
    · exact ⟨t, rfl, h0⟩
    · simp only [hl, serve] at h
      split at h
      · cases h
      · split at h
        · cases h
        · simp at h

/-- **The answer of a redirect route**: when `Lookup` selects a redirect target and the gates admit the request,
the client receives the target's code and the Location `Model.C13.answer` states — for every `Upgrade`/`Accept`. -/
theorem handle_redirect_is_answer (scheme : Str) (req : URL) (cands : List (Option RTarget))
    (gate : RTarget → Bool × Bool) (upgrade accept : Str) (t : RTarget) (u : URL)
    (hl : lookup scheme req cands = some (t, some u)) (hg : gate t = (false, true)) :
    some (handle scheme req cands gate upgrade accept) =
      (answer scheme req cands).map (fun a => Served.redirect a.1 a.2) := by
  have hc : t.code ≠ 0 := by
    rcases lookupLoop_shape scheme req cands t (some u) hl with ⟨_, h⟩ | ⟨hc, _, _⟩
    · cases h
    · exact hc
  simp [handle, answer, hl, hg, serve, hc]

/-- the gates come first: a denied request gets 403, an unauthorised one 401, redirect route or not (as coded) -/
theorem gates_precede_redirect (sel : RTarget × Option URL) (upgrade accept : Str) :
    serve (some sel) true true upgrade accept = .forbidden ∧ serve (some sel) false false upgrade accept = .unauthorized := by
  obtain ⟨t, ru⟩ := sel
  simp [serve]

/-- non-vacuity: the seeded change m8's input on the model — a websocket upgrade request to a redirect route -/
example :
    let t : RTarget := { url := { scheme := lit "https", host := lit "$host$path" }, code := 301 }
    let req : URL := { host := lit "a.com", path := lit "/ws" }
    handle (lit "http") req [some t] (fun _ => (false, true)) (lit "WebSocket") [] = .redirect 301 (lit "https://a.com/ws") ∧
    handle (lit "http") req [some t] (fun _ => (false, true)) [] (lit "text/event-stream") = .redirect 301 (lit "https://a.com/ws") ∧
    -- a plain target with the same headers is proxied through the websocket / SSE handler
    handle (lit "http") req [some { t with code := 0 }] (fun _ => (false, true)) (lit "WebSocket") [] = .upstream .websocket ∧
    handle (lit "http") req [some { t with code := 0 }] (fun _ => (false, true)) [] (lit "text/event-stream") = .upstream .sse := by
  decide

/-! ### the `urlprefix-` tag option loop -/

theorem tagStep_ropts (addr : Str) (a : TagCmd) (o : Str) :
    (tagStep addr a o).ropts = a.ropts ++ (passedOn o).toList := by
  unfold tagStep passedOn
  split
  · simp
  · split
    · simp
    · split
      · split <;> simp
      · simp

theorem foldl_tagStep_ropts (addr : Str) (fs : List Str) (a : TagCmd) :
    (fs.foldl (tagStep addr) a).ropts = a.ropts ++ fs.filterMap passedOn := by
  induction fs generalizing a with
  | nil => simp
  | cons o os ih =>
    simp only [List.foldl_cons, ih, tagStep_ropts, List.filterMap_cons]
    cases passedOn o <;> simp

/-- **Every option of the tag is passed on, in order, wherever it stands relative to `redirect=`**: the option
text of the route command is the tag's fields, minus the `proto=`/`weight=` fields the loop consumes and the
malformed `redirect=` fields it skips, with `redirect=<code>,<url>` shortened to `redirect=<code>`. -/
theorem tag_options_passed_on (addr opts : Str) :
    (tagCmd addr opts).ropts = (fields opts).filterMap passedOn := by
  simp [tagCmd, foldl_tagStep_ropts]

theorem tagStep_dst (addr : Str) (a : TagCmd) (o : Str) :
    (tagStep addr a o).dst = (selectsDst addr o).getD a.dst := by
  unfold tagStep selectsDst
  split
  · simp
  · split
    · simp
    · split
      · split <;> simp
      · simp

theorem foldl_tagStep_dst (addr : Str) (fs : List Str) (a : TagCmd) :
    (fs.foldl (tagStep addr) a).dst = ((fs.filterMap (selectsDst addr)).getLast?).getD a.dst := by
  induction fs generalizing a with
  | nil => simp
  | cons o os ih =>
    simp only [List.foldl_cons, ih, tagStep_dst, List.filterMap_cons]
    cases h : selectsDst addr o with
    | none => simp
    | some d =>
      simp only [Option.getD_some]
      cases h2 : (os.filterMap (selectsDst addr)).getLast? with
      | none =>
        have : os.filterMap (selectsDst addr) = [] := by simpa using h2
        simp [this]
      | some e =>
        have hne : os.filterMap (selectsDst addr) ≠ [] := by intro e0; simp [e0] at h2
        simp [List.getLast?_cons_of_ne_nil hne, h2]

/-- **The destination of the route command is the one the last destination-selecting field names** (a
`redirect=<code>,<url>` field selects `<url>`, a `proto=` field the service address with that scheme); without
such a field it is `http://addr/`. -/
theorem tag_destination (addr opts : Str) :
    (tagCmd addr opts).dst = (((fields opts).filterMap (selectsDst addr)).getLast?).getD (lit "http://" ++ addr ++ lit "/") := by
  simp [tagCmd, foldl_tagStep_dst]

/-! `parseOpts`: the last field with a key wins -/

theorem optValue_foldl (key v : Str) (L : List Str) (cur : Str)
    (h : ∀ o ∈ L, (keyVal o).1 = key → (keyVal o).2 = v) :
    L.foldl (fun cur f => if (keyVal f).1 == key then (keyVal f).2 else cur) cur =
      if L.any (fun o => (keyVal o).1 == key) then v else cur := by
  induction L generalizing cur with
  | nil => simp
  | cons o os ih =>
    have ih := ih (cur := if (keyVal o).1 == key then (keyVal o).2 else cur) (fun o' ho' => h o' (by simp [ho']))
    simp only [List.foldl_cons, ih, List.any_cons]
    by_cases hk : (keyVal o).1 = key
    · have hv := h o (by simp) hk
      simp [hk, hv]
    · simp [hk]

/-- **An option of the tag reaches the target whatever its position**: a field `key=v` that the loop passes on
unchanged, the only passed-on field with that key, is read back by `parseOpts` as `v` — before or after
`redirect=`, first or last (`strip=`, `prepend=` in particular). -/
theorem tag_option_reaches_target (addr opts o key v : Str)
    (ho : o ∈ fields opts) (hp : passedOn o = some o) (hk : keyVal o = (key, v))
    (huniq : ∀ o' ∈ (fields opts).filterMap passedOn, (keyVal o').1 = key → o' = o) :
    optValue key (tagCmd addr opts).ropts = v := by
  rw [tag_options_passed_on]
  unfold optValue
  rw [optValue_foldl key v _ []]
  · have : ((fields opts).filterMap passedOn).any (fun o => (keyVal o).1 == key) = true := by
      simp only [List.any_eq_true, beq_iff_eq]
      exact ⟨o, by simp only [List.mem_filterMap]; exact ⟨o, ho, hp⟩, by rw [hk]⟩
    simp [this]
  · intro o' ho' hk'
    rw [huniq o' ho' hk', hk]

/-- non-vacuity (the tags of the documentation and of the seeded change m4): `strip=` written *before*
`redirect=` reaches the target, the code and the URL are the redirect field's -/
example :
    let addr := lit "10.0.0.1:8080"
    tagTarget addr (lit "redirect=301,https://www.example.com$path") =
      { dst := lit "https://www.example.com$path", strip := [], prepend := [], code := 301 } ∧
    tagTarget addr (lit "strip=/old redirect=301,https://new.example.com$path") =
      { dst := lit "https://new.example.com$path", strip := lit "/old", prepend := [], code := 301 } ∧
    tagTarget addr (lit "redirect=302,https://new.example.com$path  prepend=/p strip=/old") =
      { dst := lit "https://new.example.com$path", strip := lit "/old", prepend := lit "/p", code := 302 } ∧
    -- a malformed redirect field is skipped: an ordinary proxied route
    tagTarget addr (lit "strip=/old redirect=301") = { dst := lit "http://10.0.0.1:8080/", strip := lit "/old", prepend := [], code := 0 } ∧
    tagSpec (lit "strip=/old redirect=301,https://new.example.com$path") (lit "/old") [] 301 = true ∧
    -- the seeded change m4 (options before `redirect=` dropped) fails the specification
    tagSpec (lit "strip=/old redirect=301,https://new.example.com$path") [] [] 301 = false := by
  decide

example : fields (lit "  a=1 \t b  c=2\n") = [lit "a=1", lit "b", lit "c=2"] := by decide
example :
    let o := lit "strip=/old"
    o ∈ fields (lit "strip=/old redirect=301,https://x$path") ∧ passedOn o = some o ∧ keyVal o = (lit "strip", lit "/old") := by
  decide

/-! ### the tag model meets the tag specification -/

theorem kRedirect_eq : kRedirect = [114, 101, 100, 105, 114, 101, 99, 116, 61] := by decide
theorem litRedirect_eq : lit "redirect" = [114, 101, 100, 105, 114, 101, 99, 116] := by decide

theorem keyVal_redirect (code : Str) : keyVal (kRedirect ++ code) = (lit "redirect", code) := by
  rw [kRedirect_eq, litRedirect_eq]
  simp [keyVal, cut]

/-- `strings.Cut` puts the string back together -/
theorem cut_spec (sep : UInt8) (s : Str) :
    s = if (cut sep s).2.2 then (cut sep s).1 ++ sep :: (cut sep s).2.1 else (cut sep s).1 := by
  induction s with
  | nil => simp [cut]
  | cons c cs ih =>
    unfold cut
    by_cases h : c == sep
    · simp only [h, if_true]; simp at h; simp [h]
    · simp only [h, Bool.false_eq_true, if_false]
      split
      · rename_i hf; simp only [hf, if_true] at ih; simp only [List.cons_append]; rw [← ih]
      · rename_i hf; simp only [hf, Bool.false_eq_true, if_false] at ih; rw [← ih]

/-- a field whose key is `redirect` is the bare word or starts with `redirect=` -/
theorem key_redirect_cases (o : Str) (h : (keyVal o).1 = lit "redirect") :
    o = lit "redirect" ∨ hasPrefix o kRedirect = true := by
  have hs := cut_spec 61 o
  have hk : (cut 61 o).1 = lit "redirect" := by simpa [keyVal] using h
  by_cases hf : (cut 61 o).2.2 = true
  · right
    simp only [hf, if_true, hk] at hs
    rw [hs, kRedirect_eq, litRedirect_eq]
    simp [hasPrefix, List.isPrefixOf]
  · left
    simp only [hf, Bool.false_eq_true, if_false, hk] at hs
    exact hs


theorem kWeight_eq : kWeight = [119, 101, 105, 103, 104, 116, 61] := by decide
theorem protoSchemes_keys : protoSchemes.map (·.1) =
    [[112, 114, 111, 116, 111, 61, 116, 99, 112], [112, 114, 111, 116, 111, 61, 104, 116, 116, 112, 115],
     [112, 114, 111, 116, 111, 61, 103, 114, 112, 99, 115], [112, 114, 111, 116, 111, 61, 103, 114, 112, 99]] := by decide

theorem lookup_none_of_not_p (o : Str) (h : o.head? ≠ some 112) : protoSchemes.lookup o = none := by
  have hk : ∀ k ∈ protoSchemes.map (·.1), k.head? = some 112 := by rw [protoSchemes_keys]; decide
  have : ∀ (l : List (Str × Str)), (∀ k ∈ l.map (·.1), k.head? = some 112) → l.lookup o = none := by
    intro l
    induction l with
    | nil => intro _; rfl
    | cons p ps ih =>
      intro hl
      have h1 : p.1.head? = some 112 := hl p.1 (by simp)
      have hne : (o == p.1) = false := by
        apply beq_false_of_ne; intro e; rw [e] at h; exact h h1
      obtain ⟨k, v⟩ := p
      simp only [List.lookup, hne]
      exact ih (fun k hk => hl k (by simp only [List.map_cons, List.mem_cons]; exact Or.inr hk))
  exact this _ hk

theorem head_of_redirect (o : Str) (h : hasPrefix o kRedirect = true) : o.head? = some 114 := by
  rw [kRedirect_eq] at h
  cases o with
  | nil => simp [hasPrefix, List.isPrefixOf] at h
  | cons c cs => simp [hasPrefix, List.isPrefixOf] at h; simp [h.1]

theorem not_weight_of_redirect (o : Str) (h : hasPrefix o kRedirect = true) : hasPrefix o kWeight = false := by
  have := head_of_redirect o h
  rw [kWeight_eq]
  cases o with
  | nil => simp at this
  | cons c cs =>
    simp only [List.head?_cons, Option.some.injEq] at this
    subst this
    simp [hasPrefix, List.isPrefixOf]

theorem lookup_none_of_redirect (o : Str) (h : hasPrefix o kRedirect = true) : protoSchemes.lookup o = none :=
  lookup_none_of_not_p o (by rw [head_of_redirect o h]; decide)

/-- the four kinds of field -/
theorem passedOn_cases (o : Str) :
    (plainP o = true ∧ passedOn o = some o ∧ hasPrefix o kRedirect = false) ∨
    (plainP o = false ∧ passedOn o = none ∧ hasPrefix o kRedirect = false) ∨
    (plainP o = false ∧ hasPrefix o kRedirect = true ∧
      ∃ code url, splitComma (o.drop kRedirect.length) = [code, url] ∧ passedOn o = some (kRedirect ++ code)) ∨
    (plainP o = false ∧ hasPrefix o kRedirect = true ∧ passedOn o = none ∧
      ∀ code url, splitComma (o.drop kRedirect.length) ≠ [code, url]) := by
  by_cases hr : hasPrefix o kRedirect = true
  · have hl := lookup_none_of_redirect o hr
    have hw := not_weight_of_redirect o hr
    have hp : plainP o = false := by simp [plainP, hr]
    cases hsp : splitComma (o.drop kRedirect.length) with
    | nil => right; right; right; refine ⟨hp, hr, ?_, ?_⟩ <;> simp [passedOn, hl, hw, hr, hsp]
    | cons a t =>
      cases t with
      | nil => right; right; right; refine ⟨hp, hr, ?_, ?_⟩ <;> simp [passedOn, hl, hw, hr, hsp]
      | cons b t2 =>
        cases t2 with
        | nil => right; right; left; exact ⟨hp, hr, a, b, rfl, by simp [passedOn, hl, hw, hr, hsp]⟩
        | cons c t3 => right; right; right; refine ⟨hp, hr, ?_, ?_⟩ <;> simp [passedOn, hl, hw, hr, hsp]
  · have hr' : hasPrefix o kRedirect = false := by simpa using hr
    cases hl : protoSchemes.lookup o with
    | some v => right; left; exact ⟨by simp [plainP, hl], by simp [passedOn, hl], hr'⟩
    | none =>
      by_cases hw : hasPrefix o kWeight = true
      · right; left; exact ⟨by simp [plainP, hw], by simp [passedOn, hl, hw], hr'⟩
      · have hw' : hasPrefix o kWeight = false := by simpa using hw
        left; exact ⟨by simp [plainP, hl, hw', hr'], by simp [passedOn, hl, hw', hr'], hr'⟩


/-- the step of `optValue` -/
def ovStep (key : Str) (cur f : Str) : Str := if (keyVal f).1 == key then (keyVal f).2 else cur

theorem optValue_eq_foldl (key : Str) (L : List Str) : optValue key L = L.foldl (ovStep key) [] := rfl

/-- options other than `redirect`: what `parseOpts` reads from the passed-on options is what it reads from the
tag's plain fields — the `redirect=<code>` entries the loop inserts have another key -/
theorem foldl_passedOn_plain (key : Str) (hk : key ≠ lit "redirect") (fs : List Str) (cur : Str) :
    (fs.filterMap passedOn).foldl (ovStep key) cur = (fs.filter plainP).foldl (ovStep key) cur := by
  induction fs generalizing cur with
  | nil => rfl
  | cons o os ih =>
    rcases passedOn_cases o with ⟨hp, hpo, _⟩ | ⟨hp, hpo, _⟩ | ⟨hp, _, code, url, _, hpo⟩ | ⟨hp, _, hpo, _⟩
    · simp only [List.filterMap_cons, hpo, List.filter_cons, hp, if_true, List.foldl_cons, ih]
    · simp only [List.filterMap_cons, hpo, List.filter_cons, hp, Bool.false_eq_true, if_false, ih]
    · have : ovStep key cur (kRedirect ++ code) = cur := by
        have hne : (lit "redirect" == key) = false := beq_false_of_ne (fun e => hk e.symm)
        simp [ovStep, keyVal_redirect, hne]
      simp only [List.filterMap_cons, hpo, List.filter_cons, hp, Bool.false_eq_true, if_false, List.foldl_cons, this, ih]
    · simp only [List.filterMap_cons, hpo, List.filter_cons, hp, Bool.false_eq_true, if_false, ih]

def codeOf : Option (Str × Str) → Str
  | none => []
  | some (c, _) => c

/-- the step of `lastRedirectField` -/
def lrStep (cur : Option (Str × Str)) (o : Str) : Option (Str × Str) :=
  if hasPrefix o kRedirect then
    match splitComma (o.drop kRedirect.length) with
    | [code, url] => some (code, url)
    | _ => cur
  else cur

theorem lastRedirectField_eq_foldl (fs : List Str) : lastRedirectField fs = fs.foldl lrStep none := rfl

/-- the `redirect` option `parseOpts` reads is the code of the last well-formed redirect field — provided no
bare field `redirect` stands among the options (it would be an option of that name with an empty value) -/
theorem foldl_passedOn_redirect (fs : List Str) (hb : lit "redirect" ∉ fs) (cur : Option (Str × Str)) :
    (fs.filterMap passedOn).foldl (ovStep (lit "redirect")) (codeOf cur) = codeOf (fs.foldl lrStep cur) := by
  induction fs generalizing cur with
  | nil => rfl
  | cons o os ih =>
    have hb' : lit "redirect" ∉ os := fun h => hb (by simp [h])
    have ho : o ≠ lit "redirect" := fun h => hb (by simp [h])
    rcases passedOn_cases o with ⟨hp, hpo, hr⟩ | ⟨hp, hpo, hr⟩ | ⟨hp, hr, code, url, hsp, hpo⟩ | ⟨hp, hr, hpo, hsp⟩
    · -- a plain field: its key is not `redirect`
      have hkey : ((keyVal o).1 == lit "redirect") = false := by
        apply beq_false_of_ne
        intro e
        rcases key_redirect_cases o e with h | h
        · exact ho h
        · rw [hr] at h; cases h
      have h1 : ovStep (lit "redirect") (codeOf cur) o = codeOf cur := by simp [ovStep, hkey]
      have h2 : lrStep cur o = cur := by simp [lrStep, hr]
      simp only [List.filterMap_cons, hpo, List.foldl_cons, h1, h2, ih hb' cur]
    · have h2 : lrStep cur o = cur := by simp [lrStep, hr]
      simp only [List.filterMap_cons, hpo, List.foldl_cons, h2, ih hb' cur]
    · have h1 : ovStep (lit "redirect") (codeOf cur) (kRedirect ++ code) = codeOf (some (code, url)) := by
        simp [ovStep, keyVal_redirect, codeOf]
      have h2 : lrStep cur o = some (code, url) := by simp [lrStep, hr, hsp]
      simp only [List.filterMap_cons, hpo, List.foldl_cons, h1, h2, ih hb' (some (code, url))]
    · have h2 : lrStep cur o = cur := by
        unfold lrStep
        rw [if_pos hr]
        split
        · rename_i c u heq; exact absurd heq (hsp c u)
        · rfl
      simp only [List.filterMap_cons, hpo, List.foldl_cons, h2, ih hb' cur]

/-- **The model of the tag loop meets the tag specification**: for every service address and every option text
without a bare `redirect` field, the target `routecmd.build` + `parseOpts` + `addTarget` configure carries the
tag's last plain `strip=` and `prepend=` values wherever they stand relative to `redirect=<code>,<url>`, and its
status is the configured code of the last well-formed redirect field.
**Partial**: the hypothesis is forced — the tag `urlprefix-` + `/ redirect=301,https://x$path redirect` yields the options
`redirect=301 redirect`, `parseOpts` lets the bare word win with an empty value and the route is proxied to
`https://x$path` (example below; replayed on the real code from the corpus of `c13.tag`, class `bare-redirect-option`). -/
theorem tag_target_meets_spec_partial (addr opts : Str) (hb : lit "redirect" ∉ fields opts) :
    tagSpec opts (tagTarget addr opts).strip (tagTarget addr opts).prepend (tagTarget addr opts).code = true := by
  have hs : (lit "strip") ≠ lit "redirect" := by decide
  have hp : (lit "prepend") ≠ lit "redirect" := by decide
  have hc : (fields opts).contains (lit "redirect") = false := by
    simpa using hb
  unfold tagSpec
  simp only [hc, Bool.false_eq_true, if_false]
  cases hl : lastRedirectField (fields opts) with
  | none => rfl
  | some p =>
    obtain ⟨c, u⟩ := p
    have e1 : (tagTarget addr opts).strip = lastPlainValue (lit "strip") (fields opts) := by
      simp only [tagTarget, lastPlainValue, tag_options_passed_on, optValue_eq_foldl, foldl_passedOn_plain _ hs]
    have e2 : (tagTarget addr opts).prepend = lastPlainValue (lit "prepend") (fields opts) := by
      simp only [tagTarget, lastPlainValue, tag_options_passed_on, optValue_eq_foldl, foldl_passedOn_plain _ hp]
    have e3 : (tagTarget addr opts).code = configuredCode c := by
      have := foldl_passedOn_redirect (fields opts) hb none
      rw [← lastRedirectField_eq_foldl, hl] at this
      simp only [tagTarget, tag_options_passed_on, optValue_eq_foldl]
      simp only [codeOf] at this
      rw [this]
      exact Fabio.Props.C13.configured_status_is_the_code c
    simp [e1, e2, e3]

/-- the excluded point: a bare `redirect` after the redirect field switches the redirect off (as coded) -/
example :
    (tagTarget (lit "10.0.0.1:80") (lit "redirect=301,https://x$path redirect")).code = 0 ∧
    (tagCmd (lit "10.0.0.1:80") (lit "redirect=301,https://x$path redirect")).ropts = [lit "redirect=301", lit "redirect"] := by
  decide

end Fabio.Props.C13Glue
