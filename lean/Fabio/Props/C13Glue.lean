import Fabio.Model.C13Glue
import Fabio.Lemmas.C13
/-!
C13, round 3 — the glue around the redirect core: property theorems (core Lean only).

* `ServeHTTP` as a decision (`Model.C13.serve`/`handle`): a redirect target that passes the two gates is
  answered with its status and Location *whatever* the `Upgrade` / `Accept` headers say, and no upstream handler
  is constructed; an upstream is contacted only for a target without a redirect code.
* the `urlprefix-` tag option loop of `registry/consul/routecmd.go` (`Model.C13.tagCmd`): every option of the tag
  is passed on to the route command wherever it stands relative to `redirect=<code>,<url>`, the destination is
  the URL of the last field that selects one, and `parseOpts` reads a passed-on `key=value` back as that value.
-/
namespace Fabio.Props.C13Glue
open Fabio Fabio.Model.C13

/-! ### `ServeHTTP` -/

/-- **A redirect target that passes the gates is answered by the redirect — the request headers that choose
between the websocket, the SSE and the plain upstream handler are not consulted.** -/
theorem redirect_answered_whatever_the_headers (t : RTarget) (u : URL) (upgrade accept : Str) (hc : t.code ≠ 0) :
    serve (some (t, some u)) false true upgrade accept = .redirect t.code (hexEscapeNonASCII (urlString u)) := by
  simp [serve, hc]

/-- **No upstream is contacted for a redirect target**, admitted or not, whatever the headers. -/
theorem redirect_target_contacts_no_upstream (t : RTarget) (u : URL) (denied authorized : Bool) (upgrade accept : Str)
    (hc : t.code ≠ 0) :
    (serve (some (t, some u)) denied authorized upgrade accept).contactsUpstream = false := by
  cases denied <;> cases authorized <;> simp [serve, hc, Served.contactsUpstream]

/-- what `Lookup` hands over: a redirect URL exactly for the targets with a redirect code, built for this request -/
theorem lookupLoop_shape (scheme : Str) (req : URL) (cands : List (Option RTarget)) (t : RTarget) (ru : Option URL)
    (h : lookupLoop scheme req cands = some (t, ru)) :
    (t.code = 0 ∧ ru = none) ∨ (t.code ≠ 0 ∧ ru = some (buildRedirectURL t req) ∧ selfRedirect (buildRedirectURL t req) scheme req = false) := by
  induction cands with
  | nil => simp [lookupLoop] at h
  | cons c rest ih =>
    cases c with
    | none => simp only [lookupLoop] at h; exact ih h
    | some t' =>
      simp only [lookupLoop] at h
      by_cases hc : t'.code = 0
      · simp only [hc, ne_eq, not_true_eq_false, if_false] at h
        cases h; exact Or.inl ⟨hc, rfl⟩
      · simp only [ne_eq, hc, not_false_eq_true, if_true] at h
        by_cases hs : selfRedirect (buildRedirectURL t' req) scheme req = true
        · simp only [hs, if_true] at h; exact ih h
        · simp only [hs, Bool.false_eq_true, if_false] at h
          cases h; exact Or.inr ⟨hc, rfl, by simpa using hs⟩

/-- **An upstream is contacted only on behalf of a target without a redirect code** — `Lookup` and `ServeHTTP`
composed, for every candidate list, every verdict of the gates and every header combination. -/
theorem upstream_only_for_plain_targets (scheme : Str) (req : URL) (cands : List (Option RTarget))
    (gate : RTarget → Bool × Bool) (upgrade accept : Str) (v : Via)
    (h : handle scheme req cands gate upgrade accept = .upstream v) :
    ∃ t, lookup scheme req cands = some (t, none) ∧ t.code = 0 := by
  unfold handle at h
  cases hl : lookup scheme req cands with
  | none => simp [hl, serve] at h
  | some p =>
    obtain ⟨t, ru⟩ := p
    rcases lookupLoop_shape scheme req cands t ru hl with ⟨h0, rfl⟩ | ⟨hc, rfl, _⟩
    · exact ⟨t, rfl, h0⟩
    · simp only [hl, serve] at h
      split at h
      · cases h
      · split at h
        · cases h
        · simp at h

/-- **The answer of a redirect route**: when `Lookup` selects a redirect target and the gates admit the request,
the client receives the target's code and the Location `Model.C13.answer` states — for every `Upgrade`/`Accept`. -/
theorem handle_redirect_is_answer (scheme : Str) (req : URL) (cands : List (Option RTarget))
    (gate : RTarget → Bool × Bool) (upgrade accept : Str) (t : RTarget) (u : URL)
    (hl : lookup scheme req cands = some (t, some u)) (hg : gate t = (false, true)) :
    some (handle scheme req cands gate upgrade accept) =
      (answer scheme req cands).map (fun a => Served.redirect a.1 a.2) := by
  have hc : t.code ≠ 0 := by
    rcases lookupLoop_shape scheme req cands t (some u) hl with ⟨_, h⟩ | ⟨hc, _, _⟩
    · cases h
    · exact hc
  simp [handle, answer, hl, hg, serve, hc]

/-- the gates come first: a denied request gets 403, an unauthorised one 401, redirect route or not (as coded) -/
theorem gates_precede_redirect (sel : RTarget × Option URL) (upgrade accept : Str) :
    serve (some sel) true true upgrade accept = .forbidden ∧ serve (some sel) false false upgrade accept = .unauthorized := by
  obtain ⟨t, ru⟩ := sel
  simp [serve]

/-- non-vacuity: the seeded change m8's input on the model — a websocket upgrade request to a redirect route -/
example :
    let t : RTarget := { url := { scheme := lit "https", host := lit "$host$path" }, code := 301 }
    let req : URL := { host := lit "a.com", path := lit "/ws" }
    handle (lit "http") req [some t] (fun _ => (false, true)) (lit "WebSocket") [] = .redirect 301 (lit "https://a.com/ws") ∧
    handle (lit "http") req [some t] (fun _ => (false, true)) [] (lit "text/event-stream") = .redirect 301 (lit "https://a.com/ws") ∧
    -- a plain target with the same headers is proxied through the websocket / SSE handler
    handle (lit "http") req [some { t with code := 0 }] (fun _ => (false, true)) (lit "WebSocket") [] = .upstream .websocket ∧
    handle (lit "http") req [some { t with code := 0 }] (fun _ => (false, true)) [] (lit "text/event-stream") = .upstream .sse := by
  decide

/-! ### the `urlprefix-` tag option loop -/

theorem tagStep_ropts (addr : Str) (a : TagCmd) (o : Str) :
    (tagStep addr a o).ropts = a.ropts ++ (passedOn o).toList := by
  unfold tagStep passedOn
  split
  · simp
  · split
    · simp
    · split
      · split <;> simp
      · simp

theorem foldl_tagStep_ropts (addr : Str) (fs : List Str) (a : TagCmd) :
    (fs.foldl (tagStep addr) a).ropts = a.ropts ++ fs.filterMap passedOn := by
  induction fs generalizing a with
  | nil => simp
  | cons o os ih =>
    simp only [List.foldl_cons, ih, tagStep_ropts, List.filterMap_cons]
    cases passedOn o <;> simp

/-- **Every option of the tag is passed on, in order, wherever it stands relative to `redirect=`**: the option
text of the route command is the tag's fields, minus the `proto=`/`weight=` fields the loop consumes and the
malformed `redirect=` fields it skips, with `redirect=<code>,<url>` shortened to `redirect=<code>`. -/
theorem tag_options_passed_on (addr opts : Str) :
    (tagCmd addr opts).ropts = (fields opts).filterMap passedOn := by
  simp [tagCmd, foldl_tagStep_ropts]

theorem tagStep_dst (addr : Str) (a : TagCmd) (o : Str) :
    (tagStep addr a o).dst = (selectsDst addr o).getD a.dst := by
  unfold tagStep selectsDst
  split
  · simp
  · split
    · simp
    · split
      · split <;> simp
      · simp

theorem foldl_tagStep_dst (addr : Str) (fs : List Str) (a : TagCmd) :
    (fs.foldl (tagStep addr) a).dst = ((fs.filterMap (selectsDst addr)).getLast?).getD a.dst := by
  induction fs generalizing a with
  | nil => simp
  | cons o os ih =>
    simp only [List.foldl_cons, ih, tagStep_dst, List.filterMap_cons]
    cases h : selectsDst addr o with
    | none => simp
    | some d =>
      simp only [Option.getD_some]
      cases h2 : (os.filterMap (selectsDst addr)).getLast? with
      | none =>
        have : os.filterMap (selectsDst addr) = [] := by simpa using h2
        simp [this]
      | some e =>
        have hne : os.filterMap (selectsDst addr) ≠ [] := by intro e0; simp [e0] at h2
        simp [List.getLast?_cons_of_ne_nil hne, h2]

/-- **The destination of the route command is the one the last destination-selecting field names** (a
`redirect=<code>,<url>` field selects `<url>`, a `proto=` field the service address with that scheme); without
such a field it is `http://addr/`. -/
theorem tag_destination (addr opts : Str) :
    (tagCmd addr opts).dst = (((fields opts).filterMap (selectsDst addr)).getLast?).getD (lit "http://" ++ addr ++ lit "/") := by
  simp [tagCmd, foldl_tagStep_dst]

/-! `parseOpts`: the last field with a key wins -/

theorem optValue_foldl (key v : Str) (L : List Str) (cur : Str)
    (h : ∀ o ∈ L, (keyVal o).1 = key → (keyVal o).2 = v) :
    L.foldl (fun cur f => if (keyVal f).1 == key then (keyVal f).2 else cur) cur =
      if L.any (fun o => (keyVal o).1 == key) then v else cur := by
  induction L generalizing cur with
  | nil => simp
  | cons o os ih =>
    have ih := ih (cur := if (keyVal o).1 == key then (keyVal o).2 else cur) (fun o' ho' => h o' (by simp [ho']))
    simp only [List.foldl_cons, ih, List.any_cons]
    by_cases hk : (keyVal o).1 = key
    · have hv := h o (by simp) hk
      simp [hk, hv]
    · simp [hk]

/-- **An option of the tag reaches the target whatever its position**: a field `key=v` that the loop passes on
unchanged, the only passed-on field with that key, is read back by `parseOpts` as `v` — before or after
`redirect=`, first or last (`strip=`, `prepend=` in particular). -/
theorem tag_option_reaches_target (addr opts o key v : Str)
    (ho : o ∈ fields opts) (hp : passedOn o = some o) (hk : keyVal o = (key, v))
    (huniq : ∀ o' ∈ (fields opts).filterMap passedOn, (keyVal o').1 = key → o' = o) :
    optValue key (tagCmd addr opts).ropts = v := by
  rw [tag_options_passed_on]
  unfold optValue
  rw [optValue_foldl key v _ []]
  · have : ((fields opts).filterMap passedOn).any (fun o => (keyVal o).1 == key) = true := by
      simp only [List.any_eq_true, beq_iff_eq]
      exact ⟨o, by simp only [List.mem_filterMap]; exact ⟨o, ho, hp⟩, by rw [hk]⟩
    simp [this]
  · intro o' ho' hk'
    rw [huniq o' ho' hk', hk]

/-- non-vacuity (the tags of the documentation and of the seeded change m4): `strip=` written *before*
`redirect=` reaches the target, the code and the URL are the redirect field's -/
example :
    let addr := lit "10.0.0.1:8080"
    tagTarget addr (lit "redirect=301,https://www.example.com$path") =
      { dst := lit "https://www.example.com$path", strip := [], prepend := [], code := 301 } ∧
    tagTarget addr (lit "strip=/old redirect=301,https://new.example.com$path") =
      { dst := lit "https://new.example.com$path", strip := lit "/old", prepend := [], code := 301 } ∧
    tagTarget addr (lit "redirect=302,https://new.example.com$path  prepend=/p strip=/old") =
      { dst := lit "https://new.example.com$path", strip := lit "/old", prepend := lit "/p", code := 302 } ∧
    -- a malformed redirect field is skipped: an ordinary proxied route
    tagTarget addr (lit "strip=/old redirect=301") = { dst := lit "http://10.0.0.1:8080/", strip := lit "/old", prepend := [], code := 0 } ∧
    tagSpec (lit "strip=/old redirect=301,https://new.example.com$path") (lit "/old") [] 301 = true ∧
    -- the seeded change m4 (options before `redirect=` dropped) fails the specification
    tagSpec (lit "strip=/old redirect=301,https://new.example.com$path") [] [] 301 = false := by
  decide

example : fields (lit "  a=1 \t b  c=2\n") = [lit "a=1", lit "b", lit "c=2"] := by decide
example :
    let o := lit "strip=/old"
    o ∈ fields (lit "strip=/old redirect=301,https://x$path") ∧ passedOn o = some o ∧ keyVal o = (lit "strip", lit "/old") := by
  decide

end Fabio.Props.C13Glue
