import Fabio.Generated.C15
/-! C15 — change detectors (HOWTO "Obligations versus change detectors"): the *shape* of `FlagSet.ParseFlags`, which is
sequential, deterministic code whose input/output behaviour the stream `c15.sources` compares with the model on every
run (every flag × every ordered source pair: precedence; mixed-case and `ı`/`ſ` variable names: name folding; duplicate
and decoy entries: last entry wins).  When this module stops building the check claims nothing broken: it runs every
stream at five times the budget with a second seed.  A behaviour-preserving rewrite — `strings.SplitN(e, "=", 2)` +
length check ↔ `strings.Cut`, `strings.Replace(…, -1)` ↔ `strings.ReplaceAll`, the dot replacement hoisted out of the
prefix loop, an inlined single-use local, `if p == nil { return }` ↔ `if p != nil { … }` — therefore ends with exit 0; a
change of behaviour (seeded m1, m2, m5) is for `c15.sources` to expose, and it does, with failing inputs.  Until the
end of round 4 these two statements stood in `C15Facts.lean` as obligations and an independent author's refactoring
(h4) raised a false alarm there. -/
namespace Fabio.Props.C15Pins
open Fabio.Generated.C15

/-- `ParseFlags`: command line first, the environment map, marking what the command line set, and per flag:
skip if set, environment (prefixes in list order), then properties. -/
theorem parse_order :
    parseOrder = ["cmdline", "env-map", "mark-cmdline-set", "skip-if-set", "env", "props"] := by decide

/-- the environment-variable name is `ToUpper(prefix + Replace(name, ".", "_"))`, looked up in a map keyed by
`ToUpper(entry name)` (recognised by callee names and argument literals, not by variable names) -/
theorem env_name_mangling : envNameUpperCased = true ∧ envNameDotsReplaced = true ∧ envKeyUpperCased = true := by decide

end Fabio.Props.C15Pins
