import Fabio.Model.C18
import Fabio.Lemmas.C18
/-!
# C18 — Shutdown drains in-flight work and completes within the configured wait

Statement (properties.jsonl): after shutdown begins no listener accepts new connections, every request or
call already in flight that finishes within the configured wait completes normally, and shutdown itself
returns no later than that wait (plus scheduling slack) whatever work is still open, including a gRPC stream
or TCP tunnel that never ends.

The theorems are about the bookkeeping of `Fabio.Model.C18` (who gets which deadline, who waits for what,
maximum over the servers); that the real servers follow the per-type contracts is measured by the streams
`c18.shutdown` / `c18.process`, and the code shapes the contracts were read from are pinned in `C18Facts`.
-/
namespace Fabio.Props.C18
open Fabio.Model.C18 Fabio.Lemmas.C18

/-! ## 1. Listeners are closed first -/

/-- **listeners_closed_first.** `proxy.Shutdown` at `t0` leaves an empty registry, and every server that was
registered stops accepting at `t0` itself (each type closes its listening sockets before it waits for
anything): no tick `t ≥ t0` at which one of them accepts. As far as the model carries it: a listener started
*after* the swap by somebody else is the subject of `no_listener_reappears` / `refresher_reopens_as_shipped`. -/
theorem listeners_closed_first (g : GrpcContract) (t0 wait : Nat) (reg : Registry) :
    (shutdown g t0 wait reg).registry = [] ∧
    (shutdown g t0 wait reg).closed.map (·.1) = reg.map (·.1) ∧
    ∀ p ∈ (shutdown g t0 wait reg).closed, ∀ t, t0 ≤ t → accepts (some p.2) t = false := by
  refine ⟨rfl, ?_, ?_⟩
  · simp [shutdown, List.map_map, Function.comp_def]
  · intro p hp t ht
    simp only [shutdown, List.mem_map] at hp
    obtain ⟨q, _, rfl⟩ := hp
    simp only [accepts, listenersClosedAt]
    exact decide_eq_false (Nat.not_lt.mpr ht)

/-- With the repaired refresher (it returns once `shuttingDown` is set) nothing re-registers after the exit
handler ran: the registry stays empty for any number of refresher wake-ups and any set of ports. -/
theorem no_listener_reappears (g : GrpcContract) (t0 wait : Nat) (p : Proc) (ports : List String) (n : Nat) :
    (refresherTicks true ports n (exitHandler g t0 wait p).1).registry = [] := by
  have hfix : ∀ q : Proc, q.shuttingDown = true → refresherTick true ports q = q := by
    intro q hq; simp [refresherTick, hq]
  have : ∀ n (q : Proc), q.shuttingDown = true → refresherTicks true ports n q = q := by
    intro n
    induction n with
    | zero => intro q _; rfl
    | succ n ih => intro q hq; simp only [refresherTicks]; rw [hfix q hq]; exact ih q hq
  rw [this n _ rfl]
  rfl

/-- **D30 witness.** A refresher that does not look at `shuttingDown` (main.go as shipped) re-opens a listener
on its first wake-up after `proxy.Shutdown` emptied the registry: the first port of the table is registered
again, and that listener accepts. -/
theorem refresher_reopens_as_shipped (g : GrpcContract) (t0 wait : Nat) (p : Proc) (port : String) (ports : List String) :
    (refresherTick false (port :: ports) (exitHandler g t0 wait p).1).registry ≠ [] := by
  simp only [refresherTick, exitHandler, shutdown, Bool.false_and]
  have grow : ∀ (ps : List String) (reg : Registry), reg ≠ [] →
      ps.foldl (fun reg port =>
          if reg.any (fun q => q.1 == port) then reg
          else reg ++ [(port, Server.single { kind := .tcp, work := [] })]) reg ≠ [] := by
    intro ps
    induction ps with
    | nil => intro reg h; exact h
    | cons x xs ih =>
      intro reg h
      simp only [List.foldl_cons]
      apply ih
      split
      · exact h
      · simp
  simp only [List.foldl_cons, List.any_nil]
  apply grow
  simp

/-! ## 2. Shutdown is bounded by the wait — iff every server type honours its deadline -/

/-- A per-type contract is deadline-bounded when every listener's `Shutdown(ctx)` returns by the deadline
whatever work is open on it. -/
def DeadlineBounded (g : GrpcContract) : Prop :=
  ∀ (t0 wait : Nat) (l : Leaf), tle (leafReturn g t0 wait l) (some (t0 + wait)) = true

/-- The repaired gRPC contract (GracefulStop raced against the context, then Stop) is deadline-bounded, and so
are net/http's and `tcp.Server`'s. -/
theorem repaired_contract_bounded : DeadlineBounded .stopsAtDeadline := by
  intro t0 wait l
  unfold leafReturn
  cases l.kind with
  | http => exact tmin_le_right _ _
  | tcp => exact tle_refl _
  | grpc => exact tmin_le_right _ _

theorem serverReturn_bounded {g : GrpcContract} (h : DeadlineBounded g) (t0 wait : Nat) (s : Server) :
    tle (serverReturn g t0 wait s) (some (t0 + wait)) = true := by
  cases s with
  | single l => exact h t0 wait l
  | multi cs =>
    simp only [serverReturn]
    apply maxReturn_le (Nat.le_add_right _ _)
    intro r hr
    simp only [List.mem_map] at hr
    obtain ⟨l, _, rfl⟩ := hr
    exact h t0 wait l

/-- **shutdown_bounded.** If every server type is deadline-bounded, `proxy.Shutdown(wait)` called at `t0`
returns no later than `t0 + wait`, for every set of servers (single listeners and `https+tcp+sni`
composites), every amount of open work, endless work included. -/
theorem shutdown_bounded {g : GrpcContract} (h : DeadlineBounded g) (t0 wait : Nat) (srvs : List Server) :
    tle (shutdownReturn g t0 wait srvs) (some (t0 + wait)) = true := by
  simp only [shutdownReturn]
  apply maxReturn_le (Nat.le_add_right _ _)
  intro r hr
  simp only [List.mem_map] at hr
  obtain ⟨s, _, rfl⟩ := hr
  exact serverReturn_bounded h t0 wait s

/-- The statement of the property for the tree with the repaired gRPC server. -/
theorem shutdown_bounded_repaired (t0 wait : Nat) (srvs : List Server) :
    ∃ r, shutdownReturn .stopsAtDeadline t0 wait srvs = some r ∧ r ≤ t0 + wait := by
  have h := shutdown_bounded repaired_contract_bounded t0 wait srvs
  cases hr : shutdownReturn .stopsAtDeadline t0 wait srvs with
  | none => rw [hr] at h; simp [tle] at h
  | some r => rw [hr] at h; exact ⟨r, rfl, by simpa [tle] using h⟩

/-- **D22, general form.** With the shipped gRPC contract (`GracefulStop()` only), one endless stream on one
gRPC listener anywhere in the registry makes `proxy.Shutdown` never return, whatever the wait and whatever
else is registered. -/
theorem shipped_grpc_endless_stream_blocks (t0 wait : Nat) (srvs : List Server) (work : List Time)
    (hs : Server.single { kind := .grpc, work := work } ∈ srvs) (hw : none ∈ work) :
    shutdownReturn .ignoresDeadline t0 wait srvs = none := by
  have h1 : serverReturn .ignoresDeadline t0 wait (Server.single { kind := .grpc, work := work }) = none := by
    simp [serverReturn, leafReturn, drain_none hw]
  have h2 := le_maxReturn (t0 := t0) (List.mem_map_of_mem (f := serverReturn .ignoresDeadline t0 wait) hs)
  rw [h1] at h2
  simp only [shutdownReturn]
  cases hm : maxReturn t0 (srvs.map (serverReturn .ignoresDeadline t0 wait)) with
  | none => rfl
  | some d => rw [hm] at h2; simp [tle] at h2

/-- **D22, negation of the bounded statement for the shipped contract**, with the concrete witness replayed by
the corpus of `c18.shutdown` (`{"wait":300,"servers":[{"kind":"grpc","work":[null]}]}`). -/
theorem shipped_contract_not_bounded : ¬ DeadlineBounded .ignoresDeadline := by
  intro h
  have := h 0 300 { kind := .grpc, work := [none] }
  simp [leafReturn, drain, tmax, tle] at this

theorem shipped_shutdown_unbounded :
    ¬ ∀ (t0 wait : Nat) (srvs : List Server),
        tle (shutdownReturn .ignoresDeadline t0 wait srvs) (some (t0 + wait)) = true := by
  intro h
  have := h 0 300 [Server.single { kind := .grpc, work := [none] }]
  simp [shutdownReturn, serverReturn, leafReturn, maxReturn, drain, tmax, tle] at this

/-! ## 3. Work that ends within the wait completes, and shutdown waits for it -/

/-- **inflight_completes_if_within_wait.** A request, tunnel or stream whose natural end is no later than
`t0 + wait` is `completed`, on every listener type and under either gRPC contract: shutdown itself never
cuts it. -/
theorem inflight_completes_if_within_wait (g : GrpcContract) (t0 wait : Nat) (k : Kind) (e : Time)
    (h : tle e (some (t0 + wait)) = true) : fate g t0 wait k e = .completed := by
  simp [fate, h]

/-- Conversely the only work ever cut is work that was still open at the deadline. -/
theorem cut_only_after_deadline (g : GrpcContract) (t0 wait : Nat) (k : Kind) (e : Time)
    (h : fate g t0 wait k e = .cut) : tle e (some (t0 + wait)) = false := by
  cases hle : tle e (some (t0 + wait)) with
  | false => rfl
  | true => simp [fate, hle] at h

/-- A listener's `Shutdown` does not return before work that ends within the wait has ended (it drains). -/
theorem leaf_waits_for_work_within_wait (g : GrpcContract) (t0 wait : Nat) (l : Leaf) (e : Time)
    (he : e ∈ l.work) (h : tle e (some (t0 + wait)) = true) : tle e (leafReturn g t0 wait l) = true := by
  unfold leafReturn
  cases l.kind with
  | http => exact le_tmin (le_drain he) h
  | tcp => exact h
  | grpc =>
    cases g with
    | ignoresDeadline => exact le_drain he
    | stopsAtDeadline => exact le_tmin (le_drain he) h

/-- **shutdown_drains.** `proxy.Shutdown` as a whole does not return before any in-flight work that ends
within the wait has ended — on any registered server, single or composite. -/
theorem shutdown_drains (g : GrpcContract) (t0 wait : Nat) (srvs : List Server) (s : Server) (l : Leaf) (e : Time)
    (hs : s ∈ srvs) (hl : l ∈ s.leaves) (he : e ∈ l.work) (h : tle e (some (t0 + wait)) = true) :
    tle e (shutdownReturn g t0 wait srvs) = true := by
  have h1 := leaf_waits_for_work_within_wait g t0 wait l e he h
  have h2 : tle (leafReturn g t0 wait l) (serverReturn g t0 wait s) = true := by
    cases s with
    | single l' =>
      simp only [Server.leaves, List.mem_singleton] at hl
      subst hl
      exact tle_refl _
    | multi cs =>
      simp only [Server.leaves] at hl
      exact le_maxReturn (List.mem_map_of_mem (f := leafReturn g t0 wait) hl)
  have h3 : tle (serverReturn g t0 wait s) (shutdownReturn g t0 wait srvs) = true :=
    le_maxReturn (List.mem_map_of_mem (f := serverReturn g t0 wait) hs)
  exact tle_trans h1 (tle_trans h2 h3)

/-! ## 4. The fan-out returns at the maximum, whatever the map iteration order -/

/-- **fanout_max.** `proxy.Shutdown` returns (a) no earlier than any server, (b) exactly when one of them
returns (or at `t0` when nothing later), and (c) at the same tick for every order in which the registry map
is iterated. -/
theorem fanout_max (g : GrpcContract) (t0 wait : Nat) (srvs : List Server) :
    (∀ s ∈ srvs, tle (serverReturn g t0 wait s) (shutdownReturn g t0 wait srvs) = true) ∧
    (shutdownReturn g t0 wait srvs = some t0 ∨
      ∃ s ∈ srvs, shutdownReturn g t0 wait srvs = serverReturn g t0 wait s) ∧
    (∀ srvs', srvs.Perm srvs' → shutdownReturn g t0 wait srvs' = shutdownReturn g t0 wait srvs) := by
  refine ⟨?_, ?_, ?_⟩
  · intro s hs
    exact le_maxReturn (List.mem_map_of_mem (f := serverReturn g t0 wait) hs)
  · cases maxReturn_attained t0 (srvs.map (serverReturn g t0 wait)) with
    | inl h => left; exact h
    | inr h =>
      right
      simp only [List.mem_map] at h
      obtain ⟨s, hs, he⟩ := h
      exact ⟨s, hs, he.symm⟩
  · intro srvs' hp
    exact (maxReturn_perm (hp.map _)).symm

/-- `tcp.Server.Shutdown` waits for its context even with no connection open: a registry that contains any
tcp listener makes `proxy.Shutdown` take exactly the whole wait (bounded contract). -/
theorem tcp_listener_takes_the_whole_wait {g : GrpcContract} (hb : DeadlineBounded g) (t0 wait : Nat)
    (srvs : List Server) (work : List Time) (hs : Server.single { kind := .tcp, work := work } ∈ srvs) :
    shutdownReturn g t0 wait srvs = some (t0 + wait) := by
  have hub := shutdown_bounded hb t0 wait srvs
  have hlb := (fanout_max g t0 wait srvs).1 _ hs
  simp only [serverReturn, leafReturn] at hlb
  cases hr : shutdownReturn g t0 wait srvs with
  | none => rw [hr] at hub; simp [tle] at hub
  | some r =>
    rw [hr] at hub hlb
    simp [tle] at hub hlb
    congr 1
    omega

/-! ## 5. The assumption behind "no later than the wait": the registry lock is free

`shutdown_bounded` counts from the tick at which `Shutdown` has the registry lock. Counted from the *call*, the
bound needs the stated assumption that nobody holds `mu` beyond O(1) bookkeeping (`heldUntil ≤ called`). -/

/-- **shutdown_bounded_from_call.** Lock held for bookkeeping only ⇒ `proxy.Shutdown(wait)` returns no later
than `wait` after it was *called*, and the listeners are closed at the call tick. -/
theorem shutdown_bounded_from_call {g : GrpcContract} (h : DeadlineBounded g) (called heldUntil wait : Nat)
    (hlock : heldUntil ≤ called) (srvs : List Server) :
    tle (shutdownCalled g called heldUntil wait srvs) (some (called + wait)) = true ∧
    lockAcquired called heldUntil = called := by
  have hl : lockAcquired called heldUntil = called := by simp [lockAcquired]; omega
  refine ⟨?_, hl⟩
  simp only [shutdownCalled, hl]
  exact shutdown_bounded h called wait srvs

/-- Without the assumption the statement is false: somebody who keeps the lock for `d` more ticks (say a
`CloseProxy` that drains a listener for 10 s under `mu`) delays everything by `d` — with any tcp listener
registered `Shutdown` returns exactly `d` ticks late, and until then no listener has been closed. -/
theorem lock_held_delays_shutdown {g : GrpcContract} (h : DeadlineBounded g) (called d wait : Nat) (hd : 0 < d)
    (srvs : List Server) (work : List Time) (hs : Server.single { kind := .tcp, work := work } ∈ srvs) :
    shutdownCalled g called (called + d) wait srvs = some (called + d + wait) ∧
    tle (shutdownCalled g called (called + d) wait srvs) (some (called + wait)) = false ∧
    (∀ p ∈ (shutdown g (lockAcquired called (called + d)) wait (srvs.map (fun s => ("", s)))).closed,
        ∀ t, t < called + d → accepts (some p.2) t = true) := by
  have hl : lockAcquired called (called + d) = called + d := by simp [lockAcquired]
  have hr := tcp_listener_takes_the_whole_wait h (called + d) wait srvs work hs
  refine ⟨by simpa [shutdownCalled, hl] using hr, ?_, ?_⟩
  · simp only [shutdownCalled, hl, hr, tle]
    simp; omega
  · intro p hp t ht
    simp only [shutdown, hl, List.mem_map] at hp
    obtain ⟨q, _, rfl⟩ := hp
    simp [accepts, listenersClosedAt, ht]

/-- A server removed by `CloseProxy` before the shutdown no longer takes part in it. -/
theorem closed_proxy_not_waited_for (g : GrpcContract) (t0 wait : Nat) (addr : String) (reg : Registry) :
    ∀ p ∈ (shutdown g t0 wait (closeProxy addr reg)).returns, p.1 ≠ addr := by
  intro p hp
  simp only [shutdown, closeProxy, List.mem_map, List.mem_filter] at hp
  obtain ⟨q, ⟨_, hq⟩, rfl⟩ := hp
  simpa using hq

/-! ## Non-vacuity -/

/-- a mixed registry: http with a short and an endless request, a tcp tunnel that never ends, a gRPC server
with an endless stream, and the https+tcp+sni composite -/
def exampleServers : List Server :=
  [ .single { kind := .http, work := [some 120, none] },
    .single { kind := .tcp, work := [none] },
    .single { kind := .grpc, work := [none, some 130] },
    .multi [{ kind := .tcp, work := [some 110] }, { kind := .http, work := [some 5000] }] ]

example : shutdownReturn .stopsAtDeadline 100 600 exampleServers = some 700 := by decide
example : shutdownReturn .ignoresDeadline 100 600 exampleServers = none := by decide
example : shutdownReturn .stopsAtDeadline 100 600 exampleServers.reverse = some 700 := by decide
-- only short work and no tcp listener: returns early, at the end of the last piece of work
example : shutdownReturn .stopsAtDeadline 100 600
    [.single { kind := .http, work := [some 120] }, .single { kind := .grpc, work := [some 130] }] = some 130 := by decide
-- hypotheses of `shutdown_drains` / `inflight_completes_if_within_wait` on a non-trivial value
example : tle (some 130) (shutdownReturn .stopsAtDeadline 100 600 exampleServers) = true := by decide
example : fate .stopsAtDeadline 100 600 .grpc (some 130) = .completed ∧ fate .stopsAtDeadline 100 600 .grpc none = .cut ∧
          fate .ignoresDeadline 100 600 .grpc none = .stillOpen ∧ fate .stopsAtDeadline 100 600 .tcp none = .cut ∧
          fate .stopsAtDeadline 100 600 .http (some 5000) = .stillOpen := by decide
-- `listeners_closed_first`, `no_listener_reappears`, `refresher_reopens_as_shipped` on a non-empty registry
example : (shutdown .stopsAtDeadline 100 600 [(":80", .single { kind := .http, work := [none] })]).closed = [(":80", 100)] := by decide
example : (refresherTick false [":7000"] (exitHandler .stopsAtDeadline 100 600
    { registry := [(":7000", .single { kind := .tcp, work := [none] })], shuttingDown := false }).1).registry.length = 1 := by decide
example : (refresherTicks true [":7000"] 3 (exitHandler .stopsAtDeadline 100 600
    { registry := [(":7000", .single { kind := .tcp, work := [none] })], shuttingDown := false }).1).registry = [] := by decide
example : DeadlineBounded .stopsAtDeadline := repaired_contract_bounded
-- the lock assumption: free lock ⇒ bounded from the call; a 10 000-tick hold ⇒ 10 000 ticks late
example : shutdownCalled .stopsAtDeadline 100 100 600 exampleServers = some 700 := by decide
example : shutdownCalled .stopsAtDeadline 100 10100 600 exampleServers = some 10700 := by decide
example : (closeProxy ":7000" [(":7000", .single { kind := .tcp, work := [none] }), (":80", .single { kind := .http, work := [] })]).length = 1 := by decide

end Fabio.Props.C18
