import Fabio.Model.C18
import Fabio.Lemmas.C18
/-!
# C18 — Shutdown drains in-flight work and completes within the configured wait

Statement (properties.jsonl): after shutdown begins no listener accepts new connections, every request or
call already in flight that finishes within the configured wait completes normally, and shutdown itself
returns no later than that wait (plus scheduling slack) whatever work is still open, including a gRPC stream
or TCP tunnel that never ends.

The theorems are about the bookkeeping of `Fabio.Model.C18` (who gets which deadline, who waits for what,
maximum over the servers); that the real servers follow the per-type contracts is measured by the streams
`c18.shutdown` / `c18.process`, and the code shapes the contracts were read from are pinned in `C18Facts`.
-/
namespace Fabio.Props.C18
open Fabio.Model.C18 Fabio.Lemmas.C18

/-! ## 1. Listeners are closed first -/

/-- **listeners_closed_first.** `proxy.Shutdown` at `t0` leaves an empty registry, and every server that was
registered stops accepting at `t0` itself (each type closes its listening sockets before it waits for
anything): no tick `t ≥ t0` at which one of them accepts. As far as the model carries it: a listener started
*after* the swap by somebody else is the subject of `no_listener_reappears` / `refresher_reopens_as_shipped`. -/
theorem listeners_closed_first (g : GrpcContract) (t0 wait : Nat) (reg : Registry) :
    (shutdown g t0 wait reg).registry = [] ∧
    (shutdown g t0 wait reg).closed.map (·.1) = reg.map (·.1) ∧
    ∀ p ∈ (shutdown g t0 wait reg).closed, ∀ t, t0 ≤ t → accepts (some p.2) t = false := by
  refine ⟨rfl, ?_, ?_⟩
  · simp [shutdown, List.map_map, Function.comp_def]
  · intro p hp t ht
    simp only [shutdown, List.mem_map] at hp
    obtain ⟨q, _, rfl⟩ := hp
    simp only [accepts, listenersClosedAt]
    exact decide_eq_false (Nat.not_lt.mpr ht)

/-- With the repaired refresher (it returns once `shuttingDown` is set) nothing re-registers after the exit
handler ran: the registry stays empty for any number of refresher wake-ups and any set of ports. -/
theorem no_listener_reappears (g : GrpcContract) (t0 wait : Nat) (p : Proc) (ports : List String) (n : Nat) :
    (refresherTicks true ports n (exitHandler g t0 wait p).1).registry = [] := by
  have hfix : ∀ q : Proc, q.shuttingDown = true → refresherTick true ports q = q := by
    intro q hq; simp [refresherTick, hq]
  have : ∀ n (q : Proc), q.shuttingDown = true → refresherTicks true ports n q = q := by
    intro n
    induction n with
    | zero => intro q _; rfl
    | succ n ih => intro q hq; simp only [refresherTicks]; rw [hfix q hq]; exact ih q hq
  rw [this n _ rfl]
  rfl

/-- **D30 witness.** A refresher that does not look at `shuttingDown` (main.go as shipped) re-opens a listener
on its first wake-up after `proxy.Shutdown` emptied the registry: the first port of the table is registered
again, and that listener accepts. -/
theorem refresher_reopens_as_shipped (g : GrpcContract) (t0 wait : Nat) (p : Proc) (port : String) (ports : List String) :
    (refresherTick false (port :: ports) (exitHandler g t0 wait p).1).registry ≠ [] := by
  simp only [refresherTick, exitHandler, shutdown, Bool.false_and]
  have grow : ∀ (ps : List String) (reg : Registry), reg ≠ [] →
      ps.foldl (fun reg port =>
          if reg.any (fun q => q.1 == port) then reg
          else reg ++ [(port, Server.single { kind := .tcp, work := [] })]) reg ≠ [] := by
    intro ps
    induction ps with
    | nil => intro reg h; exact h
    | cons x xs ih =>
      intro reg h
      simp only [List.foldl_cons]
      apply ih
      split
      · exact h
      · simp
  simp only [List.foldl_cons, List.any_nil]
  apply grow
  simp

/-! ## 2. Shutdown is bounded by the wait — iff every server type honours its deadline -/

/-- A per-type contract is deadline-bounded when every listener's `Shutdown(ctx)` returns by the deadline
whatever work is open on it. -/
def DeadlineBounded (g : GrpcContract) : Prop :=
  ∀ (t0 wait : Nat) (l : Leaf), tle (leafReturn g t0 wait l) (some (t0 + wait)) = true

/-- The repaired gRPC contract (GracefulStop raced against the context, then Stop) is deadline-bounded, and so
are net/http's and `tcp.Server`'s. -/
theorem repaired_contract_bounded : DeadlineBounded .stopsAtDeadline := by
  intro t0 wait l
  unfold leafReturn
  cases l.kind with
  | http => exact tmin_le_right _ _
  | tcp => exact tle_refl _
  | grpc => exact tmin_le_right _ _

theorem serverReturn_bounded {g : GrpcContract} (h : DeadlineBounded g) (t0 wait : Nat) (s : Server) :
    tle (serverReturn g t0 wait s) (some (t0 + wait)) = true := by
  cases s with
  | single l => exact h t0 wait l
  | multi cs =>
    simp only [serverReturn]
    apply maxReturn_le (Nat.le_add_right _ _)
    intro r hr
    simp only [List.mem_map] at hr
    obtain ⟨l, _, rfl⟩ := hr
    exact h t0 wait l

/-- **shutdown_bounded.** If every server type is deadline-bounded, `proxy.Shutdown(wait)` called at `t0`
returns no later than `t0 + wait`, for every set of servers (single listeners and `https+tcp+sni`
composites), every amount of open work, endless work included. -/
theorem shutdown_bounded {g : GrpcContract} (h : DeadlineBounded g) (t0 wait : Nat) (srvs : List Server) :
    tle (shutdownReturn g t0 wait srvs) (some (t0 + wait)) = true := by
  simp only [shutdownReturn]
  apply maxReturn_le (Nat.le_add_right _ _)
  intro r hr
  simp only [List.mem_map] at hr
  obtain ⟨s, _, rfl⟩ := hr
  exact serverReturn_bounded h t0 wait s

/-- The statement of the property for the tree with the repaired gRPC server. -/
theorem shutdown_bounded_repaired (t0 wait : Nat) (srvs : List Server) :
    ∃ r, shutdownReturn .stopsAtDeadline t0 wait srvs = some r ∧ r ≤ t0 + wait := by
  have h := shutdown_bounded repaired_contract_bounded t0 wait srvs
  cases hr : shutdownReturn .stopsAtDeadline t0 wait srvs with
  | none => rw [hr] at h; simp [tle] at h
  | some r => rw [hr] at h; exact ⟨r, rfl, by simpa [tle] using h⟩

/-- **D22, general form.** With the shipped gRPC contract (`GracefulStop()` only), one endless stream on one
gRPC listener anywhere in the registry makes `proxy.Shutdown` never return, whatever the wait and whatever
else is registered. -/
theorem shipped_grpc_endless_stream_blocks (t0 wait : Nat) (srvs : List Server) (work : List Time)
    (hs : Server.single { kind := .grpc, work := work } ∈ srvs) (hw : none ∈ work) :
    shutdownReturn .ignoresDeadline t0 wait srvs = none := by
  have h1 : serverReturn .ignoresDeadline t0 wait (Server.single { kind := .grpc, work := work }) = none := by
    simp [serverReturn, leafReturn, drain_none hw]
  have h2 := le_maxReturn (t0 := t0) (List.mem_map_of_mem (f := serverReturn .ignoresDeadline t0 wait) hs)
  rw [h1] at h2
  simp only [shutdownReturn]
  cases hm : maxReturn t0 (srvs.map (serverReturn .ignoresDeadline t0 wait)) with
  | none => rfl
  | some d => rw [hm] at h2; simp [tle] at h2

/-- **D22, negation of the bounded statement for the shipped contract**, with the concrete witness replayed by
the corpus of `c18.shutdown` (`{"wait":300,"servers":[{"kind":"grpc","work":[null]}]}`). -/
theorem shipped_contract_not_bounded : ¬ DeadlineBounded .ignoresDeadline := by
  intro h
  have := h 0 300 { kind := .grpc, work := [none] }
  simp [leafReturn, drain, tmax, tle] at this

theorem shipped_shutdown_unbounded :
    ¬ ∀ (t0 wait : Nat) (srvs : List Server),
        tle (shutdownReturn .ignoresDeadline t0 wait srvs) (some (t0 + wait)) = true := by
  intro h
  have := h 0 300 [Server.single { kind := .grpc, work := [none] }]
  simp [shutdownReturn, serverReturn, leafReturn, maxReturn, drain, tmax, tle] at this

/-! ## 3. Work that ends within the wait completes, and shutdown waits for it -/

/-- **inflight_completes_if_within_wait.** A request, tunnel or stream whose natural end is no later than
`t0 + wait` is `completed`, on every listener type and under either gRPC contract: shutdown itself never
cuts it. -/
theorem inflight_completes_if_within_wait (g : GrpcContract) (t0 wait : Nat) (k : Kind) (e : Time)
    (h : tle e (some (t0 + wait)) = true) : fate g t0 wait k e = .completed := by
  simp [fate, h]

/-- Conversely the only work ever cut is work that was still open at the deadline. -/
theorem cut_only_after_deadline (g : GrpcContract) (t0 wait : Nat) (k : Kind) (e : Time)
    (h : fate g t0 wait k e = .cut) : tle e (some (t0 + wait)) = false := by
  cases hle : tle e (some (t0 + wait)) with
  | false => rfl
  | true => simp [fate, hle] at h

/-- A listener's `Shutdown` does not return before work that ends within the wait has ended (it drains). -/
theorem leaf_waits_for_work_within_wait (g : GrpcContract) (t0 wait : Nat) (l : Leaf) (e : Time)
    (he : e ∈ l.work) (h : tle e (some (t0 + wait)) = true) : tle e (leafReturn g t0 wait l) = true := by
  unfold leafReturn
  cases l.kind with
  | http => exact le_tmin (le_drain he) h
  | tcp => exact h
  | grpc =>
    cases g with
    | ignoresDeadline => exact le_drain he
    | stopsAtDeadline => exact le_tmin (le_drain he) h

/-- **shutdown_drains.** `proxy.Shutdown` as a whole does not return before any in-flight work that ends
within the wait has ended — on any registered server, single or composite. -/
theorem shutdown_drains (g : GrpcContract) (t0 wait : Nat) (srvs : List Server) (s : Server) (l : Leaf) (e : Time)
    (hs : s ∈ srvs) (hl : l ∈ s.leaves) (he : e ∈ l.work) (h : tle e (some (t0 + wait)) = true) :
    tle e (shutdownReturn g t0 wait srvs) = true := by
  have h1 := leaf_waits_for_work_within_wait g t0 wait l e he h
  have h2 : tle (leafReturn g t0 wait l) (serverReturn g t0 wait s) = true := by
    cases s with
    | single l' =>
      simp only [Server.leaves, List.mem_singleton] at hl
      subst hl
      exact tle_refl _
    | multi cs =>
      simp only [Server.leaves] at hl
      exact le_maxReturn (List.mem_map_of_mem (f := leafReturn g t0 wait) hl)
  have h3 : tle (serverReturn g t0 wait s) (shutdownReturn g t0 wait srvs) = true :=
    le_maxReturn (List.mem_map_of_mem (f := serverReturn g t0 wait) hs)
  exact tle_trans h1 (tle_trans h2 h3)

/-! ## 4. The fan-out returns at the maximum, whatever the map iteration order -/

/-- **fanout_max.** `proxy.Shutdown` returns (a) no earlier than any server, (b) exactly when one of them
returns (or at `t0` when nothing later), and (c) at the same tick for every order in which the registry map
is iterated. -/
theorem fanout_max (g : GrpcContract) (t0 wait : Nat) (srvs : List Server) :
    (∀ s ∈ srvs, tle (serverReturn g t0 wait s) (shutdownReturn g t0 wait srvs) = true) ∧
    (shutdownReturn g t0 wait srvs = some t0 ∨
      ∃ s ∈ srvs, shutdownReturn g t0 wait srvs = serverReturn g t0 wait s) ∧
    (∀ srvs', srvs.Perm srvs' → shutdownReturn g t0 wait srvs' = shutdownReturn g t0 wait srvs) := by
  refine ⟨?_, ?_, ?_⟩
  · intro s hs
    exact le_maxReturn (List.mem_map_of_mem (f := serverReturn g t0 wait) hs)
  · cases maxReturn_attained t0 (srvs.map (serverReturn g t0 wait)) with
    | inl h => left; exact h
    | inr h =>
      right
      simp only [List.mem_map] at h
      obtain ⟨s, hs, he⟩ := h
      exact ⟨s, hs, he.symm⟩
  · intro srvs' hp
    exact (maxReturn_perm (hp.map _)).symm

/-- `tcp.Server.Shutdown` waits for its context even with no connection open: a registry that contains any
tcp listener makes `proxy.Shutdown` take exactly the whole wait (bounded contract). -/
theorem tcp_listener_takes_the_whole_wait {g : GrpcContract} (hb : DeadlineBounded g) (t0 wait : Nat)
    (srvs : List Server) (work : List Time) (hs : Server.single { kind := .tcp, work := work } ∈ srvs) :
    shutdownReturn g t0 wait srvs = some (t0 + wait) := by
  have hub := shutdown_bounded hb t0 wait srvs
  have hlb := (fanout_max g t0 wait srvs).1 _ hs
  simp only [serverReturn, leafReturn] at hlb
  cases hr : shutdownReturn g t0 wait srvs with
  | none => rw [hr] at hub; simp [tle] at hub
  | some r =>
    rw [hr] at hub hlb
    simp [tle] at hub hlb
    congr 1
    omega

/-! ## 5. The assumption behind "no later than the wait": the registry lock is free

`shutdown_bounded` counts from the tick at which `Shutdown` has the registry lock. Counted from the *call*, the
bound needs the stated assumption that nobody holds `mu` beyond O(1) bookkeeping (`heldUntil ≤ called`). -/

/-- **shutdown_bounded_from_call.** Lock held for bookkeeping only ⇒ `proxy.Shutdown(wait)` returns no later
than `wait` after it was *called*, and the listeners are closed at the call tick. -/
theorem shutdown_bounded_from_call {g : GrpcContract} (h : DeadlineBounded g) (called heldUntil wait : Nat)
    (hlock : heldUntil ≤ called) (srvs : List Server) :
    tle (shutdownCalled g called heldUntil wait srvs) (some (called + wait)) = true ∧
    lockAcquired called heldUntil = called := by
  have hl : lockAcquired called heldUntil = called := by simp [lockAcquired]; omega
  refine ⟨?_, hl⟩
  simp only [shutdownCalled, hl]
  exact shutdown_bounded h called wait srvs

/-- Without the assumption the statement is false: somebody who keeps the lock for `d` more ticks (say a
`CloseProxy` that drains a listener for 10 s under `mu`) delays everything by `d` — with any tcp listener
registered `Shutdown` returns exactly `d` ticks late, and until then no listener has been closed. -/
theorem lock_held_delays_shutdown {g : GrpcContract} (h : DeadlineBounded g) (called d wait : Nat) (hd : 0 < d)
    (srvs : List Server) (work : List Time) (hs : Server.single { kind := .tcp, work := work } ∈ srvs) :
    shutdownCalled g called (called + d) wait srvs = some (called + d + wait) ∧
    tle (shutdownCalled g called (called + d) wait srvs) (some (called + wait)) = false ∧
    (∀ p ∈ (shutdown g (lockAcquired called (called + d)) wait (srvs.map (fun s => ("", s)))).closed,
        ∀ t, t < called + d → accepts (some p.2) t = true) := by
  have hl : lockAcquired called (called + d) = called + d := by simp [lockAcquired]
  have hr := tcp_listener_takes_the_whole_wait h (called + d) wait srvs work hs
  refine ⟨by simpa [shutdownCalled, hl] using hr, ?_, ?_⟩
  · simp only [shutdownCalled, hl, hr, tle]
    simp; omega
  · intro p hp t ht
    simp only [shutdown, hl, List.mem_map] at hp
    obtain ⟨q, _, rfl⟩ := hp
    simp [accepts, listenersClosedAt, ht]

/-- A server removed by `CloseProxy` before the shutdown no longer takes part in it. -/
theorem closed_proxy_not_waited_for (g : GrpcContract) (t0 wait : Nat) (addr : String) (reg : Registry) :
    ∀ p ∈ (shutdown g t0 wait (closeProxy addr reg)).returns, p.1 ≠ addr := by
  intro p hp
  simp only [shutdown, closeProxy, List.mem_map, List.mem_filter] at hp
  obtain ⟨q, ⟨_, hq⟩, rfl⟩ := hp
  simpa using hq

/-! ## 6. Listeners that are being started while shutdown begins

Sentence 1 of the property ("after shutdown begins no listener accepts new connections") is about every listener
the process has or gets, not only about the ones in the snapshot. `listeners_closed_first` covers the snapshot. A
`ListenAndServe*` call registers either before the snapshot (then it is in it), or never (its address was busy: the one
bind failed), or afterwards — and then nothing closes it. -/

/-- a busy address yields an error and leaves the registry alone: no server exists, now or later -/
theorem busy_address_never_registers (addr : String) (srv : Server) (reg : Registry) :
    listenAndServe true addr srv reg = (reg, .bindError) := rfl

/-- a free address registers at once -/
theorem free_address_registers (addr : String) (srv : Server) (reg : Registry) :
    listenAndServe false addr srv reg = (reg ++ [(addr, srv)], .registered) := rfl

/-- every start that had registered by `t0` is in the snapshot `proxy.Shutdown` works on (and so is closed at `t0`
by `listeners_closed_first`), in the order of the starts -/
theorem snapshot_covers_registered (t0 : Nat) (starts : List Start) (s : Start) (r : Nat)
    (hs : s ∈ starts) (hr : s.registersAt = some r) (hle : r ≤ t0) : (s.addr, s.srv) ∈ snapshot t0 starts := by
  simp only [snapshot, List.mem_filterMap]
  exact ⟨s, hs, by simp [hr, hle]⟩

/-- **no_accept_after_shutdown_begins_partial.** Full statement (false — `late_registration_keeps_accepting`):
for every list of starts, no start accepts at any tick `t ≥ t0`. Forced hypothesis `h`: no start registers after
`t0`. It is tied to the source by `C18Facts.listen_path_does_not_wait` (one bind, no wait, no retry between the call
and the registration), `refresher_stops_on_shutdown` / `no_listener_reappears` (the only caller that starts
listeners at run time stops once shutdown has begun), and measured by the stream class `listener-start-pending`. -/
theorem no_accept_after_shutdown_begins_partial (t0 : Nat) (starts : List Start)
    (h : ∀ s ∈ starts, ∀ r, s.registersAt = some r → r ≤ t0) :
    ∀ s ∈ starts, ∀ t, t0 ≤ t → startAccepts t0 s t = false := by
  intro s hs t ht
  unfold startAccepts
  cases hr : s.registersAt with
  | none => rfl
  | some r =>
    have := h s hs r hr
    simp only [this, if_true, decide_eq_false_iff_not, not_and, Nat.not_lt]
    intro _; exact ht

/-- **Negation of the full statement, with witness.** A start that registers after the snapshot is not in it and
accepts from then on, for ever: it sits in the fresh registry, which nothing shuts down. Concrete witness (replayed
by `corpus/c18.shutdown.jsonl`, class `listener-started-after-shutdown-began`): shutdown at tick 1, registration at
tick 81. -/
theorem late_registration_keeps_accepting (t0 r : Nat) (hr : t0 < r) (s : Start) (hs : s.registersAt = some r) :
    snapshot t0 [s] = [] ∧ ∀ t, r ≤ t → startAccepts t0 s t = true := by
  have hn : ¬ r ≤ t0 := Nat.not_le.mpr hr
  refine ⟨by simp [snapshot, hs, hn], ?_⟩
  intro t ht
  simp [startAccepts, hs, hn, ht]

theorem no_accept_full_statement_fails :
    ¬ ∀ (t0 : Nat) (starts : List Start), ∀ s ∈ starts, ∀ t, t0 ≤ t → startAccepts t0 s t = false := by
  intro h
  have := h 1 [{ addr := ":80", srv := .single { kind := .http, work := [] }, registersAt := some 81 }] _
    (List.mem_singleton.mpr rfl) 100 (by decide)
  simp [startAccepts] at this

/-! ### main.go's own starters: the hypothesis discharged -/

/-- every start the repaired refresher makes registered before the flag was set -/
theorem refresher_starts_before_flag (flagAt : Nat) (wakeUps : List (Nat × List String)) :
    ∀ s ∈ refresherStarts true flagAt wakeUps, ∀ r, s.registersAt = some r → r < flagAt := by
  intro s hs r hr
  simp only [refresherStarts, List.mem_flatMap] at hs
  obtain ⟨w, _, hw⟩ := hs
  unfold wakeUpStarts at hw
  by_cases hle : flagAt ≤ w.1
  · simp [hle] at hw
  · simp only [Bool.true_and, hle, decide_false, Bool.false_eq_true, if_false, List.mem_map] at hw
    obtain ⟨p, _, rfl⟩ := hw
    simp only [Option.some.injEq] at hr
    omega

/-- **main_no_listener_accepts_after_shutdown.** Sentence 1 for the process as main.go wires it — the hypothesis of
`no_accept_after_shutdown_begins_partial` discharged for main's own starters: the listeners of `startServers` that
came up did so before the signal (`hup`: registered by `flagAt`; the others never exist), the repaired refresher
wakes up at arbitrary ticks with arbitrary free ports, the exit handler sets the flag at `flagAt` and `proxy.Shutdown`
takes its snapshot at `t0 ≥ flagAt`. Then at no tick `t ≥ t0` does any listener the process ever started accept. -/
theorem main_no_listener_accepts_after_shutdown (flagAt t0 : Nat) (hft : flagAt ≤ t0)
    (cfg : List (String × Server × Option Nat)) (hup : ∀ c ∈ cfg, ∀ r, c.2.2 = some r → r ≤ flagAt)
    (wakeUps : List (Nat × List String)) :
    ∀ s ∈ startupStarts cfg ++ refresherStarts true flagAt wakeUps, ∀ t, t0 ≤ t → startAccepts t0 s t = false := by
  apply no_accept_after_shutdown_begins_partial
  intro s hs r hr
  simp only [List.mem_append] at hs
  cases hs with
  | inl h =>
    simp only [startupStarts, List.mem_map] at h
    obtain ⟨c, hc, rfl⟩ := h
    exact Nat.le_trans (hup c hc r hr) hft
  | inr h =>
    have := refresher_starts_before_flag flagAt wakeUps s h r hr
    omega

/-- **D30 at the level of starts**: the refresher as shipped (it never looks at the flag) makes a start after the
snapshot on its first wake-up past `t0` with a free port, and that listener accepts from then on. -/
theorem shipped_refresher_start_accepts (flagAt t0 tick : Nat) (htk : t0 < tick) (port : String)
    (ports : List String) :
    ∃ s ∈ refresherStarts false flagAt [(tick, port :: ports)], ∀ t, tick ≤ t → startAccepts t0 s t = true := by
  refine ⟨{ addr := port, srv := .single { kind := .tcp, work := [] }, registersAt := some tick }, ?_, ?_⟩
  · simp [refresherStarts, wakeUpStarts]
  · exact (late_registration_keeps_accepting t0 tick htk _ rfl).2

/-! ## 7. Websocket sessions (hijacked connections) and the end of the process

`http.Server.Shutdown` does not know hijacked connections: it neither waits for them nor closes them, so the
servers' fan-out (`shutdownReturn`) is blind to them (`hijacked_not_in_fanout`). In-process nobody cuts such a
session — but the process ends when the exit handler returns, and that cuts whatever is open. `proxy.Shutdown` as a
whole is `shutdownAll`: the fan-out joined with the wait for the websocket sessions (`WsContract`). -/

/-- hijacked sessions do not delay a listener's own `Shutdown` at all -/
theorem hijacked_not_in_fanout (g : GrpcContract) (t0 wait : Nat) (k : Kind) (work hj : List Time) :
    leafReturn g t0 wait { kind := k, work := work, hijacked := hj } =
    leafReturn g t0 wait { kind := k, work := work } := by
  unfold leafReturn; rfl

theorem wsReturn_bounded (w : WsContract) (t0 wait : Nat) (hj : List Time) :
    tle (wsReturn w t0 wait hj) (some (t0 + wait)) = true := by
  cases w with
  | notWaitedFor => simp [wsReturn, tle]
  | waitedFor => exact tmin_le_right _ _

/-- **shutdown_all_bounded.** `proxy.Shutdown` as a whole — servers and websocket sessions — returns no later than
`t0 + wait`, under either websocket contract, whatever is open (endless sessions included). -/
theorem shutdown_all_bounded (w : WsContract) {g : GrpcContract} (h : DeadlineBounded g) (t0 wait : Nat)
    (srvs : List Server) : tle (shutdownAll w g t0 wait srvs) (some (t0 + wait)) = true :=
  tmax_le (shutdown_bounded h t0 wait srvs) (wsReturn_bounded w t0 wait _)

theorem mem_allHijacked {srvs : List Server} {sv : Server} {l : Leaf} {e : Time}
    (hs : sv ∈ srvs) (hl : l ∈ sv.leaves) (he : e ∈ l.hijacked) : e ∈ allHijacked srvs := by
  simp only [allHijacked, List.mem_flatMap]
  exact ⟨sv, hs, l, hl, he⟩

/-- **shutdown_all_drains.** With the repaired contract `proxy.Shutdown` does not return before *any* in-flight
work that ends within the wait has ended: requests, tunnels and streams known to their server (`l.work`) and
websocket sessions (`l.hijacked`) alike — `l.allWork`, on any registered server, single or composite. -/
theorem shutdown_all_drains (g : GrpcContract) (t0 wait : Nat) (srvs : List Server) (sv : Server) (l : Leaf) (e : Time)
    (hs : sv ∈ srvs) (hl : l ∈ sv.leaves) (he : e ∈ l.allWork) (h : tle e (some (t0 + wait)) = true) :
    tle e (shutdownAll .waitedFor g t0 wait srvs) = true := by
  simp only [Leaf.allWork, List.mem_append] at he
  cases he with
  | inl hw => exact tle_trans (shutdown_drains g t0 wait srvs sv l e hs hl hw h) (le_tmax_left _ _)
  | inr hh =>
    have h1 : tle e (wsReturn .waitedFor t0 wait (allHijacked srvs)) = true :=
      le_tmin (le_drain (mem_allHijacked hs hl hh)) h
    exact tle_trans h1 (le_tmax_right _ _)

/-- **process_exit_bounded.** The process is gone no later than grace + wait after the handler started, whatever is
open (bounded contracts). -/
theorem process_exit_bounded (w : WsContract) {g : GrpcContract} (h : DeadlineBounded g) (s grace wait : Nat)
    (srvs : List Server) : tle (processExit w g s grace wait srvs) (some (s + grace + wait)) = true :=
  shutdown_all_bounded w h (s + grace) wait srvs

/-- **process_completes_inflight_work.** The property's second sentence at the level of the process: every piece of
work in flight through any listener — websocket sessions included — whose natural end is within the wait completes
before the process ends. -/
theorem process_completes_inflight_work (g : GrpcContract) (s grace wait : Nat) (srvs : List Server)
    (sv : Server) (l : Leaf) (e : Time) (hs : sv ∈ srvs) (hl : l ∈ sv.leaves) (he : e ∈ l.allWork)
    (h : tle e (some (s + grace + wait)) = true) :
    processFate (processExit .waitedFor g s grace wait srvs) e = .completed := by
  have := shutdown_all_drains g (s + grace) wait srvs sv l e hs hl he h
  simp [processFate, processExit, this]

/-- **D31, negation for the shipped contract, with witness** (replayed on the real binary by line 5 of
`corpus/c18.process.jsonl`, class `static+websocket+no-tcp-listener`): only http listeners, one websocket session that
would end 100 ticks into a wait of 600 — `proxy.Shutdown` returns at once, the process ends, the session is cut. -/
theorem shipped_ws_session_lost_at_exit :
    let srvs := [Server.single { kind := .http, work := [], hijacked := [some 400] }]
    processExit .notWaitedFor .stopsAtDeadline 0 300 600 srvs = some 300 ∧
    tle (some 400) (some (0 + 300 + 600)) = true ∧
    processFate (processExit .notWaitedFor .stopsAtDeadline 0 300 600 srvs) (some 400) = .cut := by decide

theorem shipped_process_loses_inflight_work :
    ¬ ∀ (g : GrpcContract) (s grace wait : Nat) (srvs : List Server) (sv : Server) (l : Leaf) (e : Time),
        sv ∈ srvs → l ∈ sv.leaves → e ∈ l.allWork → tle e (some (s + grace + wait)) = true →
        processFate (processExit .notWaitedFor g s grace wait srvs) e = .completed := by
  intro h
  have := h .stopsAtDeadline 0 300 600 [Server.single { kind := .http, work := [], hijacked := [some 400] }]
    (Server.single { kind := .http, work := [], hijacked := [some 400] }) { kind := .http, work := [], hijacked := [some 400] }
    (some 400) (List.mem_singleton.mpr rfl) (List.mem_singleton.mpr rfl) (by simp [Leaf.allWork]) (by decide)
  revert this
  decide

/-- why the defect stayed invisible next to a tcp listener: `tcp.Server.Shutdown` takes the whole wait, so the
process outlives every session that ends within it, under either contract -/
theorem ws_completes_next_to_tcp (w : WsContract) {g : GrpcContract} (hb : DeadlineBounded g) (s grace wait : Nat)
    (srvs : List Server) (work : List Time) (hs : Server.single { kind := .tcp, work := work } ∈ srvs)
    (e : Time) (h : tle e (some (s + grace + wait)) = true) :
    processFate (processExit w g s grace wait srvs) e = .completed := by
  have h1 := tcp_listener_takes_the_whole_wait hb (s + grace) wait srvs work hs
  have h2 : tle (some (s + grace + wait)) (processExit w g s grace wait srvs) = true := by
    simp only [processExit, shutdownAll, h1]
    exact le_tmax_left _ _
  simp [processFate, tle_trans h h2]

/-- without websocket sessions the two contracts coincide with the servers' fan-out -/
theorem shutdown_all_without_ws (w : WsContract) (g : GrpcContract) (t0 wait : Nat) (srvs : List Server)
    (h : allHijacked srvs = []) : shutdownAll w g t0 wait srvs = shutdownReturn g t0 wait srvs := by
  have h0 : tle (some t0) (shutdownReturn g t0 wait srvs) = true := by
    cases maxReturn_attained t0 (srvs.map (serverReturn g t0 wait)) with
    | inl hh => simp only [shutdownReturn, hh]; exact tle_refl _
    | inr hh =>
      cases hm : maxReturn t0 (srvs.map (serverReturn g t0 wait)) with
      | none => simp [shutdownReturn, hm, tle]
      | some m =>
        -- the maximum is never before t0
        have : ∀ rs : List Time, ∀ m, maxReturn t0 rs = some m → t0 ≤ m := by
          intro rs
          induction rs with
          | nil => intro m hm; simp [maxReturn] at hm; omega
          | cons r rs ih =>
            intro m hm
            cases r with
            | none => simp [maxReturn, tmax] at hm
            | some a =>
              cases hr : maxReturn t0 rs with
              | none => simp [maxReturn, hr, tmax] at hm
              | some b =>
                simp [maxReturn, hr, tmax] at hm
                have := ih b hr
                omega
        simp only [shutdownReturn, hm, tle, decide_eq_true_eq]
        exact this _ m hm
  have hw : wsReturn w t0 wait [] = some t0 := by
    cases w <;> simp [wsReturn, drain, tmin]
  simp only [shutdownAll, h, hw]
  cases hr : shutdownReturn g t0 wait srvs with
  | none => rfl
  | some r =>
    rw [hr] at h0
    simp only [tle, decide_eq_true_eq] at h0
    simp [tmax, Nat.max_eq_left h0]

/-! ## Non-vacuity -/

/-- a mixed registry: http with a short and an endless request, a tcp tunnel that never ends, a gRPC server
with an endless stream, and the https+tcp+sni composite -/
def exampleServers : List Server :=
  [ .single { kind := .http, work := [some 120, none] },
    .single { kind := .tcp, work := [none] },
    .single { kind := .grpc, work := [none, some 130] },
    .multi [{ kind := .tcp, work := [some 110] }, { kind := .http, work := [some 5000] }] ]

example : shutdownReturn .stopsAtDeadline 100 600 exampleServers = some 700 := by decide
example : shutdownReturn .ignoresDeadline 100 600 exampleServers = none := by decide
example : shutdownReturn .stopsAtDeadline 100 600 exampleServers.reverse = some 700 := by decide
-- only short work and no tcp listener: returns early, at the end of the last piece of work
example : shutdownReturn .stopsAtDeadline 100 600
    [.single { kind := .http, work := [some 120] }, .single { kind := .grpc, work := [some 130] }] = some 130 := by decide
-- hypotheses of `shutdown_drains` / `inflight_completes_if_within_wait` on a non-trivial value
example : tle (some 130) (shutdownReturn .stopsAtDeadline 100 600 exampleServers) = true := by decide
example : fate .stopsAtDeadline 100 600 .grpc (some 130) = .completed ∧ fate .stopsAtDeadline 100 600 .grpc none = .cut ∧
          fate .ignoresDeadline 100 600 .grpc none = .stillOpen ∧ fate .stopsAtDeadline 100 600 .tcp none = .cut ∧
          fate .stopsAtDeadline 100 600 .http (some 5000) = .stillOpen := by decide
-- `listeners_closed_first`, `no_listener_reappears`, `refresher_reopens_as_shipped` on a non-empty registry
example : (shutdown .stopsAtDeadline 100 600 [(":80", .single { kind := .http, work := [none] })]).closed = [(":80", 100)] := by decide
example : (refresherTick false [":7000"] (exitHandler .stopsAtDeadline 100 600
    { registry := [(":7000", .single { kind := .tcp, work := [none] })], shuttingDown := false }).1).registry.length = 1 := by decide
example : (refresherTicks true [":7000"] 3 (exitHandler .stopsAtDeadline 100 600
    { registry := [(":7000", .single { kind := .tcp, work := [none] })], shuttingDown := false }).1).registry = [] := by decide
example : DeadlineBounded .stopsAtDeadline := repaired_contract_bounded
-- the lock assumption: free lock ⇒ bounded from the call; a 10 000-tick hold ⇒ 10 000 ticks late
example : shutdownCalled .stopsAtDeadline 100 100 600 exampleServers = some 700 := by decide
example : shutdownCalled .stopsAtDeadline 100 10100 600 exampleServers = some 10700 := by decide
example : (closeProxy ":7000" [(":7000", .single { kind := .tcp, work := [none] }), (":80", .single { kind := .http, work := [] })]).length = 1 := by decide

-- starts: one registered long before, one whose address is busy, one that registers late
def exampleStarts : List Start :=
  [ { addr := ":80", srv := .single { kind := .http, work := [some 120] }, registersAt := some 0 },
    { addr := ":81", srv := .single { kind := .tcp, work := [] }, registersAt := none },
    { addr := ":82", srv := .single { kind := .grpc, work := [] }, registersAt := some 150 } ]
example : (snapshot 100 exampleStarts).map (·.1) = [":80"] := by decide
example : exampleStarts.map (fun s => startAccepts 100 s 50) = [true, false, false] ∧
          exampleStarts.map (fun s => startAccepts 100 s 100) = [false, false, false] ∧
          exampleStarts.map (fun s => startAccepts 100 s 200) = [false, false, true] := by decide
-- the hypothesis of `no_accept_after_shutdown_begins_partial` holds of the first two
example : ∀ s ∈ exampleStarts.take 2, ∀ r, s.registersAt = some r → r ≤ 100 := by decide
-- process level: tracked short work completes, the process ends at the deadline next to an endless tunnel
example : processExit .waitedFor .stopsAtDeadline 0 300 600 exampleServers = some 900 := by decide
example : processFate (processExit .waitedFor .stopsAtDeadline 0 300 600 exampleServers) (some 420) = .completed ∧
          processFate (processExit .waitedFor .stopsAtDeadline 0 300 600 exampleServers) none = .cut := by decide
-- websocket sessions on http listeners only: repaired, the process outlives the one that ends within the wait and
-- ends at the deadline because of the endless one; as shipped it ended with the grace period
def wsOnly : List Server := [.single { kind := .http, work := [], hijacked := [some 400, none] }]
example : processExit .waitedFor .stopsAtDeadline 0 300 600 wsOnly = some 900 ∧
          processExit .notWaitedFor .stopsAtDeadline 0 300 600 wsOnly = some 300 ∧
          processFate (processExit .waitedFor .stopsAtDeadline 0 300 600 wsOnly) (some 400) = .completed := by decide
example : shutdownAll .waitedFor .stopsAtDeadline 0 600 [.single { kind := .http, work := [some 50], hijacked := [some 100] }] = some 100 := by decide

-- non-vacuity: two configured listeners (one whose bind failed), the refresher waking before and after the signal
example : (startupStarts [(":80", .single { kind := .http, work := [] }, some 0), (":81", .single { kind := .tcp, work := [] }, none)] ++
    refresherStarts true 100 [(50, [":7000"]), (150, [":7000", ":7001"]), (450, [":7000"])]).map (·.registersAt) =
    [some 0, none, some 50] := by decide
example : (refresherStarts false 100 [(50, [":7000"]), (450, [":7000"])]).map (fun s => startAccepts 400 s 500) = [false, true] := by decide


end Fabio.Props.C18
