import Fabio.Lemmas.C16Serve
/-!
C16, round 3 — theorems about the glue around interceptor and pool (`Model/C16Serve.lean`): the gates between
lookup and handler, the director, the transport credentials `newConnection` chooses, one proxy per listener,
the message limits.  Parameters as in `Props/C16.lean`; `lookup` now answers with what the dialler reads of
the chosen target (`Tgt`), `gate` is `Stream`'s access/auth decision (property C12).
-/
namespace Fabio.Props.C16Serve
open Fabio.Model.Route (Str Table)
open Fabio.Model.C16 Fabio.Model.C16.Serve Fabio.Lemmas.C16 Fabio.Lemmas.C16Serve

/-! ### 1. the gates -/

/-- `Stream` answers `PermissionDenied` when the target's access rules deny the peer — whatever the auth scheme
says —, `Unauthenticated` when they let it in and the auth scheme rejects the call, and lets the call through
exactly when the rules let the peer in and the scheme accepts. -/
theorem gate_order (denied : Tgt → Bool) (auth : Tgt → MD → Bool) (t : Tgt) (md : MD) :
    (denied t = true → gateOf denied auth t md = some codePermissionDenied) ∧
    (denied t = false → auth t md = false → gateOf denied auth t md = some codeUnauthenticated) ∧
    (gateOf denied auth t md = none ↔ denied t = false ∧ auth t md = true) := by
  unfold gateOf
  cases denied t <;> cases auth t md <;> simp

/-- A call the gates reject is answered by the interceptor with the gate's status; director, pool and dialler
are not reached: the listener's whole state is unchanged. -/
theorem gate_rejects_no_backend (pp : Str → Option Str) (lookup : Table → Str → Str → Option Tgt) (gate : Gate)
    (lw : LWorld) (hasMD : Bool) (md : MD) (method : Str) (d : Bool) (t : Tgt) (code : Nat)
    (hf : intercept pp (lookup lw.w.table) hasMD md method = .forward t) (hg : gate t md = some code) :
    lw.call pp lookup gate hasMD md method d = (lw, .status code) := by
  rcases call_cases pp lookup gate lw hasMD md method d with ⟨hi, _⟩ | ⟨hi, _⟩ | ⟨t', hi, h⟩
  · rw [hi] at hf; cases hf
  · rw [hi] at hf; cases hf
  · rw [hi] at hf; cases hf
    rcases h with ⟨c, hc, e⟩ | ⟨hn, _⟩
    · rw [hc] at hg; cases hg; exact e
    · rw [hn] at hg; cases hg

/-- Whenever the interceptor answers by itself (`Internal`, `NotFound`, a gate's status) nothing changed. -/
theorem status_means_untouched (pp : Str → Option Str) (lookup : Table → Str → Str → Option Tgt) (gate : Gate)
    (lw : LWorld) (hasMD : Bool) (md : MD) (method : Str) (d : Bool) (code : Nat)
    (h : (lw.call pp lookup gate hasMD md method d).2 = .status code) :
    (lw.call pp lookup gate hasMD md method d).1 = lw := by
  rcases call_cases pp lookup gate lw hasMD md method d with ⟨_, e⟩ | ⟨_, e⟩ | ⟨t, _, ⟨c, _, e⟩ | ⟨_, e⟩⟩
  · rw [e]
  · rw [e]
  · rw [e]
  · rw [e] at h
    rcases dial_cases lw t d with ⟨c, _, _, e'⟩ | ⟨_, e'⟩ | ⟨_, e'⟩ <;> rw [e'] at h <;> cases h

/-- the lookup seen by the pool model of `Props/C16.lean`: the key of the chosen target -/
def keyLookup (lookup : Table → Str → Str → Option Tgt) : Table → Str → Str → Option Str :=
  fun tb h p => (lookup tb h p).map (·.key)

/-- **Refinement.** With the gates open, a listener's pool world moves exactly as `World.call` of
`Props/C16.lean` says (so `pool_reuse`, `reuse_until_removed`, `first_call_then_reuse`, `pool_inv`, … hold
for every listener), and the caller-visible result is the same. -/
theorem call_refines_world_call (pp : Str → Option Str) (lookup : Table → Str → Str → Option Tgt) (gate : Gate)
    (lw : LWorld) (hasMD : Bool) (md : MD) (method : Str) (d : Bool) (hopen : ∀ t, gate t md = none) :
    (lw.call pp lookup gate hasMD md method d).1.w = (lw.w.call pp (keyLookup lookup) hasMD md method d).1 ∧
    (match (lw.call pp lookup gate hasMD md method d).2 with
     | .status c => (lw.w.call pp (keyLookup lookup) hasMD md method d).2 = .status c
     | .proxied k r _ => (lw.w.call pp (keyLookup lookup) hasMD md method d).2 = .proxied k r) := by
  have hw : lw.w.call pp (keyLookup lookup) hasMD md method d =
      match intercept pp (lookup lw.w.table) hasMD md method with
      | .internal => (lw.w, .status codeInternal)
      | .notFound => (lw.w, .status codeNotFound)
      | .forward t => ((lw.w.get t.key d).1, .proxied t.key (lw.w.get t.key d).2) := by
    unfold World.call keyLookup
    rw [intercept_map (fun t : Tgt => t.key)]
    cases intercept pp (lookup lw.w.table) hasMD md method <;> rfl
  rw [hw]
  rcases call_cases pp lookup gate lw hasMD md method d with ⟨hi, e⟩ | ⟨hi, e⟩ | ⟨t, hi, ⟨c, hc, _⟩ | ⟨_, e⟩⟩
  · rw [e, hi]; exact ⟨rfl, rfl⟩
  · rw [e, hi]; exact ⟨rfl, rfl⟩
  · rw [hopen t] at hc; cases hc
  · rw [e, hi]; exact ⟨rfl, rfl⟩

/-! ### 2. the director -/

/-- The director asks the pool only for the target the interceptor stored, and only when the context carries
metadata; its two error paths do not reach the pool. -/
theorem director_reaches_pool_iff (hasMD : Bool) (target : Option Tgt) (k : Str) :
    director hasMD target = .pool k ↔ hasMD = true ∧ ∃ t, target = some t ∧ t.key = k := by
  unfold director
  cases hasMD <;> cases target <;> simp

/-! ### 3. transport credentials -/

/-- TLS is dialled exactly for a `grpcs` target by a director that was given a TLS configuration, and then with
the target's own server name and skip-verify flag. -/
theorem dial_tls_iff (hasCert : Bool) (t : Tgt) (sn : Str) (sk : Bool) :
    dialSecurity hasCert t = .tls sn sk ↔ t.grpcs = true ∧ hasCert = true ∧ sn = t.serverName ∧ sk = t.skipVerify := by
  unfold dialSecurity
  cases t.grpcs <;> cases hasCert <;> simp [eq_comm]

/-- A target of any other scheme is dialled in clear text on every listener; its TLS options play no part. -/
theorem plain_target_insecure (hasCert : Bool) (t : Tgt) (h : t.grpcs = false) :
    dialSecurity hasCert t = .insecure := by
  simp [dialSecurity, h]

/-- A plain backend behind a non-`grpcs` target is always reached. -/
theorem plain_backend_reached (host : Str) (hasCert : Bool) (t : Tgt) (h : t.grpcs = false) :
    handshake host (dialSecurity hasCert t) .plain = true := by
  rw [plain_target_insecure hasCert t h]; rfl

/-
The statement one would like — "a `grpcs` target whose certificate its route options accept is reached" — does
not hold on a listener without a certificate source: `newConnection` dials TLS only `&& p.tlscfg != nil`.
-/
/-- **Partial** (forced hypothesis: the listener has a certificate source). A TLS backend behind a `grpcs`
target is reached when the route says `tlsskipverify=true` or the certificate is trusted and valid for the
configured server name (the dialled host when none is configured). -/
theorem grpcs_backend_reached_partial (host : Str) (hasCert : Bool) (t : Tgt) (names : List Str) (trusted : Bool)
    (hcert : hasCert = true) (hs : t.grpcs = true)
    (hv : t.skipVerify = true ∨ (trusted = true ∧ names.contains (if t.serverName.isEmpty then host else t.serverName) = true)) :
    handshake host (dialSecurity hasCert t) (.tls names trusted) = true := by
  subst hcert
  simp only [dialSecurity, hs, Bool.and_self, if_true, handshake]
  rcases hv with h | ⟨h1, h2⟩
  · simp [h]
  · rw [h1, h2]; simp

/-- … and the excluded point: on a listener **without** a certificate source no TLS backend is ever reached
through a `grpcs` target, whatever the route options (recorded finding; replayed from `corpus/c16.serve.jsonl`). -/
theorem grpcs_on_listener_without_certificate_unreachable (host : Str) (t : Tgt) (names : List Str) (trusted : Bool)
    (_hs : t.grpcs = true) :
    handshake host (dialSecurity false t) (.tls names trusted) = false := by
  simp [dialSecurity, handshake]

/-! ### 4. one proxy per listener -/

/-- Every listener's director is built from that listener's own TLS configuration. -/
theorem start_own_certificate (ls : List Bool) (i : Nat) :
    (Proxy.start ls)[i]? = ls[i]?.map fun c => ({ hasCert := c } : LWorld) := by
  simp [Proxy.start]

/-- A call on listener `i` leaves every other listener's pool, dial log and credentials alone. -/
theorem call_other_listener_untouched (pp : Str → Option Str) (lookup : Table → Str → Str → Option Tgt) (gate : Gate)
    (p : Proxy) (i j : Nat) (hasMD : Bool) (md : MD) (method : Str) (d : Bool) (h : j ≠ i) :
    (p.call pp lookup gate i hasMD md method d).1[j]? = p[j]? := by
  unfold Proxy.call
  cases hi : p[i]? with
  | none => rfl
  | some lw => simp [List.getElem?_set_ne (Ne.symm h)]

/-- … and moves listener `i` exactly as `LWorld.call` says. -/
theorem call_own_listener (pp : Str → Option Str) (lookup : Table → Str → Str → Option Tgt) (gate : Gate)
    (p : Proxy) (i : Nat) (lw : LWorld) (hasMD : Bool) (md : MD) (method : Str) (d : Bool) (hi : p[i]? = some lw) :
    (p.call pp lookup gate i hasMD md method d).1[i]? = some (lw.call pp lookup gate hasMD md method d).1 ∧
    (p.call pp lookup gate i hasMD md method d).2 = some (lw.call pp lookup gate hasMD md method d).2 := by
  have hlt : i < p.length := by
    rcases Nat.lt_or_ge i p.length with h | h
    · exact h
    · rw [List.getElem?_eq_none h] at hi; cases hi
  unfold Proxy.call
  simp [hi, List.getElem?_set_self hlt]

/-! ### 5. the credentials a call rides on

Invariant of a listener: the credentials list has one entry per dial, pooled connection ids are below the
dial counter, and every pooled connection was dialled with the credentials `optsOf` assigns to its key. -/

def LInv (optsOf : Str → Tgt) (lw : LWorld) : Prop :=
  lw.secs.length = lw.w.next ∧
  (∀ kc ∈ lw.w.pool, kc.2.id < lw.w.next) ∧
  (∀ kc ∈ lw.w.pool, lw.secs[kc.2.id]? = some (dialSecurity lw.hasCert (optsOf kc.1)))

theorem linv_start (optsOf : Str → Tgt) (c : Bool) : LInv optsOf { hasCert := c } := by
  refine ⟨rfl, ?_, ?_⟩ <;> intro kc h <;> cases h

/-- "the options are a function of the URL": every target the table can answer with is `optsOf` of its key -/
def OptionsByKey (lookup : Table → Str → Str → Option Tgt) (optsOf : Str → Tgt) : Prop :=
  ∀ tb h p t, lookup tb h p = some t → t = optsOf t.key

theorem forward_by_key {pp : Str → Option Str} {lookup : Table → Str → Str → Option Tgt} {optsOf : Str → Tgt}
    (hdet : OptionsByKey lookup optsOf) {tb : Table} {hasMD : Bool} {md : MD} {method : Str} {t : Tgt}
    (hf : intercept pp (lookup tb) hasMD md method = .forward t) : t = optsOf t.key := by
  unfold intercept at hf
  cases hs : synthReq pp hasMD md method with
  | none => simp [hs] at hf
  | some r =>
    simp only [hs] at hf
    cases hl : lookup tb r.host r.path with
    | none => simp [hl] at hf
    | some t' =>
      simp only [hl] at hf
      cases hf
      exact hdet _ _ _ _ hl

/-- The invariant survives every call. -/
theorem linv_call (pp : Str → Option Str) (lookup : Table → Str → Str → Option Tgt) (gate : Gate) (optsOf : Str → Tgt)
    (hdet : OptionsByKey lookup optsOf) (lw : LWorld) (hasMD : Bool) (md : MD) (method : Str) (d : Bool)
    (h : LInv optsOf lw) : LInv optsOf (lw.call pp lookup gate hasMD md method d).1 := by
  rcases call_cases pp lookup gate lw hasMD md method d with ⟨_, e⟩ | ⟨_, e⟩ | ⟨t, hi, ⟨c, _, e⟩ | ⟨_, e⟩⟩
  · rw [e]; exact h
  · rw [e]; exact h
  · rw [e]; exact h
  · have ht := forward_by_key hdet hi
    obtain ⟨hlen, hid, hsec⟩ := h
    rw [e]
    rcases dial_cases lw t d with ⟨c, _, _, e'⟩ | ⟨_, e'⟩ | ⟨_, e'⟩
    · rw [e']; exact ⟨hlen, hid, hsec⟩
    · rw [e']
      refine ⟨by simp [hlen], ?_, ?_⟩
      · intro kc hm
        rcases mem_put hm with hm | hm
        · subst hm; simp
        · exact Nat.lt_succ_of_lt (hid kc hm)
      · intro kc hm
        rcases mem_put hm with hm | hm
        · subst hm
          simp only
          rw [← hlen, List.getElem?_append_right (Nat.le_refl _)]
          simp [← ht]
        · simp only
          have hlt : kc.2.id < lw.secs.length := by rw [hlen]; exact hid kc hm
          rw [List.getElem?_append_left hlt]
          exact hsec kc hm
    · rw [e']; exact ⟨hlen, hid, hsec⟩

/-- … a shutdown of a pooled connection, a table change and a cleanup. -/
theorem linv_pool_shrinks (optsOf : Str → Tgt) (lw : LWorld) (pool' : Pool) (tb : Table)
    (hsub : ∀ kc ∈ pool', ∃ kc0 ∈ lw.w.pool, kc.1 = kc0.1 ∧ kc.2.id = kc0.2.id)
    (h : LInv optsOf lw) : LInv optsOf { lw with w := { lw.w with pool := pool', table := tb } } := by
  obtain ⟨hlen, hid, hsec⟩ := h
  refine ⟨hlen, ?_, ?_⟩
  · intro kc hm
    obtain ⟨kc0, hm0, _, e2⟩ := hsub kc hm
    simp only; rw [e2]; exact hid kc0 hm0
  · intro kc hm
    obtain ⟨kc0, hm0, e1, e2⟩ := hsub kc hm
    simp only; rw [e1, e2]; exact hsec kc0 hm0

theorem linv_shut (optsOf : Str → Tgt) (lw : LWorld) (k : Str) (h : LInv optsOf lw) :
    LInv optsOf { lw with w := { lw.w with pool := lw.w.pool.shutKey k } } :=
  linv_pool_shrinks optsOf lw _ lw.w.table (fun _ hm => mem_shutKey hm) h

theorem linv_cleanup (optsOf : Str → Tgt) (lw : LWorld) (h : LInv optsOf lw) :
    LInv optsOf { lw with w := { lw.w with pool := lw.w.pool.cleanup (tableURLs lw.w.table) } } :=
  linv_pool_shrinks optsOf lw _ lw.w.table (fun kc hm => ⟨kc, (mem_cleanup hm).1, rfl, rfl⟩) h

theorem linv_setTable (optsOf : Str → Tgt) (lw : LWorld) (tb : Table) (h : LInv optsOf lw) :
    LInv optsOf { lw with w := { lw.w with table := tb } } :=
  linv_pool_shrinks optsOf lw lw.w.pool tb (fun kc hm => ⟨kc, hm, rfl, rfl⟩) h

/-
The statement one would like — "a call rides on a connection dialled with its own target's TLS options" — does
not hold in general: the pool key is `URL.String()`, the options are not part of it.
-/
/-- **Partial** (forced hypothesis `OptionsByKey`: no two targets with the same URL carry different TLS
options). Under the invariant — which holds from start-up through every call, shutdown, table change and
cleanup — a call that gets a connection, freshly dialled or pooled, rides on one that was dialled with its own
target's server name and skip-verify flag, chosen by its own listener's certificate source. -/
theorem rides_on_own_options_partial (pp : Str → Option Str) (lookup : Table → Str → Str → Option Tgt) (gate : Gate)
    (optsOf : Str → Tgt) (hdet : OptionsByKey lookup optsOf) (lw : LWorld) (hasMD : Bool) (md : MD) (method : Str)
    (d : Bool) (t : Tgt) (k : Str) (r : GetRes) (s : Option Security) (i : Nat)
    (hinv : LInv optsOf lw)
    (hf : intercept pp (lookup lw.w.table) hasMD md method = .forward t)
    (hr : (lw.call pp lookup gate hasMD md method d).2 = .proxied k r s) (hc : r.conn? = some i) :
    k = t.key ∧ s = some (dialSecurity lw.hasCert t) := by
  have ht := forward_by_key hdet hf
  obtain ⟨hlen, hid, hsec⟩ := hinv
  rcases call_cases pp lookup gate lw hasMD md method d with ⟨hi, _⟩ | ⟨hi, _⟩ | ⟨t', hi, h⟩
  · rw [hi] at hf; cases hf
  · rw [hi] at hf; cases hf
  · rw [hi] at hf; cases hf
    rcases h with ⟨c, _, e⟩ | ⟨_, e⟩
    · rw [e] at hr; cases hr
    · rw [e] at hr
      rcases dial_cases lw t d with ⟨c, hfind, _, e'⟩ | ⟨_, e'⟩ | ⟨_, e'⟩
      · rw [e'] at hr; cases hr
        refine ⟨rfl, ?_⟩
        have := hsec (t.key, c) (find_mem hfind)
        simp only at this
        rw [this, ← ht]
      · rw [e'] at hr; cases hr
        refine ⟨rfl, ?_⟩
        rw [← hlen, List.getElem?_append_right (Nat.le_refl _)]
        simp
      · rw [e'] at hr; cases hr
        simp [GetRes.conn?] at hc

/-- A pooled connection is handed out as it is: the state does not change and the credentials are those of
the call that dialled it, not of this call's target. -/
theorem reused_keeps_dial_credentials (pp : Str → Option Str) (lookup : Table → Str → Str → Option Tgt) (gate : Gate)
    (lw : LWorld) (hasMD : Bool) (md : MD) (method : Str) (d : Bool) (k : Str) (i : Nat) (s : Option Security)
    (hr : (lw.call pp lookup gate hasMD md method d).2 = .proxied k (.reused i) s) :
    (lw.call pp lookup gate hasMD md method d).1 = lw ∧ s = lw.secs[i]? := by
  rcases call_cases pp lookup gate lw hasMD md method d with ⟨_, e⟩ | ⟨_, e⟩ | ⟨t, _, ⟨c, _, e⟩ | ⟨_, e⟩⟩
  · rw [e] at hr; cases hr
  · rw [e] at hr; cases hr
  · rw [e] at hr; cases hr
  · rw [e] at hr ⊢
    rcases dial_cases lw t d with ⟨c, _, _, e'⟩ | ⟨_, e'⟩ | ⟨_, e'⟩
    · rw [e'] at hr ⊢; cases hr; exact ⟨rfl, rfl⟩
    · rw [e'] at hr; cases hr
    · rw [e'] at hr; cases hr

/-! ### 6. limits -/

/-- A call's messages pass iff every caller message is within rx and every backend message within rx and tx. -/
theorem limits_iff (l : Limits) (req rep : List Nat) :
    l.allOK req rep = true ↔ (∀ n ∈ req, n ≤ l.rx) ∧ (∀ n ∈ rep, n ≤ l.rx ∧ n ≤ l.tx) := by
  simp [Limits.allOK, Limits.reqOK, Limits.repOK, List.all_eq_true]

/-- When the connection comes up and the messages are within the limits the caller gets the backend's status. -/
theorem outcome_transparent (host : Str) (l : Limits) (sec : Security) (b : Backend) (req rep : List Nat) (code : Nat)
    (hh : handshake host sec b = true) (hl : l.allOK req rep = true) : outcome host l sec b req rep code = code := by
  simp [outcome, hh, hl]

/-! ### non-vacuity and the excluded points -/

def exA : Tgt := { key := "grpcs://10.0.0.1:443".toList, grpcs := true, serverName := "other.test".toList }
def exB : Tgt := { key := "grpcs://10.0.0.1:443".toList, grpcs := true, serverName := "backend.test".toList }
def exPlain : Tgt := { key := "grpc://10.0.0.2:80".toList }

/-- two routes to one URL with different `grpcservername` (this is what `OptionsByKey` excludes) -/
def exLookup : Table → Str → Str → Option Tgt := fun _ _ p =>
  if "/a".toList.isPrefixOf p then some exA else if "/b".toList.isPrefixOf p then some exB
  else if "/p".toList.isPrefixOf p then some exPlain else none

def open_ : Gate := fun _ _ => none

example : gateOf (fun _ => false) (fun _ _ => true) exA [] = none := by decide
example : gateOf (fun _ => true) (fun _ _ => true) exA [] = some codePermissionDenied := by decide
example : dialSecurity true exB = .tls "backend.test".toList false := by decide
example : dialSecurity false exB = .insecure := by decide
example : handshake "10.0.0.1".toList (dialSecurity true exB) (.tls ["backend.test".toList] true) = true := by decide
example : (Limits.allOK { rx := 3000, tx := 700 } [1500, 3000] [700]) = true ∧
          (Limits.allOK { rx := 3000, tx := 700 } [3001] []) = false ∧
          (Limits.allOK { rx := 3000, tx := 700 } [] [701]) = false := by decide

/-- `LInv` and `OptionsByKey` are satisfiable together on a listener that has dialled (non-vacuity of
`rides_on_own_options_partial`): one target per URL. -/
example :
    let lk : Table → Str → Str → Option Tgt := fun _ _ _ => some exB
    OptionsByKey lk (fun _ => exB) ∧
    LInv (fun _ => exB) (({ hasCert := true } : LWorld).call some lk open_ true [] "/b/M".toList true).1 := by
  refine ⟨?_, ?_⟩
  · intro tb h p t ht; simp at ht; exact ht.symm
  · exact linv_call some _ open_ _ (by intro tb h p t ht; simp at ht; exact ht.symm) _ _ _ _ _ (linv_start _ true)

/-- **The excluded point of `rides_on_own_options_partial`** (recorded finding; replayed from
`corpus/c16.serve.jsonl`): `/a` dials the URL with server name `other.test`; the later call to `/b`, whose own
route says `backend.test`, gets that pooled connection — and with a backend whose certificate is valid for
`backend.test` only, it fails although its own options would have reached the backend. -/
theorem pooled_connection_keeps_another_routes_options :
    let l0 : LWorld := { hasCert := true }
    let l1 := (l0.call some exLookup open_ true [] "/a/M".toList true).1
    let r := (l1.call some exLookup open_ true [] "/b/M".toList true).2
    r = .proxied exB.key (.reused 0) (some (.tls "other.test".toList false)) ∧
    handshake "10.0.0.1".toList (.tls "other.test".toList false) (.tls ["backend.test".toList] true) = false ∧
    handshake "10.0.0.1".toList (dialSecurity true exB) (.tls ["backend.test".toList] true) = true := by
  decide

/-- per-listener wiring: the same `grpcs` route is dialled with TLS on the listener that has a certificate
source and in clear text on the one that has none, whichever is called first -/
example :
    let p0 := Proxy.start [false, true]
    let r1 := p0.call some exLookup open_ 0 true [] "/b/M".toList true
    let r2 := r1.1.call some exLookup open_ 1 true [] "/b/M".toList true
    r1.2 = some (.proxied exB.key (.dialled 0) (some .insecure)) ∧
    r2.2 = some (.proxied exB.key (.dialled 0) (some (.tls "backend.test".toList false))) := by
  decide

end Fabio.Props.C16Serve
