/-!
Run-time support for Lean code **generated from Go source** by `tools/factgen/xlate.go` (the translator).

The translator maps a Go function of a small imperative subset (locals of type `[]byte`, `string`, `int`, `uintN`,
`bool`; fields of a pointer receiver; assignment, `if`, `for cond {}`, `switch` on a value, `break`, `continue`,
`return`; index and slice expressions; integer arithmetic and comparisons) to a term built from the combinators
below — a compositional denotational semantics:

* the state `σ` is a generated structure with one field per parameter, result, local (one per *declaration*, so
  shadowing is resolved by the translator) and receiver field;
* an expression denotes `σ → V α`: a value or a run-time panic (index / slice out of range);
* a statement denotes `σ → Flow ρ σ`: fall through with a new state, `break`, `continue`, `return r` (with the state,
  so that a caller can read fields written through a pointer receiver), or a panic;
* a loop is `loop cond body fuel`: `fuel` is supplied by the translator's caller per loop as an expression of the
  state at loop entry; running out of fuel is a *panic* value, so a "never panics" theorem also proves termination.

Integer model. Go's signed integers (`int` as 64 bits, `int64`, `int32`, …) are translated to Lean's unbounded `Int`.
The translator runs an interval analysis over every signed expression of the function (`int(byte)` ∈ [0,255],
literals, `+ - * << |` of those, `len(x)` ∈ [0,2^62], variables by a fixpoint over their assignments, parameters at
the full range of their type). Where the interval fits the expression's type, machine arithmetic and `Int`
arithmetic coincide and the plain operation is emitted; where it may not, the result is reduced by `wrapI bits`
(Go's two's-complement wrap-around, see the end of this file). It **refuses to translate** when `|`/`&`/`<<`/`>>`
is applied to a possibly negative operand, a shift may overflow, or a divisor may be zero. Fixed-width unsigned
types (`byte`, `uint16`, …) are translated to Lean's `UInt8`, `UInt16`, … whose operations wrap exactly like Go's
(shift counts are literal and smaller than the width, checked by the translator).

Slices. `d[a:b]` is checked against the *length* (Go checks the upper bound against the capacity, which is never
smaller): a Go panic implies a panic here. Byte strings (`string(d[:n])`) are `List UInt8`.
-/
namespace Fabio.Xlate

abbrev Bytes := List UInt8

/-- Value of an expression: a value or a run-time panic. -/
inductive V (α : Type) where
  | ok (a : α)
  | panic (why : String)
deriving Repr, BEq, DecidableEq

namespace V
@[inline] def bind {α β} (x : V α) (f : α → V β) : V β :=
  match x with
  | .ok a => f a
  | .panic w => .panic w
instance : Monad V where
  pure := .ok
  bind := bind
@[simp] theorem bind_ok {α β} (a : α) (f : α → V β) : (V.ok a >>= f) = f a := rfl
@[simp] theorem bind_panic {α β} (w : String) (f : α → V β) : ((V.panic w : V α) >>= f) = .panic w := rfl
@[simp] theorem pure_eq {α} (a : α) : (pure a : V α) = .ok a := rfl
end V

/-- Outcome of a stretch of statements in a function returning `ρ` over state `σ`. -/
inductive Flow (ρ σ : Type) where
  | next (s : σ)
  | brk (s : σ)
  | cont (s : σ)
  | ret (r : ρ) (s : σ)
  | panic (why : String)

abbrev Stmt (ρ σ : Type) := σ → Flow ρ σ

/-- `a; b` -/
@[inline] def seq {ρ σ} (a b : Stmt ρ σ) : Stmt ρ σ := fun s =>
  match a s with
  | .next s' => b s'
  | .brk s' => .brk s'
  | .cont s' => .cont s'
  | .ret r s' => .ret r s'
  | .panic w => .panic w

/-- the empty statement -/
@[inline] def skip {ρ σ} : Stmt ρ σ := fun s => .next s

/-- `x = e` (the translator supplies the record update) -/
@[inline] def assign {ρ σ α} (e : σ → V α) (upd : σ → α → σ) : Stmt ρ σ := fun s =>
  match e s with
  | .ok v => .next (upd s v)
  | .panic w => .panic w

/-- `if c { a } else { b }` -/
@[inline] def ifS {ρ σ} (c : σ → V Bool) (a b : Stmt ρ σ) : Stmt ρ σ := fun s =>
  match c s with
  | .ok true => a s
  | .ok false => b s
  | .panic w => .panic w

/-- `return e` -/
@[inline] def ret {ρ σ} (e : σ → V ρ) : Stmt ρ σ := fun s =>
  match e s with
  | .ok r => .ret r s
  | .panic w => .panic w

@[inline] def brk {ρ σ} : Stmt ρ σ := fun s => .brk s
@[inline] def cont {ρ σ} : Stmt ρ σ := fun s => .cont s

/-- `for c { body }` with explicit fuel. -/
def loopN {ρ σ} (c : σ → V Bool) (body : Stmt ρ σ) : Nat → Stmt ρ σ
  | 0, _ => .panic "fuel"
  | n+1, s =>
    match c s with
    | .panic w => .panic w
    | .ok false => .next s
    | .ok true =>
      match body s with
      | .next s' => loopN c body n s'
      | .cont s' => loopN c body n s'
      | .brk s' => .next s'
      | .ret r s' => .ret r s'
      | .panic w => .panic w

/-- `for c { body }`; the fuel is an expression of the state at loop entry. -/
@[inline] def loop {ρ σ} (fuel : σ → Nat) (c : σ → V Bool) (body : Stmt ρ σ) : Stmt ρ σ := fun s =>
  loopN c body (fuel s) s

/-- A `break` inside a `switch` (without label) leaves the switch, not the loop; the translator wraps switch
bodies that contain one. -/
@[inline] def catchBrk {ρ σ} (a : Stmt ρ σ) : Stmt ρ σ := fun s =>
  match a s with
  | .brk s' => .next s'
  | o => o

/-- Result of running a function body: the returned value and the final state, or a panic. Falling off the end
of a function with results is impossible in Go (compile error); `bare` is the value of a bare `return`/the end of
a function without results. -/
def run {ρ σ} (body : Stmt ρ σ) (bare : σ → ρ) (s : σ) : V (ρ × σ) :=
  match body s with
  | .ret r s' => .ok (r, s')
  | .next s' => .ok (bare s', s')
  | .brk s' => .ok (bare s', s')
  | .cont s' => .ok (bare s', s')
  | .panic w => .panic w

/-! ### Checked operations -/

/-- `d[i]` for a natural index -/
def idxN (d : Bytes) (i : Nat) : V UInt8 :=
  match d[i]? with
  | some b => .ok b
  | none => .panic "index out of range"

/-- `d[i]` -/
def idx (d : Bytes) (i : Int) : V UInt8 :=
  if 0 ≤ i then idxN d i.toNat else .panic "index out of range"

/-- `d[a:b]` -/
def slice (d : Bytes) (a b : Int) : V Bytes :=
  if 0 ≤ a ∧ a ≤ b ∧ b ≤ d.length then .ok ((d.take b.toNat).drop a.toNat) else .panic "slice bounds out of range"

/-- `d[a:]` -/
def sliceFrom (d : Bytes) (a : Int) : V Bytes :=
  if 0 ≤ a ∧ a ≤ d.length then .ok (d.drop a.toNat) else .panic "slice bounds out of range"

/-- `d[:b]` -/
def sliceTo (d : Bytes) (b : Int) : V Bytes :=
  if 0 ≤ b ∧ b ≤ d.length then .ok (d.take b.toNat) else .panic "slice bounds out of range"

/-- `len(d)` -/
@[inline] def len (d : Bytes) : Int := d.length

/-- Comparisons of ints as Boolean functions (so that a condition is a plain function application whose arguments
`simp` can rewrite, instead of a `decide` carrying a `Decidable` instance that mentions the unreduced operands). -/
@[inline] def ltI (a b : Int) : Bool := decide (a < b)
@[inline] def leI (a b : Int) : Bool := decide (a ≤ b)
@[inline] def gtI (a b : Int) : Bool := decide (a > b)
@[inline] def geI (a b : Int) : Bool := decide (a ≥ b)
@[simp] theorem ltI_eq (a b : Int) : ltI a b = decide (a < b) := rfl
@[simp] theorem leI_eq (a b : Int) : leI a b = decide (a ≤ b) := rfl
@[simp] theorem gtI_eq (a b : Int) : gtI a b = decide (b < a) := rfl
@[simp] theorem geI_eq (a b : Int) : geI a b = decide (b ≤ a) := rfl

/-- `a | b` on ints the translator has shown non-negative -/
@[inline] def orI (a b : Int) : Int := Int.ofNat (a.toNat ||| b.toNat)

/-- `a & b` on ints the translator has shown non-negative -/
@[inline] def andI (a b : Int) : Int := Int.ofNat (a.toNat &&& b.toNat)

/-- `a << k` for a literal `k` on an int the translator has shown non-negative and small enough -/
@[inline] def shlI (a : Int) (k : Nat) : Int := a * (2 ^ k : Nat)

/-- `a >> k` for a literal `k` on a non-negative int -/
@[inline] def shrI (a : Int) (k : Nat) : Int := Int.ofNat (a.toNat >>> k)

/-! ### Round 4: signed overflow, stores, `range`, buffers

Go defines overflow of signed arithmetic as two's-complement wrap-around. Where the translator's interval analysis
cannot show that the mathematical result of a signed operation fits the operation's type it emits `wrapI bits`
around it (`int` counts as 64 bits); where it can, the plain `Int` operation stands. -/

/-- two's-complement reduction of a mathematical integer to `bits` bits -/
def wrapI (bits : Nat) (x : Int) : Int := (x + 2 ^ (bits - 1)) % 2 ^ bits - 2 ^ (bits - 1)

theorem wrapI_64 (x : Int) : wrapI 64 x = (x + 9223372036854775808) % 18446744073709551616 - 9223372036854775808 := by
  simp [wrapI]

theorem wrapI_32 (x : Int) : wrapI 32 x = (x + 2147483648) % 4294967296 - 2147483648 := by
  simp [wrapI]

/-- conversion of a signed value to `uintN`: the low bits -/
def toU8 (x : Int) : UInt8 := UInt8.ofNat (x % 256).toNat
def toU16 (x : Int) : UInt16 := UInt16.ofNat (x % 65536).toNat
def toU32 (x : Int) : UInt32 := UInt32.ofNat (x % 4294967296).toNat
def toU64 (x : Int) : UInt64 := UInt64.ofNat (x % 18446744073709551616).toNat

/-- `d[i] = v` on a fixed-size array or an unshared slice (the translator refuses variables that may have an
alias): the updated array, or the panic of Go's bounds check. -/
def upd (d : Bytes) (i : Int) (v : UInt8) : V Bytes :=
  if 0 ≤ i ∧ i < d.length then .ok (d.set i.toNat v) else .panic "index out of range"

/-- `for k, x := range xs { body }`: `bind k x` stores the iteration variables. Structural recursion on the list:
a `range` loop terminates by construction (the translator refuses bodies that write the list). -/
def forEachL {ρ σ α} (bind : Nat → α → σ → σ) (body : Stmt ρ σ) : List α → Nat → Stmt ρ σ
  | [], _, s => .next s
  | x :: xs, k, s =>
    match body (bind k x s) with
    | .next s' => forEachL bind body xs (k+1) s'
    | .cont s' => forEachL bind body xs (k+1) s'
    | .brk s' => .next s'
    | .ret r s' => .ret r s'
    | .panic w => .panic w

@[inline] def forEach {ρ σ α} (xs : σ → List α) (bind : Nat → α → σ → σ) (body : Stmt ρ σ) : Stmt ρ σ := fun s =>
  forEachL bind body (xs s) 0 s

def lastIndexByteGo (c : UInt8) : Bytes → Nat → Int → Int
  | [], _, best => best
  | x :: xs, i, best => lastIndexByteGo c xs (i+1) (if x == c then (i : Int) else best)

/-- `strings.LastIndexByte(s, c)`: index of the last `c`, -1 if there is none -/
def lastIndexByte (d : Bytes) (c : UInt8) : Int := lastIndexByteGo c d 0 (-1)

def indexByteGo (c : UInt8) : Bytes → Nat → Int
  | [], _ => -1
  | x :: xs, i => if x == c then (i : Int) else indexByteGo c xs (i+1)

/-- `strings.IndexByte(s, c)` -/
def indexByte (d : Bytes) (c : UInt8) : Int := indexByteGo c d 0

/-! ### lists of other elements (`[]rune`, `[]int` as `List Int`): the checked operations again -/

/-- `d[i]` -/
def lidx {α} (d : List α) (i : Int) : V α :=
  if 0 ≤ i then (match d[i.toNat]? with | some b => .ok b | none => .panic "index out of range") else .panic "index out of range"

/-- `d[a:b]` -/
def lslice {α} (d : List α) (a b : Int) : V (List α) :=
  if 0 ≤ a ∧ a ≤ b ∧ b ≤ d.length then .ok ((d.take b.toNat).drop a.toNat) else .panic "slice bounds out of range"

/-- `d[a:]` -/
def lsliceFrom {α} (d : List α) (a : Int) : V (List α) :=
  if 0 ≤ a ∧ a ≤ d.length then .ok (d.drop a.toNat) else .panic "slice bounds out of range"

/-- `d[:b]` -/
def lsliceTo {α} (d : List α) (b : Int) : V (List α) :=
  if 0 ≤ b ∧ b ≤ d.length then .ok (d.take b.toNat) else .panic "slice bounds out of range"

/-- `len(d)` -/
@[inline] def llen {α} (d : List α) : Int := d.length

end Fabio.Xlate
