import Fabio.Driver.C15
def main : IO Unit := Fabio.Driver.run Fabio.Driver.C15.streams
