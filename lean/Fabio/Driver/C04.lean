import Fabio.Driver.Proto
import Fabio.Driver.RouteJson
import Fabio.Model.Route
import Fabio.Model.C04
import Fabio.Model.C04Spec
import Fabio.Model.C04F64
/-!
Driver handlers for C04. For every stream: `agree` compares the Go observation with the model
(`Model.Route.newTable` for the weights — tolerance 2⁻⁴⁰ per weight —, `Model.C04.fillRing` for the ring,
`rrPick`/`rndPick`/`lookupPick` for the picks) and `spec` evaluates `Model.C04.specFailures` (and the
cycle/starvation clauses) on the implementation's own output.
-/
namespace Fabio.Driver.C04
open Lean Fabio Fabio.Driver Fabio.Driver.RouteJson Fabio.Model.Route Fabio.Model.C04

def errName : Err → String
  | .invalidPrefix => "invalidPrefix" | .invalidTarget => "invalidTarget" | .badURL => "badURL"
  | .badGlob => "badGlob" | .noMatch => "noMatch" | .invalidCommand => "invalidCommand"

/-! ### comparison

`RouteJson.closeJson` with one change: requested (`fixed`) weights are compared with a *relative* tolerance
2⁻⁴⁰·max(1,|a|,|b|) — `setWeight` divides the share by the number of targets in float64, so for a share of
10²⁵ the absolute error of the quotient is far above 2⁻⁴⁰ although its relative error is 2⁻⁵³. Effective
weights (all in [0,1]) keep the absolute tolerance 2⁻⁴⁰. -/

def absQ (a : Rat) : Rat := if a < 0 then -a else a
def relClose (a b : Rat) : Bool :=
  let m := if absQ a < absQ b then absQ b else absQ a
  absQ (a - b) ≤ eps * (if m < 1 then 1 else m)

partial def closeJsonRel (model impl : Json) : Bool :=
  match model, impl with
  | .obj m, .obj _ =>
    m.toList.all (fun (k, v) =>
      match impl.getObjVal? k with
      | .ok w =>
        if k == "fixed" || k == "weight" then
          match v, w with
          | .str a, .str b => (match parseRat a, parseRat b with
              | some x, some y => if k == "fixed" then relClose x y else ratClose x y
              | _, _ => a == b)
          | _, _ => false
        else closeJsonRel v w
      | .error _ => false)
  | .arr a, .arr b => a.size == b.size && (a.toList.zip b.toList).all (fun (x, y) => closeJsonRel x y)
  | a, b => a == b

/-- exact comparison: "fixed"/"weight" strings are compared as rationals, no tolerance -/
partial def eqJsonRat (model impl : Json) : Bool :=
  match model, impl with
  | .obj m, .obj _ =>
    m.toList.all (fun (k, v) =>
      match impl.getObjVal? k with
      | .ok w =>
        if k == "fixed" || k == "weight" then
          match v, w with
          | .str a, .str b => (match parseRat a, parseRat b with
              | some x, some y => x == y
              | _, _ => a == b)
          | _, _ => false
        else eqJsonRat v w
      | .error _ => false)
  | .arr a, .arr b => a.size == b.size && (a.toList.zip b.toList).all (fun (x, y) => eqJsonRat x y)
  | a, b => a == b

def routesOf (t : Table) : List Route := (sortHosts t).foldr (fun kv acc => kv.2 ++ acc) []

def sameShapeR (x y : Route) : Bool :=
  x.targets.length == y.targets.length &&
    (x.targets.zip y.targets).all (fun (s, t) => decide (0 < s.fixedWeight) == decide (0 < t.fixedWeight))

/-- The ℚ table and the float64 table of the same script have the same shape: same routes, same number of
targets, the same targets fixed/dynamic. They differ where float64 identity decides the control flow: a
re-announced target whose weight equals the stored one only after rounding (`0.0001 / 10 == 0.00001`) is
de-duplicated in float64 and a second entry in ℚ; a share that underflows to 0 makes the target dynamic.
On such a script only the float64 model is compared with the code (exactly); the ℚ model is not. -/
def sameShape (a b : Table) : Bool :=
  let ra := routesOf a
  let rb := routesOf b
  ra.length == rb.length && (ra.zip rb).all (fun (x, y) => sameShapeR x y)

/-! ### decoding -/

def ringOfJson (j : Json) : Except String (Array (Option Nat)) :=
  match j with
  | .str s => pure (s.toList.toArray.map (fun c =>
      if c == '!' then none else if c == '#' then some 1000000000 else some (c.toNat - 48)))
  | .arr a => a.mapM (fun x => do
      let i ← x.getInt?
      pure (if i == -2 then none else if i < 0 then some 1000000000 else some i.toNat))
  | _ => throw "ring: expected string or array"

def ratList (j : Json) : Except String (List Rat) := do
  let a ← j.getArr?
  a.toList.mapM (fun x => do
    let s ← x.getStr?
    match parseRat s with
    | some r => pure r
    | none => throw s!"bad rational {s}")

def natArr (j : Json) : Except String (Array Nat) := do
  let a ← j.getArr?
  a.mapM (fun x => do
    let i ← x.getInt?
    pure (if i < 0 then 1000000000 else i.toNat))

/-- observations from a `VerifDump` table plus the parallel `rings` list -/
def obsOfTable (impl : Json) : Except String (List RouteObs) := do
  let hosts ← (← impl.getObjVal? "table").getArr?
  let rings ← (← impl.getObjVal? "rings").getArr?
  let mut routes : List Json := []
  for h in hosts do
    let rs ← (← h.getObjVal? "routes").getArr?
    routes := routes ++ rs.toList
  if routes.length != rings.size then throw "rings/table length mismatch"
  let mut out : List RouteObs := []
  for (r, g) in routes.zip rings.toList do
    let ts ← (← r.getObjVal? "targets").getArr?
    let fixed ← ts.toList.mapM (fun t => getRat t "fixed")
    let weight ← ts.toList.mapM (fun t => getRat t "weight")
    let ring ← ringOfJson g
    out := out ++ [({ fixed := fixed, weight := weight, ring := ring } : RouteObs)]
  return out

/-- observation from the single-route output of the rr/rnd streams -/
def obsOfRoute (impl : Json) : Except String RouteObs := do
  let fixed ← ratList (← impl.getObjVal? "fixed")
  let weight ← ratList (← impl.getObjVal? "weight")
  let ring ← ringOfJson (← impl.getObjVal? "ring")
  return ({ fixed := fixed, weight := weight, ring := ring } : RouteObs)

/-! ### classification (branch tags) -/

def weightClass (o : RouteObs) : String :=
  let n := o.fixed.length
  let fx := o.fixed.filter (fun f => decide (0 < f))
  let sf := sumR fx
  let sz := if n = 1 then "1" else if n ≤ 5 then "2-5" else if n ≤ 20 then "6-20" else "21+"
  let c :=
    if fx.length = 0 then "no-fixed"
    else if 1 < sf then (if fx.length = n then "all-fixed-sum>1" else "fixed-sum>1+dyn")
    else if fx.length = n then (if sf < 1 then "all-fixed-sum<1" else "all-fixed-sum=1")
    else "fixed+dyn"
  c ++ "/" ++ sz

def biggest (os : List RouteObs) : Option RouteObs :=
  os.foldl (fun b o => match b with
    | none => some o
    | some x => if x.weight.length < o.weight.length then some o else some x) none

/-- pure-ℚ slot counts of the model's weights against the observed counts: within one slot of each other
(float64 products can fall on the other side of an integer) -/
def slotsNear (modelW : List Rat) (o : RouteObs) : Bool :=
  if !hasFixed o then true else
  let counts := ringCounts o.weight.length o.ring
  (List.range modelW.length).all (fun i =>
    let m := slotCount (modelW.getD i 0)
    let c : Int := ((counts.getD i 0 : Nat) : Int)
    decide (m - c ≤ 1 ∧ c - m ≤ 1))

def modelWeights (t : Table) : List (List Rat) :=
  (sortHosts t).foldr (fun kv acc => kv.2.map (fun r => r.targets.map (·.weight)) ++ acc) []

/-- the definitions as the harness completed them (`weight` = exact rational of the parsed token) -/
def rawDefs (inp impl : Json) : Except String (Array Json) :=
  match impl.getObjValAs? (Array Json) "defs" with
  | .ok a => pure a
  | .error _ => inp.getObjValAs? (Array Json) "defs"

def defsOf (inp impl : Json) : Except String (List RouteDef) := do
  let a ← rawDefs inp impl
  a.toList.mapM routeDef

def verdictOfSpec (fails : List String) (okTag : String) : Bool × String :=
  match fails with
  | [] => (true, okTag)
  | f :: _ => (false, "spec-" ++ f)

def lowerHostPath (src : Str) : Str × Str :=
  let (h, p) := hostpath src
  (lowerL h, p)

/-! ### `route weight` spreading, checked on the implementation's table

The trailing block of `route weight` commands of a script (nothing but `weight` commands after it) and, per
route of the implementation's dump, (service, tags, FixedWeight) of its targets. -/

def trailingWeightCmds (ds : List Json) : List (Str × WCmd) :=
  let blk := (ds.reverse.takeWhile (fun d => (d.getObjValAs? String "cmd").toOption == some "weight")).reverse
  blk.filterMap (fun d =>
    match (d.getObjValAs? String "weight").toOption.bind parseRat with
    | none => none
    | some w =>
      let tags := (strList ((d.getObjVal? "tags").toOption.getD .null)).toOption.getD []
      some (getStrD d "src", { service := getStrD d "service", tags, w }))

def spreadCheck (chk : List (Str × List Str × Rat) → List WCmd → Bool) (impl : Json) (ds : List Json) : Bool :=
  let cmds := trailingWeightCmds ds
  if cmds.isEmpty then true else
  match (impl.getObjVal? "table").toOption.bind (fun t => t.getArr?.toOption) with
  | none => true
  | some hosts =>
    hosts.toList.all (fun h =>
      match (h.getObjVal? "routes").toOption.bind (fun r => r.getArr?.toOption) with
      | none => true
      | some rs => rs.toList.all (fun r =>
          let host := getStrD r "host"
          let path := getStrD r "path"
          let mine := (cmds.filter (fun c => lowerHostPath c.1 == (host, path))).map (·.2)
          let ts := ((r.getObjVal? "targets").toOption.bind (fun a => a.getArr?.toOption)).getD #[]
          let tg := ts.toList.map (fun t =>
            (getStrD t "service", (strList ((t.getObjVal? "tags").toOption.getD .null)).toOption.getD [],
             ((t.getObjValAs? String "fixed").toOption.bind parseRat).getD 0))
          chk tg mine))

def spreadOk := spreadCheck spreadHonoured
/-- the same without tolerance: `FixedWeight = float64(w) / float64(k)` exactly -/
def spreadExact := spreadCheck spreadExactF64

/-! ### c04.weights -/

def weightsH : Handler := fun inp impl => do
  let defs ← defsOf inp impl
  let env := envOf ((impl.getObjVal? "oracle").toOption.getD (Json.mkObj []))
  match newTableA Arith.f64 env defs, newTable env defs with
  | .error e, _ =>
    let m := Json.mkObj [("error", errName e)]
    return ({ model := m, agree := closeJsonRel m impl, spec := true, nontrivial := false, tag := "err-" ++ errName e } : Verdict).toJson
  | .ok t, tq =>
    let m := Json.mkObj [("table", tableJson t)]
    if (impl.getObjVal? "table").toOption.isNone then
      return ({ model := m, agree := false, spec := true, nontrivial := false, tag := "impl-error" } : Verdict).toJson
    let os ← obsOfTable impl
    -- the float64 instance of the as-coded model: exact, no tolerance
    let tableOk := eqJsonRat m impl
    -- the ℚ model (the one the theorems are about): within 2⁻⁴⁰, where the two models have the same shape
    let (gap, qOk, slotsOk) := match tq with
      | .error _ => (false, false, true)
      | .ok q =>
        if sameShape q t then
          let mw := modelWeights q
          (false, closeJsonRel (Json.mkObj [("table", tableJson q)]) impl,
           mw.length == os.length && (mw.zip os).all (fun (w, o) => slotsNear w o))
        else (true, true, true)
    let ringRes := os.map ringAgrees
    let ringsOk := ringRes.all (·.1)
    let f64Ok := os.all weightsAgreeF64
    let raw ← rawDefs inp impl
    let spreadX := spreadExact impl raw.toList
    let fails := os.foldr (fun o acc => specFailures o ++ acc) [] ++
      (if spreadOk impl raw.toList then [] else ["route-weight-not-spread"])
    let cls := match biggest os with
      | some o => weightClass o
      | none => "empty"
    let (spec, tag) := verdictOfSpec fails cls
    let tag := if spec && !tableOk then "f64-table-differs"
      else if spec && !qOk then "weights-differ"
      else if spec && !f64Ok then "f64-weights-differ"
      else if spec && !spreadX then "f64-spread-differs"
      else if spec && !ringsOk then "ring-differs-" ++ ((ringRes.find? (fun r => !r.1)).map (·.2)).getD ""
      else if spec && !slotsOk then "slots-differ"
      else if spec && gap then "f64-q-gap/" ++ tag
      else tag
    let nt := os.any (fun o => decide (o.weight.length ≥ 2) && hasFixed o)
    return ({ model := m, agree := tableOk && qOk && f64Ok && spreadX && ringsOk && slotsOk, spec, nontrivial := nt, tag } : Verdict).toJson

/-! ### shared by rr / rnd: the model's view of the route that is looked up -/

/-- model weights of the route named by `src` (none: no such route) -/
def modelRoute (env : Env) (defs : List RouteDef) (src : Str) : Except Err (Option (Route × Option Route)) :=
  match newTableA Arith.f64 env defs with
  | .error e => .error e
  | .ok t =>
    let (h, p) := lowerHostPath src
    let q := match newTable env defs with
      | .ok tq => tq.route h p
      | .error _ => none
    .ok ((t.route h p).map (fun r => (r, q)))

/-- the float64 model's route exactly; the ℚ model's route within tolerance where it has the same shape -/
def weightsClose (rq : Route × Option Route) (o : RouteObs) : Bool :=
  let r := rq.1
  r.targets.map (·.weight) == o.weight && r.targets.map (·.fixedWeight) == o.fixed && weightsAgreeF64 o &&
  (match rq.2 with
   | none => false
   | some q =>
     !sameShapeR q r ||
     (q.targets.length == o.weight.length &&
      (q.targets.zip (o.weight.zip o.fixed)).all (fun (t, w, f) => ratClose t.weight w && relClose t.fixedWeight f)))

def uint64Max : Nat := 2^64

def picksJson (ps : Array Nat) : Json := Json.arr (ps.map (fun p => Json.num (JsonNumber.fromNat p)))

/-- the picks the model predicts: `lookupPick` shortcut for 0/1 targets, else `rrPick` on the ring
(closed form of `rrRun`, theorem `rrRun_eq`): slot `((start + j) mod 2⁶⁴) mod N`. `none` = panic. -/
def modelRR (n : Nat) (ring : Array (Option Nat)) (start k : Nat) : Option (Array Nat × Nat) :=
  if n = 0 then none
  else if n = 1 then some (Array.replicate k 0, start)
  else if ring.size = 0 then none
  else
    let ps := (Array.range k).map (fun j => match ring.getD (((start + j) % uint64Max) % ring.size) none with
      | some i => i
      | none => 1000000000)
    some (ps, (start + k) % uint64Max)

def rrH : Handler := fun inp impl => do
  let defs ← defsOf inp impl
  let env := envOf ((impl.getObjVal? "oracle").toOption.getD (Json.mkObj []))
  let src ← getStr inp "src"
  let k := (inp.getObjValAs? Nat "k").toOption.getD 0
  let start := ((inp.getObjValAs? String "start").toOption.bind String.toNat?).getD 0
  match modelRoute env defs src with
  | .error e =>
    let m := Json.mkObj [("error", errName e)]
    return ({ model := m, agree := closeJsonRel m impl, spec := true, nontrivial := false, tag := "err-" ++ errName e } : Verdict).toJson
  | .ok none =>
    let m := Json.mkObj [("noroute", true)]
    return ({ model := m, agree := closeJsonRel m impl, spec := true, nontrivial := false, tag := "noroute" } : Verdict).toJson
  | .ok (some r) =>
    if (impl.getObjVal? "picks").toOption.isNone then
      return ({ model := Json.null, agree := false, spec := true, nontrivial := false, tag := "impl-error" } : Verdict).toJson
    let o ← obsOfRoute impl
    let picks ← natArr (← impl.getObjVal? "picks")
    let total := ((impl.getObjValAs? String "total").toOption.bind String.toNat?).getD 0
    let n := o.weight.length
    let wOk := weightsClose r o
    let (ringOk, _) := ringAgrees o
    let mp := modelRR n o.ring start k
    let picksOk := match mp with
      | some (ps, tot) => ps == picks && tot == total
      | none => false
    let m := match mp with
      | some (ps, tot) => Json.mkObj [("picks", picksJson (ps.extract 0 20)), ("total", toString tot)]
      | none => Json.mkObj [("panic", true)]
    -- specification on the implementation's picks
    let fails0 := specFailures o
    let N := o.ring.size
    -- the cursor wraps at 2^64: windows are checked on each side of the wrap
    let wrapAt := uint64Max - start
    let segs : List (Array Nat) := if n ≤ 1 then [] else if wrapAt < k then [picks.extract 0 wrapAt, picks.extract wrapAt k] else [picks]
    let cyc := segs.all (fun s => windowsExact n o.ring s)
    let zeroPicked := picks.any (fun i => decide (i ≥ n) || decide (o.weight.getD i 0 ≤ 0))
    let single := n != 1 || picks.all (· == 0)
    let fails := fails0 ++ (if cyc then [] else ["cycle-not-exact"]) ++ (if zeroPicked then ["zero-weight-picked"] else [])
      ++ (if single then [] else ["single-target-shortcut"])
    let cls := (if n = 1 then "single" else if !hasFixed o then "bypass" else "ring") ++
      (if wrapAt < k then "/wrap" else "") ++ (if k ≥ 2 * N then "/2N+" else if k ≥ N then "/N+" else "/<N") ++
      (if (inp.getObjValAs? String "entry").toOption == some "host" then "/host" else "")
    let (spec, tag) := verdictOfSpec fails cls
    let tag := if spec && !wOk then "weights-differ" else if spec && !ringOk then "ring-differs" else if spec && !picksOk then "picks-differ" else tag
    return ({ model := m, agree := wOk && ringOk && picksOk, spec, nontrivial := decide (n ≥ 2 ∧ k ≥ N), tag } : Verdict).toJson

/-! ### c04.rnd -/

def rndH : Handler := fun inp impl => do
  let defs ← defsOf inp impl
  let env := envOf ((impl.getObjVal? "oracle").toOption.getD (Json.mkObj []))
  let src ← getStr inp "src"
  let rands0 ← natArr ((inp.getObjVal? "rands").toOption.getD (Json.arr #[]))
  let sweep := (inp.getObjValAs? Bool "sweep").toOption.getD false
  match modelRoute env defs src with
  | .error e =>
    let m := Json.mkObj [("error", errName e)]
    return ({ model := m, agree := closeJsonRel m impl, spec := true, nontrivial := false, tag := "err-" ++ errName e } : Verdict).toJson
  | .ok none =>
    let m := Json.mkObj [("noroute", true)]
    return ({ model := m, agree := closeJsonRel m impl, spec := true, nontrivial := false, tag := "noroute" } : Verdict).toJson
  | .ok (some r) =>
    if (impl.getObjVal? "picks").toOption.isNone then
      return ({ model := Json.null, agree := false, spec := true, nontrivial := false, tag := "impl-error" } : Verdict).toJson
    let o ← obsOfRoute impl
    let picks ← natArr (← impl.getObjVal? "picks")
    let asked ← natArr (← impl.getObjVal? "asked")
    let n := o.weight.length
    let wOk := weightsClose r o
    let (ringOk, _) := ringAgrees o
    -- a sweep enumerates the range once: as many draws as the ring has slots, the j-th is j (one lookup
    -- through the shortcut for a single target)
    let rands := if sweep then (if n ≤ 1 then #[0] else Array.range o.ring.size) else rands0
    -- model: lookupPick + rndPick with randIntn n = rands[j] % n
    let mpicks : Array Nat := (Array.range rands.size).map (fun j =>
      match lookupPick n (rndPickA o.ring (fun m => if m = 0 then 0 else ((rands.getD j 0 % m : Nat) : Int))) with
      | .ok (some i) => i
      | _ => 1000000000)
    let masked : Array Nat := if n ≤ 1 then #[] else Array.replicate rands.size o.ring.size
    let picksOk := mpicks == picks && masked == asked
    let m := Json.mkObj [("picks", picksJson (mpicks.extract 0 40)), ("asked", picksJson (masked.extract 0 40))]
    let zeroPicked := picks.any (fun i => decide (i ≥ n) || decide (o.weight.getD i 0 ≤ 0))
    let shareOk := !sweep || n ≤ 1 || sweepShareOk n o.ring picks asked
    let fails := specFailures o ++ (if zeroPicked then ["zero-weight-picked"] else [])
      ++ (if shareOk then [] else ["rnd-share-not-ring-share"])
    let cls := (if n = 1 then "single" else if !hasFixed o then "bypass" else "ring") ++ (if sweep then "/sweep" else "") ++
      (if (inp.getObjValAs? String "entry").toOption == some "host" then "/host" else "")
    let (spec, tag) := verdictOfSpec fails cls
    let tag := if spec && !wOk then "weights-differ" else if spec && !ringOk then "ring-differs" else if spec && !picksOk then "picks-differ" else tag
    return ({ model := m, agree := wOk && ringOk && picksOk, spec, nontrivial := decide (n ≥ 2), tag } : Verdict).toJson

/-! ### c04.hostile

The model after the repair of D02: a weight that is not a finite number is refused — by the parser for a
token `strconv.ParseFloat` rejects (`wparse = err`, text mode: the whole text is refused before any command
runs), by `addRoute`/`weighRoute` with "route: invalid weight" for NaN/±Inf (checked first, before the
prefix/target checks) —, and every finite weight, however large or small, yields the ℚ weights of `weigh`. -/

def isNonFinite (d : Json) : Bool :=
  match d.getObjValAs? String "weight" with
  | .ok s => s == "nan" || s == "inf" || s == "-inf"
  | .error _ => false

/-- decode the definitions with their finiteness flag and run `newTableW` -/
def hostileBuild (env : Env) (ds : List Json) : Except String (Except String (Table × Option Table)) := do
  let defs ← ds.mapM (fun d => do
    if isNonFinite d then
      let rd ← routeDef (d.setObjVal! "weight" (Json.str "0/1"))
      pure (rd, false)
    else
      let rd ← routeDef d
      pure (rd, true))
  let tq := match newTableW env defs with
    | .ok t => some t
    | .error _ => none
  match newTableWA Arith.f64 env defs with
  | .ok t => return (.ok (t, tq))
  | .error none => return (.error "invalidWeight")
  | .error (some e) => return (.error (errName e))

def hostileH : Handler := fun inp impl => do
  let ds ← rawDefs inp impl
  let env := envOf ((impl.getObjVal? "oracle").toOption.getD (Json.mkObj []))
  let text := (inp.getObjValAs? Bool "text").toOption.getD false
  let wparse := ((impl.getObjValAs? (Array String) "wparse").toOption.getD #[])
  let hostileTok := ds.toList.any (fun d => isNonFinite d ||
    (match (d.getObjValAs? String "weight").toOption.bind parseRat with
     | some w => decide (w > 1000000) || decide (0 < w ∧ w < 1 / 1000000)
     | none => false)) || wparse.any (· == "err")
  let implPanic := (impl.getObjVal? "panic").toOption.isSome
  let panicTag : String := match impl.getObjValAs? String "panic" with
    | .ok s => if (s.splitOn "makeslice").length > 1 then "panic-makeslice"
               else if (s.splitOn "divide by zero").length > 1 then "panic-divide-by-zero"
               else if (s.splitOn "index out of range").length > 1 then "panic-index"
               else if (s.splitOn "nil pointer").length > 1 then "panic-nil"
               else "panic-other"
    | .error _ => ""
  -- `route weight` with a share so small that share/n is a denormal (loses precision) in float64: the
  -- relative error of the requested weights is then far above 2⁻⁴⁰ and survives the normalisation. Such a
  -- case is compared with the float64 model only (exactly), not with the ℚ model.
  let underflow := ds.toList.any (fun d =>
    (d.getObjValAs? String "cmd").toOption == some "weight" &&
    (match (d.getObjValAs? String "weight").toOption.bind parseRat with
     | some w => decide (0 < absQ w ∧ absQ w < pow2 (-1000))
     | none => false))
  let res ← (if text && wparse.any (· == "err") then pure (.error "parseWeight") else hostileBuild env ds.toList)
  match res with
  | .error e =>
    let m := Json.mkObj [("error", e)]
    let tag := if implPanic then "spec-" ++ panicTag else "err-" ++ e
    return ({ model := m, agree := closeJsonRel m impl, spec := !implPanic, nontrivial := hostileTok, tag } : Verdict).toJson
  | .ok (t, tq) =>
    let m := Json.mkObj [("table", tableJson t)]
    if implPanic then
      return ({ model := m, agree := false, spec := false, nontrivial := hostileTok, tag := "spec-" ++ panicTag } : Verdict).toJson
    if (impl.getObjVal? "table").toOption.isNone then
      return ({ model := m, agree := false, spec := true, nontrivial := hostileTok, tag := "impl-error" } : Verdict).toJson
    let os ← obsOfTable impl
    -- float64 model: exact, every case (also where a share underflows); ℚ model: within tolerance where
    -- the shapes coincide
    let gap := match tq with
      | some q => !sameShape q t
      | none => false
    let qOk := match tq with
      | some q => gap || underflow || closeJsonRel (Json.mkObj [("table", tableJson q)]) impl
      | none => false
    let tableOk := eqJsonRat m impl && qOk
    let ringsOk := os.all (fun o => (ringAgrees o).1)
    let f64Ok := os.all weightsAgreeF64
    -- picks: per route rr ×3 from cursor 0, then one rnd draw with randIntn n = (j*7919) % n, j counting draws
    let picksJ ← (← impl.getObjVal? "picks").getArr?
    let mut j := 0
    let mut picksOk := picksJ.size == os.length
    let mut zeroPicked := false
    for (o, pj) in os.zip picksJ.toList do
      let ps ← natArr pj
      j := j + 1
      let N := o.ring.size
      let slot (k : Nat) : Nat := if N = 0 then 1000000000 else match o.ring.getD (k % N) none with
        | some i => i
        | none => 1000000000
      let want : Array Nat := #[slot 0, slot 1, slot 2, slot ((j * 7919) % (if N = 0 then 1 else N))]
      if want != ps then picksOk := false
      if ps.any (fun i => decide (i ≥ o.weight.length) || decide (o.weight.getD i 0 ≤ 0)) then zeroPicked := true
    let fails := os.foldr (fun o acc => specFailures o ++ acc) [] ++ (if zeroPicked then ["zero-weight-picked"] else [])
    let cls := match biggest os with
      | some o => "table/" ++ weightClass o
      | none => "table/empty"
    let (spec, tag) := verdictOfSpec fails cls
    let tag := if spec && !tableOk then "weights-differ" else if spec && !f64Ok then "f64-weights-differ"
      else if spec && !ringsOk then "ring-differs" else if spec && !picksOk then "picks-differ"
      else if spec && gap then "f64-q-gap" else tag
    return ({ model := m, agree := tableOk && f64Ok && ringsOk && picksOk, spec, nontrivial := hostileTok, tag } : Verdict).toJson

def streams : List (String × Handler) :=
  [("c04.weights", weightsH), ("c04.rr", rrH), ("c04.rnd", rndH), ("c04.hostile", hostileH)]
end Fabio.Driver.C04
