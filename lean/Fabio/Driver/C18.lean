import Fabio.Driver.Proto
import Fabio.Model.C18
import Fabio.Model.C18Exit
import Fabio.Model.C18System
namespace Fabio.Driver.C18
open Lean Fabio.Driver Fabio.Model.C18

/-- the contract the current tree is expected to satisfy (the repaired one) -/
def contract : GrpcContract := .stopsAtDeadline

/-- … and for websocket sessions (the repaired one: `proxy.Shutdown` waits for them, D31) -/
def wsContract : WsContract := .waitedFor

structure SrvIn where
  kind : String
  work : List Time
  hwork : List Time
  /-- connections whose handler is blocked dialling a black-holed upstream when shutdown begins: work on the
  tcp listener that never ends by itself (and that closing the inbound connection does not unblock) -/
  dial : Nat
  /-- its route was removed and `proxy.CloseProxy` ran just before the shutdown: not registered any more -/
  removed : Bool
  /-- websocket sessions (http, and the https child of inetaf): hijacked connections -/
  ws : List Time
  /-- > 0: the listener was still being started when shutdown began — its address was busy until `pending` ms after -/
  pending : Nat
  /-- > 0: `ListenAndServe*` was called only `late` ms after `proxy.Shutdown` began -/
  late : Nat

def parseTime (j : Json) : Except String Time :=
  match j with
  | .null => .ok none
  | _ => do let n ← j.getNat?; return some n

def parseTimes (j : Json) (key : String) : Except String (List Time) :=
  match j.getObjVal? key with
  | .error _ => .ok []
  | .ok .null => .ok []
  | .ok v => do
    let a ← v.getArr?
    a.toList.mapM parseTime

def parseSrv (j : Json) : Except String SrvIn := do
  let kind ← j.getObjValAs? String "kind"
  let work ← parseTimes j "work"
  let hwork ← parseTimes j "hwork"
  let dial := (j.getObjValAs? Nat "dial").toOption.getD 0
  let removed := (j.getObjValAs? Bool "removed").toOption.getD false
  let ws ← parseTimes j "ws"
  let pending := (j.getObjValAs? Nat "pending").toOption.getD 0
  let late := (j.getObjValAs? Nat "late").toOption.getD 0
  return { kind, work, hwork, dial, removed, ws, pending, late }

def toServer (s : SrvIn) : Except String Server :=
  match s.kind with
  | "http" => .ok (.single { kind := .http, work := s.work, hijacked := s.ws })
  | "https" => .ok (.single { kind := .http, work := s.work, hijacked := s.ws })
  | "prom" => .ok (.single { kind := .http, work := s.work })
  | "tcp" => .ok (.single { kind := .tcp, work := s.work ++ List.replicate s.dial none })
  | "sni" => .ok (.single { kind := .tcp, work := s.work ++ List.replicate s.dial none })
  | "grpc" => .ok (.single { kind := .grpc, work := s.work })
  | "inetaf" => .ok (.multi [{ kind := .tcp, work := s.work ++ List.replicate s.dial none }, { kind := .http, work := s.hwork, hijacked := s.ws }])
  | k => .error s!"unknown server kind {k}"

def fateStr : Fate → String
  | .completed => "completed"
  | .cut => "cut"
  | .stillOpen => "open"

def durStr : DurClass → String
  | .early => "early"
  | .deadline => "deadline"
  | .over => "over"

def leafKinds (s : SrvIn) : Kind × Kind :=
  match s.kind with
  | "http" => (.http, .http)
  | "https" => (.http, .http)
  | "prom" => (.http, .http)
  | "grpc" => (.grpc, .grpc)
  | "inetaf" => (.tcp, .http)
  | _ => (.tcp, .tcp)

def fatesJson (wait : Nat) (k : Kind) (ws : List Time) : Json :=
  Json.arr (ws.map (fun e => Json.str (fateStr (fate contract 0 wait k e)))).toArray

def beyond (wait : Nat) (ws : List Time) : Bool := ws.any (fun e => !(tle e (some wait)))

def strList (j : Json) (key : String) : Except String (List String) := do
  let v ← j.getObjVal? key
  let a ← v.getArr?
  a.toList.mapM (fun x => x.getStr?)

/-- the specification, evaluated on the implementation's own observation: `proxy.Shutdown` returned within
wait + slack; every piece of work that ended within the wait completed; no connection attempt made after
shutdown began was accepted. `none` = the observation does not have the shape of the scenario. -/
def specOf (wait : Nat) (srvs : List SrvIn) (impl : Json) : Option Bool := do
  let dur ← (impl.getObjValAs? String "dur").toOption
  let isrvs ← ((impl.getObjVal? "servers").toOption >>= fun v => v.getArr?.toOption)
  let acc ← ((impl.getObjVal? "accepted").toOption >>= fun v => v.getArr?.toOption)
  if isrvs.size != srvs.length || acc.size != srvs.length then none
  let mut ok := dur != "over"
  for a in acc do
    let b ← a.getBool?.toOption
    if b then ok := false
  for (s, js) in srvs.zip isrvs.toList do
    let fw ← (strList js "work").toOption
    let fh ← (strList js "hwork").toOption
    let fd := (strList js "dial").toOption.getD []
    let fs := (strList js "ws").toOption.getD []
    if fw.length != s.work.length || fh.length != s.hwork.length || fd.length != s.dial || fs.length != s.ws.length then none
    for (e, f) in (s.work ++ s.hwork ++ s.ws).zip (fw ++ fh ++ fs) do
      if tle e (some wait) && f != "completed" then ok := false
  return ok

def shutdownH : Handler := fun inp impl => do
  let wait ← inp.getObjValAs? Nat "wait"
  let sj ← inp.getObjVal? "servers"
  let sa ← sj.getArr?
  let srvs ← sa.toList.mapM parseSrv
  -- every scenario server is a start: the ordinary ones registered long before the shutdown (tick 0, shutdown at
  -- tick 1), a removed one is deleted again by `closeProxy`, one whose address is busy never registers
  let starts ← srvs.zipIdx.mapM (fun (s, i) => do
    let srv ← toServer s
    let (_, r) := listenAndServe (s.pending > 0) (toString i) srv []
    return ({ addr := toString i, srv := srv, registersAt := if r == .registered then some (if s.late > 0 then 1 + s.late else 0) else none } : Start))
  let reg := srvs.zipIdx.foldl (fun reg (s, i) => if s.removed then closeProxy (toString i) reg else reg) (snapshot 1 starts)
  let servers := reg.map (·.2)
  let ret := shutdownAll wsContract contract 0 wait servers
  let m := Json.mkObj [
    ("dur", Json.str (durStr (durClass 0 wait ret))),
    ("servers", Json.arr (srvs.map (fun s =>
        let (k1, k2) := leafKinds s
        if s.removed then  -- `CloseProxy` = `srv.Close()`: every tunnel is cut on the spot
          Json.mkObj [("work", Json.arr (s.work.map (fun _ => Json.str "cut")).toArray), ("hwork", Json.arr #[]), ("dial", Json.arr #[]), ("ws", Json.arr #[])]
        else
        -- a hijacked session is left alone like any http connection still active at the deadline
        Json.mkObj [("work", fatesJson wait k1 s.work), ("hwork", fatesJson wait k2 s.hwork),
                    ("dial", fatesJson wait k1 (List.replicate s.dial none)), ("ws", fatesJson wait .http s.ws)])).toArray),
    ("accepted", Json.arr (starts.map (fun st => Json.bool (startAccepts 1 st 1 || startAccepts 1 st 100000))).toArray)]
  let nwork := srvs.foldl (fun n s => n + s.work.length + s.hwork.length + s.dial + s.ws.length) 0
  let dOpen := srvs.any (fun s => s.dial > 0)
  let kindsWith (p : SrvIn → Bool) := srvs.any p
  let gOpen := kindsWith (fun s => s.kind == "grpc" && beyond wait s.work)
  let tOpen := kindsWith (fun s => (s.kind == "tcp" || s.kind == "sni" || s.kind == "inetaf") && beyond wait s.work)
  let hOpen := kindsWith (fun s => ((s.kind == "http" || s.kind == "https") && beyond wait s.work) || (s.kind == "inetaf" && beyond wait s.hwork))
  let cls := if srvs.any (·.removed) then "route-removed-before-shutdown"
             else if srvs.any (·.late > 0) then "listener-started-after-shutdown-began"
             else if srvs.any (·.pending > 0) then "listener-start-pending"
             else if srvs.any (fun s => !s.ws.isEmpty) then "websocket-session" else if dOpen then "tcp-dial-pending" else if gOpen then "grpc-open-work" else if tOpen then "tcp-open-work" else if hOpen then "http-open-work"
             else if nwork > 0 then "short-work-only" else "idle"
  let tag := if srvs.length > 1 then cls ++ "+mix" else cls
  match specOf wait srvs impl with
  | none =>
    return ({ model := m, agree := false, spec := true, nontrivial := false, tag := "impl-unparsed" } : Verdict).toJson
  | some sp =>
    let implCore := Json.mkObj [
      ("dur", (impl.getObjVal? "dur").toOption.getD Json.null),
      ("servers", (impl.getObjVal? "servers").toOption.getD Json.null),
      ("accepted", (impl.getObjVal? "accepted").toOption.getD Json.null)]
    return ({ model := m, agree := m == implCore, spec := sp, nontrivial := nwork > 0 || srvs.any (fun s => s.pending > 0 || s.late > 0), tag := tag } : Verdict).toJson

/-! `c18.process`: the real `fabio` binary, SIGTERM, probes. Input: `{"wait","grace","dynamic":bool,"refresh"}`;
observation: `{"exit": "early|deadline|over", "accepted_after": bool, "order_ok": bool, "short_completed": bool}`. -/
def processH : Handler := fun inp impl => do
  let dynamic := (inp.getObjValAs? Bool "dynamic").toOption.getD false
  let wait ← inp.getObjValAs? Nat "wait"
  let grace ← inp.getObjValAs? Nat "grace"
  let via := (inp.getObjValAs? String "via").toOption.getD ""
  let notcp := (inp.getObjValAs? Bool "notcp").toOption.getD false
  -- the configuration as servers with their work: an endless piece and one that ends a quarter into the wait
  let short : Time := some (grace + wait / 4)
  let two : List Time := [none, short]
  let httpLeaf : Leaf := { kind := .http, work := if via == "http" then two else [], hijacked := if via == "ws" then two else [] }
  let servers : List Server := [.single httpLeaf]
    ++ (if notcp then [] else [.single { kind := .tcp, work := if via == "" then two else [] }])
    ++ (if via == "grpc" then [.single { kind := .grpc, work := two }] else [])
    ++ (if dynamic then [.single { kind := .tcp, work := [] }] else [])
  -- signal at tick 0: the handler sleeps the grace period, calls proxy.Shutdown(wait), the process ends when it returns
  -- `hups` ignored SIGHUPs first; then the process is what `exit` makes of the SIGTERM
  let hups := (inp.getObjValAs? Nat "hups").toOption.getD 0
  let exit := Fabio.Model.C18System.processEnd .reselects wsContract contract hups (.sig .term) 0 grace wait servers
  let m := Json.mkObj [("exit", Json.str (durStr (durClass 0 (grace + wait) exit))), ("accepted_after", false), ("order_ok", true),
                       ("short_completed", Json.bool (processFate exit short == .completed))]
  let core := Json.mkObj [
      ("exit", (impl.getObjVal? "exit").toOption.getD Json.null),
      ("accepted_after", (impl.getObjVal? "accepted_after").toOption.getD Json.null),
      ("order_ok", (impl.getObjVal? "order_ok").toOption.getD Json.null),
      ("short_completed", (impl.getObjVal? "short_completed").toOption.getD Json.null)]
  match (impl.getObjValAs? String "exit").toOption, (impl.getObjValAs? Bool "accepted_after").toOption,
        (impl.getObjValAs? Bool "order_ok").toOption, (impl.getObjValAs? Bool "short_completed").toOption with
  | some ex, some acc, some ord, some sh =>
    let sp := ex != "over" && !acc && ord && sh
    let second := (inp.getObjValAs? String "second").toOption.getD ""
    let base := (if dynamic then "dynamic" else "static") ++ (if second != "" then "+second-signal" else "")
      ++ (if hups > 0 then "+after-sighup" else "") ++ (if via == "http" then "+http-request" else if via == "ws" then "+websocket" else if via == "grpc" then "+grpc-stream" else "") ++ (if notcp then "+no-tcp-listener" else "")
    let tag := if acc then base ++ "-listener-accepts-after-shutdown" else if !sh then base ++ "-short-work-cut"
               else if !ord then base ++ "-closed-during-grace" else if ex == "over" then base ++ "-exit-late" else base
    return ({ model := m, agree := m == core, spec := sp, nontrivial := true, tag := tag } : Verdict).toJson
  | _, _, _, _ =>
    return ({ model := m, agree := false, spec := true, nontrivial := false, tag := "impl-unparsed" } : Verdict).toJson

/-! `c18.exit`: the real package `exit` in a child process. Input: `{"handlers","hups","gap","end","handler_ms",
"again"}`; observation: `{"ignored": bool, "calls": [sig…] sorted, "exit": "in-time|late|never", "drained": bool}`. -/
open Fabio.Model.C18Exit in
def exitH : Handler := fun inp impl => do
  let k ← inp.getObjValAs? Nat "handlers"
  let n ← inp.getObjValAs? Nat "hups"
  let endS ← inp.getObjValAs? String "end"
  let again := (inp.getObjValAs? String "again").toOption.getD ""
  -- rush: the terminating event is sent right after the last SIGHUP (one burst). The prediction is the same as for
  -- signals handled in turn: the channel has room for the burst (`bursts_within_capacity_lose_nothing`)
  let rush := (inp.getObjValAs? Bool "rush").toOption.getD false && n > 0
  let ev : String → Except String Ev := fun s => match s with
    | "TERM" => .ok (.sig .term) | "INT" => .ok (.sig .int) | "exit" => .ok .exitCall | "fatal" => .ok .exitCall
    | s => .error s!"unknown event {s}"
  let last ← ev endS
  let more ← if again == "" then pure [] else do let e ← ev again; pure [e]
  let afterHups := Fabio.Model.C18Exit.run .reselects (initial k) (List.replicate n .hup)
  let p := Fabio.Model.C18Exit.run .reselects (initial k) (history n last ++ more)
  let sigName : LState → Option String := fun l => match l with
    | .ran (some .term) => some "TERM" | .ran (some .int) => some "INT" | .ran none => some "nil" | .waiting _ => none
  let calls := (p.listeners.filterMap sigName).toArray.qsort (· < ·)
  let allRan := p.listeners.all handlerRan
  -- the process ends when `main` returns from `exit.Wait()` or `exit.Exit` gets past `wg.Wait()`: both need every
  -- handler goroutine to have returned
  let m := Json.mkObj [
    ("ignored", Json.bool (!afterHups.quitClosed && afterHups.listeners.all (fun l => !handlerRan l))),
    ("calls", Json.arr (calls.map Json.str)),
    ("exit", Json.str (if allRan then "in-time" else "never")),
    ("drained", Json.bool allRan)]
  let core := Json.mkObj [
    ("ignored", (impl.getObjVal? "ignored").toOption.getD Json.null),
    ("calls", (impl.getObjVal? "calls").toOption.getD Json.null),
    ("exit", (impl.getObjVal? "exit").toOption.getD Json.null),
    ("drained", (impl.getObjVal? "drained").toOption.getD Json.null)]
  let want := match last with | .sig .term => "TERM" | .sig .int => "INT" | _ => "nil"
  match (impl.getObjValAs? Bool "ignored").toOption, (strList impl "calls").toOption,
        (impl.getObjValAs? String "exit").toOption, (impl.getObjValAs? Bool "drained").toOption with
  | some ign, some cs, some ex, some dr =>
    -- the specification on the observation alone: SIGHUPs did nothing; the first terminating event called every
    -- handler once, with its signal; the process ended, in time, after the handlers had finished
    let sp := ign && cs.length == k && cs.all (· == want) && ex == "in-time" && dr
    let base := (match endS with | "TERM" => "sigterm" | "INT" => "sigint" | "exit" => "exit-call" | _ => "fatal-call")
      ++ (if rush then "-right-after-sighup" else if n > 0 then "-after-sighup" else "") ++ (if again != "" then "+second-event" else "")
    let tag := if !ign then base ++ ":sighup-not-ignored" else if cs.length != k || !cs.all (· == want) then base ++ ":handler-not-called"
               else if ex != "in-time" then base ++ ":process-does-not-end" else if !dr then base ++ ":not-drained" else base
    return ({ model := m, agree := m == core, spec := sp, nontrivial := n > 0 || again != "" || k > 1, tag := tag } : Verdict).toJson
  | _, _, _, _ =>
    return ({ model := m, agree := false, spec := true, nontrivial := false, tag := "impl-unparsed" } : Verdict).toJson

def streams : List (String × Handler) := [("c18.shutdown", shutdownH), ("c18.process", processH), ("c18.exit", exitH)]
end Fabio.Driver.C18
