import Fabio.Driver.Proto
import Fabio.Model.C18
namespace Fabio.Driver.C18
open Lean Fabio.Driver Fabio.Model.C18

/-- the contract the current tree is expected to satisfy (the repaired one) -/
def contract : GrpcContract := .stopsAtDeadline

structure SrvIn where
  kind : String
  work : List Time
  hwork : List Time
  /-- connections whose handler is blocked dialling a black-holed upstream when shutdown begins: work on the
  tcp listener that never ends by itself (and that closing the inbound connection does not unblock) -/
  dial : Nat
  /-- its route was removed and `proxy.CloseProxy` ran just before the shutdown: not registered any more -/
  removed : Bool

def parseTime (j : Json) : Except String Time :=
  match j with
  | .null => .ok none
  | _ => do let n ← j.getNat?; return some n

def parseTimes (j : Json) (key : String) : Except String (List Time) :=
  match j.getObjVal? key with
  | .error _ => .ok []
  | .ok .null => .ok []
  | .ok v => do
    let a ← v.getArr?
    a.toList.mapM parseTime

def parseSrv (j : Json) : Except String SrvIn := do
  let kind ← j.getObjValAs? String "kind"
  let work ← parseTimes j "work"
  let hwork ← parseTimes j "hwork"
  let dial := (j.getObjValAs? Nat "dial").toOption.getD 0
  let removed := (j.getObjValAs? Bool "removed").toOption.getD false
  return { kind, work, hwork, dial, removed }

def toServer (s : SrvIn) : Except String Server :=
  match s.kind with
  | "http" => .ok (.single { kind := .http, work := s.work })
  | "tcp" => .ok (.single { kind := .tcp, work := s.work ++ List.replicate s.dial none })
  | "sni" => .ok (.single { kind := .tcp, work := s.work ++ List.replicate s.dial none })
  | "grpc" => .ok (.single { kind := .grpc, work := s.work })
  | "inetaf" => .ok (.multi [{ kind := .tcp, work := s.work ++ List.replicate s.dial none }, { kind := .http, work := s.hwork }])
  | k => .error s!"unknown server kind {k}"

def fateStr : Fate → String
  | .completed => "completed"
  | .cut => "cut"
  | .stillOpen => "open"

def durStr : DurClass → String
  | .early => "early"
  | .deadline => "deadline"
  | .over => "over"

def leafKinds (s : SrvIn) : Kind × Kind :=
  match s.kind with
  | "http" => (.http, .http)
  | "grpc" => (.grpc, .grpc)
  | "inetaf" => (.tcp, .http)
  | _ => (.tcp, .tcp)

def fatesJson (wait : Nat) (k : Kind) (ws : List Time) : Json :=
  Json.arr (ws.map (fun e => Json.str (fateStr (fate contract 0 wait k e)))).toArray

def beyond (wait : Nat) (ws : List Time) : Bool := ws.any (fun e => !(tle e (some wait)))

def strList (j : Json) (key : String) : Except String (List String) := do
  let v ← j.getObjVal? key
  let a ← v.getArr?
  a.toList.mapM (fun x => x.getStr?)

/-- the specification, evaluated on the implementation's own observation: `proxy.Shutdown` returned within
wait + slack; every piece of work that ended within the wait completed; no connection attempt made after
shutdown began was accepted. `none` = the observation does not have the shape of the scenario. -/
def specOf (wait : Nat) (srvs : List SrvIn) (impl : Json) : Option Bool := do
  let dur ← (impl.getObjValAs? String "dur").toOption
  let isrvs ← ((impl.getObjVal? "servers").toOption >>= fun v => v.getArr?.toOption)
  let acc ← ((impl.getObjVal? "accepted").toOption >>= fun v => v.getArr?.toOption)
  if isrvs.size != srvs.length || acc.size != srvs.length then none
  let mut ok := dur != "over"
  for a in acc do
    let b ← a.getBool?.toOption
    if b then ok := false
  for (s, js) in srvs.zip isrvs.toList do
    let fw ← (strList js "work").toOption
    let fh ← (strList js "hwork").toOption
    let fd := (strList js "dial").toOption.getD []
    if fw.length != s.work.length || fh.length != s.hwork.length || fd.length != s.dial then none
    for (e, f) in (s.work ++ s.hwork).zip (fw ++ fh) do
      if tle e (some wait) && f != "completed" then ok := false
  return ok

def shutdownH : Handler := fun inp impl => do
  let wait ← inp.getObjValAs? Nat "wait"
  let sj ← inp.getObjVal? "servers"
  let sa ← sj.getArr?
  let srvs ← sa.toList.mapM parseSrv
  let servers ← (srvs.filter (fun s => !s.removed)).mapM toServer
  let ret := shutdownReturn contract 0 wait servers
  let m := Json.mkObj [
    ("dur", Json.str (durStr (durClass 0 wait ret))),
    ("servers", Json.arr (srvs.map (fun s =>
        let (k1, k2) := leafKinds s
        if s.removed then  -- `CloseProxy` = `srv.Close()`: every tunnel is cut on the spot
          Json.mkObj [("work", Json.arr (s.work.map (fun _ => Json.str "cut")).toArray), ("hwork", Json.arr #[]), ("dial", Json.arr #[])]
        else
        Json.mkObj [("work", fatesJson wait k1 s.work), ("hwork", fatesJson wait k2 s.hwork),
                    ("dial", fatesJson wait k1 (List.replicate s.dial none))])).toArray),
    ("accepted", Json.arr (srvs.map (fun _ => Json.bool false)).toArray)]
  let nwork := srvs.foldl (fun n s => n + s.work.length + s.hwork.length + s.dial) 0
  let dOpen := srvs.any (fun s => s.dial > 0)
  let kindsWith (p : SrvIn → Bool) := srvs.any p
  let gOpen := kindsWith (fun s => s.kind == "grpc" && beyond wait s.work)
  let tOpen := kindsWith (fun s => (s.kind == "tcp" || s.kind == "sni" || s.kind == "inetaf") && beyond wait s.work)
  let hOpen := kindsWith (fun s => (s.kind == "http" && beyond wait s.work) || (s.kind == "inetaf" && beyond wait s.hwork))
  let cls := if srvs.any (·.removed) then "route-removed-before-shutdown" else if dOpen then "tcp-dial-pending" else if gOpen then "grpc-open-work" else if tOpen then "tcp-open-work" else if hOpen then "http-open-work"
             else if nwork > 0 then "short-work-only" else "idle"
  let tag := if srvs.length > 1 then cls ++ "+mix" else cls
  match specOf wait srvs impl with
  | none =>
    return ({ model := m, agree := false, spec := true, nontrivial := false, tag := "impl-unparsed" } : Verdict).toJson
  | some sp =>
    let implCore := Json.mkObj [
      ("dur", (impl.getObjVal? "dur").toOption.getD Json.null),
      ("servers", (impl.getObjVal? "servers").toOption.getD Json.null),
      ("accepted", (impl.getObjVal? "accepted").toOption.getD Json.null)]
    return ({ model := m, agree := m == implCore, spec := sp, nontrivial := nwork > 0, tag := tag } : Verdict).toJson

/-! `c18.process`: the real `fabio` binary, SIGTERM, probes. Input: `{"wait","grace","dynamic":bool,"refresh"}`;
observation: `{"exit": "early|deadline|over", "accepted_after": bool, "order_ok": bool, "short_completed": bool}`. -/
def processH : Handler := fun inp impl => do
  let dynamic := (inp.getObjValAs? Bool "dynamic").toOption.getD false
  let m := Json.mkObj [("exit", "deadline"), ("accepted_after", false), ("order_ok", true), ("short_completed", true)]
  let core := Json.mkObj [
      ("exit", (impl.getObjVal? "exit").toOption.getD Json.null),
      ("accepted_after", (impl.getObjVal? "accepted_after").toOption.getD Json.null),
      ("order_ok", (impl.getObjVal? "order_ok").toOption.getD Json.null),
      ("short_completed", (impl.getObjVal? "short_completed").toOption.getD Json.null)]
  match (impl.getObjValAs? String "exit").toOption, (impl.getObjValAs? Bool "accepted_after").toOption,
        (impl.getObjValAs? Bool "order_ok").toOption, (impl.getObjValAs? Bool "short_completed").toOption with
  | some ex, some acc, some ord, some sh =>
    let sp := ex != "over" && !acc && ord && sh
    let second := (inp.getObjValAs? String "second").toOption.getD ""
    let base := (if dynamic then "dynamic" else "static") ++ (if second != "" then "+second-signal" else "")
    let tag := if acc then base ++ "-listener-accepts-after-shutdown" else if !sh then base ++ "-short-work-cut"
               else if !ord then base ++ "-closed-during-grace" else if ex == "over" then base ++ "-exit-late" else base
    return ({ model := m, agree := m == core, spec := sp, nontrivial := true, tag := tag } : Verdict).toJson
  | _, _, _, _ =>
    return ({ model := m, agree := false, spec := true, nontrivial := false, tag := "impl-unparsed" } : Verdict).toJson

def streams : List (String × Handler) := [("c18.shutdown", shutdownH), ("c18.process", processH)]
end Fabio.Driver.C18
