import Fabio.Driver.C17
def main : IO Unit := Fabio.Driver.run Fabio.Driver.C17.streams
