import Fabio.Driver.C01
def main : IO Unit := Fabio.Driver.run Fabio.Driver.C01.streams
