import Fabio.Driver.Proto
import Fabio.Driver.RouteJson
import Fabio.Model.C01
import Fabio.Model.Route
import Fabio.Model.C01Compose
import Fabio.Model.C01Sys
/-!
Driver handlers for C01.

* `c01.passing`  — `checksWithTagPrefix` / `passingServices` on generated check lists (indices of the result).
* `c01.join`     — `makeConfig` / `serviceConfig` against a catalog (sorted command lines).
* `c01.pipeline` — the whole chain on a registry history: expected table for the final registry state.

The *model* column is computed with the model functions (`watchOnce`, `passingServices`, `joined keyPair`);
the *spec* column is computed from the English rule `HealthyAt` directly (decidable instance), never through
`passingServices`/`checksWithTagPrefix`/`joined`.

`buildSimple` mirrors `routecmd.build` (owned by C14) for the tag fragment the C01 generators emit:
`<prefix>[host]/path`, `<prefix>:port`, options `proto=tcp|https|grpc|grpcs`, other `k=v` options, plain tags;
`redirect=<code>,<url>`; no `$` expansion, no `weight=`, ASCII only.
-/
namespace Fabio.Driver.C01
open Lean Fabio.Driver Fabio.Driver.RouteJson Fabio.Model.C01
open Fabio.Model.Route (RouteDef Cmd Env newTable)

def S (s : String) : Str := s.toList

def checkOf (j : Json) : Except String Check := do
  let tags ← strList ((j.getObjVal? "tags").toOption.getD .null)
  return { node := getStrD j "node", checkID := getStrD j "id", serviceID := getStrD j "sid",
           serviceName := getStrD j "name", status := getStrD j "status", tags }

def instOf (j : Json) : Except String Instance := do
  let tags ← strList ((j.getObjVal? "tags").toOption.getD .null)
  let port := (j.getObjValAs? Nat "port").toOption.getD 0
  return { node := getStrD j "node", serviceID := getStrD j "sid", serviceName := getStrD j "name",
           address := getStrD j "addr", serviceAddress := getStrD j "saddr", port, tags }

def arrOf {α} (f : Json → Except String α) (j : Json) : Except String (List α) :=
  match j with
  | .arr a => a.toList.mapM f
  | .null => pure []
  | _ => throw "expected array"

def field (j : Json) (k : String) : Json := (j.getObjVal? k).toOption.getD .null

/-! ### `routecmd.build` for the generated fragment -/

/-- `unicode.IsSpace` (what `strings.TrimSpace` / `strings.Fields` test), written out independently of `Model/Parse` -/
def isSpace (c : Char) : Bool :=
  let n := c.toNat
  c == ' ' || (9 ≤ n && n ≤ 13) || n == 0x85 || n == 0xA0 || n == 0x1680 || (0x2000 ≤ n && n ≤ 0x200A) ||
  n == 0x2028 || n == 0x2029 || n == 0x202F || n == 0x205F || n == 0x3000
def trimSpace (s : Str) : Str := ((s.dropWhile isSpace).reverse.dropWhile isSpace).reverse

def splitFirst (c : Char) (s : Str) : Str × Option Str :=
  match Fabio.indexOf c s with
  | none => (s, none)
  | some i => (s.take i, some (s.drop (i+1)))

/-- `strings.Fields` for ASCII white space -/
def fields (s : Str) : List Str :=
  let rec go (cur : Str) (acc : List Str) : Str → List Str
    | [] => (if cur.isEmpty then acc else acc ++ [cur.reverse])
    | c :: cs => if isSpace c then go [] (if cur.isEmpty then acc else acc ++ [cur.reverse]) cs else go (c :: cur) acc cs
  go [] [] s

/-- `strings.Split(s, ",")` -/
def splitOn (c : Char) (s : Str) : List Str :=
  let rec go (cur : Str) (acc : List Str) : Str → List Str
    | [] => acc ++ [cur.reverse]
    | x :: xs => if x == c then go [] (acc ++ [cur.reverse]) xs else go (x :: cur) acc xs
  go [] [] s

def joinWith (sep : Str) : List Str → Str
  | [] => []
  | [x] => x
  | x :: xs => x ++ sep ++ joinWith sep xs

/-- command line and structured definition of every route tag of a catalog entry -/
def buildSimple (pfx : Str) (i : Instance) : List (Str × RouteDef) :=
  let tags := i.tags.map trimSpace
  let routetags := tags.filter (fun t => pfx.isPrefixOf t)
  let svctags := tags.filter (fun t => !pfx.isPrefixOf t)
  routetags.map (fun tag =>
    let s := trimSpace (tag.drop pfx.length)
    let (r0, optsO) := splitFirst ' ' s
    let opts := fields (optsO.getD [])
    let route :=
      if (S ":").isPrefixOf r0 then r0
      else match splitFirst '/' r0 with
        | (_, none) => r0
        | (h, some p) => Fabio.lowerL h ++ '/' :: p
    let addr := if i.serviceAddress.isEmpty then i.address else i.serviceAddress
    let hp := addr ++ S ":" ++ S (toString i.port)
    let protoDst (o : Str) : Option Str :=
      if o == S "proto=tcp" then some (S "tcp://" ++ hp)
      else if o == S "proto=https" then some (S "https://" ++ hp)
      else if o == S "proto=grpcs" then some (S "grpcs://" ++ hp)
      else if o == S "proto=grpc" then some (S "grpc://" ++ hp)
      else none
    -- every tag starts from the instance's own address; `proto=` / `redirect=<code>,<url>` change the destination
    -- of THIS tag only; an ill-formed `redirect=` is dropped
    let (dst, ropts) := opts.foldl (fun (acc : Str × List Str) o =>
      match protoDst o with
      | some d => (d, acc.2)
      | none =>
        if (S "redirect=").isPrefixOf o then
          match splitOn ',' (o.drop 9) with
          | [code, url] => (url, acc.2 ++ [S "redirect=" ++ code])
          | _ => acc
        else (acc.1, acc.2 ++ [o])) (S "http://" ++ hp ++ S "/", [])
    let line := S "route add " ++ i.serviceName ++ S " " ++ route ++ S " " ++ dst ++
      (if svctags.isEmpty then [] else S " tags \"" ++ joinWith (S ",") svctags ++ S "\"") ++
      (if ropts.isEmpty then [] else S " opts \"" ++ joinWith (S " ") ropts ++ S "\"")
    let optPairs : List (Str × Str) := ropts.map (fun o =>
      match splitFirst '=' o with
      | (k, some v) => (k, v)
      | (k, none) => (k, []))
    let d : RouteDef :=
      { cmd := Cmd.add, service := i.serviceName, src := route, dst := dst, weight := 0, tags := svctags, opts := optPairs }
    (line, d))

def linesOf (pfx : Str) (i : Instance) : List Str := (buildSimple pfx i).map (·.1)

def catalogFn (cat : List Instance) (name : Str) : List Instance := cat.filter (fun i => i.serviceName == name)

/-- two different (node, service id) pairs among the given ones with the same dotted key (the class of D01) -/
def dottedCollision (ps : List (Str × Str)) : Bool :=
  ps.any (fun a => ps.any (fun b => a != b && keyDot a.1 a.2 == keyDot b.1 b.2))

def pairsOf (cs : List Check) (cat : List Instance) : List (Str × Str) :=
  cs.map (fun c => (c.node, c.serviceID)) ++ cat.map (fun i => (i.node, i.serviceID))

/-- the English rule for a catalog instance: it has a service check (carrying its service name) and is
healthy over the full list of checks -/
def routedSpec (checks : List Check) (st : List Str) (strict : Bool) (i : Instance) : Bool :=
  !i.serviceName.isEmpty &&
  checks.any (fun c => c.node == i.node && c.serviceID == i.serviceID && c.serviceName == i.serviceName && isServiceCheck c) &&
  decide (HealthyAt checks st strict i.node i.serviceID)

def jLines (ls : List Str) : Json := Json.arr (ls.map str).toArray

/-! ### c01.passing -/

def natList (j : Json) : Except String (List Int) :=
  match j with
  | .arr a => a.toList.mapM (fun x => match x.getInt? with | .ok n => pure n | .error e => throw e)
  | _ => throw "expected array of ints"

def jInts (l : List Nat) : Json := Json.arr (l.map (fun n => Json.num (JsonNumber.fromNat n))).toArray

def strictlyIncreasing : List Int → Bool
  | a :: b :: r => a < b && strictlyIncreasing (b :: r)
  | _ => true

def passingH : Handler := fun inp impl => do
  let pfx := getStrD inp "prefix"
  let st ← strList (field inp "status")
  let strict := (inp.getObjValAs? Bool "strict").toOption.getD false
  let cs ← arrOf checkOf (field inp "checks")
  let n := cs.length
  let ics := (List.range n).zip cs
  -- model
  let mFilter := (ics.filter (fun p => isNodeOrMaint p.2 || hasTagPrefix pfx p.2)).map (·.1)
  let mPassing := (ics.filter (fun p => keep cs st strict p.2)).map (·.1)
  let fl := checksWithTagPrefix pfx cs
  let mWatch := ((ics.filter (fun p => isNodeOrMaint p.2 || hasTagPrefix pfx p.2)).filter (fun p => keep fl st strict p.2)).map (·.1)
  let model := Json.mkObj [("filter", jInts mFilter), ("passing", jInts mPassing), ("watch", jInts mWatch)]
  -- the implementation's answer
  let iFilter ← natList (field impl "filter")
  let iPassing ← natList (field impl "passing")
  let iWatch ← natList (field impl "watch")
  -- spec, from the English rule
  let kept (c : Check) : Bool :=
    c.checkID == serf || c.checkID == nodeMaint || (S "_service_maintenance").isPrefixOf c.checkID ||
    c.tags.any (fun t => pfx.isPrefixOf (trimSpace t))  -- a tag is read trimmed, as `routecmd.build` reads it
  let specFilter := strictlyIncreasing iFilter && ics.all (fun p => iFilter.contains (Int.ofNat p.1) == kept p.2)
  let specPassing := strictlyIncreasing iPassing &&
    ics.all (fun p => iPassing.contains (Int.ofNat p.1) ==
      (isServiceCheck p.2 && decide (HealthyAt cs st strict p.2.node p.2.serviceID)))
  let implF := (ics.filter (fun p => iFilter.contains (Int.ofNat p.1))).map (·.2)
  let specWatch := strictlyIncreasing iWatch &&
    ics.all (fun p => iWatch.contains (Int.ofNat p.1) ==
      (iFilter.contains (Int.ofNat p.1) && isServiceCheck p.2 && decide (HealthyAt implF st strict p.2.node p.2.serviceID)))
  let svcCount := (cs.filter isServiceCheck).length
  let blocked := cs.any (fun c => c.checkID == nodeMaint || (c.status == critical && (c.checkID == serf || svcMaintPfx.isPrefixOf c.checkID)))
  -- a tag that is a routing tag only after trimming (D27) / a tag that holds the prefix without starting with it
  let spaced := cs.any (fun c => c.tags.any (fun t => pfx.isPrefixOf (trimSpace t) && !pfx.isPrefixOf t))
  let tag := (if strict then "strict" else "one") ++ (if blocked then "-blocked" else "-noblock") ++
    (if spaced then "-spacedtag" else "") ++
    (if !specFilter then "-filterspec" else if !specPassing then "-passingspec" else if !specWatch then "-watchspec" else "")
  return ({ model, agree := model == impl, spec := specFilter && specPassing && specWatch,
            nontrivial := decide (2 ≤ svcCount) && !mPassing.isEmpty && mPassing.length != svcCount, tag } : Verdict).toJson

/-! ### c01.join -/

/-- a record without an observation (`{"harness_error": …}` after the harness's own retries, a captured panic of the
harness, `{"hang": …}`): not judged — neither a disagreement nor a specification failure, never non-trivial -/
def noObservation : Json :=
  ({ model := Json.str "no-observation", agree := true, spec := true, nontrivial := false, tag := "harness-error" } : Verdict).toJson

def joinH : Handler := fun inp impl => do
  if (impl.getObjVal? "lines").toOption.isNone then return noObservation
  let pfx := getStrD (field inp "cfg") "prefix"
  let passing ← arrOf checkOf (field inp "passing")
  let cat ← arrOf instOf (field impl "catalog")
  let iLines ← strList (field impl "lines")
  let mLines := makeConfigLines keyPair (linesOf pfx) passing (catalogFn cat)
  let want := cat.filter (fun i => !i.serviceName.isEmpty &&
    passing.any (fun c => c.serviceName == i.serviceName && c.node == i.node && c.serviceID == i.serviceID))
  let sLines := sortDesc (want.flatMap (linesOf pfx))
  let spec := sLines == iLines
  let ps := pairsOf passing cat
  let dLines := makeConfigLines keyDot (linesOf pfx) passing (catalogFn cat)
  let tag := if spec then (if dottedCollision ps then "dotted" else "plain")
             else if dottedCollision ps && dLines == iLines then "dotted-key-collision" else "lines-mismatch"
  return ({ model := jLines mLines, agree := mLines == iLines, spec,
            nontrivial := decide (1 ≤ sLines.length) && want.length != cat.length, tag } : Verdict).toJson

/-! ### c01.pipeline -/

def expectedTable (env : Env) (pfx : Str) (cat : List Instance) (lines : List Str) (kv : List RouteDef) :
    Except Fabio.Model.Route.Err Fabio.Model.Route.Table :=
  let tbl := cat.flatMap (buildSimple pfx)
  newTable env (lines.filterMap (fun l => tbl.lookup l) ++ kv)

/-- (host, path, service, url) of every target of a table dump -/
def tableTargets (t : Json) : List (Str × Str × Str × Str) :=
  let arr (j : Json) : List Json := match j with | .arr a => a.toList | _ => []
  (arr t).flatMap (fun h => (arr (field h "routes")).flatMap (fun r => (arr (field r "targets")).map (fun g =>
    (getStrD r "host", getStrD r "path", getStrD g "service", getStrD g "url"))))

/-- where a `route add … <src> …` puts its target: lower-cased host, path (independent of `Model/Route`) -/
def srcKey (src : Str) : Str × Str :=
  if (S ":").isPrefixOf src then (src, [])
  else match splitFirst '/' src with
    | (h, none) => (Fabio.lowerL h, S "/")
    | (h, some p) => (Fabio.lowerL h, '/' :: p)

/-- **Soundness at an observation point** (a sync point of the history: the watchers have seen the registry state
`reg` and the table loop has processed what they sent — with or without failing catalog lookups on the way): every
target of the installed table — under the host and path it sits at — is either the target of a routing tag *for that
prefix* of an instance that advertises it and is `HealthyAt` in that state, or the target of an operator `route add`
of the KV content of that state. Returns the offending targets. -/
def unsoundTargets (pfx : Str) (st : List Str) (strict : Bool) (o : Json) : Except String (List (Str × Str × Str × Str)) := do
  let reg := field o "registry"
  let checks ← arrOf checkOf (field reg "checks")
  let cat ← arrOf instOf (field reg "catalog")
  let kv ← arrOf routeDef (field reg "kv")
  let env := envOf (field o "oracle")
  let norm (d : Str) : Str := (env.normURL d).getD d
  let healthy := cat.filter (routedSpec checks st strict)
  let allowedSvc := healthy.flatMap (fun i => (buildSimple pfx i).map (fun ld =>
    ((srcKey ld.2.src).1, (srcKey ld.2.src).2, ld.2.service, norm ld.2.dst)))
  let allowedKV := (kv.filter (fun d => d.cmd == Cmd.add)).map (fun d =>
    ((srcKey d.src).1, (srcKey d.src).2, d.service, norm d.dst))
  return (tableTargets (field o "table")).filter (fun t => !(allowedSvc.contains t || allowedKV.contains t))

/-- `strconv.ParseFloat` as shipped by the harness: `{"pf": {token: "num/den" | "inf" | "-inf" | "nan" | null}}` -/
def pfOf (o : Json) : Fabio.Model.Parse.ParseFloat :=
  let p := (o.getObjVal? "pf").toOption.getD (Json.mkObj [])
  fun s => match p.getObjVal? (String.ofList s) with
    | .ok (.str "nan") => some .nan
    | .ok (.str "inf") => some .posInf
    | .ok (.str "-inf") => some .negInf
    | .ok (.str r) => (parseRat r).map .fin
    | _ => none

/-- The **model** column is the composed Lean pipeline (phase 2): C01's `watchOnce keyPair` with C14's `build` as
`routecmd.build` gives the service text, `Model/Parse` + `Model/Route` (`loadTable`) build the table from
`service text ++ "\n" ++ manual text` — the very functions `Props/C01Compose.lean` is about. The **spec** column
stays independent of all of them: `HealthyAt` on the full check list, the `buildSimple` mirror, structured
operator commands. -/
def pipelineH : Handler := fun inp impl => do
  -- A record without an observation — `{"harness_error": …}` (the child did not start or died, a wait ran into its
  -- ceiling on an overloaded machine; the harness has already retried in a fresh child), a captured panic of the
  -- harness itself, `{"hang": …}` — says nothing about fabio: it is neither a disagreement nor a specification failure.
  -- It is counted in its own class and is never non-trivial, so a stream that keeps producing it falls below its
  -- non-trivial floor and the run is reported broken.
  if (impl.getObjVal? "registry").toOption.isNone then
    return ({ model := Json.str "no-observation", agree := true, spec := true, nontrivial := false,
              tag := "harness-error" } : Verdict).toJson
  let cfg := field inp "cfg"
  let pfx := getStrD cfg "prefix"
  let st ← strList (field cfg "status")
  let strict := (cfg.getObjValAs? Bool "strict").toOption.getD false
  let reg := field impl "registry"
  let checks ← arrOf checkOf (field reg "checks")
  let cat ← arrOf instOf (field reg "catalog")
  let kv ← arrOf routeDef (field reg "kv")
  -- the manual text is the model's `listKV` of the KV pairs as stored (keys, values with whatever white space and
  -- comment lines surround the commands), not a text assembled on the Go side
  let kvPairs ← arrOf (fun j => do let l ← strList j; pure (l.getD 0 [], l.getD 1 [])) (field reg "kvpairs")
  let kvText := Fabio.Model.C01Sys.listKVText true kvPairs
  let env := envOf (field impl "oracle")
  let pf := pfOf (field impl "oracle")
  let implTable := field impl "table"
  -- model: the composed pipeline
  let ccfg : Fabio.Model.C14.Cfg := { pfx, env := [(S "DC", S "dc1")] }
  let svcText := Fabio.Model.C01Compose.svcText env pf ccfg st strict checks (catalogFn cat)
  let composed := Fabio.Model.Parse.loadTable env pf (concatCfg svcText kvText)
  -- spec: the English rule
  let adv := cat.filter (fun i => !(buildSimple pfx i).isEmpty)
  let routed := adv.filter (routedSpec checks st strict)
  let sLines := sortDesc (routed.flatMap (linesOf pfx))
  let ps := pairsOf (checks.filter isServiceCheck) cat
  let faults := (impl.getObjValAs? Nat "faults").toOption.getD 0
  let jumps := (impl.getObjValAs? Nat "jumps").toOption.getD 0
  let holds := (impl.getObjValAs? Nat "holds").toOption.getD 0
  -- a route of the final state asks for an alias (`register=<name>`); the alias registration of this child fails
  let wantsAlias := cat.any (fun i => i.tags.any (fun t => (fields t).any (fun o => (S "register=").isPrefixOf o))) ||
    kv.any (fun d => d.opts.any (fun o => o.1 == S "register"))
  let svcAddr := getStrD cfg "svcaddr"
  let aliasFails := !(svcAddr.contains ':')
  let multiTag := cat.any (fun i => decide (2 ≤ (buildSimple pfx i).length))
  let feature := (if kv.isEmpty then "nokv" else "kv") ++ (if strict then "-strict" else "-one") ++
    (if faults > 0 then "-faults" else "") ++ (if jumps > 0 then "-indexjump" else "") ++
    (if holds > 0 then "-busy" else "") ++
    (if wantsAlias then (if aliasFails then "-aliasfail" else "-alias") else "") ++
    (if multiTag then "-multitag" else "")
  -- soundness at every observation point of the history (sync points; under faults too)
  let obs := match field impl "obs" with | .arr a => a.toList | _ => []
  let bad ← obs.mapM (unsoundTargets pfx st strict)
  let obsSound := bad.all (·.isEmpty)
  if !obsSound then
    return ({ model := Json.arr ((bad.flatMap id).map (fun t => Json.arr #[str t.1, str t.2.1, str t.2.2.1, str t.2.2.2])).toArray,
              agree := true, spec := false, nontrivial := true,
              tag := "unhealthy-target-after-observation" } : Verdict).toJson
  match composed, expectedTable env pfx cat sLines kv with
  | .ok mt, .ok stb =>
    let mj := tableJson mt
    let agree := closeJson mj implTable
    let spec := closeJson (tableJson stb) implTable
    -- class of a failure: does the table the *dotted* key would produce explain the implementation's table (D01)?
    let dotted := match expectedTable env pfx cat (watchOnce keyDot (linesOf pfx) pfx st strict checks (catalogFn cat)) kv with
      | .ok dt => closeJson (tableJson dt) implTable
      | .error _ => false
    let tag := if spec then feature
               else if dottedCollision ps && dotted then "dotted-key-collision" else "table-mismatch"
    return ({ model := mj, agree, spec,
              nontrivial := !routed.isEmpty && (routed.length != adv.length || !kv.isEmpty), tag } : Verdict).toJson
  | .error _, .error _ =>
    -- the final text does not build: the property (and `quiescent_table`) say nothing about this state
    return ({ model := Json.str "final-text-does-not-build", agree := true, spec := true, nontrivial := false,
              tag := "final-text-invalid" } : Verdict).toJson
  | .ok mt, .error _ =>
    return ({ model := tableJson mt, agree := false, spec := true, nontrivial := false, tag := "spec-side-build-error" } : Verdict).toJson
  | .error _, .ok _ =>
    return ({ model := Json.str "composed-pipeline-load-error", agree := false, spec := true, nontrivial := false,
              tag := "composed-load-error" } : Verdict).toJson

def streams : List (String × Handler) :=
  [("c01.passing", passingH), ("c01.join", joinH), ("c01.pipeline", pipelineH)]
end Fabio.Driver.C01
