import Fabio.Driver.Proto
import Fabio.Model.C19
import Fabio.Model.C19Load
namespace Fabio.Driver.C19
open Lean Fabio.Driver Fabio.Model.C19

/-! Handlers for the C19 streams (`harness/c19/streams.go`). -/

def getI (j : Json) (k : String) : Except String Int := j.getObjValAs? Int k
def getS (j : Json) (k : String) : Except String String := j.getObjValAs? String k
def getB (j : Json) (k : String) : Except String Bool := j.getObjValAs? Bool k

def cfgOf (j : Json) : Except String Cfg := do
  return { dialTimeout := ← getI j "dial", responseHeaderTimeout := ← getI j "rht",
           keepAliveTimeout := ← getI j "keepalive", idleConnTimeout := ← getI j "idle", maxConn := ← getI j "maxconn" }

/-- `host=`, `proto=`, `tlsskipverify=` and the URL scheme of the generated target → the model's view. -/
def optsOf (j : Json) : Except String TargetOpts := do
  let scheme ← getS j "scheme"
  let proto ← getS j "proto"
  return { host := ← getS j "host", https := scheme == "https" || proto == "https", tlsSkipVerify := ← getB j "skip" }

def tlsJson : Option TLS → Json
  | none => Json.null
  | some t => Json.mkObj [("sni", t.serverName), ("skip", t.insecureSkipVerify)]

def transportJson (t : Transport) : Json :=
  Json.mkObj [("rht", Json.num (JsonNumber.fromInt t.responseHeaderTimeout)),
              ("idle", Json.num (JsonNumber.fromInt t.idleConnTimeout)),
              ("maxidle", Json.num (JsonNumber.fromInt t.maxIdleConnsPerHost)),
              ("dial", Json.num (JsonNumber.fromInt t.dialTimeout)),
              ("keepalive", Json.num (JsonNumber.fromInt t.dialKeepAlive)),
              ("tls", tlsJson t.tls)]

def optTransportJson : Option Transport → Json
  | none => Json.null
  | some t => transportJson t

/-- Read a transport as reported by the harness (a `note` means the dialer could not be observed). -/
def transportOf (j : Json) : Except String (Option Transport) := do
  if j.isNull then return none
  let tls ← match j.getObjVal? "tls" with
    | .ok t => if t.isNull then pure none else do
        pure (some ({ serverName := ← getS t "sni", insecureSkipVerify := ← getB t "skip" } : TLS))
    | .error _ => pure none
  return some { responseHeaderTimeout := ← getI j "rht", idleConnTimeout := ← getI j "idle",
                maxIdleConnsPerHost := ← getI j "maxidle", dialTimeout := ← getI j "dial",
                dialKeepAlive := ← getI j "keepalive", tls := tls }

def hasNote (j : Json) : Bool := match j.getObjVal? "note" with | .ok _ => true | .error _ => false

def firstMismatch (c : Cfg) (t : Transport) : String :=
  if t.responseHeaderTimeout != c.responseHeaderTimeout then "responseheadertimeout"
  else if t.idleConnTimeout != c.idleConnTimeout then "idleconntimeout"
  else if t.maxIdleConnsPerHost != c.maxConn then "maxconn"
  else if t.dialTimeout != c.dialTimeout then "dialtimeout"
  else if t.dialKeepAlive != c.keepAliveTimeout then "keepalivetimeout"
  else ""

def allZero (t : Transport) : Bool :=
  t.responseHeaderTimeout == 0 && t.idleConnTimeout == 0 && t.maxIdleConnsPerHost == 0 && t.dialTimeout == 0 && t.dialKeepAlive == 0

/-- c19.fields: spec = every transport the program built carries the configured five values. -/
def fieldsH : Handler := fun inp impl => do
  let cfg ← cfgOf (← inp.getObjVal? "cfg")
  let o ← optsOf (← inp.getObjVal? "target")
  -- the cell before the call is whatever the previous case left: `transport_uses_config` holds for every cell
  let cell := setConfig Cell.init cfg
  let p := newHTTPProxy cell
  let tg := addTarget cell o
  let m := Json.mkObj [("default", transportJson p.transport), ("insecure", transportJson p.insecureTransport),
                       ("route", optTransportJson tg.transport), ("target_skip", o.tlsSkipVerify)]
  match impl.getObjVal? "default" with
  | .error _ =>
    -- harness_error / panic: not a case of the stream
    return ({ model := m, agree := false, spec := true, nontrivial := false, tag := "harness-error" } : Verdict).toJson
  | .ok dj =>
    let ij ← impl.getObjVal? "insecure"
    let rj ← impl.getObjVal? "route"
    let built := [(← transportOf dj), (← transportOf ij), (← transportOf rj)].filterMap id
    let noted := hasNote dj || hasNote ij || (!rj.isNull && hasNote rj)
    let bad := built.filter (fun t => !(decide (Carries cfg t)))
    let spec := bad.isEmpty && built.length ≥ 2 && !noted
    let cls := match tg.transport with
      | some _ => "route-override"
      | none => if o.tlsSkipVerify then "skip-verify" else "default"
    let tag :=
      if spec then cls
      else if noted then "dialer-not-observable"
      else match bad with
        | t :: _ => if bad.all allZero then "config-not-applied" else "field-mismatch-" ++ firstMismatch cfg t
        | [] => "transport-missing"
    let vals := [cfg.dialTimeout, cfg.responseHeaderTimeout, cfg.keepAliveTimeout, cfg.idleConnTimeout, cfg.maxConn]
    let nontrivial := (vals.filter (· != 0)).length ≥ 4 && cfg.dialTimeout != cfg.keepAliveTimeout
        && cfg.responseHeaderTimeout != cfg.idleConnTimeout
    return ({ model := m, agree := m == impl, spec := spec, nontrivial := nontrivial, tag := tag } : Verdict).toJson

def kindOpts : String → Except String TargetOpts
  | "default" => pure ⟨"", false, false⟩
  | "insecure" => pure ⟨"", true, true⟩
  | "route" => pure ⟨"foo.com", true, true⟩
  | k => throw s!"unknown kind {k}"

def usedName (t : Target) : String :=
  match t.transport with
  | some _ => "route"
  | none => if t.opts.tlsSkipVerify then "insecure" else "default"

def optI (j : Json) (k : String) (d : Int) : Int := (j.getObjValAs? Int k).toOption.getD d
def optS (j : Json) (k : String) : String := (j.getObjValAs? String k).toOption.getD ""

/-- c19.timing / c19.binary: spec = headers later than T ⇒ 504 no later than T (+ slack) on every handler path;
headers in time ⇒ the upstream's status and its complete body at d + body, however long the body streams. The
expected values are written out here independently of `serveFull`. -/
def timingH : Handler := fun inp impl => do
  let tms ← getI inp "t_ms"
  let dms ← getI inp "d_ms"
  let st ← inp.getObjValAs? Nat "status"
  let o ← kindOpts (← getS inp "kind")
  let accept := optS inp "accept"
  let bodyMs := optI inp "body_ms" 0
  let ms2ns (x : Int) : Int := x * 1000000
  let T := ms2ns tms
  let d := ms2ns dms
  let cell := setConfig Cell.init { dialTimeout := ms2ns (optI inp "dial_ms" 2000), responseHeaderTimeout := T,
                                    keepAliveTimeout := ms2ns (optI inp "keepalive_ms" 1000),
                                    idleConnTimeout := ms2ns (optI inp "idle_ms" 1000), maxConn := 4 }
  let tg := addTarget cell o
  let path := handlerPath "" accept
  let pathName := match path with | .sse => "sse" | .default => "plain" | .websocket => "ws"
  let some h := handlerFor (newHTTPProxy cell) (ms2ns (optI inp "flush_ms" 1000)) 0 tg path
    | throw "websocket requests are not part of the stream"
  let warm := (optI inp "warm" 0).toNat
  let interim := (optI inp "interim" 0).toNat
  let up : Upstream := { interims := if interim == 0 then [] else [interim], status := st, delay := d, body := ms2ns bodyMs }
  -- the history: `warm` requests answered at once, then the measured one, all through the same proxy
  let hist := (List.replicate warm ({ interims := [], status := 200, delay := 0, body := 0 } : Upstream)) ++ [up]
  let rs := serveHistory roundTrip h.transport requestDeadline hist
  let some c := rs.getLast? | throw "empty history"
  let r := c.served
  let m := Json.mkObj [("status", r.status), ("used", usedName tg),
                       ("used_rht", Json.num (JsonNumber.fromInt h.transport.responseHeaderTimeout)),
                       ("complete", r.complete), ("done_us", Json.num (JsonNumber.fromInt (r.doneAt / 1000))),
                       ("interims", Json.arr (c.interims.map (fun (n : Nat) => Json.num n)).toArray),
                       ("upstream_saw", rs.length)]
  match impl.getObjValAs? Nat "status" with
  | .error _ =>
    return ({ model := m, agree := false, spec := true, nontrivial := false, tag := "harness-error" } : Verdict).toJson
  | .ok ist =>
    let el ← getI impl "elapsed_us"
    let slack ← getI impl "slack_us"
    let attempts ← getI impl "attempts"
    let used ← getS impl "used"
    let urht ← getI impl "used_rht"
    let bodyOk := (impl.getObjValAs? Bool "body_ok").toOption.getD (bodyMs == 0)
    let err := (impl.getObjValAs? String "err").toOption.getD ""
    let saw := (impl.getObjValAs? Nat "upstream_saw").toOption.getD (warm + 1)
    let warmOk := (impl.getObjValAs? Nat "warm_ok").toOption.getD warm
    let interims := (impl.getObjValAs? (List Nat) "interims").toOption.getD c.interims
    -- the executable could not be started or reached (ports, machine load): not a case, and not counted
    if err.startsWith "env:" then
      return ({ model := m, agree := true, spec := true, nontrivial := false, tag := "inconclusive-environment" } : Verdict).toJson
    let slow := decide (0 < tms) && decide (tms < dms)
    let expStatus : Nat := if slow then 504 else st
    -- too late ⇒ 504 within T (+ the slack of the measurement). In time ⇒ "served normally": the upstream's status
    -- and the complete body; the property does not say how fast, the upper bound only excludes an answer that hangs
    let boundUs : Int := if slow then tms * 1000 + slack else 2 * (dms + bodyMs) * 1000 + 1000000
    let floorUs : Int := (if slow then tms else dms + bodyMs) * 1000 - 2000
    -- lower bound: nothing can be complete before min(d + body, T) (2 ms of timer granularity allowed)
    let inWindow := decide (floorUs ≤ el) && decide (el ≤ boundUs)
    let spec := err.isEmpty && ist == expStatus && inWindow && (slow || bodyOk) && warmOk == warm
    let agree := ist == r.status && used == usedName tg && urht == h.transport.responseHeaderTimeout
                  && (slow || bodyOk == r.complete) && saw == rs.length && interims == c.interims
    let cls := if tms ≤ 0 then "no-limit" else if slow then "slow-504"
               else if bodyMs > 0 then "in-time-long-body" else "fast-served"
    let tag :=
      if spec then
        (if saw != rs.length then "upstream-saw-request-" ++ toString (saw - warm) ++ "-times"
         else if interims != c.interims then "interim-not-forwarded"
         else if attempts > 1 then cls ++ "+remeasured" else cls)
      else if slow && ist == st && decide (d / 1000 - 2000 ≤ el) then "no-timeout-enforced"
      else if slow && ist == 504 && decide (el > boundUs) && decide (el ≤ 2 * tms * 1000 + slack) && saw > warm + 1 then "504-after-2T-request-sent-twice"
      else if slow && ist != 504 && err.isEmpty && decide (el ≤ boundUs) then "timeout-not-504"
      else if !slow && ist == expStatus && !bodyOk then "body-cut-off"
      else if warmOk != warm then "warm-up-not-served"
      else if !err.isEmpty then "client-error"
      else if ist == expStatus && decide (el > boundUs) then "late"
      else if !slow && ist == 504 then "timeout-too-early"
      else "other"
    let hcls := (if warm > 0 then "/warm" else "") ++ (if interim != 0 then "/1xx" else "")
    return ({ model := m, agree := agree, spec := spec, nontrivial := decide (0 < tms),
              tag := tag ++ "/" ++ usedName tg ++ "/" ++ pathName ++ hcls } : Verdict).toJson

def cfgJson (c : Cfg) : Json :=
  Json.mkObj [("dial", Json.num (JsonNumber.fromInt c.dialTimeout)), ("rht", Json.num (JsonNumber.fromInt c.responseHeaderTimeout)),
              ("keepalive", Json.num (JsonNumber.fromInt c.keepAliveTimeout)), ("idle", Json.num (JsonNumber.fromInt c.idleConnTimeout)),
              ("maxconn", Json.num (JsonNumber.fromInt c.maxConn))]

def optWant (j : Json) (k : String) : Option Int := (j.getObjValAs? Int k).toOption

/-- the five (option name, what the generator meant, the value in a configuration, the value in a transport) -/
def fiveOf (want : Json) : List (String × Option Int × (Cfg → Int) × (Transport → Int)) :=
  [("dialtimeout", optWant want "dial", (·.dialTimeout), (·.dialTimeout)),
   ("responseheadertimeout", optWant want "rht", (·.responseHeaderTimeout), (·.responseHeaderTimeout)),
   ("keepalivetimeout", optWant want "keepalive", (·.keepAliveTimeout), (·.dialKeepAlive)),
   ("idleconntimeout", optWant want "idle", (·.idleConnTimeout), (·.idleConnTimeout)),
   ("maxconn", optWant want "maxconn", (·.maxConn), (·.maxIdleConnsPerHost))]

/-- c19.load: model = `load` of the same texts, then `setConfig`, then the transports; spec = what `config.Load`
returned and every transport built from it have, option by option, the number the generator meant. -/
def loadH : Handler := fun inp impl => do
  let args ← inp.getObjValAs? (List String) "args"
  let env ← inp.getObjValAs? (List String) "env"
  let propsJ ← inp.getObjValAs? (List (List String)) "props"
  let props := propsJ.filterMap (fun kv => match kv with | [k, v] => some (k, v) | _ => none)
  let want ← inp.getObjVal? "want"
  let o ← optsOf (← inp.getObjVal? "target")
  let some cmdline := splitArgs args | throw "a flag without a value: config.Load would exit"
  let src : Sources := { cmdline := cmdline, env := env.filterMap envEntry, props := props }
  let some cfg := load src | throw "a command-line value that does not parse: config.Load would exit"
  -- `want` is the generator's own statement of what it wrote; an input whose `want` is not what its texts say
  -- (a shrinking step that removed a flag but kept the number) is not an input of the stream
  for (n, w, fc, _) in fiveOf want do
    match w with
    | some v => if fc cfg != v then throw s!"want.{n} is not what the texts say"
    | none =>
      let malformed := match rawValue src ("proxy." ++ n) with
        | some (_, txt) =>
          if n == "maxconn" then
            let body := match txt.toList with | '-' :: r => r | '+' :: r => r | cs => cs
            body.isEmpty || (digitsValue body 0).isNone
          else (parseDuration txt).isNone
        | none => false
      if !malformed then throw s!"want.{n} is null but the winning text is well-formed"
  let cell := setConfig Cell.init cfg
  let p := newHTTPProxy cell
  let tg := addTarget cell o
  let m := Json.mkObj [("loaded", cfgJson cfg), ("default", transportJson p.transport), ("insecure", transportJson p.insecureTransport),
                       ("route", optTransportJson tg.transport), ("target_skip", o.tlsSkipVerify)]
  match impl.getObjVal? "loaded" with
  | .error _ =>
    return ({ model := m, agree := false, spec := true, nontrivial := false, tag := "harness-error" } : Verdict).toJson
  | .ok lj =>
    let loaded ← cfgOf lj
    let dj ← impl.getObjVal? "default"
    let ij ← impl.getObjVal? "insecure"
    let rj ← impl.getObjVal? "route"
    let built := [(← transportOf dj), (← transportOf ij), (← transportOf rj)].filterMap id
    let noted := hasNote dj || hasNote ij || (!rj.isNull && hasNote rj)
    let five := fiveOf want
    let loadBad := five.filter (fun (_, w, fc, _) => match w with | some v => fc loaded != v | none => false)
    let trBad := five.filter (fun (_, w, _, ft) => match w with | some v => built.any (fun t => ft t != v) | none => false)
    let spec := loadBad.isEmpty && trBad.isEmpty && built.length ≥ 2 && !noted
    let configured := ["proxy.dialtimeout", "proxy.responseheadertimeout", "proxy.keepalivetimeout", "proxy.idleconntimeout", "proxy.maxconn"].filter
      (fun n => (rawValue src n).isSome)
    let several := ["proxy.dialtimeout", "proxy.responseheadertimeout", "proxy.keepalivetimeout", "proxy.idleconntimeout", "proxy.maxconn"].any
      (fun n => ((src.cmdline.filter (·.1 == n)).length + (if (lookupLast src.env (envName "FABIO_" n)).isSome then 1 else 0)
                  + (if (lookupLast src.env (envName "" n)).isSome then 1 else 0) + (if (lookupLast src.props n).isSome then 1 else 0)) ≥ 2)
    let listenerTimeouts := src.cmdline.any (fun (n, v) => n == "proxy.addr" && ((v.splitOn ";rt=").length > 1 || (v.splitOn ";wt=").length > 1))
    let malformed := five.any (fun (_, w, _, _) => w.isNone)
    let cls := if malformed then "malformed-value-stored-as-zero" else if several && listenerTimeouts then "precedence+listener-timeouts"
               else if several then "precedence" else if listenerTimeouts then "listener-timeouts"
               else if configured.isEmpty then "defaults" else "plain"
    let tag :=
      if spec then cls
      else if noted then "dialer-not-observable"
      else match loadBad, trBad with
        | (n, _) :: _, _ => "load-changed-" ++ n
        | [], (n, _) :: _ => "field-mismatch-" ++ n
        | [], [] => "transport-missing"
    return ({ model := m, agree := m == impl, spec := spec, nontrivial := configured.length ≥ 3, tag := tag } : Verdict).toJson

/-- c19.pool: spec = of `n` connections that become idle together the proxy keeps as many as proxy.maxconn says
(0 = net/http's default of 2, negative = none), closes the others at once, and closes the kept ones after
proxy.idleconntimeout (never without one). Written out from the input's numbers, independently of `poolFate`. -/
def poolH : Handler := fun inp impl => do
  let idleMs ← getI inp "idle_ms"
  let maxconn ← getI inp "maxconn"
  let n ← inp.getObjValAs? Nat "n"
  let o ← kindOpts (← getS inp "kind")
  let cell := setConfig Cell.init { dialTimeout := 2000000000, responseHeaderTimeout := 2000000000, keepAliveTimeout := 1000000000,
                                    idleConnTimeout := idleMs * 1000000, maxConn := maxconn }
  let tg := addTarget cell o
  let tr := selectTransport (newHTTPProxy cell) tg
  let fate := poolFate tr n 0
  let mKept := poolKept tr n
  let mClose : Option Int := idleCloseAt tr 0
  let m := Json.mkObj [("kept", mKept), ("used", usedName tg),
                       ("idle_close_us", match mClose with | some c => Json.num (JsonNumber.fromInt (c / 1000)) | none => Json.null),
                       ("connections", fate.length)]
  match impl.getObjValAs? Nat "opened" with
  | .error _ =>
    return ({ model := m, agree := false, spec := true, nontrivial := false, tag := "harness-error" } : Verdict).toJson
  | .ok opened =>
    let served ← impl.getObjValAs? Nat "served"
    let closes ← impl.getObjValAs? (List Int) "closes_us"
    let obs ← getI impl "obs_us"
    let slack ← getI impl "slack_us"
    let attempts ← getI impl "attempts"
    let err := (impl.getObjValAs? String "err").toOption.getD ""
    if err.startsWith "env:" then
      return ({ model := m, agree := true, spec := true, nontrivial := false, tag := "inconclusive-environment" } : Verdict).toJson
    let idleUs := idleMs * 1000
    let wantKept : Nat := if maxconn == 0 then min n 2 else if maxconn < 0 then 0 else min n maxconn.toNat
    let earlyBound : Int := if idleMs > 0 then idleUs / 2 else obs / 2
    let isEarly (c : Int) : Bool := decide (0 ≤ c) && decide (c ≤ earlyBound)
    let early := closes.filter isEarly
    let kept := closes.filter (fun c => !isEarly c)
    let keptOk := kept.all (fun c => if idleMs > 0 then decide (idleUs - 10000 ≤ c) && decide (c ≤ idleUs + slack) else c == -1)
    let complete := err.isEmpty && opened == n && served == n && closes.length == n
    let spec := complete && kept.length == wantKept && keptOk
    let mOk := kept.all (fun c => match mClose with | some t => decide (t / 1000 - 10000 ≤ c) && decide (c ≤ t / 1000 + slack) | none => c == -1)
    let agree := complete && kept.length == mKept && early.length == n - mKept && mOk
    let cls := (if n > wantKept then "limit-bites" else "all-kept") ++ (if idleMs > 0 then "/idle-timeout" else "/no-idle-timeout")
    let tag :=
      if spec then (if attempts > 1 then cls ++ "+remeasured" else cls)
      else if !complete then "requests-not-served"
      else if kept.length != wantKept then s!"kept-{kept.length}-of-{n}-configured-{maxconn}"
      else if idleMs > 0 && kept.any (· == -1) then "idle-connection-never-closed"
      else if idleMs > 0 && kept.any (fun c => decide (c > idleUs + slack)) then "idle-close-late"
      else if idleMs > 0 then "idle-close-early"
      else "closed-without-idle-timeout"
    return ({ model := m, agree := agree, spec := spec, nontrivial := decide (idleMs > 0) || n > wantKept,
              tag := tag ++ "/" ++ usedName tg } : Verdict).toJson

/-- c19.path: spec = a request whose `Upgrade` is not `websocket` in some ASCII casing makes exactly one round
trip, through the field `ServeHTTP`'s rule selects (skip-verify target ⇒ `InsecureTransport`, else `Transport`);
an ASCII casing of `websocket` makes none. (Non-ASCII spellings are left to the comparison with the model.) -/
def pathH : Handler := fun inp impl => do
  let upgrade ← getS inp "upgrade"
  let accept ← getS inp "accept"
  let skip ← getB inp "skip"
  let o : TargetOpts := ⟨"", skip, skip⟩
  let tg := addTarget Cell.init o
  let path := handlerPath upgrade accept
  let pathName : String := match path with | .sse => "sse" | .default => "plain" | .websocket => "ws"
  let expected : List String := match path with | .websocket => [] | _ => [usedName tg]
  let m := Json.mkObj [("round_trips", Json.arr (expected.map Json.str).toArray), ("path", pathName)]
  match impl.getObjValAs? (List String) "round_trips" with
  | .error _ =>
    return ({ model := m, agree := false, spec := true, nontrivial := false, tag := "harness-error" } : Verdict).toJson
  | .ok rts =>
    let ascii := upgrade.toList.all (fun c => c.toNat < 128)
    let isWs := upgrade.toList.map Char.toLower == "websocket".toList
    let want : List String := if isWs then [] else [if skip then "insecure" else "default"]
    let spec := !ascii || rts == want
    let tag :=
      if spec then (pathName : String) ++ (if skip then "/insecure" else "/default") ++ (if !ascii then "/non-ascii-fold" else "")
      else if rts.isEmpty then "no-round-trip-through-a-transport"
      else if rts.length > 1 then "several-round-trips"
      else "wrong-transport-selected"
    return ({ model := m, agree := rts == expected, spec := spec, nontrivial := path != .websocket, tag := tag } : Verdict).toJson

/-- c19.dial: spec = an upstream that accepts no connection ⇒ 504 no earlier than the configured dial timeout
(2 ms of timer granularity) and no later than it plus the slack, whatever the response-header timeout. -/
def dialH : Handler := fun inp impl => do
  let dialMs ← getI inp "dial_ms"
  let rhtMs ← getI inp "rht_ms"
  let o ← kindOpts (← getS inp "kind")
  let cell := setConfig Cell.init { dialTimeout := dialMs * 1000000, responseHeaderTimeout := rhtMs * 1000000,
                                    keepAliveTimeout := 1000000000, idleConnTimeout := 1000000000, maxConn := 4 }
  let tg := addTarget cell o
  let tr := selectTransport (newHTTPProxy cell) tg
  let r := serveUnreachable tr
  let m := match r with
    | some (st, t) => Json.mkObj [("status", st), ("at_us", Json.num (JsonNumber.fromInt (t / 1000))), ("used", usedName tg)]
    | none => Json.mkObj [("status", Json.null), ("used", usedName tg)]
  match impl.getObjValAs? Nat "status" with
  | .error _ =>
    return ({ model := m, agree := false, spec := true, nontrivial := false, tag := "harness-error" } : Verdict).toJson
  | .ok ist =>
    let el ← getI impl "elapsed_us"
    let slack ← getI impl "slack_us"
    let attempts ← getI impl "attempts"
    let err := (impl.getObjValAs? String "err").toOption.getD ""
    if err.startsWith "env:" then
      return ({ model := m, agree := true, spec := true, nontrivial := false, tag := "inconclusive-environment" } : Verdict).toJson
    let inWindow := decide (dialMs * 1000 - 2000 ≤ el) && decide (el ≤ dialMs * 1000 + slack)
    let spec := err.isEmpty && ist == 504 && inWindow
    let agree := match r with
      | some (st, t) => err.isEmpty && ist == st && decide (t / 1000 - 2000 ≤ el) && decide (el ≤ t / 1000 + slack)
      | none => !err.isEmpty
    let cls := if rhtMs == 0 then "dial-timeout-504/no-header-limit" else if rhtMs < dialMs then "dial-timeout-504/header-limit-shorter"
               else "dial-timeout-504/header-limit-longer"
    let tag :=
      if spec then (if attempts > 1 then cls ++ "+remeasured" else cls)
      else if !err.isEmpty then "no-dial-timeout-enforced"
      else if ist != 504 then "dial-timeout-not-504"
      else if decide (el > dialMs * 1000 + slack) then "dial-timeout-late"
      else "dial-timeout-early"
    return ({ model := m, agree := agree, spec := spec, nontrivial := true, tag := tag ++ "/" ++ usedName tg } : Verdict).toJson

def streams : List (String × Handler) :=
  [("c19.fields", fieldsH), ("c19.timing", timingH), ("c19.binary", timingH), ("c19.load", loadH), ("c19.pool", poolH), ("c19.path", pathH), ("c19.dial", dialH),
   ("c19.binpool", poolH), ("c19.bindial", dialH)]
end Fabio.Driver.C19
