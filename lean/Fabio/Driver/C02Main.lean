import Fabio.Driver.C02
def main : IO Unit := Fabio.Driver.run Fabio.Driver.C02.streams
