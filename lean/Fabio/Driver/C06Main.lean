import Fabio.Driver.C06
def main : IO Unit := Fabio.Driver.run Fabio.Driver.C06.streams
