import Fabio.Driver.Proto
import Fabio.Driver.RouteJson
import Fabio.Model.Route
import Fabio.Model.C03
import Fabio.Model.C03Spec
import Fabio.Driver.C03Fold
namespace Fabio.Driver.C03
open Lean Fabio Fabio.Driver Fabio.Driver.RouteJson Fabio.Model.Route Fabio.Model.C03 Fabio.Model.C03Spec

def errName : Err → String
  | .invalidPrefix => "invalidPrefix" | .invalidTarget => "invalidTarget" | .badURL => "badURL"
  | .badGlob => "badGlob" | .noMatch => "noMatch" | .invalidCommand => "invalidCommand"

def S (s : Str) : String := String.ofList s

/-- `{pattern: bool}` oracle object → function (missing = `none`) -/
def oracleFn (j : Json) (k : String) : Str → Option Bool :=
  let o := (j.getObjVal? k).toOption.getD (Json.mkObj [])
  fun p => match o.getObjVal? (S p) with
    | .ok (.bool b) => some b
    | _ => none

/-- the glob used by model and spec: the fragment model where it applies, else the oracle
(real gobwas/glob evaluated by the harness on exactly this pattern and subject) -/
def globOf (orc : Str → Option Bool) (p s : Str) : Bool :=
  if inFragment p then globLib p s else (orc p).getD false

/-- every oracle entry whose pattern lies in the fragment must equal the fragment model -/
def oracleConsistent (j : Json) (k : String) (subject : Str) : Bool :=
  match (j.getObjVal? k).toOption with
  | some (.obj m) => m.toList.all (fun (p, v) =>
      !inFragment p.toList || (match v with | .bool b => globLib p.toList subject == b | _ => true))
  | _ => true

def kindOf (s : String) : Except String MatcherKind :=
  if s == "prefix" then .ok .pfx else if s == "iprefix" then .ok .iprefix else if s == "glob" then .ok .glob
  else .error s!"unknown matcher {s}"

def skeletonOf (t : Table) : Skeleton := t.map (fun kv => (kv.1, kv.2.map (fun r => (r.path, r.targets.length))))

def skeletonJson (s : Skeleton) : Json :=
  Json.arr (s.map (fun kv => Json.mkObj [("host", str kv.1),
    ("routes", Json.arr (kv.2.map (fun pn => Json.mkObj [("path", str pn.1), ("n", Json.num pn.2)])).toArray)])).toArray

def sortSkeleton (s : Skeleton) : Skeleton :=
  s.foldr (fun kv acc =>
    let rec ins : Skeleton → Skeleton
      | [] => [kv]
      | x :: xs => if strLt kv.1 x.1 then kv :: x :: xs else x :: ins xs
    ins acc) []

def parseSkeleton (j : Json) : Except String Skeleton := do
  let a ← j.getArr?
  a.toList.mapM (fun h => do
    let host ← getStr h "host"
    let rs ← h.getObjValAs? (Array Json) "routes"
    let rs ← rs.toList.mapM (fun r => do
      let p ← getStr r "path"
      let n ← r.getObjValAs? Nat "n"
      return (p, n))
    return (host, rs))

def isPanic (impl : Json) : Bool := (impl.getObjVal? "panic").toOption.isSome

def hasUpper (s : Str) : Bool := s.any (fun c => 'A' ≤ c ∧ c ≤ 'Z')

def kindName : MatcherKind → String
  | .pfx => "prefix" | .iprefix => "iprefix" | .glob => "glob"

/-- class of a specification failure: one tag per failing class (HOWTO) -/
def failTag (c : Case) (ans : Option (Str × Str)) (v : Judgement) : String :=
  match v with
  | .ok => "ok"
  | .panicked => "lookup-panics"
  | .unsound => "answer-not-a-candidate"
  | .notRouted cand =>
    if c.globDisabled && hasUpper c.host && !cand.1.isEmpty then "noglob-uppercase-host" else "candidate-not-routed"
  | .lessSpecific b w =>
    if c.globDisabled && hasUpper c.host && w == .hostClass then "noglob-uppercase-host" else
    match w with
    | .hostClass =>
      if b.1.isEmpty then "impossible" else
      if hostClass c b.1 == 2 then
        (match ans with
         | some a => if starSuffix (norm c a.1) == some (norm c c.host) then "wildcard-without-dot"
                     else if a.1.isEmpty then "hostless-before-host" else "exact-host-lost-to-pattern"
         | none => "impossible")
      else "hostless-before-host"
    | .hostSuffix =>
      -- recorded finding: `net.SplitHostPort` does not find the port of one of the two keys (a leading
      -- bracket expression with a port, several colons), so that key is compared with its port in front
      let unsplit := fun (k : Str) => k.contains ':' && (splitHostPort k).isNone
      (match ans with
       | some a =>
         -- recorded finding: the sort compares the keys as written while they are matched (and judged here)
         -- with the default port removed: `*:80` is `*` on a plain connection and then less specific than `*:443`
         let stripped := fun (k : Str) => stripDefaultPort k c.tls != k
         if unsplit a.1 || unsplit b.1 then "shorter-host-suffix-won-port-not-split"
         else if stripped a.1 || stripped b.1 then "shorter-host-suffix-won-default-port-key"
         else "shorter-host-suffix-won"
       | none => "impossible")
    | .pathLength => "shorter-path-won-" ++ kindName c.kind

def lookupH : Handler := fun inp impl => do
  -- c03.grpc: the interceptor would not see this path as the method name (query, escape, TLS): nothing to compare
  if (impl.getObjVal? "skip").toOption.isSome then
    return ({ model := Json.null, agree := true, spec := true, nontrivial := false, tag := "not-a-method-name" } : Verdict).toJson
  let defs ← (do let a ← inp.getObjValAs? (Array Json) "defs"; a.toList.mapM routeDef)
  let orc := (impl.getObjVal? "oracle").toOption.getD (Json.mkObj [])
  let env := envOf orc
  let host ← getStr inp "host"
  let path ← getStr inp "path"
  let tls := (inp.getObjValAs? Bool "tls").toOption.getD false
  let noglob := (inp.getObjValAs? Bool "noglob").toOption.getD false
  let kind ← kindOf ((inp.getObjValAs? String "matcher").toOption.getD "prefix")
  let hostGlob := globOf (oracleFn orc "hostglob")
  let pathGlob := globOf (oracleFn orc "pathglob")
  match newTable env defs with
  | .error e =>
    let m := Json.mkObj [("error", errName e)]
    if isPanic impl then
      return ({ model := m, agree := false, spec := false, nontrivial := false, tag := "lookup-panics" } : Verdict).toJson
    return ({ model := m, agree := (impl.getObjVal? "error").toOption == some (Json.str (errName e)), spec := true,
              nontrivial := false, tag := "err-" ++ errName e } : Verdict).toJson
  | .ok t =>
    let cfg : Cfg := { globMatch := hostGlob, pathMatch := pathMatch pathGlob kind,
                       pick := fun r => r.targets.headD { service := [], tags := [], opts := [], url := [], fixedWeight := 0 },
                       globDisabled := noglob }
    let req : Req := { host, tls, path }
    let hosts := (hostList cfg t req).dropLast
    let res := Lookup cfg t req
    let mres : Json := match res with
      | none => Json.null
      | some (_, r, _) => Json.mkObj [("host", str r.host), ("path", str r.path)]
    let m := Json.mkObj [("table", skeletonJson (sortSkeleton (skeletonOf t))), ("hosts", Json.arr (hosts.map str).toArray), ("res", mres)]
    if isPanic impl then
      return ({ model := m, agree := false, spec := false, nontrivial := true, tag := "lookup-panics" } : Verdict).toJson
    if (impl.getObjVal? "error").toOption.isSome then
      return ({ model := m, agree := false, spec := true, nontrivial := false, tag := "impl-build-error" } : Verdict).toJson
    let itab ← parseSkeleton ((impl.getObjVal? "table").toOption.getD (Json.arr #[]))
    let ihosts ← strList ((impl.getObjVal? "hosts").toOption.getD .null)
    let ires := (impl.getObjVal? "res").toOption.getD .null
    let ians : Option (Str × Str) := match ires with
      | .null => none
      | j => some (getStrD j "host", getStrD j "path")
    -- correspondence
    let tabOK := sortSkeleton (skeletonOf t) == itab
    let hostsOK := hosts == ihosts
    let resOK := match res, ians with
      | none, none => true
      | some (_, r, _), some a => r.host == a.1 && r.path == a.2 &&
          r.targets.any (fun tg => tg.service == getStrD ires "service" && tg.url == getStrD ires "url")
      | _, _ => false
    let globOK := oracleConsistent orc "hostglob" (normalizeHost host tls) && oracleConsistent orc "pathglob" path
    -- specification on the implementation's table and answer
    let c : Case := { table := itab, host, tls, path, kind, globDisabled := noglob, hostGlob, pathGlob }
    let v := judge c ians
    let specOK := match v with | .ok => true | _ => false
    let nc := (candidates c).length
    -- a route without targets must not exist in a built table (`delRoute` sweeps them); such a route ends
    -- `lookup` for its host at the first path match and so shadows every later candidate
    let hasEmpty := itab.any (fun kv => kv.2.any (fun pn => pn.2 == 0))
    let tag :=
      if hasEmpty then (if specOK then "empty-route-in-table" else "empty-route-shadows-candidate")
      else if !specOK then failTag c ians v
      else if !globOK then "glob-fragment-model-differs"
      else if !tabOK then "table-differs"
      else if !hostsOK then "host-list-differs"
      else if !resOK then "answer-differs"
      else
        kindName kind ++ (if noglob then "-noglob" else "-glob") ++
          (match ians with
           | none => "-none"
           | some a => if a.1.isEmpty then "-hostless" else if hostClass c a.1 == 1 then "-wildcard" else "-exact") ++
          (if nc ≥ 2 then "-multi" else "")
    return ({ model := m, agree := tabOK && hostsOK && resOK && globOK && !hasEmpty, spec := specOK, nontrivial := nc ≥ 2, tag } : Verdict).toJson

/-- `LookupHost`: exact lower-cased key, prefix matcher on "/". Specification: the answer's route is keyed
by exactly the lower-cased host and its path is a prefix of "/"; if such a route with a target exists the
connection is routed. -/
def lookupHostH : Handler := fun inp impl => do
  let defs ← (do let a ← inp.getObjValAs? (Array Json) "defs"; a.toList.mapM routeDef)
  let orc := (impl.getObjVal? "oracle").toOption.getD (Json.mkObj [])
  let env := envOf orc
  let host ← getStr inp "host"
  match newTable env defs with
  | .error e =>
    let m := Json.mkObj [("error", errName e)]
    if isPanic impl then
      return ({ model := m, agree := false, spec := false, nontrivial := false, tag := "lookup-panics" } : Verdict).toJson
    return ({ model := m, agree := (impl.getObjVal? "error").toOption == some (Json.str (errName e)), spec := true,
              nontrivial := false, tag := "err-" ++ errName e } : Verdict).toJson
  | .ok t =>
    let pick := fun (r : Route) => r.targets.headD { service := [], tags := [], opts := [], url := [], fixedWeight := 0 }
    let res := LookupHost pick t host
    let mres : Json := match res with
      | none => Json.null
      | some (r, _) => Json.mkObj [("host", str r.host), ("path", str r.path)]
    let m := Json.mkObj [("table", skeletonJson (sortSkeleton (skeletonOf t))), ("res", mres)]
    if isPanic impl then
      return ({ model := m, agree := false, spec := false, nontrivial := true, tag := "lookup-panics" } : Verdict).toJson
    if (impl.getObjVal? "error").toOption.isSome then
      return ({ model := m, agree := false, spec := true, nontrivial := false, tag := "impl-build-error" } : Verdict).toJson
    let itab ← parseSkeleton ((impl.getObjVal? "table").toOption.getD (Json.arr #[]))
    let ires := (impl.getObjVal? "res").toOption.getD .null
    let ians : Option (Str × Str) := match ires with
      | .null => none
      | j => some (getStrD j "host", getStrD j "path")
    let tabOK := sortSkeleton (skeletonOf t) == itab
    let resOK := match res, ians with
      | none, none => true
      | some (r, _), some a => r.host == a.1 && r.path == a.2 &&
          r.targets.any (fun tg => tg.service == getStrD ires "service" && tg.url == getStrD ires "url")
      | _, _ => false
    let key := lowerL host
    let cands : List (Str × Str) := itab.flatMap (fun kv => kv.2.filterMap (fun pn =>
      if kv.1 == key && pn.2 > 0 && pn.1.isPrefixOf ['/'] then some (kv.1, pn.1) else none))
    let specOK := match ians with
      | none => cands.isEmpty
      | some a => cands.contains a && cands.all (fun b => byteLen b.2 ≤ byteLen a.2)
    let tag := if !specOK then (if ians.isNone then "host-not-routed" else "wrong-host-route")
      else if !tabOK then "table-differs" else if !resOK then "answer-differs"
      else if ians.isSome then "routed" else "none"
    return ({ model := m, agree := tabOK && resOK, spec := specOK, nontrivial := !cands.isEmpty, tag } : Verdict).toJson

/-- is `a` a permutation of `b` (strings) -/
def isPermOf (a b : List Str) : Bool :=
  a.length == b.length && a.all (fun x => a.count x == b.count x)

/-- `ReverseHostPort` on every string and `sortHostsReverseHostPort` on the list. -/
def reverseH : Handler := fun inp impl => do
  let hs ← strList ((inp.getObjVal? "hosts").toOption.getD .null)
  let rev := hs.map reverseHostPort
  let sorted := sortHosts hs
  let m := Json.mkObj [("rev", Json.arr (rev.map str).toArray), ("sorted", Json.arr (sorted.map str).toArray)]
  let isorted ← strList ((impl.getObjVal? "sorted").toOption.getD .null)
  -- every key keeps its identity through the sort (the lossy double reversal is repaired); `plain` only
  -- classifies the case: keys that `ReverseHostPort` maps back to themselves
  let plain := hs.all (fun h => reverseHostPort (reverseHostPort h) == h)
  let permOK := !isPanic impl && isPermOf isorted hs
  -- "a longer host suffix beats a shorter one" on the sorted list itself (the statement of
  -- `hostBefore_of_longer_suffix`): no pattern whose host part is `*` ++ T stands in front of a pattern whose
  -- host part ends with T and is longer
  let rec pairsOK : List Str → Bool
    | [] => true
    | b :: rest => rest.all (fun a => !(isGlobPat a && isGlobPat b && longerHostSuffix (hostPart a) (hostPart b))) && pairsOK rest
  let orderOK := pairsOK isorted
  let specOK := permOK && orderOK
  let tag := if isPanic impl then "panics" else if !permOK then "sort-loses-a-key"
    else if !orderOK then "sort-shorter-suffix-first"
    else if !plain then "degenerate-key" else if hs.length < 2 then "short" else "sorted"
  return ({ model := m, agree := m == impl, spec := specOK, nontrivial := hs.length ≥ 2 && plain, tag } : Verdict).toJson

/-- the glob fragment model against gobwas/glob -/
def globH : Handler := fun inp impl => do
  let p ← getStr inp "pattern"
  let s ← getStr inp "s"
  if !inFragment p then
    return ({ model := impl, agree := true, spec := true, nontrivial := false, tag := "outside-fragment" } : Verdict).toJson
  let m := Json.mkObj [("match", globLib p s), ("compiled", true)]
  return ({ model := m, agree := m == impl, spec := true, nontrivial := p.contains '*' || p.contains '?',
            tag := if globFrag p s then "match" else if gobwasQuirk p s then "gobwas-quirk-match" else "nomatch" } : Verdict).toJson

def streams : List (String × Handler) :=
  [("c03.lookup", lookupH), ("c03.lookuphost", lookupHostH), ("c03.reverse", reverseH), ("c03.glob", globH),
   ("c03.ipath", Fabio.Driver.C03Fold.ipathH), ("c03.grpc", lookupH)]
end Fabio.Driver.C03
