import Fabio.Driver.Proto
namespace Fabio.Driver.C12
open Lean Fabio.Driver

def streams : List (String × Handler) := []
end Fabio.Driver.C12
