import Fabio.Driver.Proto
import Fabio.Model.C12Parse
import Fabio.Model.C12Serve
import Fabio.Model.C12Auth
import Fabio.Model.C12Htpasswd
namespace Fabio.Driver.C12
open Lean Fabio.Driver Fabio.Model.C12 Fabio.Model.C12.Parse

/-! ### JSON plumbing -/

def hexDigit (n : Nat) : Char := if n < 10 then Char.ofNat (48 + n) else Char.ofNat (87 + n)

def toHex (width n : Nat) : String :=
  String.ofList ((List.range width).reverse.map fun i => hexDigit ((n >>> (4 * i)) % 16))

def ofHex (s : String) : Option Nat :=
  s.toList.foldl (fun acc c => match acc, hexVal c with
    | some a, some d => some (a * 16 + d)
    | _, _ => none) (some 0)

def ofHexBytes (s : String) : Option (List Nat) :=
  let rec go : List Char → Option (List Nat)
    | [] => some []
    | a :: b :: r => match hexVal a, hexVal b, go r with
      | some x, some y, some t => some ((x * 16 + y) :: t)
      | _, _, _ => none
    | _ => none
  go s.toList

def ipJson (ip : IP) : Json := Json.str (toHex (if ip.v6 then 32 else 8) ip.val)

def ipOfHex (s : String) : Option IP :=
  if s.length = 8 then (ofHex s).map (fun v => { v6 := false, val := v })
  else if s.length = 32 then (ofHex s).map (fun v => { v6 := true, val := v })
  else none

def blockJson (n : IPNet) : Json :=
  Json.mkObj [("ip", ipJson n.ip), ("mask", Json.str (toHex (n.bits / 4) (cidrMask n.ones n.bits)))]

def optList (f : IPNet → Json) : Option (List IPNet) → Json
  | none => Json.null
  | some bs => Json.arr (bs.map f).toArray

def rulesJson (r : Rules) : Json :=
  Json.mkObj [("allow", optList blockJson r.allow), ("deny", optList blockJson r.deny), ("other", Json.arr #[])]

def errJson : Option RuleErr → Json
  | none => ""
  | some .both => "both"
  | some .noColon => "nocolon"
  | some .badIP => "badip"
  | some .badCIDR => "badcidr"
  | some .unknownType => "unknowntype"

def strList (j : Json) : Except String (List (List Char)) := do
  match j with
  | .null => return []
  | _ =>
    let a ← j.getArr?
    a.toList.mapM (fun x => do let s ← x.getStr?; return s.toList)

def getStrD (j : Json) (k : String) : String := (j.getObjValAs? String k).toOption.getD ""
def getBoolD (j : Json) (k : String) : Bool := (j.getObjValAs? Bool k).toOption.getD false

def tcpPeerOf (j : Json) : TCPPeer :=
  match getStrD j "kind" with
  | "tcp" => .addr (ipOfHex (getStrD j "ip"))
  | _ => .notTCP

/-! ### The specification predicate on the implementation's output

The Go side ships, next to the decision of the real code, an evaluation by `net/netip` that shares no code
with `route/access_rules.go`: whether the options are well-formed, and for the peer and every
X-Forwarded-For element whether it is an address (`ok`) and inside one of the listed blocks (`in`). -/

structure RefAddr where
  ok : Bool
  inside : Bool
  same : Bool := false

def refAddr (j : Json) : RefAddr := { ok := getBoolD j "ok", inside := getBoolD j "in", same := getBoolD j "same" }

/-- "admitted ⇒ justified" for one address under mode allow/deny. -/
def justified (mode : String) (a : RefAddr) : Bool :=
  a.ok && (if mode == "allow" then a.inside else !a.inside)

def specDecision (ref : Json) (deniedHTTP deniedTCP : Option Bool) : Bool :=
  let hasRules := getBoolD ref "hasRules"
  let malformed := getBoolD ref "malformed"
  let mode := getStrD ref "mode"
  if !hasRules then true
  else if malformed then deniedHTTP.getD true && deniedTCP.getD true   -- never widens: everybody is denied
  else
    let peer := refAddr ((ref.getObjVal? "peer").toOption.getD Json.null)
    let tcp := refAddr ((ref.getObjVal? "tcpPeer").toOption.getD Json.null)
    let xs := ((ref.getObjVal? "xff").toOption.bind (fun j => j.getArr?.toOption)).getD #[]
    let httpOk := match deniedHTTP with
      | some false => justified mode peer && xs.all (fun x => let a := refAddr x; !a.ok || a.same || justified mode a)
      | _ => true
    let tcpOk := match deniedTCP with
      | some false => justified mode tcp
      | _ => true
    httpOk && tcpOk

/-! ### Streams -/

/-- c12.parse — the Lean parsers against `net.ParseIP` / `net.ParseCIDR` / `net.SplitHostPort`. -/
def parseH : Handler := fun inp impl => do
  let kind ← inp.getObjValAs? String "kind"
  let s ← inp.getObjValAs? String "s"
  let m : Json := match kind with
    | "ip" => match parseIP s.toList with | none => Json.null | some ip => ipJson ip
    | "cidr" => match parseCIDR s.toList with | none => Json.null | some n => blockJson n
    | _ => match splitHostPort s.toList with | none => Json.null | some h => Json.str (String.ofList h)
  return ({ model := m, agree := m == impl, spec := true, nontrivial := m != Json.null,
            tag := kind ++ (if m == Json.null then "-reject" else "-accept") } : Verdict).toJson

def modeOf (allow deny : String) : String :=
  if allow != "" then "allow" else if deny != "" then "deny" else "none"

/-- c12.decide — options × peer × X-Forwarded-For: rule map, error class, decision of `AccessDeniedHTTP`. -/
def decideH : Handler := fun inp impl => do
  let allow := getStrD inp "allow"
  let deny := getStrD inp "deny"
  let remote := getStrD inp "remote"
  let xff ← strList ((inp.getObjVal? "xff").toOption.getD Json.null)
  let (rules, err) := processAccessRules goParsers allow.toList deny.toList
  let dh := accessDeniedHTTP goParsers rules remote.toList xff
  let m := Json.mkObj [("rules", rulesJson rules), ("err", errJson err), ("http", dh)]
  let implCore := Json.mkObj [("rules", (impl.getObjVal? "rules").toOption.getD Json.null),
    ("err", (impl.getObjVal? "err").toOption.getD Json.null),
    ("http", (impl.getObjVal? "http").toOption.getD Json.null)]
  let ref := (impl.getObjVal? "ref").toOption.getD Json.null
  let ih := (impl.getObjValAs? Bool "http").toOption
  let spec := ih.isSome && specDecision ref ih none
  -- class of the case
  let hasZoneEl := (xffElems xff).any (fun x => x.contains '%')
  let peerClass : String :=
    match splitHostPort remote.toList with
    | none => "peer-nosplit"
    | some host =>
      if (parseIP (stripZone host)).isNone then "peer-unparsable"
      else if host.contains '%' then "peer-zone"
      else if xff.length > 1 then "xff-multiline"
      else if hasZoneEl then "xff-zone"
      else if xff.length = 1 then "xff"
      else "peer"
  let tag := match err with
    | some _ => "badrule-" ++ (errJson err).getStr?.toOption.getD ""
    | none => modeOf allow deny ++ "-" ++ peerClass
  return ({ model := m, agree := m == implCore, spec := spec,
            nontrivial := !rules.isEmpty, tag := tag } : Verdict).toJson

/-- c12.tcp — options × remote address of the connection: decision of `AccessDeniedTCP`. -/
def tcpH : Handler := fun inp impl => do
  let allow := getStrD inp "allow"
  let deny := getStrD inp "deny"
  let tcpJ := (inp.getObjVal? "tcp").toOption.getD Json.null
  let tcp := tcpPeerOf tcpJ
  let (rules, err) := processAccessRules goParsers allow.toList deny.toList
  let dt := accessDeniedTCP rules tcp
  let m := Json.mkObj [("tcp", dt)]
  let it := (impl.getObjValAs? Bool "tcp").toOption
  let ref := (impl.getObjVal? "ref").toOption.getD Json.null
  let spec := it.isSome && specDecision ref none it
  let peerClass : String := match tcp with
    | .notTCP => "not-tcpaddr"
    | .addr none => "nil-ip"
    | .addr (some ip) => if ip.v6 then (if ip.to4.isSome then "mapped" else "ip16") else "ip4"
  let tag := match err with
    | some _ => "badrule-" ++ (errJson err).getStr?.toOption.getD ""
    | none => modeOf allow deny ++ "-" ++ peerClass
  return ({ model := m, agree := some dt == it, spec := spec, nontrivial := !rules.isEmpty, tag := tag } : Verdict).toJson

def credOf (j : Json) : Option (List Char × List Char) :=
  if getStrD j "mode" == "basic" then some ((getStrD j "user").toList, (getStrD j "pass").toList) else none

def secretsOf (j : Json) : List (List Char × List Char) :=
  match j.getArr? with
  | .ok a => a.toList.filterMap (fun p => match p.getArr? with
      | .ok #[u, v] => match u.getStr?, v.getStr? with
        | .ok u, .ok v => some (u.toList, v.toList)
        | _, _ => none
      | _ => none)
  | .error _ => []

def natD (j : Json) (k : String) : Nat := (j.getObjValAs? Nat k).toOption.getD 999999

def arrD (j : Json) (k : String) : List Json := (((j.getObjVal? k).toOption.bind (fun a => a.getArr?.toOption)).getD #[]).toList

def hexOfChars (cs : List Char) : String := String.join (cs.map (fun c => toHex 2 c.toNat))

/-- `(user, password, ok)` of `Request.BasicAuth` the way the harness ships it (byte strings in hex) -/
def pairJson : Option (List Char × List Char) → Json
  | none => Json.mkObj [("ok", false), ("u", ""), ("p", "")]
  | some (u, p) => Json.mkObj [("ok", true), ("u", hexOfChars u), ("p", hexOfChars p)]

def pairOfImpl (impl : Json) : Json :=
  let ba := (impl.getObjVal? "ba").toOption.getD Json.null
  Json.mkObj [("ok", getBoolD ba "ok"), ("u", getStrD ba "u"), ("p", getStrD ba "p")]

def isOWS (c : Char) : Bool := c == ' ' || c == '\t'

/-- a header value as it arrives over the wire: textproto cuts the blanks and tabs around it -/
def trimOWS (s : List Char) : List Char := ((s.dropWhile isOWS).reverse.dropWhile isOWS).reverse

/-- The request of a case as the gate sees it: the X-Forwarded-For lines, the Authorization line (the canonical
encoding of the credentials, or the spelling `req.auth`), then the further lines `req.hdrs` - every name under its
canonical key (`Header.Add` in process, the server's reader on the wire). -/
def reqOf (inp : Json) (wire : Bool) : Except String Req := do
  let xff ← strList ((inp.getObjVal? "xff").toOption.getD Json.null)
  let cred := (inp.getObjVal? "cred").toOption.getD Json.null
  let rq := (inp.getObjVal? "req").toOption.getD Json.null
  let authRaw := getStrD rq "auth"
  let authLine : List Char :=
    if authRaw != "" then authRaw.toList
    else match getStrD cred "mode" with
      | "basic" => basicHeader (getStrD cred "user").toList (getStrD cred "pass").toList
      | "garbage" => (getStrD cred "user").toList
      | _ => []
  let hdrs : List (List Char × List Char) := (arrD rq "hdrs").filterMap fun h =>
    match h.getArr? with
    | .ok #[k, v] => match k.getStr?, v.getStr? with
      | .ok k, .ok v => some (k.toList, v.toList)
      | _, _ => none
    | _ => none
  let lines := xff.map (fun l => (hXFF, l)) ++ (if authLine.isEmpty then [] else [(hAuthorization, authLine)]) ++ hdrs
  let m := getStrD rq "method"
  return { method := if m == "" then "GET".toList else m.toList,
           headers := lines.map fun (k, v) => (canonKey k, if wire then trimOWS v else v) }

/-- the text of the htpasswd file of a case: given as such, or one line `user:password` per secret -/
def fileTextOf (inp : Json) : List Char :=
  let t := getStrD inp "htpasswd"
  if t != "" then t.toList else renderSecrets (secretsOf ((inp.getObjVal? "secrets").toOption.getD Json.null))

/-- the parameter `H` of the file model: what the library's hash parsers make of the hashed encodings of the file
(accepted?) and whether the matcher accepts the password of this case - shipped by the harness, the hash functions
are not modelled -/
def hashedOracle (impl : Json) : List Char → Option (List Char → Bool) := fun enc =>
  match (arrD impl "hashed").find? (fun j => getStrD j "enc" == String.ofList enc) with
  | some j => if getBoolD j "ok" then some (fun _ => getBoolD j "match") else none
  | none => none

def schemesOf (inp : Json) : Except String (List (List Char × List Char)) := do
  let reg ← strList ((inp.getObjVal? "registered").toOption.getD Json.null)
  return reg.map (fun n => (n, fileTextOf inp))

def authModel (inp impl : Json) (wire : Bool := false) : Except String Bool := do
  let r ← reqOf inp wire
  return authorizedFile (hashedOracle impl) (getStrD inp "scheme").toList (← schemesOf inp) r

/-- the specification's view of the credentials, written without the model's functions: the route names no scheme,
or a registered one and some line of the htpasswd file - trimmed, split at its first colon - names the user
net/http itself reads out of the request (`impl.ba`) and holds his password as written, behind `{PLAIN}`, or as a
hash the library matches -/
def credGoodLib (inp impl : Json) : Except String Bool := do
  let scheme := getStrD inp "scheme"
  let reg ← strList ((inp.getObjVal? "registered").toOption.getD Json.null)
  let ba := (impl.getObjVal? "ba").toOption.getD Json.null
  let lines : List String := (String.ofList (fileTextOf inp)).splitOn "\n"
  let hexS (x : String) : String := hexOfChars x.toList
  let lineOK (l : String) : Bool :=
    let t := l.trimAscii.toString
    match t.splitOn ":" with
    | u :: e1 :: es =>
      let e := String.intercalate ":" (e1 :: es)
      hexS u == getStrD ba "u" &&
        (hexS e == getStrD ba "p" || hexS e == hexS "{PLAIN}" ++ getStrD ba "p" ||
          (arrD impl "hashed").any (fun j => getStrD j "enc" == e && getBoolD j "ok" && getBoolD j "match"))
    | _ => false
  return scheme == "" || (reg.contains scheme.toList && getBoolD ba "ok" && lines.any lineOK)

/-- class of the request shape -/
def reqClass (r : Req) (spelled : Bool) : String :=
  let has (k : String) : Bool := r.headers.any (fun kv => kv.1 == k.toList)
  (if spelled then "~spelled" else "") ++
  (if r.method == "OPTIONS".toList then (if has "Origin" && has "Access-Control-Request-Method" then "/preflight" else "/options")
   else if r.method == "GET".toList then (if r.headers.length > 1 then "/get+" else "")
   else "/other")

/-- c12.auth — `Target.Authorized` with the real `auth.LoadAuthSchemes` (htpasswd basic auth) on requests of every
shape; the pair `Request.BasicAuth` reads is compared with the model's `basicAuthOf` as well. -/
def authH : Handler := fun inp impl => do
  let ok ← authModel inp impl
  let r ← reqOf inp false
  let m := Json.mkObj [("ok", ok), ("ba", pairJson (basicAuthOf r))]
  let iok := (impl.getObjValAs? Bool "ok").toOption
  let implCore := Json.mkObj [("ok", match iok with | some b => Json.bool b | none => Json.null), ("ba", pairOfImpl impl)]
  let scheme := getStrD inp "scheme"
  let reg ← strList ((inp.getObjVal? "registered").toOption.getD Json.null)
  -- spec, stated directly: accepted ⇒ no scheme, or a registered scheme and a stored user/password pair in the
  -- request's Authorization line as net/http reads it
  let good ← credGoodLib inp impl
  let spec := match iok with
    | some true => good
    | some false => true
    | none => false
  let spelled := getStrD ((inp.getObjVal? "req").toOption.getD Json.null) "auth" != ""
  let tag := if (impl.getObjVal? "panic").toOption.isSome then "authorized-panics" else
    (if scheme == "" then "noscheme" else if !reg.contains scheme.toList then "unknown-scheme"
    else match basicAuthOf r with | none => "known-nocred" | some _ => if ok then "known-good" else "known-bad")
    ++ reqClass r spelled ++ (if getStrD inp "htpasswd" != "" then "+file" else "")
  return ({ model := m, agree := m == implCore, spec := spec, nontrivial := scheme != "", tag := tag } : Verdict).toJson

/-- c12.basicauth — the Authorization line → (user, password): the model's `parseBasicAuth` against net/http's
`Request.BasicAuth`. -/
def basicAuthH : Handler := fun inp impl => do
  let h := (getStrD inp "h").toList
  let mres := if h.isEmpty then none else parseBasicAuth h
  let m := pairJson mres
  let implCore := Json.mkObj [("ok", getBoolD impl "ok"), ("u", getStrD impl "u"), ("p", getStrD impl "p")]
  -- spec on the library's answer: the canonical line of a pair is read back as that pair; whatever is read has a
  -- user name without colon
  let pair := arrD inp "pair"
  let spec := (match pair with
      | [u, p] => getBoolD impl "ok" && some (getStrD impl "u") == u.getStr?.toOption && some (getStrD impl "p") == p.getStr?.toOption
      | _ => true)
    && (!getBoolD impl "ok" || !(((ofHexBytes (getStrD impl "u")).getD []).contains 0x3a))
  let tag := match mres with
    | some _ => if pair.length == 2 then "accept-canonical" else if h.take 6 == "Basic ".toList then "accept-variant" else "accept-variant-case"
    | none =>
      if h.length < 6 || lowerL (h.take 6) != "basic ".toList then "reject-scheme-word"
      else match b64DecodeString (h.drop 6) with
        | none => "reject-base64"
        | some _ => "reject-no-colon"
  return ({ model := m, agree := m == implCore, spec := spec, nontrivial := mres.isSome, tag := tag } : Verdict).toJson

/-- c12.authseq — a history of attempts and htpasswd reloads on one long-lived basic-auth scheme instance. -/
def authSeqH : Handler := fun inp impl => do
  let secrets0 := secretsOf ((inp.getObjVal? "secrets").toOption.getD Json.null)
  let opsJ := ((inp.getObjVal? "ops").toOption.bind (fun j => j.getArr?.toOption)).getD #[]
  let ops : List AuthOp := opsJ.toList.map (fun o =>
    if getStrD o "op" == "reload" then .reload (secretsOf ((o.getObjVal? "secrets").toOption.getD Json.null))
    else if getStrD o "op" == "remove" then .reload []   -- the file is gone: the refresh clears the credentials
    else .attempt (credOf o))
  -- the model runs over the TEXT of the file (one line per pair, as the harness writes it): the last line of a user counts
  let opsF : List AuthOpF := ops.map (fun o => match o with | .attempt c => .attempt c | .reload s => .reload (renderSecrets s))
  let verdicts := runAuthF (fun _ => none) (renderSecrets secrets0) opsF
  let m := Json.mkObj [("verdicts", Json.arr (verdicts.map (fun b => Json.bool b)).toArray)]
  let iv : Option (List Bool) := ((impl.getObjVal? "verdicts").toOption.bind (fun j => j.getArr?.toOption)).bind
    (fun a => a.toList.mapM (fun b => b.getBool?.toOption))
  -- spec, stated without the model function: walking the history, attempt k is accepted iff the last line of the
  -- file in force for that user holds exactly that password
  let rec walk (file : List (List Char × List Char)) : List AuthOp → List Bool → Bool
    | [], [] => true
    | .reload s :: h, vs => walk s h vs
    | .attempt c :: h, v :: vs =>
      (v == (match c with
        | some (u, p) => (match file.reverse.find? (fun (u', _) => u' == u) with | some (_, p') => p' == p | none => false)
        | none => false)) && walk file h vs
    | _, _ => false
  let spec := match iv with | some vs => walk secrets0 ops vs | none => false
  -- class: does a valid login precede (without a reload in between) a different pair with the same concatenation
  let rec collides (file : List (List Char × List Char)) (seen : List (List Char × List Char)) : List AuthOp → Bool
    | [] => false
    | .reload s :: h => collides s [] h
    | .attempt none :: h => collides file seen h
    | .attempt (some (u, p)) :: h =>
      seen.any (fun (u', p') => (u', p') != (u, p) && u' ++ p' == u ++ p) ||
        collides file (if basicVerdict file (some (u, p)) then (u, p) :: seen else seen) h
  let hasReload := ops.any (fun o => match o with | .reload _ => true | _ => false)
  let dup (s : List (List Char × List Char)) : Bool := s.length != (s.map (·.1)).eraseDups.length
  let hasDup := dup secrets0 || ops.any (fun o => match o with | .reload s => dup s | _ => false)
  let tag := if collides secrets0 [] ops then "concat-collision-after-valid-login"
    else if hasDup then "user-listed-twice"
    else if opsJ.any (fun o => getStrD o "op" == "remove") then "file-removed"
    else if hasReload then "reload" else "plain"
  return ({ model := m, agree := some verdicts == iv, spec := spec,
            nontrivial := verdicts.contains true && verdicts.contains false, tag := tag } : Verdict).toJson

/-- c12.gate — the real proxies in front of a counting upstream. The peer address is whatever the kernel
assigned to the client socket (reported by the harness in `impl.peer`). Model: `serveReq` (HTTP: the target built by
`addTarget` from the option texts, the request as method + header lines) resp. `serveTCP`. -/
def gateH : Handler := fun inp impl => do
  let proto := getStrD inp "proto"
  let allow := getStrD inp "allow"
  let deny := getStrD inp "deny"
  let noroute := getBoolD inp "noroute"
  let peer := getStrD impl "peer"
  let hits := (impl.getObjValAs? Nat "hits").toOption.getD 999
  let isHTTP := proto == "http"
  let r ← reqOf inp true
  let schemes ← schemesOf inp
  -- `redirect=` is honoured when it is a number in 300..399 (`strconv.Atoi` + range check in addTarget: model `redirectCode`)
  let o : Opts := { allow := allow.toList, deny := deny.toList, auth := if isHTTP then (getStrD inp "scheme").toList else [],
                    redirect := if isHTTP then (getStrD inp "redirect").toList else [] }
  let t := addTarget goParsers o 0
  let err := (processAccessRules goParsers allow.toList deny.toList).2
  let lk : Nat → Option TargetM := fun _ => if noroute then none else some t
  let p : Proto := match proto with | "sni" => .sni | "dyn" => .dyn | "http" => .http | _ => .tcp
  let tcpPeer : TCPPeer := .addr ((splitHostPort peer.toList).bind (fun h => parseIP (stripZone h)))
  let res := if isHTTP then serveReqFile goParsers (hashedOracle impl) schemes lk (fun _ => true) peer.toList r else serveTCP p lk (fun _ => true) tcpPeer
  let outcome : String := match res with
    | .noRoute => if isHTTP then "404" else "closed"
    | .forbidden => if isHTTP then "403" else "closed"
    | .unauthorized => "401"
    | .redirected c => toString c
    | .served _ => if isHTTP then "200" else "echo"
    | .dialFailed _ => "502"
  let m := Json.mkObj [("outcome", outcome), ("hits", if res.attempted.isSome then (1 : Nat) else (0 : Nat)),
    ("ba", if isHTTP then pairJson (basicAuthOf r) else Json.null)]
  let ioutcome := getStrD impl "outcome"
  let implCore := Json.mkObj [("outcome", ioutcome), ("hits", hits), ("ba", if isHTTP then pairOfImpl impl else Json.null)]
  -- spec on the implementation's own output: a refusal leaves the upstream untouched, and an upstream is
  -- touched only for a request the independent evaluation admits (and, HTTP, whose credentials - the pair net/http
  -- reads out of the first Authorization line - are stored ones of a registered scheme)
  let ref := (impl.getObjVal? "ref").toOption.getD Json.null
  let authOk ← if isHTTP then credGoodLib inp impl else pure true
  let refused := ioutcome == "403" || ioutcome == "401" || ioutcome == "404" || ioutcome == "closed"
  let admittedOK := if isHTTP then specDecision ref (some false) none else specDecision ref none (some false)
  let is3xx := ioutcome.length == 3 && ioutcome.startsWith "3"
  let hasRedirect := isHTTP && t.redirect != 0
  -- … and the route's redirect answer (3xx + Location of the protected destination) is given only to a request
  -- that passes both gates, on a route that has a redirect; it never touches the upstream
  let spec := (!refused || hits == 0) && (hits == 0 || (admittedOK && authOk && !noroute))
    && (ioutcome == "200" || ioutcome == "echo" || refused || is3xx)
    && (!is3xx || (admittedOK && authOk && !noroute && hasRedirect && hits == 0))
  let kind := getStrD inp "kind"   -- "ws" / "sse": the websocket handler resp. the flushing reverse proxy
  let spelled := getStrD ((inp.getObjVal? "req").toOption.getD Json.null) "auth" != ""
  let tag := proto ++ (if kind != "" then "/" ++ kind else "") ++ (if isHTTP then reqClass { r with headers := r.headers.filter (fun kv => kv.1 != hXFF) } spelled else "")
    ++ "-" ++ (match err with | some _ => "badrule" | none => modeOf allow deny) ++ "-"
    ++ (if hasRedirect then "redirect-" else "") ++ outcome
  return ({ model := m, agree := m == implCore, spec := spec,
            nontrivial := !t.rules.isEmpty || getStrD inp "scheme" != "", tag := tag } : Verdict).toJson

/-- c12.grpc — the gRPC proxy path: lookup, access check on the peer of the call, the route's auth scheme on the
call's `authorization` metadata, handler. The peer is the client's socket address. -/
def grpcH : Handler := fun inp impl => do
  let allow := getStrD inp "allow"
  let deny := getStrD inp "deny"
  let scheme := getStrD inp "scheme"
  let peer := getStrD impl "peer"
  let hits := (impl.getObjValAs? Nat "hits").toOption.getD 999
  let (rules, _) := processAccessRules goParsers allow.toList deny.toList
  let ip := (splitHostPort peer.toList).bind (fun h => parseIP (stripZone h))
  let denied := accessDeniedTCP rules (.addr ip)
  let authOk ← authModel inp impl
  let (reply, contacted) := runGate { found := true, denied := denied, authorized := authOk } [.lookup, .access, .auth, .upstream] false
  let code : String := match reply with
    | .forbidden => "PermissionDenied"
    | .noRoute => "NotFound"
    | .unauthorized => "Unauthenticated"
    | .redirected => "Redirected"
    | .served => "OK"
  let m := Json.mkObj [("forwarded", contacted), ("code", code)]
  let implCore := Json.mkObj [("forwarded", decide (hits > 0)), ("code", getStrD impl "code")]
  let ref := (impl.getObjVal? "ref").toOption.getD Json.null
  -- spec, stated without the model's gate: the upstream is touched only for a peer the reference admits and,
  -- on a route naming a scheme, a registered scheme and a stored user/password pair; a refusal leaves it untouched
  let reg ← strList ((inp.getObjVal? "registered").toOption.getD Json.null)
  let secrets := secretsOf ((inp.getObjVal? "secrets").toOption.getD Json.null)
  let cred := credOf ((inp.getObjVal? "cred").toOption.getD Json.null)
  let credGood := scheme == "" || (reg.contains scheme.toList &&
    (match cred with | some (u, p) => secrets.any (fun (u', p') => u' == u && p' == p) | none => false))
  let spec := (hits == 0 || (specDecision ref none (some false) && credGood))
    && (getStrD impl "code" == "OK" || hits == 0)
  let tag := if denied then "grpc-denied-by-rules"
    else if scheme == "" then "grpc-admitted"
    else if !reg.contains scheme.toList then "grpc-unknown-scheme"
    else match cred with | none => "grpc-nocred" | some _ => if authOk then "grpc-authorized" else "grpc-badcred"
  return ({ model := m, agree := m == implCore, spec := spec,
            nontrivial := !rules.isEmpty || scheme != "", tag := tag } : Verdict).toJson

/-- c12.multi — routes with several targets (own rules, upstream up or down) behind the real proxies on listeners
made by `proxy.ListenTCP`, plain or with the PROXY protocol (the announced source is the peer). The k-th lookup of a
case returns target `k mod n`; model: `serveTCP` / `serveHTTP` of `Model/C12Serve.lean`. -/
def multiH : Handler := fun inp impl => do
  let proto := getStrD inp "proto"
  let pp := getBoolD inp "pp"
  let targetsJ := arrD inp "targets"
  let xff ← strList ((inp.getObjVal? "xff").toOption.getD Json.null)
  let peer := getStrD impl "peer"
  let kind := getStrD inp "kind"   -- "ws": the websocket handler (hijack + raw dial), "sse": the flushing reverse proxy
  let n := targetsJ.length
  let isHTTP := proto == "http"
  let viaTable := getBoolD inp "table"
  let ts : List TargetM := targetsJ.zipIdx.map fun (j, i) =>
    addTarget goParsers { allow := (getStrD j "allow").toList, deny := (getStrD j "deny").toList,
                          redirect := if viaTable && isHTTP then (getStrD j "redirect").toList else [] } i
  let aliveOf (u : Nat) : Bool := match targetsJ[u]? with | some j => getStrD j "up" == "live" | none => false
  -- the lookup sequence is an oracle: which target the k-th lookup of the case returned (the harness' own round
  -- robin, or the real table with the rr picker); the theorems hold for every such sequence
  let picks : List Nat := (arrD impl "picks").map (fun j => j.getNat?.toOption.getD n)
  let lk (k : Nat) : Option TargetM := match picks[k]? with | some i => ts[i]? | none => none
  let p : Proto := match proto with | "sni" => .sni | "dyn" => .dyn | "http" => .http | _ => .tcp
  let tcpPeer : TCPPeer := .addr ((splitHostPort peer.toList).bind (fun h => parseIP (stripZone h)))
  let res := if isHTTP then serveHTTP goParsers lk aliveOf peer.toList xff (fun _ => true) else serveTCP p lk aliveOf tcpPeer
  let outcome : String := match res with
    | .noRoute => if isHTTP then "404" else "closed"
    | .forbidden => if isHTTP then "403" else "closed"
    | .unauthorized => "401"
    | .redirected c => toString c
    | .served _ => if isHTTP then "200" else "echo"
    | .dialFailed _ => if isHTTP then (if kind == "ws" then "error" else "502") else "closed"
  let mhits : List Nat := (List.range n).map fun i => match res with | .served u => if u = i then 1 else 0 | _ => 0
  let m := Json.mkObj [("outcome", outcome), ("hits", Json.arr (mhits.map (fun (h : Nat) => (h : Json))).toArray)]
  let ihits : List Nat := (arrD impl "hits").map (fun j => j.getNat?.toOption.getD 999)
  let ioutcome := getStrD impl "outcome"
  let implCore := Json.mkObj [("outcome", ioutcome), ("hits", Json.arr (ihits.map (fun (h : Nat) => (h : Json))).toArray)]
  -- spec on the implementation's own output: an upstream is touched only if the independent evaluation of the
  -- rules of ITS target admits the peer (and every X-Forwarded-For element); anything but a served request leaves
  -- every upstream untouched
  let refs := arrD impl "refs"
  let servedOut := ioutcome == "200" || ioutcome == "echo"
  let known := servedOut || ioutcome == "403" || ioutcome == "404" || ioutcome == "502" || ioutcome == "closed"
    || ioutcome == "error"
  let admits (ref : Json) : Bool := if isHTTP then specDecision ref (some false) none else specDecision ref none (some false)
  let each := (ihits.zip refs).all fun (h, ref) => h == 0 || admits ref
  -- a 3xx answer: only from a target with a redirect= option that the lookup returned and whose rules admit
  let is3xx := ioutcome.length == 3 && ioutcome.startsWith "3"
  let redirectOK := picks.any fun i => match targetsJ[i]?, refs[i]? with
    | some j, some ref => getStrD j "redirect" != "" && admits ref
    | _, _ => false
  let spec := (known || is3xx) && ihits.length == n && refs.length == n && each && (servedOut || ihits.all (· == 0))
    && (!is3xx || redirectOK)
  -- class: what the looked-up target does with the peer, and whether another instance of the route is up and would
  -- have to refuse this peer
  let deniesAt (i : Nat) : Bool := match ts[i]? with
    | some t => if isHTTP then accessDeniedHTTP goParsers t.rules peer.toList xff else accessDeniedTCP t.rules tcpPeer
    | none => false
  let otherRefuses (u : Nat) : Bool := (List.range n).any fun j => j != u && aliveOf j && deniesAt j
  let cls : String := match res with
    | .noRoute => "noroute"
    | .forbidden => "refused"
    | .dialFailed u => if otherRefuses u then "down-next-refuses" else "down"
    | .redirected _ => "redirected"
    | _ => "served"
  let tag := (if viaTable then "table:" else "") ++ proto ++ (if kind != "" then "/" ++ kind else "") ++ (if pp then "+pp" else "") ++ "-n" ++ toString n ++ "-" ++ cls
  return ({ model := m, agree := m == implCore, spec := spec,
            nontrivial := ts.any (fun t => !t.rules.isEmpty), tag := tag } : Verdict).toJson

/-- c12.race — the first requests for a fresh target arrive together: every worker has to get the decision a single
request gets (`first_requests_agree`). Even workers ask `AccessDeniedHTTP`, odd ones `AccessDeniedTCP`. -/
def raceH : Handler := fun inp impl => do
  let allow := getStrD inp "allow"
  let deny := getStrD inp "deny"
  let remote := getStrD inp "remote"
  let xff ← strList ((inp.getObjVal? "xff").toOption.getD Json.null)
  let tcp := tcpPeerOf ((inp.getObjVal? "tcp").toOption.getD Json.null)
  let workers := natD inp "workers"
  let rounds := natD inp "rounds"
  let (rules, err) := processAccessRules goParsers allow.toList deny.toList
  let dh := accessDeniedHTTP goParsers rules remote.toList xff
  let dt := accessDeniedTCP rules tcp
  let nh := rounds * ((workers + 1) / 2)
  let nt := rounds * (workers / 2)
  let counts (d : Bool) (k : Nat) : Json := Json.mkObj [("denied", if d then k else 0), ("admitted", if d then 0 else k)]
  let m := Json.mkObj [("http", counts dh nh), ("tcp", counts dt nt)]
  let ih := (impl.getObjVal? "http").toOption.getD Json.null
  let it := (impl.getObjVal? "tcp").toOption.getD Json.null
  let implCore := Json.mkObj [("http", Json.mkObj [("denied", natD ih "denied"), ("admitted", natD ih "admitted")]),
    ("tcp", Json.mkObj [("denied", natD it "denied"), ("admitted", natD it "admitted")])]
  let ref := (impl.getObjVal? "ref").toOption.getD Json.null
  -- spec: every answer was given, and an admitted answer is justified by the independent evaluation
  let spec := natD ih "denied" + natD ih "admitted" == nh && natD it "denied" + natD it "admitted" == nt
    && (natD ih "admitted" == 0 || specDecision ref (some false) none)
    && (natD it "admitted" == 0 || specDecision ref none (some false))
  let tag := "race-" ++ (match err with | some _ => "badrule" | none => modeOf allow deny)
    ++ (if dh then "-http-denied" else "-http-admitted") ++ (if dt then "-tcp-denied" else "-tcp-admitted")
  return ({ model := m, agree := m == implCore, spec := spec, nontrivial := !rules.isEmpty, tag := tag } : Verdict).toJson

def streams : List (String × Handler) :=
  [("c12.parse", parseH), ("c12.decide", decideH), ("c12.tcp", tcpH), ("c12.auth", authH), ("c12.basicauth", basicAuthH), ("c12.authseq", authSeqH), ("c12.gate", gateH), ("c12.grpc", grpcH),
   ("c12.multi", multiH), ("c12.race", raceH)]
end Fabio.Driver.C12
