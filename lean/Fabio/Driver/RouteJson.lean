import Fabio.Driver.Proto
import Fabio.Model.Route
/-!
JSON glue shared by the route-table streams (C02–C06, C13, C14, C01): decoding route definitions, oracles
and rationals, encoding tables in the same canonical shape as `route.VerifDump`, and a weight-tolerant
comparison (Go computes weights in float64, the model in ℚ; DESIGN.md C04 "P").
-/
namespace Fabio.Driver.RouteJson
open Lean Fabio.Driver Fabio.Model.Route

def str (s : Str) : Json := Json.str (String.ofList s)

def getStr (j : Json) (k : String) : Except String Str := do
  let s ← j.getObjValAs? String k
  return s.toList

def getStrD (j : Json) (k : String) : Str :=
  match j.getObjValAs? String k with
  | .ok s => s.toList
  | .error _ => []

/-- "num/den" (as written by `route.VerifRat`) → `Rat`; `none` for nan/inf or garbage. -/
def parseRat (s : String) : Option Rat :=
  match s.splitOn "/" with
  | [n, d] => match n.toInt?, d.toNat? with
    | some n, some d => if d = 0 then none else some ((n : Rat) / (d : Rat))
    | _, _ => none
  | [n] => n.toInt?.map (fun n => (n : Rat))
  | _ => none

def ratStr (r : Rat) : String := s!"{r.num}/{r.den}"
def ratJson (r : Rat) : Json := Json.str (ratStr r)

def getRat (j : Json) (k : String) : Except String Rat := do
  let s ← j.getObjValAs? String k
  match parseRat s with
  | some r => return r
  | none => throw s!"bad rational {s}"

def strList (j : Json) : Except String (List Str) := do
  match j with
  | .null => return []
  | .arr a => a.toList.mapM (fun x => do let s ← x.getStr?; return s.toList)
  | _ => throw "expected array of strings"

def pairList (j : Json) : Except String (List (Str × Str)) := do
  match j with
  | .null => return []
  | .arr a => a.toList.mapM (fun x => do
      match x with
      | .arr #[k, v] => do let k ← k.getStr?; let v ← v.getStr?; return (k.toList, v.toList)
      | _ => throw "expected [k,v]")
  | _ => throw "expected array of pairs"

def cmdOf (s : String) : Cmd :=
  if s == "add" || s == "route add" then .add
  else if s == "del" || s == "route del" then .del
  else if s == "weight" || s == "route weight" then .weight
  else .other s.toList

def routeDef (j : Json) : Except String RouteDef := do
  let cmd ← j.getObjValAs? String "cmd"
  let w ← match j.getObjVal? "weight" with
    | .ok (.str s) => match parseRat s with
      | some r => pure r
      | none => throw s!"bad weight {s}"
    | _ => pure (0 : Rat)
  let tags ← strList ((j.getObjVal? "tags").toOption.getD .null)
  let opts ← pairList ((j.getObjVal? "opts").toOption.getD .null)
  return { cmd := cmdOf cmd, service := getStrD j "service", src := getStrD j "src", dst := getStrD j "dst",
           weight := w, tags, opts }

/-- Oracle object `{"url": {dst: norm|null, …}, "glob": {path: bool, …}}` → `Env`. A string missing from
the oracle is treated as "parse error"/"compile error" and flagged by the harness self-check. -/
def envOf (j : Json) : Env :=
  let u := (j.getObjVal? "url").toOption.getD (Json.mkObj [])
  let g := (j.getObjVal? "glob").toOption.getD (Json.mkObj [])
  { normURL := fun s => match u.getObjVal? (String.ofList s) with
      | .ok (.str n) => some n.toList
      | _ => none
    globOK := fun s => match g.getObjVal? (String.ofList s) with
      | .ok (.bool b) => b
      | _ => false }

def targetJson (t : Target) : Json :=
  Json.mkObj [("service", str t.service), ("tags", Json.arr (t.tags.map str).toArray),
    ("opts", Json.arr (t.opts.map (fun kv => Json.arr #[str kv.1, str kv.2])).toArray),
    ("url", str t.url), ("fixed", ratJson t.fixedWeight), ("weight", ratJson t.weight)]

def routeJson (r : Route) : Json :=
  Json.mkObj [("host", str r.host), ("path", str r.path), ("targets", Json.arr (r.targets.map targetJson).toArray)]

/-- insertion sort of hosts ascending (bytewise), as `VerifDump` does with `sort.Strings`. -/
def sortHosts (t : Table) : Table :=
  t.foldr (fun kv acc =>
    let rec ins : Table → Table
      | [] => [kv]
      | x :: xs => if strLt kv.1 x.1 then kv :: x :: xs else x :: ins xs
    ins acc) []

def sortOpts (o : List (Str × Str)) : List (Str × Str) :=
  o.foldr (fun kv acc =>
    let rec ins : List (Str × Str) → List (Str × Str)
      | [] => [kv]
      | x :: xs => if strLt kv.1 x.1 then kv :: x :: xs else x :: ins xs
    ins acc) []

def tableJson (t : Table) : Json :=
  Json.arr ((sortHosts t).map (fun kv => Json.mkObj [("host", str kv.1),
    ("routes", Json.arr (kv.2.map (fun r => routeJson { r with targets := r.targets.map (fun t => { t with opts := sortOpts t.opts }) })).toArray)])).toArray

/-- tolerance for float64-vs-ℚ weight comparison -/
def eps : Rat := 1 / (2^40 : Nat)

def ratClose (a b : Rat) : Bool := (if a < b then b - a else a - b) ≤ eps

/-- Structural equality of two canonical JSON values where strings of the form "n/d" under the keys
"fixed"/"weight" are compared up to `eps`. Keys absent from the model side (derived fields, ring) are ignored
when `lenient` is set. -/
partial def closeJson (model impl : Json) : Bool :=
  match model, impl with
  | .obj m, .obj _ =>
    m.toList.all (fun (k, v) =>
      match impl.getObjVal? k with
      | .ok w =>
        if k == "fixed" || k == "weight" then
          match v, w with
          | .str a, .str b => (match parseRat a, parseRat b with
              | some x, some y => ratClose x y
              | _, _ => a == b)
          | _, _ => false
        else closeJson v w
      | .error _ => false)
  | .arr a, .arr b => a.size == b.size && (a.toList.zip b.toList).all (fun (x, y) => closeJson x y)
  | a, b => a == b

end Fabio.Driver.RouteJson
