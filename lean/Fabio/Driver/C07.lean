import Fabio.Driver.Proto
import Fabio.Model.C07
import Fabio.Model.C07Spec
import Fabio.Model.C07Chain
import Fabio.Model.ServeHTTP
import Fabio.Model.C12Parse
import Fabio.Model.C13Parse
import Fabio.Generated.C07
namespace Fabio.Driver.C07
open Lean Fabio.Driver Fabio.Model.C07 Fabio.Model.C07Spec

/-! JSON glue for the C07 streams (`c07.url`, `c07.body`, `c07.noroute`, `c07.escape`). -/

def str (j : Json) (k : String) : Except String String := j.getObjValAs? String k
def bytes (j : Json) (k : String) : Except String Bytes := ofStr <$> str j k
def bool (j : Json) (k : String) : Except String Bool := j.getObjValAs? Bool k
def int (j : Json) (k : String) : Except String Int := j.getObjValAs? Int k
def jb (b : Bytes) : Json := Json.str (toStr b)

def arr (j : Json) (k : String) : Except String (Array Json) :=
  match j.getObjVal? k with
  | .ok (Json.arr a) => .ok a
  | .ok Json.null => .ok #[]
  | .ok _ => .error s!"{k}: not an array"
  | .error _ => .ok #[]

/-- `[[name, value], …]` -/
def pairs (j : Json) (k : String) : Except String (List (String × String)) := do
  let a ← arr j k
  a.toList.mapM fun e =>
    match e with
    | Json.arr #[Json.str n, Json.str v] => .ok (n, v)
    | _ => .error s!"{k}: not a pair"

/-- `[{"k": name, "v": [values…]}, …]` flattened to pairs -/
def kvPairs (j : Json) (k : String) : Except String (List (String × String)) := do
  let a ← arr j k
  let ls ← a.toList.mapM fun e => do
    let n ← str e "k"
    let vs ← arr e "v"
    vs.toList.mapM fun v => match v with
      | Json.str s => .ok (n, s)
      | _ => .error "value not a string"
  return ls.flatten

/-- group pairs by name (values in arrival order), names sorted: the canonical form of a header block -/
def group (l : List (String × String)) : List (String × List String) :=
  let ins (acc : List (String × List String)) (kv : String × String) : List (String × List String) :=
    let rec go : List (String × List String) → List (String × List String)
      | [] => [(kv.1, [kv.2])]
      | (k, vs) :: rest =>
        if k = kv.1 then (k, vs ++ [kv.2]) :: rest
        else if kv.1 < k then (kv.1, [kv.2]) :: (k, vs) :: rest
        else (k, vs) :: go rest
    go acc
  l.foldl ins []

def groupJson (l : List (String × String)) : Json :=
  Json.arr ((group l).map fun (k, vs) => Json.mkObj [("k", k), ("v", Json.arr (vs.map Json.str).toArray)]).toArray

def isPanic (j : Json) : Bool := (j.getObjVal? "panic").toOption.isSome

/-- fields added to the cases later: absent in older corpus lines, then the default -/
def optObj (j : Json) (k : String) : Json := (j.getObjVal? k).toOption.getD Json.null
def optStr (j : Json) (k : String) : String := (j.getObjValAs? String k).toOption.getD ""
def optBool (j : Json) (k : String) : Bool := (j.getObjValAs? Bool k).toOption.getD false
def optInt (j : Json) (k : String) : Int := (j.getObjValAs? Int k).toOption.getD 0

/-- the proxy configuration beside the route (`pcfg` of the harness): is any optional stage switched on? -/
def cfgOn (cfg : Json) : Bool :=
  optStr cfg "span" ≠ "" || optStr cfg "reqid" ≠ "" || optBool cfg "log" || optBool cfg "stats" || optInt cfg "flush" ≠ 0

/-! ### c07.url -/

def notCompared : List String := hopNames ++ forwardingNames ++ framingNames

/-- "the upstream receives the client's … end-to-end headers unchanged", on the header block the client sent
(canonical names) and the one the upstream recorded: equal as multisets of lines once hop-by-hop headers (the fixed
set and what `Connection` lists), the forwarding headers (C08), the framing headers and the configured request-id
header are set aside. User-Agent: Go's transport can send one non-empty value only; an empty or repeated one is not
counted. `Accept-Encoding: gzip` added by the Go transport for its own hop when the client named none is not counted. -/
def headerSentence (reqid : String) (isWS : Bool) (method : String) (hdrs upHdrAll : List (String × String)) : Bool :=
  let dropId (l : List (String × String)) : List (String × String) := if reqid = "" then l else l.filter (·.1 ≠ reqid)
  let listed := if isWS then [] else connectionListed hdrs
  let uaNorm (l : List (String × String)) : List (String × String) :=
    let ua := headerGet l "User-Agent"
    (l.filter (·.1 ≠ "User-Agent")) ++ (if ua ≠ "" then [("User-Agent", ua)] else [])
  let clientE2E := dropId (uaNorm (endToEnd listed hdrs))
  let aeOwn := !isWS && headerGet hdrs "Accept-Encoding" = "" && headerGet hdrs "Range" = "" && method ≠ "HEAD"
  let upE2E0 := endToEnd [] upHdrAll
  let upE2E := dropId (uaNorm (if aeOwn then upE2E0.erase ("Accept-Encoding", "gzip") else upE2E0))
  sameMultiset clientE2E upE2E

def urlH : Handler := fun inp impl => do
  let strip ← bytes inp "strip"
  let prepend ← bytes inp "prepend"
  let hostOpt ← str inp "hostopt"
  let tq ← bytes inp "tq"
  let method ← str inp "method"
  let client ← bytes inp "path"
  let hasq ← bool inp "hasq"
  let query ← bytes inp "query"
  let host ← str inp "host"
  let hdr0 ← pairs inp "hdr"
  let ws ← bool inp "ws"
  let body ← bytes inp "body"
  -- configuration beside the route: none of it may show at the upstream, except the request-id header the operator
  -- asked for (C08's), which is left out of the comparison like the forwarding headers
  let cfg := optObj inp "cfg"
  let reqid := canonKey (optStr cfg "reqid")
  let dropId (l : List (String × String)) : List (String × String) := if reqid = "" then l else l.filter (·.1 ≠ reqid)
  let hdrs := hdr0.map (fun kv => (canonKey kv.1, kv.2)) ++
    (if ws then [("Upgrade", if optStr inp "upg" = "" then "websocket" else optStr inp "upg"), ("Connection", "Upgrade")] else [])
  let t : Target := { strip := strip, prepend := prepend, hostOpt := hostOpt, host := "UPSTREAM", rawQuery := tq }
  -- the implementation's record, canonicalised
  let implStatus := (impl.getObjValAs? Int "status").toOption.getD (-1)
  let implHits := (impl.getObjValAs? Int "hits").toOption.getD (-1)
  let up := (impl.getObjVal? "up").toOption.getD Json.null
  let sentSha := (impl.getObjValAs? String "sent_bsha").toOption.getD ""
  let upHdrAll ← if up.isNull then pure [] else kvPairs up "hdr"
  let upHdr := dropId (upHdrAll.filter fun kv => !notCompared.contains kv.1)
  let canonUp : Json :=
    if up.isNull then Json.null else
      Json.mkObj [("method", (up.getObjVal? "method").toOption.getD Json.null),
                  ("uri", (up.getObjVal? "uri").toOption.getD Json.null),
                  ("host", (up.getObjVal? "host").toOption.getD Json.null),
                  ("hdr", groupJson upHdr),
                  ("blen", (up.getObjVal? "blen").toOption.getD Json.null),
                  ("bsha", (up.getObjVal? "bsha").toOption.getD Json.null)]
  let canonImpl : Json :=
    if isPanic impl then Json.mkObj [("panic", true)]
    else Json.mkObj [("status", implStatus), ("hits", implHits), ("up", canonUp)]
  match setPath client with
  | none =>
    let m := Json.mkObj [("status", (400 : Int)), ("hits", (0 : Int)), ("up", Json.null)]
    return ({ model := m, agree := m == canonImpl, spec := implHits == 0, nontrivial := false, tag := "bad-request" } : Verdict).toJson
  | some (path, rawPath) =>
    let u : URL := { path := path, rawPath := rawPath, rawQuery := query, forceQuery := hasq && query.isEmpty }
    let r : Req Bytes := { method := method, url := u, host := host, headers := hdrs, body := body }
    let (m, h) : Json × Via := match serve 0 "" (some t) r with
      | .noRoute s _ => (Json.mkObj [("status", s), ("hits", (0 : Int)), ("up", Json.null)], .http)
      | .forward h _ o =>
        (Json.mkObj [("status", if h == .ws then (101 : Int) else 200), ("hits", (1 : Int)),
          ("up", Json.mkObj [("method", o.method), ("uri", jb o.url.requestURI), ("host", o.host),
                             ("hdr", groupJson (dropId (upstreamHeaders h o.method o.headers))),
                             ("blen", (o.body.length : Int)), ("bsha", sentSha)])], h)
    -- the property's sentences on what the upstream recorded
    let upMethod := (up.getObjValAs? String "method").toOption.getD ""
    let upURI := ofStr ((up.getObjValAs? String "uri").toOption.getD "")
    let upHost := (up.getObjValAs? String "host").toOption.getD ""
    let upBlen := (up.getObjValAs? Int "blen").toOption.getD (-1)
    let upBsha := (up.getObjValAs? String "bsha").toOption.getD "?"
    let (upath, uquery) := splitQuery upURI
    let isWS := h == .ws
    let sPath := pathOK strip prepend client upath
    let sQuery := uquery.getD [] = expectedQuery tq query
    let sHost := upHost = expectedHost hostOpt "UPSTREAM" host
    let sHdr := headerSentence reqid isWS method hdrs upHdrAll
    let sBody := upBlen = (body.length : Int) && upBsha = sentSha
    let spec := implHits == 1 && upMethod = method && sPath && sQuery && sHost && sHdr && sBody
    let stripApplies := strip ≠ [] && strip.isPrefixOf path
    -- the cut of the escaped path as the translator regenerated it from the current source (`XEscapedLen`, proved
    -- equal to `dropEscaped` in Props/C07Xlate.lean), run on this case: what it leaves must be what the model leaves —
    -- and the model's request-target is compared with what the upstream received
    let xlOK := !stripApplies || !Fabio.Generated.C07.XEscapedLen.translated ||
      (match Fabio.Generated.C07.XEscapedLen.run { p0 := u.escapedPath, p1 := (strip.length : Int) } with
       | .ok (r, _) => 0 ≤ r && u.escapedPath.drop r.toNat == dropEscaped strip.length u.escapedPath
       | .panic _ => false)
    let base := if stripApplies then (if prepend ≠ [] then "strip+prepend" else "strip")
                else if prepend ≠ [] then (if strip ≠ [] then "nostrip+prepend" else "prepend")
                else if strip ≠ [] then "nostrip" else "plain"
    let corner := match expectedPath strip prepend client with
      | some (_, w) => !startsWithSlash w
      | none => false
    let tag :=
      if !validEncoded client then "path-raw-invalid-byte"
      else base ++ (if isWS then "+ws" else "") ++ (if rawPath ≠ [] then "+enc" else "")
           ++ (if corner then "+encslash" else "")
           ++ (if isWS && headerGet hdrs "User-Agent" = "" then "+noua" else "")
           ++ (if cfgOn cfg || optBool inp "gzip" then "+cfg" else "")
    let nontrivial := stripApplies || prepend ≠ [] || hostOpt ≠ "" || tq ≠ [] || rawPath ≠ []
    return ({ model := m, agree := m == canonImpl && xlOK, spec := spec, nontrivial := nontrivial,
              tag := tag ++ (if xlOK then "" else "/xlate-differs") } : Verdict).toJson

/-! ### c07.body -/

/-- `[{"code": c, "hdr": [{"k":…,"v":[…]}]}]` -/
def interims (j : Json) (k : String) (kvForm : Bool) : Except String (List (Int × List (String × String))) := do
  let a ← arr j k
  a.toList.mapM fun e => do
    let c ← int e "code"
    let h ← if kvForm then kvPairs e "hdr" else (do
      let ps ← pairs e "hdr"
      pure (ps.map fun kv => (canonKey kv.1, kv.2)))
    pure (c, h)

def interimsJson (l : List (Int × List (String × String))) : Json :=
  Json.arr (l.map fun (c, h) => Json.mkObj [("code", c), ("hdr", groupJson h)]).toArray

def bodyH : Handler := fun inp impl => do
  let method ← str inp "method"
  let rstatus ← int inp "rstatus"
  let reqlen ← int inp "reqlen"
  let chunks ← arr inp "chunks"
  let rchunked ← bool inp "rchunked"
  let announced ← interims inp "interim" false
  let gz := optBool inp "gzip"
  let expect := optBool inp "expect"
  let ae := optStr inp "ae"
  -- the Content-Encoding lines the upstream declares (older corpus lines: none)
  let rceLines := ((arr inp "rce").toOption.getD #[]).toList.filterMap fun j => match j with | Json.str p => some p | _ => none
  let rceAny := rceLines.any (· ≠ "")
  let ctype := optStr inp "ctype"
  let cfg := optObj inp "cfg"
  let g (k : String) : Json := (impl.getObjVal? k).toOption.getD Json.null
  if isPanic impl then
    return ({ model := Json.null, agree := false, spec := false, tag := "panic" } : Verdict).toJson
  let repHdr ← kvPairs impl "rep_hdr"
  let gotHdr ← kvPairs impl "got_hdr"
  let sentInterim ← interims impl "sent_interim" true
  let gotInterim ← interims impl "got_interim" true
  -- model: the frame — the request reaches the upstream once with the client's method and body; the handler
  -- announces the upstream's informational responses and then its final status through `responseWriter`, whose
  -- wrapped writer (net/http's) shows the client `clientView` of the calls it received; headers and body follow.
  -- With proxy.gzip.contenttype configured the gzip layer of the chain (`C07Chain.respond`, C17's model) decides
  -- from the request's Accept-Encoding, the method, the status and the reply's own lines whether it compresses.
  let calls := (RW.run (announced.map (·.1) ++ [rstatus])).sentHeaders
  let (mInterim, mFinal) := clientView calls
  let mInterimFull := (announced.zip mInterim).map fun (a, c) => (c, a.2)
  let reply : Fabio.Model.C07Chain.Reply :=
    { interim := announced.map (·.1.toNat), status := rstatus.toNat, hdr := repHdr, chunks := [] }
  let accept := optStr inp "accept"
  let reqH : Fabio.Model.C17.Hdr := (if ae = "" then [] else [("Accept-Encoding", [ae])]) ++ (if accept = "" then [] else [("Accept", [accept])])
  let engaged := gz && Fabio.Model.C07Chain.gzipEngages (fun s => "text/".toList.isPrefixOf s.toList) (method == "HEAD") reqH reply
  -- observed: the reply is labelled gzip although the upstream declared no coding — then the coding is fabio's own
  -- and is undone before comparing (dec_*: what the harness got out of the gzip stream). A coding the upstream
  -- declared itself is never undone: those bytes and that label are the upstream's.
  let gotCE := (gotHdr.filter (·.1 = "Content-Encoding")).map (·.2)
  let byFabio := gz && !rceAny && gotCE == ["gzip"]
  let decOK := optBool impl "dec_ok"
  let (cLen, cSha) := if byFabio then (g "dec_len", g "dec_sha") else (g "got_len", g "got_sha")
  let gotE2E := if byFabio then gotHdr.filter (·.1 ≠ "Content-Encoding") else gotHdr
  -- the gzip handler adds one `Vary: Accept-Encoding` line of its own (not after an informational response: the
  -- reverse proxy clears the header map then)
  let hdrOK := sameMultiset repHdr gotE2E || (gz && sameMultiset repHdr (gotE2E.erase ("Vary", "Accept-Encoding")))
  let gotShown := if hdrOK then repHdr else gotE2E
  -- the same for an informational response: the first one goes out with the handler's `Vary` line
  let interimOK (ab : (Int × List (String × String)) × (Int × List (String × String))) : Bool :=
    ab.1.1 == ab.2.1 && (sameMultiset ab.1.2 ab.2.2 || (gz && sameMultiset ab.1.2 (ab.2.2.erase ("Vary", "Accept-Encoding"))))
  let gotInterimShown := if sentInterim.length == gotInterim.length
    then (sentInterim.zip gotInterim).map (fun ab => if interimOK ab then ab.1 else ab.2) else gotInterim
  let m := Json.mkObj [("hits", (1 : Int)), ("up_method", method), ("up_len", g "sent_len"), ("up_sha", g "sent_sha"),
                       ("status", mFinal), ("interim", interimsJson mInterimFull), ("encoded", engaged),
                       ("got_len", g "rep_len"), ("got_sha", g "rep_sha"), ("got_hdr", groupJson repHdr),
                       ("got_trailer", groupJson ((kvPairs impl "rep_trailer").toOption.getD []))]
  let ci := Json.mkObj [("hits", g "hits"), ("up_method", g "up_method"), ("up_len", g "up_len"), ("up_sha", g "up_sha"),
                        ("status", g "status"), ("interim", interimsJson gotInterimShown), ("encoded", byFabio),
                        ("got_len", cLen), ("got_sha", cSha), ("got_hdr", groupJson gotShown),
                        ("got_trailer", groupJson ((kvPairs impl "got_trailer").toOption.getD []))]
  -- the sentences: the upstream got the client's method and body; the client got the upstream's status, end-to-end
  -- headers and body bytes — and the informational responses the upstream sent, in order, each with its headers
  let sameInterim := sentInterim.length == gotInterim.length && (sentInterim.zip gotInterim).all interimOK
  let spec := g "hits" == (1 : Int) && g "up_method" == Json.str method &&
    g "up_len" == g "sent_len" && g "up_sha" == g "sent_sha" && g "sent_len" == Json.num reqlen &&
    g "status" == Json.num rstatus && cLen == g "rep_len" && cSha == g "rep_sha" && (!byFabio || decOK) &&
    hdrOK && sameInterim
  -- trailer fields of the reply: end-to-end header fields behind the body
  let tr (k : String) : List (String × String) := (kvPairs impl k).toOption.getD []
  let trailersOK := sameMultiset (tr "rep_trailer") (tr "got_trailer")
  let hasTrailer := !(tr "rep_trailer").isEmpty
  let spec := spec && trailersOK
  -- "body bytes unchanged" has one licensed exception, the gzip coding for a client that accepts it: a reply coded
  -- by fabio to a client whose Accept-Encoding does not make gzip acceptable (RFC 9110 §12.5.3 reading,
  -- `C07Spec.gzipAcceptable` — not the walk of `acceptsGzip`) is an altered body
  let aeOK := !byFabio || gzipAcceptable ae
  let spec := spec && aeOK
  let big := reqlen > 65536 || (impl.getObjValAs? Int "rep_len").toOption.getD 0 > 65536
  let tag := (if chunks.size > 0 then "req-chunked" else if reqlen > 0 then "req-cl" else "req-empty") ++
             (if rchunked then "/rep-chunked" else "/rep-cl") ++ (if big then "/big" else "") ++
             (if announced.isEmpty then "" else "/1xx") ++ (if expect then "/expect" else "") ++
             (if gz then (if byFabio then "/gz-encoded" else "/gz") else "") ++
             (if gz && (ae.toList.contains '*' || ae.toList.contains ';') then "/ae-weighted" else "") ++
             (if accept ≠ "" then "/accept" else "") ++
             (if rceAny then "/ce" else "") ++ (if hasTrailer then "/trailer" else "") ++
             (if "application/x-www-form-urlencoded".toList.isPrefixOf ctype.toList then "/form" else "") ++
             (if cfgOn cfg then "/cfg" else "")
  -- recorded finding: the gzip layer judges "already encoded" by the first Content-Encoding line alone
  let tag := if gz && rceAny && rceLines.head? == some "" then "content-encoding-first-line-empty" else tag
  return ({ model := m, agree := m == ci, spec := spec,
            nontrivial := reqlen > 0 || (impl.getObjValAs? Int "rep_len").toOption.getD 0 > 0 || !announced.isEmpty, tag := tag } : Verdict).toJson

/-! ### c07.noroute -/

/-- what `net/http`'s server makes of `WriteHeader(status)` followed by `io.WriteString(w, page)` (assumed):
a 1xx status other than 101 goes out as an interim response and the page follows under 200; no body with
101/204/304 or on HEAD -/
def renderNoRoute (method : String) (status : Int) (page : String) : List Int × Int × String :=
  let interim := 100 ≤ status && status ≤ 199 && status ≠ 101
  let final := if interim then 200 else status
  let bodyOK := method ≠ "HEAD" && final ≠ 101 && final ≠ 204 && final ≠ 304
  (if interim then [status] else [], final, if bodyOK then page else "")

def norouteH : Handler := fun inp impl => do
  let status ← int inp "status"
  let html ← str inp "html"
  let method ← str inp "method"
  let isMatch ← bool inp "match"
  -- the page store (`noroute/store.go`, `Model.C07Chain.Store`): whatever was set before, the last `SetHTML` counts
  let prev := ((arr inp "prev").toOption.getD #[]).toList.filterMap fun j => match j with | Json.str p => some p | _ => none
  let page := ((prev ++ [html]).foldl Fabio.Model.C07Chain.Store.set {}).get
  let r : Req Unit := { method := method, url := {}, host := "", headers := [], body := () }
  let t : Option Target := if isMatch then some { host := "UPSTREAM" } else none
  let ci := if isPanic impl then Json.mkObj [("panic", true)] else impl
  let mk (interim : List Int) (st : Int) (body : String) (hits : Int) : Json :=
    Json.mkObj [("status", st), ("interim", Json.arr (interim.map (fun (i : Int) => (i : Json))).toArray), ("body", body), ("hits", hits)]
  match serve status page t r with
  | .noRoute s page =>
    let (interim, final, body) := renderNoRoute method s page
    let m := mk interim final body 0
    -- the sentence: configured status (404 when outside 100..999), the page (where HTTP lets a body through),
    -- and no upstream contacted
    let want := if 100 ≤ status ∧ status ≤ 999 then status else 404
    let gotStatus := (impl.getObjValAs? Int "status").toOption.getD (-1)
    let gotInterim := ((arr impl "interim").toOption.getD #[]).toList
    let gotBody := (impl.getObjValAs? String "body").toOption.getD "?"
    let informational := 100 ≤ want && want ≤ 199 && want ≠ 101
    let statusOK := if informational then gotInterim == [(want : Json)] else gotStatus == want
    let pageOK := gotBody == html || (gotBody == "" && (method == "HEAD" || want == 101 || want == 204 || want == 304))
    let spec := statusOK && pageOK && (impl.getObjValAs? Int "hits").toOption.getD (-1) == 0
    let tag := if status < 100 then "below-range" else if status > 999 then "above-range"
               else if informational then "informational-status" else if html == "" then "in-range-empty-page" else "in-range"
    return ({ model := m, agree := m == ci, spec := spec, nontrivial := status < 100 || status > 999 || html ≠ "", tag := tag } : Verdict).toJson
  | .forward _ _ _ =>
    let m := mk [] 200 (if method == "HEAD" then "" else "ok") 1
    return ({ model := m, agree := m == ci, spec := (impl.getObjValAs? Int "hits").toOption.getD (-1) == 1,
              nontrivial := false, tag := "control-routed" } : Verdict).toJson

/-! ### c07.escape -/

def escapeH : Handler := fun inp impl => do
  let mode ← str inp "mode"
  let a ← bytes inp "a"
  let b ← bytes inp "b"
  let q ← bytes inp "q"
  let f ← bool inp "f"
  let mk (ok : Bool) (u : URL) : Json :=
    if ok then Json.mkObj [("ok", true), ("path", jb u.path), ("rawpath", jb u.rawPath), ("esc", jb u.escapedPath), ("uri", jb u.requestURI)]
    else Json.mkObj [("ok", false), ("path", ""), ("rawpath", ""), ("esc", ""), ("uri", "")]
  let ci := if isPanic impl then Json.mkObj [("panic", true)] else impl
  if mode == "parse" then
    match setPath a with
    | none =>
      let m := mk false {}
      return ({ model := m, agree := m == ci, spec := !isPanic impl, nontrivial := true, tag := "parse-error" } : Verdict).toJson
    | some (p, rp) =>
      let u : URL := { path := p, rawPath := rp }
      let m := mk true u
      -- round trip: what EscapedPath returns decodes to Path again
      let esc := ofStr ((impl.getObjValAs? String "esc").toOption.getD "")
      let spec := unescape esc = some (ofStr ((impl.getObjValAs? String "path").toOption.getD "?"))
      return ({ model := m, agree := m == ci, spec := spec, nontrivial := rp ≠ [],
                tag := if rp = [] then "parse-canonical" else if validEncoded a then "parse-rawpath" else "parse-rawpath-invalid" } : Verdict).toJson
  else
    let u : URL := { path := a, rawPath := b, rawQuery := q, forceQuery := f }
    let m := mk true u
    let esc := ofStr ((impl.getObjValAs? String "esc").toOption.getD "")
    let spec := unescape esc = some a || a = [STAR]
    let used := u.escapedPath = b && b ≠ []
    return ({ model := m, agree := m == ci, spec := spec, nontrivial := b ≠ [],
              tag := if b = [] then "esc-norawpath" else if used then "esc-rawpath-used" else "esc-rawpath-rejected" } : Verdict).toJson

/-! ### c07.serve: the unified model of `ServeHTTP` -/

/-- the header block the upstream receives for a forwarded request of the unified model (framing headers apart):
on the http path what `httputil.ReverseProxy` makes of the headers `addHeaders` left (`C08.reverseProxy`: hop-by-hop
removal, Upgrade put back, peer appended to X-Forwarded-For — the peer of the harness is 127.0.0.1) and what the
transport adds for its own hop (`Accept-Encoding: gzip`); on the websocket path the block as it is. User-Agent: only
the first value, and only when it is non-empty (the director suppresses Go's default). -/
def upstreamBlock (via : Via) (method : String) (h : Fabio.Model.C08.Headers) : List (String × String) :=
  let h := if via == .http then Fabio.Model.C08.reverseProxy "127.0.0.1".toList h else h
  let ps : List (String × String) := h.flatMap fun kv => kv.2.map fun v => (String.ofList kv.1, String.ofList v)
  let ua := headerGet ps "User-Agent"
  let keep := ps.filter fun kv => !framingNames.contains kv.1 && kv.1 ≠ "User-Agent"
  let keep := if ua ≠ "" then keep ++ [("User-Agent", ua)] else keep
  if via == .http && headerGet ps "Accept-Encoding" = "" && headerGet ps "Range" = "" && method ≠ "HEAD"
  then keep ++ [("Accept-Encoding", "gzip")] else keep

/-- `Connection` is the framing of the hop itself: on the websocket path `Request.Write` repeats `close` in front
of the client's lines when the first line does not carry it (net/http, `transferWriter`). What both sides must agree
on is the set of tokens (that is what names further hop-by-hop headers): the lines are replaced by one line holding
the lower-cased tokens without repetitions, sorted. -/
def normConnection (l : List (String × String)) : List (String × String) :=
  let toks := (l.filter (·.1 = "Connection")).flatMap fun kv =>
    ((splitComma kv.2.toList).map trimOWS).filterMap fun t => if t = [] then none else some (String.ofList (t.map Fabio.lowerChar))
  let uniq := toks.foldl (fun acc t => if acc.contains t then acc else acc ++ [t]) []
  let sorted := uniq.toArray.qsort (· < ·) |>.toList
  (l.filter (·.1 ≠ "Connection")) ++ (if sorted.isEmpty then [] else [("Connection", ", ".intercalate sorted)])

open Fabio.Model in
def serveH : Handler := fun inp impl => do
  let routes ← arr inp "routes"
  let decoded ← routes.toList.mapM fun (rj : Json) => do
    let host ← str rj "host"
    let path ← str rj "path"
    let dst ← str rj "dst"
    let u := (rj.getObjVal? "u").toOption.getD Json.null
    let us ← bytes u "scheme"; let uh ← bytes u "host"; let up ← bytes u "path"; let ur ← bytes u "rawpath"; let uq ← bytes u "query"
    let opts ← pairs rj "opts"
    pure (host, path, dst, ({ scheme := us, host := uh, path := up, rawPath := ur, rawQuery := uq } : C13.URL), opts)
  let defs : List Route.RouteDef := decoded.zipIdx.map fun ((host, path, dst, _, opts), i) =>
    { cmd := .add, service := ("svc" ++ toString i).toList, src := (host ++ path).toList, dst := dst.toList,
      opts := opts.map fun kv => (kv.1.toList, kv.2.toList) }
  let env : Route.Env := { normURL := fun s => some s, globOK := fun _ => true }
  let table ← match Route.newTable env defs with
    | .ok t => pure t
    | .error _ => throw "the model's newTable rejects the routes"
  let status ← int inp "noroute"
  let html ← str inp "html"
  let secrets ← pairs inp "secrets"
  let method ← str inp "method"
  let host ← str inp "host"
  let client ← bytes inp "path"
  let hasq ← bool inp "hasq"
  let query ← bytes inp "query"
  let hdr0 ← pairs inp "hdr"
  let ws ← bool inp "ws"
  let cred ← arr inp "cred"
  let credOpt : Option (List Char × List Char) := match cred.toList with
    | [Json.str u, Json.str p] => some (u.toList, p.toList)
    | _ => none
  let wire : List (List Char × Option (List Char)) :=
    (hdr0.map fun kv => (kv.1.toList, some kv.2.toList)) ++
    (if credOpt.isSome then [("Authorization".toList, some (optStr inp "authz").toList)] else []) ++
    (if ws then [("Upgrade".toList, some "websocket".toList), ("Connection".toList, some "Upgrade".toList)] else [])
  let cfg : ServeHTTP.Cfg :=
    { lookup := { globMatch := C03.globLib, pathMatch := fun uri p => p.isPrefixOf uri,
                  pick := fun r => match r.targets with
                    | x :: _ => x
                    | [] => { service := [], tags := [], opts := [], url := [], fixedWeight := 0 } },
      parsers := C12.Parse.goParsers,
      -- `url.Parse` of a target URL: C13's model of it (`parseTemplate`); the record `url.Parse` itself produced
      -- travels with the case and is compared below
      parseURL := fun s => match C13.parseTemplate (ServeHTTP.utf8 s) with
        | .ok u => u
        | _ => {},
      noRouteStatus := status, noRouteHTML := html,
      authSchemes := [("basic".toList, secrets.map fun kv => (kv.1.toList, kv.2.toList))] }
  -- every target URL of the case: the model's parse is `url.Parse`'s
  let parseOK := decoded.all fun d => C13.parseTemplate (ServeHTTP.utf8 d.2.2.1.toList) == .ok d.2.2.2.1
  let g (k : String) : Json := (impl.getObjVal? k).toOption.getD Json.null
  let iStatus := (impl.getObjValAs? Int "status").toOption.getD (-1)
  let iHits := (impl.getObjValAs? Int "hits").toOption.getD (-1)
  let up := g "up"
  let upHdrAll ← if up.isNull then pure [] else kvPairs up "hdr"
  let iCls := if iHits == 1 then "forward" else if iStatus == 403 then "403" else if iStatus == 401 then "401"
    else if 300 ≤ iStatus && iStatus ≤ 399 then "redirect" else if iStatus == 500 then "500"
    else if iStatus == 400 then "bad-request" else "noroute"
  let canonImpl : Json :=
    if isPanic impl then Json.mkObj [("panic", true)] else
    Json.mkObj [("cls", iCls), ("status", iStatus),
      ("location", if iCls == "redirect" then g "location" else Json.null),
      ("body", if iCls == "noroute" then g "body" else Json.null),
      ("up", if iCls == "forward" then
          Json.mkObj [("method", (up.getObjVal? "method").toOption.getD Json.null),
                      ("uri", (up.getObjVal? "uri").toOption.getD Json.null),
                      ("host", (up.getObjVal? "host").toOption.getD Json.null),
                      ("fwd", g "fwd"),
                      ("hdr", groupJson (normConnection (upHdrAll.filter fun kv => !framingNames.contains kv.1)))]
        else Json.null)]
  -- the sentences on a forwarded request: the upstream is hit exactly when the client got its answer, and it
  -- received the client's method and end-to-end headers (the credentials the auth gate judged included)
  let clientHdrs : List (String × String) :=
    (hdr0.map fun kv => (canonKey kv.1, kv.2)) ++
    (if credOpt.isSome then [("Authorization", optStr inp "authz")] else []) ++
    (if ws then [("Upgrade", "websocket"), ("Connection", "Upgrade")] else [])
  let spec := (iHits == 1) == (iStatus == 200 || iStatus == 101) && iHits ≤ 1 &&
    (iCls != "forward" ||
      ((up.getObjValAs? String "method").toOption.getD "" == method &&
       headerSentence "" (iStatus == 101) method clientHdrs upHdrAll))
  match C07.setPath client with
  | none =>
    let m := Json.mkObj [("cls", "bad-request"), ("status", (400 : Int)), ("location", Json.null), ("body", Json.null), ("up", Json.null)]
    return ({ model := m, agree := m == canonImpl, spec := spec, nontrivial := false, tag := "bad-request" } : Verdict).toJson
  | some (path, rawPath) =>
    let r : ServeHTTP.Request :=
      { method := method, url := { path := path, rawPath := rawPath, rawQuery := query, forceQuery := hasq && query.isEmpty },
        host := host.toList, headers := C08.ofWire wire, remoteAddr := "127.0.0.1:40000".toList, basicAuth := credOpt }
    let out := ServeHTTP.serveHTTP cfg table r
    let nul := Json.null
    let m : Json := match out with
      | .noRoute s page =>
        let (_, final, body) := renderNoRoute method s page
        Json.mkObj [("cls", "noroute"), ("status", final), ("location", nul), ("body", body), ("up", nul)]
      | .forbidden => Json.mkObj [("cls", "403"), ("status", (403 : Int)), ("location", nul), ("body", nul), ("up", nul)]
      | .unauthorized => Json.mkObj [("cls", "401"), ("status", (401 : Int)), ("location", nul), ("body", nul), ("up", nul)]
      | .redirect c l => Json.mkObj [("cls", "redirect"), ("status", c), ("location", jb l), ("body", nul), ("up", nul)]
      | .serverError => Json.mkObj [("cls", "500"), ("status", (500 : Int)), ("location", nul), ("body", nul), ("up", nul)]
      | .forward f =>
        let names := ["Forwarded", "X-Forwarded-Host", "X-Forwarded-Port", "X-Forwarded-Prefix", "X-Forwarded-Proto", "X-Real-Ip"]
        let fwd := names.filterMap fun n =>
          let v := C08.get1 n.toList f.headers
          if v.isEmpty then none else some (n, Json.str (String.ofList v))
        Json.mkObj [("cls", "forward"), ("status", if f.via == .ws then (101 : Int) else 200), ("location", nul), ("body", nul),
          ("up", Json.mkObj [("method", f.method), ("uri", jb f.url.requestURI), ("host", String.ofList f.host), ("fwd", Json.mkObj fwd),
                             ("hdr", groupJson (normConnection (upstreamBlock f.via f.method f.headers)))])]
    let skipped := table.any fun kv => kv.2.any fun ro => ro.targets.any fun tg => ServeHTTP.skipFor cfg r tg
    let gated := decoded.any fun d => d.2.2.2.2.any fun kv => ["allow", "deny", "auth", "redirect"].contains kv.1
    let tag := out.cls ++ (match out with | .forward f => if f.via == .ws then "+ws" else "" | _ => "") ++
      (if skipped then "+selfredirect" else "")
    return ({ model := m, agree := m == canonImpl && parseOK, spec := spec,
              nontrivial := decoded.length > 1 || gated || out.cls != "forward",
              tag := tag ++ (if parseOK then "" else "/target-url-parse") } : Verdict).toJson

def streams : List (String × Handler) :=
  [("c07.url", urlH), ("c07.body", bodyH), ("c07.noroute", norouteH), ("c07.escape", escapeH),
   ("c07.serve", serveH)]
end Fabio.Driver.C07
